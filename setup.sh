#!/bin/bash
# Offline setup after a fresh restore: warm the Go build cache for every harness binary
# (tag verif, GOEXPERIMENT=synctest) from files on disk only.
set -u
cd "$(dirname "$0")"
export GO=/root/go/pkg/mod/golang.org/toolchain@v0.0.1-go1.24.4.linux-amd64/bin/go
export GOTOOLCHAIN=local GOFLAGS=-mod=mod GOPROXY=off GOSUMDB=off GOEXPERIMENT=synctest CGO_ENABLED=1
mkdir -p out/bin evidence
cat /repo/go.sum > h/go.sum
[ -f h/go.sum.extra ] && cat h/go.sum.extra >> h/go.sum
rc=0
( cd h && $GO build -tags verif -o ../out/bin/ ./cmd/... ) || rc=1
# warm the -race build cache for the free-running pass of the thorough tier (C05, C06, C16)
( cd h && $GO build -race -tags verif -o ../out/bin/racefree ./cmd/racefree ) || rc=1
if [ -x out/bin/evmconf ]; then
  ./out/bin/evmconf --tier quick > out/evmconf.log 2>&1 || { echo "evmconf failed (see out/evmconf.log)"; rc=1; }
fi
exit $rc
