#!/bin/bash
# Detection demo helper: ./mutate.sh <ID> <repo-relative-file> <sed-expression> [tier]
# Builds the harness against an OVERLAY copy of one /repo file with the sed edit applied
# (/repo is not touched) and runs the check. Expect exit 1 + VIOLATION when the edit breaks the property.
set -u
id=$1; file=$2; expr=$3; tier=${4:-quick}
d=$(mktemp -d /dev/shm/verif-mut-XXXXXX)
cp /repo/$file $d/mut.go
sed -i -E "$expr" $d/mut.go
if cmp -s /repo/$file $d/mut.go; then echo "mutate.sh: sed expression changed nothing"; rm -rf $d; exit 3; fi
diff <(cat /repo/$file) $d/mut.go | head -20
printf '{"Replace":{"/repo/%s":"%s/mut.go"}}' "$file" "$d" > $d/overlay.json
cd "$(dirname "$0")"
VERIF_OVERLAY=$d/overlay.json VERIF_EVIDENCE_DIR=$d ./check $id --tier $tier; rc=$?
rm -rf $d out/bin/*.ovl$(printf %s "$d/overlay.json" | sha256sum | cut -c1-8)
echo "mutate.sh: check exit code $rc"
exit $rc
