#!/usr/bin/env python3
"""Regenerates MANIFEST.json from the table below (single source of truth)."""
import json, os, subprocess
ROOT = os.path.dirname(os.path.abspath(__file__))
hook_commits = subprocess.run(["git", "-C", "/repo", "log", "--format=%H %s"], capture_output=True, text=True).stdout.splitlines()
hook_commits = [l.split()[0] for l in hook_commits if l.split(" ", 1)[1].startswith("verif hooks")]

CHECKS = json.load(open(f"{ROOT}/checks.json"))
checks = []
for c in CHECKS["checks"]:
    pid = c["id"]
    checks.append({
        "property_id": pid,
        "quick_cmd": f"./check {pid} --tier quick",
        "thorough_cmd": f"./check {pid} --tier thorough",
        "evidence_file": f"/verif/evidence/{pid}.json",
        "replay_cmd_template": f"./check {pid} --replay {{path}}",
        "engine": c["engine"],
        "level_claimed": {"category": c["level"], "text": c["text"], "design_ref": f"DESIGN.md §6 {pid}"},
        "level_note": c["note"],
        "technique": c["technique"],
    })
m = {
    "version": 1,
    "setup_cmd": "./setup.sh",
    "hooks": {
        "guard": "verif",
        "enable": "harness module /verif/h (replace github.com/agglayer/aggkit => /repo) built by ./check with `go build -tags verif` and GOEXPERIMENT=synctest using the cached go1.24.4 toolchain; hook files are add-only export_verif*.go files that start with //go:build verif",
        "baseline_off_cmd": "cd /repo && GOTOOLCHAIN=local GOFLAGS=-mod=mod GOPROXY=off GOSUMDB=off /root/go/pkg/mod/golang.org/toolchain@v0.0.1-go1.24.4.linux-amd64/bin/go test -mod=mod -json -vet=off -count=1 -timeout 25m ./...",
        "source_commits": hook_commits,
        "add_only": True,
    },
    "engines": CHECKS["engines"],
    "checks": checks,
    "notes": CHECKS.get("notes", ""),
    "not_applicable": CHECKS.get("not_applicable", []),
}
json.dump(m, open(f"{ROOT}/MANIFEST.json", "w"), indent=1)
print("checks:", [c["property_id"] for c in checks])
