#!/usr/bin/env python3
# Round-9 prompts, generated from notes/seed-prompt.md (base prompt = its first code block), the meta.json of every earlier seed of the
# property (one line each) and the files their patches touch. Output: /tmp/seedprompts9/<ID>.txt, property JSON: /tmp/seed-<ID>-out/property.json
import json, glob, os, re
base = re.search(r"```\n(.*?)```", open("/verif/notes/seed-prompt.md").read(), re.S).group(1)
THEME = ("  * Think about the CONTRACT BETWEEN TWO LAYERS and about NON-DEFAULT CONFIGURATION: change what one side of an internal interface "
         "promises or assumes while the other side stays as it is (inclusive vs exclusive bounds, nil vs empty vs zero value, the order of a "
         "returned slice, which sentinel error means what, units, whether a call is idempotent, who owns / may mutate a returned slice or "
         "pointer), or make the code wrong only under a configuration value that the defaults and the tests do not use (0 / max / a disabled "
         "or enabled feature flag / another mode / another network id / a start block other than 0). It must still be a change none of the "
         "earlier attempts made, and it must break the property exactly as stated.")
props = {json.loads(l)["id"]: json.loads(l) for l in open("/verif/properties.jsonl")}
os.makedirs("/tmp/seedprompts9", exist_ok=True)
for pid in sorted(props):
    seeds = sorted(glob.glob(f"/verif/seeded/{pid}-*"), key=lambda d: int(d.rsplit("-", 1)[1]))
    lines, files = "", set()
    for d in seeds:
        m = json.load(open(d + "/meta.json"))
        lines += f"- {m['what']} (needs: {m['needs']})\n"
        for l in open(d + "/patch.diff"):
            if l.startswith("+++ b/"):
                files.add(l[6:].strip())
    extra = ("  * An earlier, unrelated attempt already produced the following change(s) for this property; yours must be of a\n"
             "    DIFFERENT kind, in a different function/mechanism, and need a different trigger:\n" + lines +
             "  * Prefer a change whose manifestation needs one of: a crash/restart or a storage fault at a particular point; a chain\n"
             "    reorg at a particular moment; a specific interleaving of goroutines, polls or events; a rarely-taken branch combined\n"
             "    with state left by an earlier operation; two cooperating sites that each look fine alone.\n"
             "  * NEVER use `git stash` (shared between all worktrees). Some tests are flaky under load independent of any change\n"
             "    (l1infotreesync TestWithReorgs/TestStressAndReorgs; aggsender/flows *_GetCertificateBuildParams; aggoracle TestEVM):\n"
             "    re-run before blaming your change.\n"
             "  * Earlier attempts touched these files: " + ", ".join(sorted(files)) + ".\n"
             "  * Re-read the property's QUANTIFIER sentence: pick a part of it that none of the earlier attempts exercised.\n" + THEME + "\n\n")
    txt = base.replace("@ID@", pid)
    i = txt.index("Go environment (no network)")
    txt = txt[:i] + extra + txt[i:]
    open(f"/tmp/seedprompts9/{pid}.txt", "w").write(txt)
    os.makedirs(f"/tmp/seed-{pid}-out", exist_ok=True)
    p = props[pid]
    json.dump({k: p[k] for k in p if k in ("id", "statement", "quantifier", "anchors", "title")}, open(f"/tmp/seed-{pid}-out/property.json", "w"), indent=1)
print("ok")
