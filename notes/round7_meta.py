#!/usr/bin/env python3
# Writes seeded/<seed>/meta.json for the round-7 seeds. "first"/"after" come from the runs recorded in DEMOS.md.
import json, os
AUTHOR = ("independent sub-agent; round 7: asked to think like a maintainer making a PERFORMANCE or ROBUSTNESS improvement that is "
          "subtly wrong (batching, skipped work, early exit, changed SQL clause / transaction boundary, added retry or timeout, default for "
          "a missing field, integer width at a boundary, state carried from one call to the next)")
CONF = ("./verifyseed.sh in a fresh scratch worktree of /repo: demo passes without the patch, fails with it; go build ./... ok; existing "
        "tests of the touched packages pass with it (docker tests and known-flaky tests excepted)")
S = {
 "C01-5": ("C01", "AppendOnlyTree.initCache asks for the last root with its own query ORDER BY \"block_num\" DESC, \"index\" DESC: the column is called position, SQLite reads \"index\" as a string literal", "a frontier rebuild (restart / rollback / reorg) while a block holds several leaves", "bridgesync"),
 "C02-7": ("C02", "saveCertificateToStorage gives up when retries >= maxRetries (was ==)", "MaxRetriesStoreCertificate = 0 (retry for ever) and one transient storage fault right after the Agglayer accepted the certificate", "aggsender"),
 "C03-7": ("C03", "bridgeDataQuerier.GetBridgesAndClaims reads the range in chunks of 5000 blocks with inclusive bounds on both sides (boundary blocks read twice)", "a certificate range longer than 5000 blocks with a bridge or claim exactly k*5000 blocks after its first block", "aggsender/flows"),
 "C04-6": ("C04", "lastgersync: unique index on the GER value + upsert that moves the row to the latest injecting block", "the same GER injected in two blocks and a reorg whose first block lies between them", "lastgersync"),
 "C05-7": ("C05", "GetLogs halves the requested block span after a failed eth_getLogs and returns the shorter answer as if it covered the range", "one transient eth_getLogs failure on a range holding watched events in its upper half", "l1infotreesync"),
 "C06-7": ("C06", "handleReorg leaves its retry loop when the context is cancelled and falls through to the acknowledgement", "a reorg notification being handled while the node is shut down, then a restart", "sync"),
 "C07-7": ("C07", "handleNewBlock does not retry a FINALIZED block whose ProcessBlock failed (succeed flag no longer reset)", "a storage fault while a finalized block is processed", "bridgesync"),
 "C08-6": ("C08", "Tree.Reorg deletes the rht nodes on the paths of the reorged leaves (they may be shared with surviving roots)", "a reorg dropping a leaf whose subtree has the same content as one under a surviving root (identical bridges)", "bridgesync"),
 "C09-6": ("C09", "PPFlow retries an InError certificate against the L1 info root recorded for the failed attempt", "a PP retry whose extended range holds a claim made against a later L1 info leaf", "aggsender/flows"),
 "C10-6": ("C10", "SendCertificate converts imported bridge exits in parallel windows of 128; len/128 windows, the tail stays nil (sent as empty messages)", "a certificate with more than 128 imported bridge exits, not a multiple of 128", "agglayer/grpc"),
 "C11-6": ("C11", "getLastRootWithTx orders by position before block_position", "an updatable tree (rollup exit tree) where a later event of a block updates a lower position than an earlier one", "l1infotreesync"),
 "C12-7": ("C12", "the L2 lookup ranks a verified LER unknown to the L2 store as newer than every bridge (MaxUint32) instead of failing", "an L2 reorg replacing a bridge whose exit root was already verified on L1", "bridgeservice"),
 "C13-7": ("C13", "CheckInitialStatus skips the reconciliation with the Agglayer when the status refresh reports an open certificate", "a restart while the last local certificate is still open locally but the Agglayer's records differ", "aggsender/statuschecker"),
 "C14-6": ("C14", "UnhaltIfAffectedRows keeps haltedReason; the bridge processor's halt() keeps the first reason and returns early when one is set", "halt, un-halting reorg, second deposit-count gap on the same processor object", "bridgesync"),
 "C15-7": ("C15", "GetLatestInfoUntilBlock runs its two SELECTs without the read transaction", "the syncer's Reorg commit landing between the two statements of one call", "aggoracle"),
 "C16-7": ("C16", "lastgersync ProcessBlock inserts the block row with an auto-committed statement before the event transaction", "a storage fault, cancellation or crash between the block insert and the commit of the GER rows", "lastgersync"),
 "C17-7": ("C17", "the certificate type is stamped on the build params after the size cut (FEP certificates are sized as PP ones)", "FEP flow with a MaxCertSize that the aggchain proof + per-claim overhead pushes over", "aggsender/flows"),
 "C18-7": ("C18", "a quiet period of one epoch length after every notification skips the evaluation of blocks", "a notification that happened later than the threshold block of its epoch (start past the threshold, gap in the block sequence)", "aggsender"),
 "C19-6": ("C19", "ConvertClaimToImportedBridgeExit memoises per flow, keyed by GlobalIndex.Uint64() (the mainnet flag is bit 64)", "one flow converting a mainnet claim and a rollup-index-0 claim with the same leaf index", "aggsender/flows"),
 "C20-6": ("C20", "setClaimCalldata takes its call frame from a sync.Pool and keeps the children slice of the previously traced transaction", "two claims traced by the same process, the second trace shorter than the first", "bridgesync"),
}
R = json.load(open(os.path.join(os.path.dirname(__file__), "round7_results.json")))
for seed, (prop, what, needs, pkg) in S.items():
    r = R[seed]
    meta = {"property": prop, "what": what, "needs": needs, "demo": f"{pkg}/zz_seed_demo_test.go (go test -run TestSeedDemo)",
            "author": AUTHOR, "confirmed": CONF, "ran": r["ran"], "caught_by": r["caught_by"], "strengthened": r["strengthened"]}
    json.dump(meta, open(f"/verif/seeded/{seed}/meta.json", "w"), indent=1)
print("wrote", len(S))
