#!/usr/bin/env python3
# Round-8 prompts: the round-7 prompt of each property (/tmp/seedprompts/<ID>.txt) with (1) the round-7 seed added to the list
# of earlier attempts, (2) its files added to the touched files, (3) the round-7 theme line replaced by the round-8 theme.
import json, os, re, glob, importlib.util
spec = importlib.util.spec_from_file_location("m", "/verif/notes/round7_meta.py")
src = open("/verif/notes/round7_meta.py").read()
S = eval(re.search(r"^S = (\{.*?^\})", src, re.S | re.M).group(1))
THEME = ("  * Think about ERROR PATHS and CONCURRENCY rather than the happy path: what happens AFTER a failed, refused or cancelled call "
         "(clean-up, rollback, retry, a partial result kept in memory or in the database, an error that is swallowed, wrapped differently or "
         "mapped to another sentinel), what two goroutines - or a reader and the syncer's write transaction - see of each other (a lock taken "
         "later or released earlier, a channel send or an acknowledgement moved, a check-then-act split in two, a value read before the lock, a "
         "read transaction dropped or narrowed), or what a long-lived object still remembers after an error or a reorg. It must still be a change "
         "none of the earlier attempts made, and it must break the property exactly as stated.")
os.makedirs("/tmp/seedprompts8", exist_ok=True)
for pid in [f"C{i:02d}" for i in range(1, 21)]:
    txt = open(f"/tmp/seedprompts/{pid}.txt").read()
    seeds = [k for k in S if S[k][0] == pid]
    lines = "".join(f"- {S[k][1]} (needs: {S[k][2]})\n" for k in seeds)
    files = set()
    for k in seeds:
        for l in open(f"/verif/seeded/{k}/patch.diff"):
            if l.startswith("+++ b/"):
                files.add(l[6:].strip())
    # (1) add after the last "- ..." line of the earlier-attempts list
    idx = txt.index("  * Prefer a change whose manifestation")
    txt = txt[:idx] + lines + txt[idx:]
    # (2) touched files
    m = re.search(r"  \* Earlier attempts touched these files: (.*?)\.\n", txt)
    if m:
        allf = sorted(set(m.group(1).split(", ")) | files)
        txt = txt.replace(m.group(0), "  * Earlier attempts touched these files: " + ", ".join(allf) + ".\n")
    # (3) theme
    txt = re.sub(r"  \* Think like a maintainer making a PERFORMANCE.*?\n", THEME + "\n", txt)
    open(f"/tmp/seedprompts8/{pid}.txt", "w").write(txt)
print("ok")
