#!/bin/bash
# Confirms a seeded change independently in a scratch worktree of /repo (removed afterwards):
#   demo passes without the patch, fails with it; build ok; existing tests of the given packages pass with it.
# usage: ./verifyseed.sh <dir with patch.diff + zz_seed_demo_test.go> <demo package dir> <test pkgs...>
set -u
sd=$(realpath $1); pkg=$2; shift 2
export GOTOOLCHAIN=local GOFLAGS=-mod=mod GOPROXY=off GOSUMDB=off
GO=/root/go/pkg/mod/golang.org/toolchain@v0.0.1-go1.24.4.linux-amd64/bin/go
wt=$(mktemp -d /tmp/vseed-XXXXXX); rmdir $wt
git -C /repo worktree add -q --detach $wt HEAD || exit 3
cd $wt
cp $sd/zz_seed_demo_test.go $pkg/
echo "== demo without patch (must pass)"; $GO test -count=1 -vet=off -tags "${SEEDTAGS:-}" -run "TestSeedDemo\$" ./$pkg/ 2>&1 | tail -3; a=${PIPESTATUS[0]}
git apply $sd/patch.diff || { echo "patch does not apply"; a=9; }
echo "== build with patch"; $GO build ./... ; b=$?
echo "== demo with patch (must fail)"; $GO test -count=1 -vet=off -tags "${SEEDTAGS:-}" -run "TestSeedDemo\$" ./$pkg/ 2>&1 | tail -6; c=${PIPESTATUS[0]}
rm $pkg/zz_seed_demo_test.go
echo "== existing tests with patch (must pass; two docker tests in bridgesync excepted)"
$GO test -count=1 -vet=off "$@" 2>&1 | grep -v "^ok\|no test files" | grep -E "^(FAIL|---|panic|ok)" | head -20
cd /; git -C /repo worktree remove --force $wt
echo "RESULT demo-without=$a build=$b demo-with=$c (want 0 0 nonzero)"
