#!/bin/bash
# Runs a check against a seeded property-breaking change WITHOUT touching /repo: the patched files
# are materialised in a scratch dir and handed to the harness build as a go build overlay.
# usage: ./seedrun.sh seeded/<name> <ID> [tier]     (expects exit 1 + VIOLATION)
set -u
sd=$1; id=$2; tier=${3:-quick}
d=$(mktemp -d /dev/shm/verif-seed-XXXXXX)
files=$(grep '^+++ b/' $sd/patch.diff | sed 's|^+++ b/||' | cut -f1)
for f in $files; do mkdir -p $d/$(dirname $f); cp /repo/$f $d/$f; done
if ! patch -s -p1 -d $d < $sd/patch.diff; then echo "seedrun: patch does not apply to /repo's current files"; rm -rf $d; exit 3; fi
printf '{"Replace":{' > $d/overlay.json
first=1; for f in $files; do [ $first = 1 ] || printf ',' >> $d/overlay.json; first=0; printf '"/repo/%s":"%s/%s"' $f $d $f >> $d/overlay.json; done
printf '}}' >> $d/overlay.json
cd "$(dirname "$0")"
VERIF_OVERLAY=$d/overlay.json VERIF_EVIDENCE_DIR=$d ./check $id --tier $tier; rc=$?
rm -rf $d out/bin/*.ovl$(printf %s "$d/overlay.json" | sha256sum | cut -c1-8)
echo "seedrun: $sd on $id ($tier): check exit code $rc"
exit $rc
