// Package l1pack turns the abstract events of ref.L1 / ref.L1Bridge into EVM logs (topics + data)
// using the ABIs of the very bindings aggkit parses them with. cmd/evmconf checks these logs byte
// for byte against the logs the real contracts emit for the same operations; cmd/c11 feeds them to
// the real l1infotreesync appender.
package l1pack

import (
	"fmt"
	"math/big"

	"github.com/0xPolygon/cdk-contracts-tooling/contracts/fep/etrog/polygonrollupmanager"
	"github.com/0xPolygon/cdk-contracts-tooling/contracts/pp/l2-sovereign-chain/polygonzkevmbridgev2"
	"github.com/0xPolygon/cdk-contracts-tooling/contracts/pp/l2-sovereign-chain/polygonzkevmglobalexitrootv2"
	"github.com/ethereum/go-ethereum/accounts/abi"
	"github.com/ethereum/go-ethereum/common"
	"github.com/ethereum/go-ethereum/core/types"
	"verif/h/ref"
)

// Packer packs events for fixed contract addresses.
type Packer struct {
	GER, RollupManager, Bridge common.Address
	gerABI, rmABI, bridgeABI   *abi.ABI
}

func New(ger, rollupManager, bridge common.Address) *Packer {
	g, err := polygonzkevmglobalexitrootv2.Polygonzkevmglobalexitrootv2MetaData.GetAbi()
	if err != nil {
		panic(err)
	}
	r, err := polygonrollupmanager.PolygonrollupmanagerMetaData.GetAbi()
	if err != nil {
		panic(err)
	}
	b, err := polygonzkevmbridgev2.Polygonzkevmbridgev2MetaData.GetAbi()
	if err != nil {
		panic(err)
	}
	return &Packer{GER: ger, RollupManager: rollupManager, Bridge: bridge, gerABI: g, rmABI: r, bridgeABI: b}
}

// args returns the event's arguments by their ABI names.
func args(ev ref.L1Event) map[string]any {
	switch ev.Kind {
	case ref.EvUpdateL1InfoTree:
		return map[string]any{"mainnetExitRoot": [32]byte(ev.MainnetExitRoot), "rollupExitRoot": [32]byte(ev.RollupExitRoot)}
	case ref.EvUpdateL1InfoTreeV2:
		return map[string]any{"currentL1InfoRoot": [32]byte(ev.CurrentL1InfoRoot), "leafCount": ev.LeafCount,
			"blockhash": new(big.Int).SetBytes(ev.Blockhash[:]), "minTimestamp": ev.MinTimestamp}
	case ref.EvInitL1InfoRootMap:
		return map[string]any{"leafCount": ev.LeafCount, "currentL1InfoRoot": [32]byte(ev.CurrentL1InfoRoot)}
	case ref.EvVerifyBatches, ref.EvVerifyBatchesTrustedAggr:
		return map[string]any{"rollupID": ev.RollupID, "numBatch": ev.NumBatch, "stateRoot": [32]byte(ev.StateRoot),
			"exitRoot": [32]byte(ev.ExitRoot), "aggregator": ev.Aggregator}
	case ref.EvBridge:
		return map[string]any{"leafType": ev.LeafType, "originNetwork": ev.OriginNetwork, "originAddress": ev.OriginAddress,
			"destinationNetwork": ev.DestinationNetwork, "destinationAddress": ev.DestinationAddress, "amount": ev.Amount,
			"metadata": ev.Metadata, "depositCount": ev.DepositCount}
	}
	panic("l1pack: unknown event kind " + ev.Kind)
}

// Log builds the log (address, topics, data) of one event. Block/tx fields are left to the caller.
func (p *Packer) Log(ev ref.L1Event) types.Log {
	var a *abi.ABI
	var addr common.Address
	switch ev.Emitter {
	case ref.EmitterGER:
		a, addr = p.gerABI, p.GER
	case ref.EmitterRollupManager:
		a, addr = p.rmABI, p.RollupManager
	case ref.EmitterBridge:
		a, addr = p.bridgeABI, p.Bridge
	default:
		panic("l1pack: unknown emitter " + ev.Emitter)
	}
	e, ok := a.Events[ev.Kind]
	if !ok {
		panic("l1pack: ABI has no event " + ev.Kind)
	}
	vals := args(ev)
	if len(vals) != len(e.Inputs) {
		panic(fmt.Sprintf("l1pack: event %s has %d ABI inputs, %d values", ev.Kind, len(e.Inputs), len(vals)))
	}
	topics := []common.Hash{e.ID}
	var nonIndexed []any
	for _, in := range e.Inputs {
		v, ok := vals[in.Name]
		if !ok {
			panic(fmt.Sprintf("l1pack: event %s: no value for ABI input %q", ev.Kind, in.Name))
		}
		if !in.Indexed {
			nonIndexed = append(nonIndexed, v)
			continue
		}
		// all indexed inputs of these events are static value types: the topic is the ABI word
		word, err := abi.Arguments{{Type: in.Type}}.Pack(v)
		if err != nil || len(word) != 32 {
			panic(fmt.Sprintf("l1pack: event %s input %s: %v (len %d)", ev.Kind, in.Name, err, len(word)))
		}
		topics = append(topics, common.BytesToHash(word))
	}
	data, err := e.Inputs.NonIndexed().Pack(nonIndexed...)
	if err != nil {
		panic(fmt.Sprintf("l1pack: event %s data: %v", ev.Kind, err))
	}
	return types.Log{Address: addr, Topics: topics, Data: data}
}

// Logs packs a transaction's events in order.
func (p *Packer) Logs(evs []ref.L1Event) []types.Log {
	out := make([]types.Log, len(evs))
	for i, ev := range evs {
		out[i] = p.Log(ev)
	}
	return out
}
