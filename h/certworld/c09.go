package certworld

import (
	"fmt"

	agglayertypes "github.com/agglayer/aggkit/agglayer/types"
	"verif/h/mc"
	"verif/h/ref"
	"verif/h/world"
)

func proofOf(p *agglayertypes.MerkleProof) (r ref.Hash, pr [ref.Height]ref.Hash, ok bool) {
	if p == nil {
		return r, pr, false
	}
	for i := range pr {
		pr[i] = p.Proof[i]
	}
	return p.Root, pr, true
}

// OracleC09 checks the claim proofs of one built certificate the way the Agglayer's verifier
// does, with the reference tree only.
func OracleC09(c *mc.Ctx, b *Built) {
	w, cert := b.W, b.Cert
	if len(cert.ImportedBridgeExits) == 0 {
		return
	}
	c.Witness("certificates_with_imported_exits")
	leaves := w.ObservableLeaves()
	// leaves in blocks the node must treat as finalized
	finalizedLeaves := uint32(0)
	for _, l := range leaves {
		if l.Block <= b.FinalizedEffective {
			finalizedLeaves = l.Index + 1
		}
	}
	if b.FinalizedEffective < uint64(len(w.L1Blocks)) && finalizedLeaves < uint32(len(leaves)) {
		c.Witness("syncer_ahead_of_finalized_with_newer_leaves")
	}
	perBlock := map[uint64]int{}
	for _, l := range leaves {
		perBlock[l.Block]++
		if perBlock[l.Block] == 2 {
			c.Witness("several_info_leaves_in_one_l1_block")
		}
	}

	var named *ref.Hash
	for i, ie := range cert.ImportedBridgeExits {
		where := fmt.Sprintf("%s: certificate [%d,%d] imported exit #%d", b.Where(), b.Params.FromBlock, b.Params.ToBlock, i)
		if ie == nil || ie.GlobalIndex == nil || ie.BridgeExit == nil || ie.ClaimData == nil {
			c.Failf("imported-exit/incomplete", "%s is incomplete: %+v", where, ie)
			continue
		}
		gi := ie.GlobalIndex
		// the claim event this exit stems from
		var ev *world.Event
		for _, e := range w.Claims {
			if e.Claim.Mainnet == gi.MainnetFlag && e.Claim.RollupIndex == gi.RollupIndex && e.Claim.LeafIndex == gi.LeafIndex {
				ev = e
			}
		}
		if ev == nil {
			c.Failf("imported-exit/no-such-claim", "%s has global index (%v,%d,%d): no such claim happened on L2", where,
				gi.MainnetFlag, gi.RollupIndex, gi.LeafIndex)
			continue
		}
		exitLeaf, err := AgglayerExitLeaf(ie.BridgeExit)
		if err != nil {
			c.Failf("imported-exit/not-hashable", "%s: %v", where, err)
			continue
		}

		var l1Leaf *agglayertypes.L1InfoTreeLeaf
		var gerProof *agglayertypes.MerkleProof
		switch cd := ie.ClaimData.(type) {
		case *agglayertypes.ClaimFromMainnnet:
			c.Witness("mainnet_claims_checked")
			if !gi.MainnetFlag {
				c.Failf("claim-data/kind-contradicts-global-index", "%s: mainnet claim data for a rollup global index", where)
			}
			l1Leaf, gerProof = cd.L1Leaf, cd.ProofGERToL1Root
			root, pr, ok := proofOf(cd.ProofLeafMER)
			if !ok || l1Leaf == nil {
				c.Failf("imported-exit/incomplete", "%s: missing proof or leaf", where)
				continue
			}
			if got := ref.Verify(exitLeaf, pr, gi.LeafIndex); got != l1Leaf.MainnetExitRoot {
				c.Failf("exit-proof/leaf-to-mainnet-exit-root", "%s: exit leaf %s + ProofLeafMER at index %d gives %s, the L1 leaf's mainnet exit root is %s",
					where, exitLeaf.Hex(), gi.LeafIndex, got.Hex(), l1Leaf.MainnetExitRoot.Hex())
			}
			if root != l1Leaf.MainnetExitRoot {
				c.Failf("exit-proof/mer-root-field", "%s: ProofLeafMER.Root %s is not the L1 leaf's mainnet exit root %s", where, root.Hex(), l1Leaf.MainnetExitRoot.Hex())
			}
		case *agglayertypes.ClaimFromRollup:
			c.Witness("rollup_claims_checked")
			if gi.MainnetFlag {
				c.Failf("claim-data/kind-contradicts-global-index", "%s: rollup claim data for a mainnet global index", where)
			}
			l1Leaf, gerProof = cd.L1Leaf, cd.ProofGERToL1Root
			lerRoot, lerPr, ok1 := proofOf(cd.ProofLeafLER)
			rerRoot, rerPr, ok2 := proofOf(cd.ProofLERToRER)
			if !ok1 || !ok2 || l1Leaf == nil {
				c.Failf("imported-exit/incomplete", "%s: missing proof or leaf", where)
				continue
			}
			ler := ref.Verify(exitLeaf, lerPr, gi.LeafIndex)
			if ler != lerRoot {
				c.Failf("exit-proof/leaf-to-local-exit-root", "%s: exit leaf %s + ProofLeafLER at index %d gives %s, ProofLeafLER.Root is %s",
					where, exitLeaf.Hex(), gi.LeafIndex, ler.Hex(), lerRoot.Hex())
			}
			if got := ref.Verify(lerRoot, rerPr, gi.RollupIndex); got != l1Leaf.RollupExitRoot {
				c.Failf("exit-proof/local-to-rollup-exit-root", "%s: local exit root %s + ProofLERToRER at rollup index %d gives %s, the L1 leaf's rollup exit root is %s",
					where, lerRoot.Hex(), gi.RollupIndex, got.Hex(), l1Leaf.RollupExitRoot.Hex())
			}
			if rerRoot != l1Leaf.RollupExitRoot {
				c.Failf("exit-proof/rer-root-field", "%s: ProofLERToRER.Root %s is not the L1 leaf's rollup exit root %s", where, rerRoot.Hex(), l1Leaf.RollupExitRoot.Hex())
			}
		default:
			c.Failf("claim-data/unknown-kind", "%s: claim data of type %T", where, ie.ClaimData)
			continue
		}
		if l1Leaf.Inner == nil {
			c.Failf("imported-exit/incomplete", "%s: L1 leaf without inner part", where)
			continue
		}
		root, pr, ok := proofOf(gerProof)
		if !ok {
			c.Failf("imported-exit/incomplete", "%s: no ProofGERToL1Root", where)
			continue
		}
		// the leaf hashes with its proof to the L1 info root the certificate names, at the stated index
		leafHash := ref.L1InfoLeaf(l1Leaf.Inner.GlobalExitRoot, l1Leaf.Inner.BlockHash, l1Leaf.Inner.Timestamp)
		if got := ref.Verify(leafHash, pr, l1Leaf.L1InfoTreeIndex); got != root {
			c.Failf("l1-info-proof/does-not-verify", "%s: L1 info leaf (ger %s, blockhash %s, ts %d) hash %s + ProofGERToL1Root at index %d gives %s, the named root is %s",
				where, l1Leaf.Inner.GlobalExitRoot.Hex(), l1Leaf.Inner.BlockHash.Hex(), l1Leaf.Inner.Timestamp, leafHash.Hex(),
				l1Leaf.L1InfoTreeIndex, got.Hex(), root.Hex())
		}
		if named == nil {
			r := root
			named = &r
		} else if *named != root {
			c.Failf("l1-info-root/differs-between-exits", "%s: names L1 info root %s, an earlier exit of the same certificate names %s", where, root.Hex(), named.Hex())
		}
		// the certificate's leaf count belongs to that root
		if cert.L1InfoTreeLeafCount > uint32(len(leaves)) || w.InfoRoot(cert.L1InfoTreeLeafCount) != root {
			want := "<more leaves than L1 has>"
			if cert.L1InfoTreeLeafCount <= uint32(len(leaves)) {
				want = w.InfoRoot(cert.L1InfoTreeLeafCount).Hex()
			}
			c.Failf("l1-info-root/leaf-count-does-not-belong", "%s: names L1 info root %s with leaf count %d; the L1 info tree with %d leaves has root %s (L1 has %d leaves)",
				where, root.Hex(), cert.L1InfoTreeLeafCount, cert.L1InfoTreeLeafCount, want, len(leaves))
		}
		if l1Leaf.L1InfoTreeIndex >= cert.L1InfoTreeLeafCount {
			c.Failf("l1-info-index/not-below-leaf-count", "%s: leaf index %d with leaf count %d", where, l1Leaf.L1InfoTreeIndex, cert.L1InfoTreeLeafCount)
		}
		// the named root is one the node may rely on: no leaf above the finalized L1 block
		if cert.L1InfoTreeLeafCount > finalizedLeaves {
			c.Failf("l1-info-root/not-finalized", "%s: leaf count %d, but only %d leaves are in L1 blocks <= %d (finalized block reported by L1: %d)",
				where, cert.L1InfoTreeLeafCount, finalizedLeaves, b.FinalizedEffective, b.FinalizedReported)
		}
		// the GER is the hash of the leaf's exit roots and is the one the claim was made against
		if g := ref.GER(l1Leaf.MainnetExitRoot, l1Leaf.RollupExitRoot); g != l1Leaf.Inner.GlobalExitRoot {
			c.Failf("ger/not-hash-of-exit-roots", "%s: keccak(mer %s, rer %s) = %s, the leaf's GER is %s", where,
				l1Leaf.MainnetExitRoot.Hex(), l1Leaf.RollupExitRoot.Hex(), g.Hex(), l1Leaf.Inner.GlobalExitRoot.Hex())
		}
		if l1Leaf.Inner.GlobalExitRoot != ev.Claim.GER {
			c.Failf("ger/not-the-one-claimed-against", "%s: leaf's GER %s, the claim on L2 was made against %s (L1 info leaf %d)", where,
				l1Leaf.Inner.GlobalExitRoot.Hex(), ev.Claim.GER.Hex(), ev.Leaf.Index)
		}
		if l1Leaf.L1InfoTreeIndex != ev.Leaf.Index {
			c.Failf("l1-info-index/not-the-claimed-gers-leaf", "%s: L1 info tree index %d, the claimed GER is leaf %d", where, l1Leaf.L1InfoTreeIndex, ev.Leaf.Index)
		}
		if ev.Leaf.Index+1 < cert.L1InfoTreeLeafCount {
			c.Witness("claims_against_older_ger_than_named_root")
		}
		c.Distinct(fmt.Sprintf("%d|%s|%d|%d|%v.%d.%d|%d", b.Stage, b.Prev, b.FinalizedReported, cert.L1InfoTreeLeafCount,
			gi.MainnetFlag, gi.RollupIndex, gi.LeafIndex, l1Leaf.L1InfoTreeIndex))
	}
}

// FamiliesC09: what is enumerated for C09.
func FamiliesC09(tier string) []world.Family {
	l1Len, fullLen := 8, 7
	if tier == "thorough" {
		l1Len, fullLen = 9, 8
	}
	l1Side := []world.Template{
		world.L1DepositRot(false), world.BDepositRot(), world.One(op(world.VerifyRollupB)),
		world.One(op(world.CloseL1Block)), world.One(op(world.FinalizeL1, 1)), world.One(op(world.InjectGER)),
		world.CloseFinalizeInject(), world.AnyClaim(true), world.One(op(world.CloseL2Block)),
	}
	return []world.Family{
		{ // L1 histories (info updates from deposits and verifications, several per block, finality positions) with claims of both origins
			Name: "l1-history", MaxLen: l1Len, Templates: l1Side, WithFinality: true,
			Limits: world.Limits{MaxL1Blocks: 4, NoEmptyL1Blocks: true, MaxL1Deps: 3, MaxBDeps: 2},
			Keep:   hasClaim,
		},
		{ // the whole alphabet from the empty world
			Name: "full", MaxLen: fullLen, Templates: fullAlphabet, WithFinality: true,
			Limits: world.Limits{MaxL1Blocks: 4, MaxL2Blocks: 4, NoEmptyL1Blocks: true},
			Keep:   hasClaim,
		},
	}
}

func OptionsC09(tier string) Options {
	return Options{MaxRetries: 1, SizeVariants: []uint{0}, FinMode: FinAll, L1OrphanEpilogue: true, L2ReorgEpilogue: true, DroppedL1ForkPrologue: true, BothFlows: true}
}

const RuleC09 = "unit = one scenario (operation sequence of a world family, all sequences up to the length bound, de-duplicated by " +
	"the canonical form of the chains including where the L1 finalized pointer stood when each L2 block was closed). Inside a unit: " +
	"every stage of the L2 syncer × every reachable aggsender storage state × every position of the L1 finalized pointer from where " +
	"it stood at that stage up to one block past the L1 info syncer's last block; every built certificate is one evaluation and " +
	"every imported bridge exit in it is verified. non-trivial = at least one certificate built; distinct = distinct (scenario, " +
	"stage, storage state, finalized position, leaf count, claim, leaf index). After the last stage: (a) the L1 node answers with another hash for the " +
	"last, never finalized L1 block the syncer holds (orphaned), finalized pointer at and past it: a certificate built then must not name a root containing its leaves; " +
	"(b) the L2 reorg epilogue of C03. Every execution is run with the PP flow and with the aggchain-prover flow (stand-in prover; a certificate recorded InError keeps its proof, so its retry re-sends with the stored proof, root and leaf count). Before the first stage (choice point): the L1 info store synced a competing L1 fork first — the same transactions with two " +
	"leaf-adding ones of one L1 block in the other order, one alternative per such pair — and was rewound from block 1."

func BoundsC09(tier string) map[string]any {
	m := map[string]any{}
	for _, f := range FamiliesC09(tier) {
		m[f.Name] = familyBounds(f)
	}
	m["finalized_positions"] = "all"
	return m
}
