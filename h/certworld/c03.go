package certworld

import (
	"bytes"
	"encoding/binary"
	"fmt"

	agglayertypes "github.com/agglayer/aggkit/agglayer/types"
	"verif/h/mc"
	"verif/h/ref"
	"verif/h/world"
)

// AgglayerExitLeaf is the exit-tree leaf the Agglayer computes for a bridge exit of a certificate:
// keccak(uint8 leafType ‖ uint32 originNetwork ‖ address originToken ‖ uint32 destNetwork ‖
// address destAddress ‖ uint256 amount ‖ bytes32 metadataHash), where the certificate carries the
// metadata already hashed (absent = hash of the empty string). Written from the contract's
// getLeafValue and the Agglayer's BridgeExit layout; shares no code with aggkit.
func AgglayerExitLeaf(e *agglayertypes.BridgeExit) (ref.Hash, error) {
	if e == nil || e.TokenInfo == nil {
		return ref.Hash{}, fmt.Errorf("bridge exit or its token info is nil")
	}
	var mdh ref.Hash
	switch len(e.Metadata) {
	case 0:
		mdh = ref.Keccak()
	case 32:
		copy(mdh[:], e.Metadata)
	default:
		return ref.Hash{}, fmt.Errorf("metadata is %d bytes: neither absent nor a 32-byte hash", len(e.Metadata))
	}
	var on, dn [4]byte
	binary.BigEndian.PutUint32(on[:], e.TokenInfo.OriginNetwork)
	binary.BigEndian.PutUint32(dn[:], e.DestinationNetwork)
	var amt [32]byte
	if e.Amount != nil {
		if e.Amount.Sign() < 0 || e.Amount.BitLen() > 256 {
			return ref.Hash{}, fmt.Errorf("amount %v is not a uint256", e.Amount)
		}
		e.Amount.FillBytes(amt[:])
	}
	return ref.Keccak([]byte{uint8(e.LeafType)}, on[:], e.TokenInfo.OriginTokenAddress[:], dn[:],
		e.DestinationAddress[:], amt[:], mdh[:]), nil
}

// expectedMetadata is the flow's representation rule: non-empty metadata travels as its keccak
// hash, empty metadata travels as absent.
func expectedMetadata(md []byte) []byte {
	if len(md) == 0 {
		return nil
	}
	h := ref.Keccak(md)
	return h[:]
}

// compareExit compares one exit of the certificate with the deposit it must stem from, field by
// field; returns the name of the first differing field ("" if none).
func compareExit(e *agglayertypes.BridgeExit, d *world.Deposit) string {
	switch {
	case e == nil || e.TokenInfo == nil:
		return "nil"
	case uint8(e.LeafType) != d.LeafType:
		return "leaf_type"
	case e.TokenInfo.OriginNetwork != d.OriginNetwork:
		return "origin_network"
	case e.TokenInfo.OriginTokenAddress != d.OriginAddress:
		return "origin_address"
	case e.DestinationNetwork != d.DestinationNetwork:
		return "destination_network"
	case e.DestinationAddress != d.DestinationAddress:
		return "destination_address"
	case e.Amount == nil || e.Amount.Cmp(d.Amount) != 0:
		return "amount"
	case !bytes.Equal(e.Metadata, expectedMetadata(d.Metadata)):
		if len(d.Metadata) == 0 {
			return "metadata(empty-must-stay-absent)"
		}
		return "metadata(must-be-keccak)"
	}
	return ""
}

func exitString(e *agglayertypes.BridgeExit) string {
	if e == nil || e.TokenInfo == nil {
		return "<nil>"
	}
	return fmt.Sprintf("{type=%d origin=%d/%s dest=%d/%s amount=%v metadata=%x}", e.LeafType, e.TokenInfo.OriginNetwork,
		e.TokenInfo.OriginTokenAddress.Hex(), e.DestinationNetwork, e.DestinationAddress.Hex(), e.Amount, e.Metadata)
}

func depString(d *world.Deposit) string {
	return fmt.Sprintf("{net=%d count=%d type=%d origin=%d/%s dest=%d/%s amount=%v metadata=%x}", d.Net, d.Count, d.LeafType,
		d.OriginNetwork, d.OriginAddress.Hex(), d.DestinationNetwork, d.DestinationAddress.Hex(), d.Amount, d.Metadata)
}

// OracleC03 checks one built certificate against property C03.
func OracleC03(c *mc.Ctx, b *Built) {
	w, cert, from, to := b.W, b.Cert, b.Params.FromBlock, b.Params.ToBlock
	c.Witness("certificates_built")
	c.Witness("prev_" + b.PrevStatus)
	if b.MaxSize > 0 && to < b.Stage {
		c.Witness("range_shortened_by_size_limit")
	}
	if from > to || to > b.Stage || from == 0 {
		c.Failf("block-range/outside-history", "%s: the node chose block range [%d,%d] with %d blocks synced", b.Where(), from, to, b.Stage)
		return
	}
	if cert.NetworkID != world.NetL2 {
		c.Failf("network-id", "%s: network id %d, want %d", b.Where(), cert.NetworkID, world.NetL2)
	}

	// --- metadata encodes the block range (decoded here from the byte layout, version 2) ---
	md := cert.Metadata
	// (createdAt is wall-clock time: it is compared, but never printed, so that replays are identical)
	shown := md
	copy(shown[13:17], []byte{0, 0, 0, 0})
	mFrom := binary.BigEndian.Uint64(md[1:9])
	mOff := binary.BigEndian.Uint32(md[9:13])
	mCreated := binary.BigEndian.Uint32(md[13:17])
	switch {
	case md[0] != 2:
		c.Failf("metadata/version", "%s: metadata (createdAt masked) %x has version %d, want 2", b.Where(), shown, md[0])
	case mFrom != from:
		c.Failf("metadata/from-block", "%s: metadata (createdAt masked) %x encodes fromBlock %d, the certificate covers [%d,%d]", b.Where(), shown, mFrom, from, to)
	case uint64(mOff) != to-from:
		c.Failf("metadata/offset", "%s: metadata (createdAt masked) %x encodes offset %d, the certificate covers [%d,%d] (offset %d)", b.Where(), shown, mOff, from, to, to-from)
	case mCreated != b.Params.CreatedAt:
		c.Failf("metadata/created-at", "%s: metadata does not encode the build params' createdAt", b.Where())
	case md[17] != 1:
		c.Failf("metadata/cert-type", "%s: metadata (createdAt masked) %x encodes certificate type %d, want 1 (pessimistic proof)", b.Where(), shown, md[17])
	case !bytes.Equal(md[18:], make([]byte, 14)):
		c.Failf("metadata/trailing-bytes", "%s: metadata (createdAt masked) %x has non-zero trailing bytes", b.Where(), shown)
	}

	// --- bridge exits = the bridge events of [from,to], in chain order, every field preserved ---
	var wantB []*world.Deposit
	var wantC []*world.Event
	for _, blk := range w.L2Blocks {
		if blk.Num < from || blk.Num > to {
			continue
		}
		for _, e := range blk.Events {
			switch e.Kind {
			case world.EvBridge:
				wantB = append(wantB, e.Dep)
			case world.EvClaim:
				wantC = append(wantC, e)
			}
		}
	}
	if len(wantB) > 0 {
		c.Witness("certificates_with_bridge_exits")
	}
	if len(wantC) > 0 {
		c.Witness("certificates_with_imported_exits")
	}
	if len(wantB) > 1 {
		c.Witness("certificates_with_several_bridge_exits")
	}
	if to > from {
		c.Witness("certificates_spanning_several_blocks")
	}
	if len(cert.BridgeExits) != len(wantB) {
		c.Failf("bridge-exits/count", "%s: certificate for [%d,%d] has %d bridge exits, the chain has %d bridge events there",
			b.Where(), from, to, len(cert.BridgeExits), len(wantB))
	} else {
		for i, e := range cert.BridgeExits {
			if f := compareExit(e, wantB[i]); f != "" {
				key := "bridge-exits/field/" + f
				// same multiset in another order?
				for j, o := range wantB {
					if j != i && compareExit(e, o) == "" {
						key = "bridge-exits/order"
					}
				}
				c.Failf(key, "%s: bridge exit #%d of [%d,%d] is %s, the chain's bridge event #%d there is %s (differs in %s)",
					b.Where(), i, from, to, exitString(e), i, depString(wantB[i]), f)
				break
			}
		}
	}
	if len(cert.ImportedBridgeExits) != len(wantC) {
		c.Failf("imported-exits/count", "%s: certificate for [%d,%d] has %d imported bridge exits, the chain has %d claim events there",
			b.Where(), from, to, len(cert.ImportedBridgeExits), len(wantC))
	} else {
		for i, ie := range cert.ImportedBridgeExits {
			ev := wantC[i]
			if ie == nil || ie.GlobalIndex == nil {
				c.Failf("imported-exits/field/nil", "%s: imported exit #%d is incomplete", b.Where(), i)
				break
			}
			f := compareExit(ie.BridgeExit, ev.Dep)
			gi := ie.GlobalIndex
			if f == "" && (gi.MainnetFlag != ev.Claim.Mainnet || gi.RollupIndex != ev.Claim.RollupIndex || gi.LeafIndex != ev.Claim.LeafIndex) {
				f = "global_index"
			}
			if f != "" {
				key := "imported-exits/field/" + f
				for j, o := range wantC {
					if j != i && compareExit(ie.BridgeExit, o.Dep) == "" && gi.MainnetFlag == o.Claim.Mainnet &&
						gi.RollupIndex == o.Claim.RollupIndex && gi.LeafIndex == o.Claim.LeafIndex {
						key = "imported-exits/order"
					}
				}
				c.Failf(key, "%s: imported exit #%d of [%d,%d] is %s global index (%v,%d,%d); the chain's claim event #%d there claims %s with global index (%v,%d,%d) (differs in %s)",
					b.Where(), i, from, to, exitString(ie.BridgeExit), gi.MainnetFlag, gi.RollupIndex, gi.LeafIndex, i,
					depString(ev.Dep), ev.Claim.Mainnet, ev.Claim.RollupIndex, ev.Claim.LeafIndex, f)
				break
			}
		}
	}

	// --- appending the exits' hashes to the tree whose root is PrevLER gives NewLER ---
	total := uint32(len(w.L2Deps))
	prevCount := -1
	for k := uint32(0); k <= total; k++ {
		if w.ExitRoot(world.NetL2, k) == cert.PrevLocalExitRoot {
			prevCount = int(k)
			break
		}
	}
	if prevCount < 0 {
		c.Failf("prev-ler/not-a-root-of-the-exit-tree", "%s: previous local exit root %s is not the root of the network's exit tree at any deposit count 0..%d",
			b.Where(), cert.PrevLocalExitRoot.Hex(), total)
		return
	}
	tree := w.ExitTree(world.NetL2, uint32(prevCount))
	var dt ref.DepositTree
	for i := 0; i < prevCount; i++ {
		dt.AddLeaf(tree.Leaves[uint32(i)])
	}
	for i, e := range cert.BridgeExits {
		h, err := AgglayerExitLeaf(e)
		if err != nil {
			c.Failf("bridge-exits/not-hashable", "%s: bridge exit #%d %s: %v", b.Where(), i, exitString(e), err)
			return
		}
		tree.Set(uint32(prevCount+i), h)
		dt.AddLeaf(h)
	}
	got := tree.Root()
	if got != dt.Root() {
		panic("ref: Merkle and DepositTree disagree")
	}
	if got != cert.NewLocalExitRoot {
		c.Failf("new-ler/does-not-follow-from-exits", "%s: certificate [%d,%d]: previous LER %s is the exit tree with %d leaves; appending its %d bridge exits gives %s, but the certificate's new LER is %s",
			b.Where(), from, to, cert.PrevLocalExitRoot.Hex(), prevCount, len(cert.BridgeExits), got.Hex(), cert.NewLocalExitRoot.Hex())
	}
	c.Distinct(fmt.Sprintf("%d|%s|%d|%d-%d|%s", b.Stage, b.Prev, b.MaxSize, from, to, cert.NewLocalExitRoot.Hex()))
}
