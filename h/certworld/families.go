package certworld

import (
	"verif/h/world"
)

func op(k world.OpKind, a ...int) world.Op {
	o := world.Op{Kind: k}
	if len(a) > 0 {
		o.A = a[0]
	}
	if len(a) > 1 {
		o.B = a[1]
	}
	if len(a) > 2 {
		o.C = a[2]
	}
	return o
}

// richPrelude: two L1 deposits and two deposits on rollup B destined to our L2 (the four field
// variants), B verified, all of it in one finalized L1 block, its latest GER injected on L2. Every
// one of the four deposits is claimable afterwards.
var richPrelude = []world.Op{
	op(world.L1Deposit, 1), op(world.L1Deposit, 2), op(world.RollupBDeposit, 3), op(world.RollupBDeposit, 0),
	op(world.VerifyRollupB), op(world.CloseL1Block), op(world.FinalizeL1, 1), op(world.InjectGER),
}

func hasCertMaterial(w *world.World) bool {
	if len(w.ObservableOrAllLeaves()) == 0 {
		return false // without an L1 info leaf the builder can never name a root: no certificate at all
	}
	return len(w.L2Deps) > 0 || len(w.Claims) > 0
}

func hasClaim(w *world.World) bool { return len(w.Claims) > 0 }

var fullAlphabet = []world.Template{
	world.L1DepositRot(false), world.BDepositRot(), world.One(op(world.VerifyRollupB)), world.L2DepositRot(),
	world.One(op(world.VerifyL2)), world.One(op(world.CloseL1Block)), world.One(op(world.FinalizeL1, 1)),
	world.One(op(world.InjectGER)), world.NextClaim(), world.One(op(world.CloseL2Block)),
}

// Spacings: L2 block numberings that put events exactly k*S blocks after the first block of a certificate's range, for round
// S (what a chunked or paged range read would use as its page size, decimal and binary): "S, 2S, 3S, ..." for the first
// certificate of a chain (its range starts at block 0) and "1, S+2, 2S+3, ..." for the later ones (their range starts one
// block after a block the syncer holds).
func Spacings(tier string) []world.Spacing {
	ss := []uint64{1000, 1024, 4096, 5000, 10000, 65536}
	if tier == "thorough" {
		ss = []uint64{100, 128, 500, 512, 1000, 1024, 4096, 5000, 10000, 65536}
	}
	var out []world.Spacing
	for _, s := range ss {
		out = append(out, world.Spacing{First: s, Gap: s}, world.Spacing{First: 1, Gap: s + 1})
	}
	return out
}

// FamiliesC03: what is enumerated for C03.
func FamiliesC03(tier string) []world.Family {
	l2Len, fieldsLen, fullLen, spacedLen := 6, 3, 6, 4
	if tier == "thorough" {
		l2Len, fieldsLen, fullLen, spacedLen = 7, 4, 7, 5
	}
	return []world.Family{
		{ // sparse L2 stores: the short L2 histories under every L2 block numbering of Spacings
			Name: "l2-spaced", Prelude: richPrelude, MaxLen: spacedLen,
			Templates: []world.Template{world.L2DepositRot(), world.NextClaim(), world.One(op(world.CloseL2Block))},
			Limits:    world.Limits{MaxL2Blocks: 4, NoEmptyL2Blocks: true},
			Keep:      func(w *world.World) bool { return hasCertMaterial(w) && len(w.L2Blocks) >= 2 },
			Spacings:  Spacings(tier),
		},
		{ // every L2 history (bridges, claims of both origins, block boundaries, empty blocks) after a fixed L1 prelude
			Name: "l2-history", Prelude: richPrelude, MaxLen: l2Len,
			Templates: []world.Template{world.L2DepositRot(), world.NextClaim(), world.One(op(world.CloseL2Block))},
			Limits:    world.Limits{MaxL2Blocks: 5},
			Keep:      hasCertMaterial,
		},
		{ // every combination of the four field variants of L2 bridges
			Name: "l2-fields", Prelude: richPrelude, MaxLen: fieldsLen,
			Templates: []world.Template{world.One(op(world.L2Deposit, 0)), world.One(op(world.L2Deposit, 1)),
				world.One(op(world.L2Deposit, 2)), world.One(op(world.L2Deposit, 3)), world.One(op(world.CloseL2Block))},
			Limits: world.Limits{NoEmptyL2Blocks: true},
			Keep:   hasCertMaterial,
		},
		{ // the whole alphabet from the empty world
			Name: "full", MaxLen: fullLen, Templates: fullAlphabet,
			Limits: world.Limits{MaxL1Blocks: 4, MaxL2Blocks: 4, NoEmptyL1Blocks: true},
			Keep:   hasCertMaterial,
		},
	}
}

func OptionsC03(tier string) Options {
	o := Options{MaxRetries: 1, SizeVariants: []uint{0, 1}, PrevLERNilToo: true, L2ReorgEpilogue: true, AttachedChain: true}
	if tier == "thorough" {
		o.SizeVariants = []uint{0, 1, 300} // 300 bytes: room for about two bridge exits, no claim
	}
	return o
}

const RuleC03 = "unit = one scenario: an operation sequence of a world family (all sequences up to the family's length bound, " +
	"de-duplicated by the canonical form of the resulting chains, shortest first). Inside a unit the L2 bridge store is fed block " +
	"by block; at every stage the real builder is run in every aggsender storage state reachable by cutting the history so far " +
	"into certificates (none / last settled / last in error, retried at once or later; with and without a stored previous LER) " +
	"and for each certificate size limit; every built certificate is one evaluation. non-trivial = a scenario in which at least " +
	"one certificate was built; distinct = distinct (scenario, stage, storage state, size limit, block range, new LER). After the last stage: the L2 block holding the last L2 bridge is reorged away and replaced by a fork with a different bridge, and certificates are rebuilt in every storage state that does not depend on the dropped block, with the same long-lived flow and querier objects."

var Assumptions = []string{
	"stores are filled through the real processors with the event values the real downloaders produce (field for field); the downloaders' log parsing is covered elsewhere (C05, C20)",
	"the L1 info tree syncer holds every closed L1 block with an event of its contracts plus the last closed block; the L2 bridge syncer holds every closed L2 block up to the stage",
	"a rollup verification that does not change the rollup's local exit root is not part of the alphabet (aggkit ignores such events entirely)",
	"the L1 node's only answers used are HeaderByNumber(finalized) / HeaderByNumber(n) (hand-written fake over the world's L1 chain) and rollupData.lastLocalExitRoot = 0x0 at rollup creation",
	"certificate fates are Settled or InError (closed statuses); the builder refuses to run on open certificates by construction",
}

func BoundsC03(tier string) map[string]any {
	m := map[string]any{}
	for _, f := range FamiliesC03(tier) {
		m[f.Name] = familyBounds(f)
	}
	o := OptionsC03(tier)
	m["max_retries"] = o.MaxRetries
	m["max_cert_size_variants"] = o.SizeVariants
	return m
}

func familyBounds(f world.Family) map[string]any {
	byLen := map[int]int{}
	n := 0
	for _, s := range world.Enumerate(f) {
		byLen[s.Len]++
		n++
	}
	var letters []string
	for _, t := range f.Templates {
		letters = append(letters, t.Name)
	}
	return map[string]any{"max_len": f.MaxLen, "prelude": world.OpsString(f.Prelude), "letters": letters,
		"scenarios": n, "scenarios_by_length": byLen}
}

// BatchSize: units per worker process (every store construction leaks ~3 file descriptors: a few
// hundred executions per process stay far below the limit).
func BatchSize(tier string) int {
	if tier == "thorough" {
		return 300
	}
	return 150
}
