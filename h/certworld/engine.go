// Package certworld drives aggkit's REAL certificate builder (flows.NewBaseFlow + flows.NewPPFlow
// wired as flows.NewFlow does, over real bridgesync / l1infotreesync stores and the real aggsender
// SQL storage) through every scenario of a world family and every cut of the scenario's L2 history
// into certificates. The property-specific oracles (C03, C09) are callbacks on each built
// certificate.
package certworld

import (
	"context"
	"crypto/ecdsa"
	"errors"
	"fmt"
	"math/big"
	"path/filepath"
	"strings"

	"github.com/0xPolygon/cdk-contracts-tooling/contracts/pp/l2-sovereign-chain/polygonrollupmanager"
	"github.com/agglayer/aggkit/aggoracle/chaingerreader"
	agglayertypes "github.com/agglayer/aggkit/agglayer/types"
	aggsenderdb "github.com/agglayer/aggkit/aggsender/db"
	"github.com/agglayer/aggkit/aggsender/flows"
	"github.com/agglayer/aggkit/aggsender/query"
	"github.com/agglayer/aggkit/aggsender/types"
	aggkittypes "github.com/agglayer/aggkit/types"
	"github.com/ethereum/go-ethereum/common"
	ethtypes "github.com/ethereum/go-ethereum/core/types"
	"github.com/ethereum/go-ethereum/crypto"
	"verif/h/kit"
	"verif/h/mc"
	"verif/h/ref"
	"verif/h/world"
)

// Params of a unit: one scenario.
type Params struct {
	Family  string
	Len     int
	Ops     []world.Op
	Spacing world.Spacing // numbering of the L2 blocks (zero: dense)
}

// Options select how much of the cut / configuration space an execution walks.
type Options struct {
	MaxRetries     int    // how many times in a row a certificate may end InError and be retried
	SizeVariants   []uint // MaxCertSize values (0: unlimited)
	FinMode        int    // L1 finalized pointer positions per build: FinLast, FinExtremes or FinAll
	PrevLERNilToo  bool   // also retry with a stored header that lacks the previous LER (old Agglayer answers)
	MaxStatesStage int    // safety cap on storage states per stage (0: none); hitting it is reported
	// L2ReorgEpilogue: after the last stage, the L2 block holding the scenario's last L2 bridge is reorged away and
	// replaced by a fork in which that bridge is a different one (another field variant); certificates are then
	// built again WITH THE SAME long-lived flow / querier objects that built the certificates of the old fork.
	L2ReorgEpilogue bool
	// L1OrphanEpilogue: after the last stage, the L1 node answers with ANOTHER hash for the last L1 block the L1 info
	// syncer holds (the block was reorged away on L1 and the syncer has not processed the reorg yet), with the
	// finalized pointer at that block and one past it. Only when that block was never finalized in the scenario.
	L1OrphanEpilogue bool
	// FEP: the certificates are built by the real AggchainProverFlow (a stand-in prover that proves what it is asked for,
	// optimistic mode off) instead of the PP flow; a certificate recorded InError keeps its aggchain proof, so its retry
	// takes the "resend with the stored proof" branch.
	FEP bool
	// BothFlows: a choice point at the start of every execution picks the PP flow or the aggchain-prover flow.
	BothFlows bool
	// AttachedChain: a choice point makes the chain one that was attached to the Agglayer with an existing exit tree: the
	// node certifies from the block after its first L2 bridge (StartL2Block), and the rollup manager reports the exit root
	// the chain had then; a further choice makes the first query for that exit root fail (a transient L1 RPC fault).
	AttachedChain bool
	// DroppedL1ForkPrologue: the L1 info store may have synced a competing fork first — the same L1 transactions with two
	// leaf-adding ones of one block in the other order (world.SwapVariants), one choice per such variant — and was rewound
	// from block 1 before it synced the canonical chain.
	DroppedL1ForkPrologue bool
}

const (
	FinLast     = iota // the last closed L1 block
	FinExtremes        // where the pointer stood when the L2 block was closed, and the last closed L1 block
	FinAll             // every position from where it stood up to one past the last block the syncer holds
)

// Built is one certificate produced by the real flow, with the situation it was built in.
type Built struct {
	W          *world.World
	Stage      uint64 // last L2 block the L2 bridge syncer had processed
	Prev       string // storage state: "none", "settled[a,b]#h", "inerror[a,b]#h/r"
	PrevStatus string // none | settled | inerror
	MaxSize    uint
	// what the fake L1 node reported as finalized, and the last L1 block the L1 info syncer holds
	// that is not above it (the block the node must treat as finalized)
	FinalizedReported  uint64
	FinalizedEffective uint64
	Params             *types.CertificateBuildParams
	Cert               *agglayertypes.Certificate
}

func (b *Built) Where() string {
	return fmt.Sprintf("scenario [%s] stage=L2#%d prev=%s maxCertSize=%d finalizedL1=%d", world.OpsString(b.W.Ops),
		b.Stage, b.Prev, b.MaxSize, b.FinalizedReported)
}

// Oracle checks one built certificate.
type Oracle func(c *mc.Ctx, b *Built)

// ---------------------------------------------------------------------------------------------
// hand-written fakes for the two L1 node calls the builder makes

type l1Client struct {
	aggkittypes.BaseEthereumClienter // every other method: nil interface -> panic if ever called
	w                                *world.World
	finalized                        uint64
	orphanFrom                       uint64 // > 0: blocks from here on have another hash on the L1 node than in the world
}

func (f *l1Client) HeaderByNumber(_ context.Context, n *big.Int) (*ethtypes.Header, error) {
	num := f.finalized
	if n != nil && n.Sign() >= 0 {
		num = n.Uint64()
	} else if n == nil || n.Int64() != int64(aggkittypes.Finalized) {
		return nil, fmt.Errorf("fake L1: unexpected block tag %v", n)
	}
	if h := f.w.L1Header(num); h != nil {
		if f.orphanFrom > 0 && num >= f.orphanFrom {
			h2 := ethtypes.CopyHeader(h)
			h2.Extra = append([]byte("the fork that replaced it/"), h.Extra...)
			return h2, nil
		}
		return h, nil
	}
	// a finalized block the syncer has not seen yet: only its number is used
	return &ethtypes.Header{Number: new(big.Int).SetUint64(num), Difficulty: big.NewInt(0), Extra: []byte("unsynced")}, nil
}

// rollupData is what the rollup manager on L1 answers for the chain's data at its creation block.
type rollupData struct {
	ler       common.Hash // the chain's local exit root when it was attached (0x0: it had no exits)
	failsLeft *int        // > 0: the next queries fail (a transient L1 RPC fault)
}

func (r rollupData) GetRollupData(*big.Int) (polygonrollupmanager.PolygonRollupManagerRollupDataReturn, error) {
	if r.failsLeft != nil && *r.failsLeft > 0 {
		*r.failsLeft--
		return polygonrollupmanager.PolygonRollupManagerRollupDataReturn{}, errors.New("verif: transient L1 RPC failure")
	}
	return polygonrollupmanager.PolygonRollupManagerRollupDataReturn{LastLocalExitRoot: r.ler}, nil
}

type ecdsaSigner struct{ key *ecdsa.PrivateKey }

func (s *ecdsaSigner) Initialize(context.Context) error { return nil }
func (s *ecdsaSigner) PublicAddress() common.Address    { return crypto.PubkeyToAddress(s.key.PublicKey) }
func (s *ecdsaSigner) String() string                   { return "verif-ecdsa" }
func (s *ecdsaSigner) SignHash(_ context.Context, h common.Hash) ([]byte, error) {
	return crypto.Sign(h[:], s.key)
}
func (s *ecdsaSigner) SignTx(context.Context, *ethtypes.Transaction) (*ethtypes.Transaction, error) {
	return nil, errors.New("not used")
}

var signerKey = func() *ecdsa.PrivateKey {
	k, err := crypto.ToECDSA(common.FromHex("0x59c6995e998f97a5a0044966f0945389dc9e86dae88c7a8412f4603b6b78690d"))
	if err != nil {
		panic(err)
	}
	return k
}()

// ---------------------------------------------------------------------------------------------
// storage states

// certRec is one certificate as the aggsender recorded it after sending.
type certRec struct {
	hdr   types.CertificateHeader
	raw   string
	proof *types.AggchainProof // FEP: the aggchain proof stored with the certificate
}

// state is the content of the aggsender storage: the chain of recorded certificates.
type state struct {
	chain []certRec
}

func (s state) last() *certRec {
	if len(s.chain) == 0 {
		return nil
	}
	return &s.chain[len(s.chain)-1]
}

func (s state) describe() (string, string) {
	l := s.last()
	if l == nil {
		return "none", "none"
	}
	h := l.hdr
	if h.Status == agglayertypes.Settled {
		return fmt.Sprintf("settled[%d,%d]#%d", h.FromBlock, h.ToBlock, h.Height), "settled"
	}
	p := ""
	if h.PreviousLocalExitRoot == nil {
		p = "/noPrevLER"
	}
	return fmt.Sprintf("inerror[%d,%d]#%d/r%d%s", h.FromBlock, h.ToBlock, h.Height, h.RetryCount, p), "inerror"
}

// key identifies a storage state by everything the builder reads from it.
func (s state) key() string {
	l := s.last()
	if l == nil {
		return "none"
	}
	h := l.hdr
	return fmt.Sprintf("%d|%d|%d|%d|%d|%v|%s", h.Status, h.FromBlock, h.ToBlock, h.Height, h.RetryCount,
		h.PreviousLocalExitRoot == nil, h.NewLocalExitRoot.Hex())
}

type exec struct {
	c       *mc.Ctx
	ctx     context.Context
	w       *world.World
	st      *world.Stores
	storage *aggsenderdb.AggSenderSQLStorage
	l1      *l1Client
	flows   map[uint]types.AggsenderFlow
	opt     Options
	oracle  Oracle
	seq     uint64
	rollup  rollupData
	startL2 uint64 // the block before the first one the node certifies (StartL2Block)
}

// install makes the real storage hold exactly the given chain, through the real storage API: each
// certificate is saved as the aggsender saves it after sending (Pending) and then moved to its
// final status as the status checker does.
func (x *exec) install(s state) error {
	db := x.storage.VerifDB()
	for _, t := range []string{"certificate_info", "certificate_info_history"} {
		if _, err := db.Exec("DELETE FROM " + t); err != nil {
			return err
		}
	}
	for _, r := range s.chain {
		h := r.hdr
		final := h.Status
		h.Status = agglayertypes.Pending
		raw := r.raw
		if err := x.storage.SaveLastSentCertificate(x.ctx, types.Certificate{Header: &h, SignedCertificate: &raw, AggchainProof: r.proof}); err != nil {
			return err
		}
		if err := x.storage.UpdateCertificateStatus(x.ctx, h.CertificateID, final, h.CreatedAt+1); err != nil {
			return err
		}
	}
	return nil
}

func (x *exec) flow(maxSize uint) types.AggsenderFlow {
	if f, ok := x.flows[maxSize]; ok {
		return f
	}
	if x.opt.FEP {
		return x.fepFlow(maxSize)
	}
	// exactly the wiring of flows.NewFlow for PessimisticProofMode
	logger := kit.Logger()
	lerQuerier, err := query.NewLERDataQuerier(common.Address{}, 0, x.rollup)
	if err != nil {
		panic(err)
	}
	l2BridgeQuerier := query.NewBridgeDataQuerier(logger, x.st.L2Bridge, 0)
	l1InfoTreeQuerier := query.NewL1InfoTreeDataQuerier(x.l1, x.st.L1Info)
	base := flows.NewBaseFlow(logger, l2BridgeQuerier, x.storage, l1InfoTreeQuerier, lerQuerier,
		flows.NewBaseFlowConfig(maxSize, x.startL2, false))
	f := flows.NewPPFlow(logger, base, x.storage, l1InfoTreeQuerier, l2BridgeQuerier, &ecdsaSigner{signerKey}, false, 0)
	x.flows[maxSize] = f
	return f
}

type standInProver struct{}

func (standInProver) GenerateAggchainProof(_ context.Context, req *types.AggchainProofRequest) (*types.AggchainProof, error) {
	if req.RequestedEndBlock <= req.LastProvenBlock {
		return nil, fmt.Errorf("stand-in prover: empty range (%d,%d]", req.LastProvenBlock, req.RequestedEndBlock)
	}
	return &types.AggchainProof{LastProvenBlock: req.LastProvenBlock, EndBlock: req.RequestedEndBlock,
		CustomChainData: []byte{0xcc}, AggchainParams: ref.Keccak([]byte(fmt.Sprintf("params-%d-%d", req.LastProvenBlock, req.RequestedEndBlock))),
		Context:       map[string][]byte{"k": {1}},
		SP1StarkProof: &types.SP1StarkProof{Version: "verif", Proof: []byte{0x51}, Vkey: []byte{0x76}}}, nil
}

func (standInProver) GenerateOptimisticAggchainProof(*types.AggchainProofRequest, []byte) (*types.AggchainProof, error) {
	return nil, fmt.Errorf("stand-in prover: optimistic mode is off")
}

type noInjectedGERs struct{}

func (noInjectedGERs) GetInjectedGERsForRange(context.Context, uint64, uint64) (map[common.Hash]chaingerreader.InjectedGER, error) {
	return map[common.Hash]chaingerreader.InjectedGER{}, nil
}

type optimisticOff struct{}

func (optimisticOff) IsOptimisticModeOn() (bool, error) { return false, nil }

// fepFlow: the wiring of flows.NewFlow for AggchainProofMode around the same base flow and queriers.
func (x *exec) fepFlow(maxSize uint) types.AggsenderFlow {
	logger := kit.Logger()
	lerQuerier, err := query.NewLERDataQuerier(common.Address{}, 0, x.rollup)
	if err != nil {
		panic(err)
	}
	l2BridgeQuerier := query.NewBridgeDataQuerier(logger, x.st.L2Bridge, 0)
	l1InfoTreeQuerier := query.NewL1InfoTreeDataQuerier(x.l1, x.st.L1Info)
	base := flows.NewBaseFlow(logger, l2BridgeQuerier, x.storage, l1InfoTreeQuerier, lerQuerier,
		flows.NewBaseFlowConfig(maxSize, x.startL2, false))
	f := flows.NewAggchainProverFlow(logger, flows.NewAggchainProverFlowConfig(0), base, standInProver{}, x.storage, l1InfoTreeQuerier,
		l2BridgeQuerier, query.NewGERDataQuerier(l1InfoTreeQuerier, noInjectedGERs{}), x.l1, &ecdsaSigner{signerKey}, optimisticOff{}, nil)
	x.flows[maxSize] = f
	return f
}

// lastInfoBlockAtOrBelow: the highest L1 block the L1 info syncer holds that is <= n (0: none).
func (x *exec) effectiveFinalized(reported uint64) uint64 {
	// the syncer was fed every block holding one of its events plus the last closed block
	best := uint64(0)
	last := uint64(len(x.w.L1Blocks))
	for _, b := range x.w.L1Blocks {
		if b.Num > reported {
			break
		}
		has := b.Num == last
		for _, e := range b.Events {
			if e.Kind == world.EvInfo || e.Kind == world.EvVerify {
				has = true
			}
		}
		if has {
			best = b.Num
		}
	}
	return best
}

// build runs the real GetCertificateBuildParams + BuildCertificate in the installed state.
func (x *exec) build(s state, stage uint64, maxSize uint, finalized uint64, check bool) (*Built, error) {
	x.l1.finalized = finalized
	f := x.flow(maxSize)
	params, err := f.GetCertificateBuildParams(x.ctx)
	if err != nil || params == nil {
		return nil, err
	}
	cert, err := f.BuildCertificate(x.ctx, params)
	if err != nil {
		return nil, err
	}
	prev, ps := s.describe()
	b := &Built{W: x.w, Stage: stage, Prev: prev, PrevStatus: ps, MaxSize: maxSize, FinalizedReported: finalized,
		FinalizedEffective: x.effectiveFinalized(finalized), Params: params, Cert: cert}
	if check {
		x.c.AddEvals(1)
		x.oracle(x.c, b)
	}
	return b, nil
}

// record turns a built certificate into the record the aggsender stores after sending it.
func (x *exec) record(b *Built, status agglayertypes.CertificateStatus, dropPrevLER bool) certRec {
	// the stored JSON copy of the sent certificate is never read by the builder: a stub keeps the
	// execution cheap
	raw := []byte(fmt.Sprintf(`{"network_id":%d,"height":%d}`, b.Cert.NetworkID, b.Cert.Height))
	x.seq++
	prev := b.Cert.PrevLocalExitRoot
	root := b.Params.L1InfoTreeRootFromWhichToProve
	h := types.CertificateHeader{
		Height:                  b.Cert.Height,
		RetryCount:              b.Params.RetryCount,
		CertificateID:           ref.Keccak([]byte(fmt.Sprintf("cert-id/%d", x.seq))), // the Agglayer's id: opaque
		NewLocalExitRoot:        b.Cert.NewLocalExitRoot,
		PreviousLocalExitRoot:   &prev,
		FromBlock:               b.Params.FromBlock,
		ToBlock:                 b.Params.ToBlock,
		CreatedAt:               1_700_100_000,
		UpdatedAt:               1_700_100_000,
		FinalizedL1InfoTreeRoot: &root,
		L1InfoTreeLeafCount:     b.Params.L1InfoTreeLeafCount,
		CertType:                b.Params.CertificateType,
		CertSource:              types.CertificateSourceLocal,
		Status:                  status,
	}
	if dropPrevLER {
		h.PreviousLocalExitRoot = nil
		h.CertSource = types.CertificateSourceAggLayer
	}
	return certRec{hdr: h, raw: string(raw), proof: b.Params.AggchainProof}
}

// Run is one execution: one scenario, every stage of the L2 syncer, every reachable storage state
// (= every cut of the history into certificates with every settled / in-error fate), every
// configured size limit and finalized-pointer position.
func Run(c *mc.Ctx, u mc.Unit, opt Options, oracle Oracle) {
	p := u.Params.(Params)
	if opt.BothFlows && c.Bool("aggchain-prover-flow") {
		opt.FEP = true
		c.Witness("executions_with_the_aggchain_prover_flow")
	}
	w, err := world.BuildSpaced(p.Ops, p.Spacing)
	if err != nil {
		c.Failf("harness/world", "%v", err)
		return
	}
	ctx := context.Background()
	st, err := world.NewStores(world.Which{L2Bridge: true, L1Info: true})
	if err != nil {
		panic(err)
	}
	defer st.Close()
	if opt.DroppedL1ForkPrologue {
		if vs := world.SwapVariants(p.Ops); len(vs) > 0 {
			if v := c.Choose(1+len(vs), "l1-info-store-synced-a-competing-fork-first"); v > 0 {
				w2, err := world.Build(vs[v-1])
				if err != nil {
					panic(err)
				}
				if err := w2.LoadL1(ctx, st, false); err != nil {
					c.Failf(world.LoadKey(err, "world-sanity/l1-store-rejects-block"), "dropped fork [%s]: %v", world.OpsString(vs[v-1]), err)
					return
				}
				if err := st.L1Info.VerifStore().Reorg(ctx, 1); err != nil {
					c.Failf("world-sanity/l1-store-reorg", "dropped fork [%s]: Reorg(1): %v", world.OpsString(vs[v-1]), err)
					return
				}
				c.Witness("l1_info_stores_that_synced_a_competing_fork_first")
			}
		}
	}
	if err := w.LoadL1(ctx, st, false); err != nil {
		c.Failf(world.LoadKey(err, "world-sanity/l1-store-rejects-block"), "scenario [%s]: %v", world.OpsString(p.Ops), err)
		return
	}
	if err := w.CheckL1(ctx, st, true); err != nil {
		c.Failf("world-sanity/l1-store-differs-from-reference", "scenario [%s]: %v", world.OpsString(p.Ops), err)
		return
	}
	storage, err := aggsenderdb.NewAggSenderSQLStorage(kit.Logger(),
		aggsenderdb.AggSenderSQLStorageConfig{DBPath: filepath.Join(st.Dir, "aggsender.sqlite"), KeepCertificatesHistory: true})
	if err != nil {
		panic(err)
	}
	st.TrackDB(storage.VerifDB())
	x := &exec{c: c, ctx: ctx, w: w, st: st, storage: storage, l1: &l1Client{w: w}, flows: map[uint]types.AggsenderFlow{},
		opt: opt, oracle: oracle}

	if opt.AttachedChain && len(w.L2Deps) > 0 && c.Bool("chain-attached-with-an-existing-exit-tree") {
		b0 := w.L2Deps[0].Block
		n := uint32(0)
		for _, d := range w.L2Deps {
			if d.Block <= b0 {
				n++
			}
		}
		x.startL2, x.rollup.ler = b0, w.ExitRoot(world.NetL2, n)
		c.Witness("chains_attached_with_an_existing_exit_tree")
		if c.Bool("first-query-of-the-starting-exit-root-fails") {
			one := 1
			x.rollup.failsLeft = &one
			c.Witness("starting_exit_root_queries_that_fail_once")
		}
	}
	lastL1 := uint64(len(w.L1Blocks))
	states := []state{{}}
	seen := map[string]bool{"none": true}
	add := func(s state) {
		if k := s.key(); !seen[k] {
			seen[k] = true
			states = append(states, s)
		}
	}
	built := 0
	for _, blk := range w.L2Blocks {
		if err := w.LoadL2Block(ctx, st, blk); err != nil {
			c.Failf(world.LoadKey(err, "world-sanity/l2-store-rejects-block"), "scenario [%s]: %v", world.OpsString(p.Ops), err)
			return
		}
		if err := w.CheckL2(ctx, st, blk.Num); err != nil {
			c.Failf("world-sanity/l2-store-differs-from-reference", "scenario [%s]: %v", world.OpsString(p.Ops), err)
			return
		}
		// finalized pointer positions the node can see at this stage: from where it stood when the
		// block was closed up to one block past the last block the L1 info syncer holds
		var fins []uint64
		lo := blk.FinalizedL1
		if lo == 0 {
			lo = 1
		}
		for f := lo; f <= lastL1+1; f++ {
			fins = append(fins, f)
		}
		switch {
		case lastL1 == 0:
			fins = []uint64{1}
		case opt.FinMode == FinLast:
			fins = []uint64{lastL1}
		case opt.FinMode == FinExtremes && len(fins) > 2:
			fins = []uint64{fins[0], lastL1}
		}
		// walk the states; new states produced at this stage are visited at this stage too (a retry
		// right away; the next certificate right after a size-limited one)
		for i := 0; i < len(states); i++ {
			s := states[i]
			if opt.MaxStatesStage > 0 && i >= opt.MaxStatesStage {
				c.HorizonHit()
				break
			}
			if err := x.install(s); err != nil {
				panic(err)
			}
			for _, size := range opt.SizeVariants {
				var first *Built
				for fi, fin := range fins {
					b, err := x.build(s, blk.Num, size, fin, true)
					if err != nil {
						prev, _ := s.describe()
						c.Obs("stage %d prev %s size %d fin %d: no certificate: %s", blk.Num, prev, size, fin, firstLine(err))
						continue
					}
					if b == nil {
						continue
					}
					built++
					if fi == 0 || first == nil {
						first = b
					}
					prev, _ := s.describe()
					c.Obs("stage %d prev %s size %d fin %d: cert h=%d [%d,%d] exits=%d imported=%d leafCount=%d newLER=%s",
						blk.Num, prev, size, fin, b.Cert.Height, b.Params.FromBlock, b.Params.ToBlock, len(b.Cert.BridgeExits),
						len(b.Cert.ImportedBridgeExits), b.Cert.L1InfoTreeLeafCount, b.Cert.NewLocalExitRoot.Hex()[:10])
				}
				if first == nil {
					continue
				}
				// fates of the certificate just built
				base := state{chain: append([]certRec{}, s.chain...)}
				if l := base.last(); l != nil && l.hdr.Status == agglayertypes.InError {
					base.chain = base.chain[:len(base.chain)-1] // the retry replaces it at the same height
				}
				settled := state{chain: append(append([]certRec{}, base.chain...), x.record(first, agglayertypes.Settled, false))}
				add(settled)
				if first.Params.RetryCount < opt.MaxRetries {
					add(state{chain: append(append([]certRec{}, base.chain...), x.record(first, agglayertypes.InError, false))})
					if opt.PrevLERNilToo {
						add(state{chain: append(append([]certRec{}, base.chain...), x.record(first, agglayertypes.InError, true))})
					}
				}
			}
		}
	}
	if opt.L1OrphanEpilogue {
		built += x.l1OrphanEpilogue(p, states, lastL1)
	}
	if opt.L2ReorgEpilogue && x.startL2 == 0 {
		// (not for an attached chain: the epilogue replaces the first L2 bridge, which is then part of the exit tree the
		// rollup manager recorded at attachment time and cannot be reorged away any more)
		built += x.l2ReorgEpilogue(p, states, lastL1)
	}
	if built > 0 {
		c.NonTrivial()
		c.Witness("scenarios_with_certificates")
	}
	c.Obs("scenario [%s]: %d L2 blocks, %d storage states, %d certificates built", world.OpsString(p.Ops), len(w.L2Blocks),
		len(states), built)
}

// l1OrphanEpilogue: see Options.L1OrphanEpilogue. A certificate built in that situation must not name an L1 info
// root that contains a leaf of the orphaned block (refusing to build one is fine).
func (x *exec) l1OrphanEpilogue(p Params, states []state, lastL1 uint64) int {
	c, w := x.c, x.w
	if lastL1 == 0 || w.Finalized >= lastL1 || len(w.L2Blocks) == 0 {
		return 0
	}
	below, inBlock := uint32(0), 0
	for _, l := range w.ObservableOrAllLeaves() {
		if l.Block < lastL1 {
			below++
		} else {
			inBlock++
		}
	}
	if inBlock == 0 {
		return 0
	}
	x.l1.orphanFrom = lastL1
	defer func() { x.l1.orphanFrom = 0 }()
	c.Witness("l1_orphan_epilogues")
	stage := w.L2Blocks[len(w.L2Blocks)-1].Num
	n := 0
	for _, s := range states {
		if err := x.install(s); err != nil {
			panic(err)
		}
		for _, fin := range []uint64{lastL1, lastL1 + 1} {
			b, err := x.build(s, stage, 0, fin, false)
			if err != nil || b == nil {
				c.Witness("no_certificate_while_the_syncer_holds_an_orphaned_block")
				continue
			}
			n++
			b.Prev += fmt.Sprintf("+L1-block-%d-orphaned", lastL1)
			x.c.AddEvals(1)
			if b.Cert.L1InfoTreeLeafCount > below {
				c.Failf("l1-info-root/of-a-block-the-l1-node-no-longer-has", "%s: the L1 node answers with another hash for block %d (it was reorged away; "+
					"the L1 info syncer still holds the old block), finalized pointer at %d: the certificate names an L1 info root with %d leaves, "+
					"but only %d leaves are in blocks below %d", b.Where(), lastL1, fin, b.Cert.L1InfoTreeLeafCount, below, lastL1)
				continue
			}
			x.oracle(x.c, b)
		}
	}
	return n
}

// l2ReorgEpilogue: see Options.L2ReorgEpilogue. Returns the number of certificates built.
func (x *exec) l2ReorgEpilogue(p Params, states []state, lastL1 uint64) int {
	c, w := x.c, x.w
	idx := -1
	for i, o := range p.Ops {
		switch o.Kind {
		case world.L2Deposit:
			idx = i
		case world.VerifyL2:
			idx = -1 // the L1 side (rollup exit tree, info leaves) would depend on the replaced bridge
		}
	}
	if idx < 0 || len(w.L2Deps) == 0 || lastL1 == 0 {
		return 0
	}
	ops2 := append([]world.Op{}, p.Ops...)
	ops2[idx].A = (ops2[idx].A + 2) % 4 //nolint:mnd // another field variant with the same destination network
	w2, err := world.BuildSpaced(ops2, p.Spacing)
	if err != nil || len(w2.L2Blocks) != len(w.L2Blocks) || len(w2.L1Blocks) != len(w.L1Blocks) {
		c.Obs("l2-reorg epilogue skipped: the variant scenario is not a scenario (%v)", err)
		return 0
	}
	k := w.L2Deps[len(w.L2Deps)-1].Block
	if k == 0 {
		return 0 // the bridge is in a block that was never closed
	}
	if err := x.st.L2Bridge.VerifStore().Reorg(x.ctx, k); err != nil {
		c.Failf("world-sanity/l2-store-reorg-fails", "scenario [%s]: Reorg(%d): %v", world.OpsString(p.Ops), k, err)
		return 0
	}
	last := uint64(0)
	for _, blk := range w2.L2Blocks {
		if blk.Num < k {
			continue
		}
		if err := w2.LoadL2Block(x.ctx, x.st, blk); err != nil {
			c.Failf(world.LoadKey(err, "world-sanity/l2-store-rejects-block"), "scenario [%s] after Reorg(%d): %v", world.OpsString(ops2), k, err)
			return 0
		}
		last = blk.Num
	}
	if err := w2.CheckL2(x.ctx, x.st, last); err != nil {
		c.Failf("world-sanity/l2-store-differs-from-reference", "scenario [%s] after Reorg(%d): %v", world.OpsString(ops2), k, err)
		return 0
	}
	x.w, x.l1.w = w2, w2
	c.Witness("l2_reorg_epilogues")
	n := 0
	for _, s := range states {
		ok := true
		for _, r := range s.chain {
			if r.hdr.Status == agglayertypes.Settled && r.hdr.ToBlock >= k {
				ok = false // that certificate settled blocks of the dropped fork
			}
		}
		if !ok {
			continue
		}
		if err := x.install(s); err != nil {
			panic(err)
		}
		for _, size := range x.opt.SizeVariants {
			b, err := x.build(s, last, size, lastL1, false)
			if err != nil || b == nil {
				continue
			}
			b.Prev += "+after-L2-reorg@" + fmt.Sprint(k)
			x.c.AddEvals(1)
			x.oracle(x.c, b)
			n++
			c.Witness("certificates_built_after_an_l2_reorg")
		}
	}
	return n
}

func firstLine(err error) string {
	s := err.Error()
	if i := strings.IndexByte(s, '\n'); i >= 0 {
		s = s[:i]
	}
	if len(s) > 160 {
		s = s[:160]
	}
	return s
}

// UnitsOf turns enumerated families into engine units (deterministic order: family by family,
// shortest scenario first).
func UnitsOf(fams []world.Family) []mc.Unit {
	var us []mc.Unit
	for _, f := range fams {
		for _, s := range world.Enumerate(f) {
			if f.Spacings == nil {
				us = append(us, mc.Unit{Name: fmt.Sprintf("%s/%d: %s", f.Name, s.Len, world.OpsString(s.Ops)),
					Params: Params{Family: f.Name, Len: s.Len, Ops: s.Ops}})
			}
			for _, sp := range f.Spacings {
				us = append(us, mc.Unit{Name: fmt.Sprintf("%s/%d: %s; %s", f.Name, s.Len, world.OpsString(s.Ops), sp),
					Params: Params{Family: f.Name, Len: s.Len, Ops: s.Ops, Spacing: sp}})
			}
		}
	}
	return us
}
