package ref

import (
	"math/big"

	"github.com/ethereum/go-ethereum/common"
)

// This file models the L1 contracts aggkit's l1infotreesync watches, as plain state machines:
//
//   - PolygonZkEVMGlobalExitRootV2 (updateExitRoot called by the bridge with a new mainnet exit
//     root, or by the rollup manager with a new rollup exit root; an L1 info tree leaf is added only
//     when the resulting global exit root was never seen before; the two events UpdateL1InfoTree
//     and UpdateL1InfoTreeV2 are emitted exactly then),
//   - the rollup manager's verifyBatches / verifyBatchesTrustedAggregator as far as the exit trees
//     are concerned (store the rollup's new local exit root, optionally push getRollupExitRoot() to
//     the GER contract, then emit the VerifyBatches event),
//   - the bridge as far as the deposit tree is concerned (L1Bridge below).
//
// Everything is written from the contracts' sources; cmd/evmconf replays operation sequences
// against the real bytecode and compares state and logs.

// BlockCtx is what the EVM exposes to a transaction about its block.
type BlockCtx struct {
	ParentHash Hash   // blockhash(block.number - 1)
	Timestamp  uint64 // block.timestamp
}

// Event kinds emitted by L1.
const (
	EvUpdateL1InfoTree               = "UpdateL1InfoTree"
	EvUpdateL1InfoTreeV2             = "UpdateL1InfoTreeV2"
	EvVerifyBatches                  = "VerifyBatches"
	EvVerifyBatchesTrustedAggr       = "VerifyBatchesTrustedAggregator"
	EvInitL1InfoRootMap              = "InitL1InfoRootMap"
	EvBridge                         = "BridgeEvent"
	EmitterGER                       = "ger"
	EmitterRollupManager             = "rollupmanager"
	EmitterBridge                    = "bridge"
	leafTypeAsset              uint8 = 0
	leafTypeMessage            uint8 = 1
)

// L1Event is one emitted event, in abstract form (the log packer turns it into topics and data).
type L1Event struct {
	Emitter string
	Kind    string
	// UpdateL1InfoTree
	MainnetExitRoot Hash
	RollupExitRoot  Hash
	// UpdateL1InfoTreeV2
	CurrentL1InfoRoot Hash
	LeafCount         uint32
	Blockhash         Hash
	MinTimestamp      uint64
	// VerifyBatches / VerifyBatchesTrustedAggregator
	RollupID   uint32
	NumBatch   uint64
	StateRoot  Hash
	ExitRoot   Hash
	Aggregator common.Address
	// BridgeEvent
	LeafType           uint8
	OriginNetwork      uint32
	OriginAddress      common.Address
	DestinationNetwork uint32
	DestinationAddress common.Address
	Amount             *big.Int
	Metadata           []byte
	DepositCount       uint32
}

// InfoLeaf is one leaf of the L1 info tree as the contract computed it.
type InfoLeaf struct {
	Index           uint32
	MainnetExitRoot Hash
	RollupExitRoot  Hash
	GER             Hash
	ParentHash      Hash
	Timestamp       uint64
	Hash            Hash // getLeafValue(GER, blockhash, timestamp)
	Root            Hash // getRoot() right after the leaf was added (= l1InfoRootMap[Index+1])
}

// L1 is the state of the GER contract plus the rollup manager's exit-root bookkeeping.
type L1 struct {
	LastMainnetExitRoot Hash
	LastRollupExitRoot  Hash
	GlobalExitRootMap   map[Hash]bool
	InfoTree            DepositTree
	Leaves              []InfoLeaf

	RollupCount            uint32
	RollupIDToLastExitRoot map[uint32]Hash
}

func NewL1() *L1 {
	return &L1{GlobalExitRootMap: map[Hash]bool{}, RollupIDToLastExitRoot: map[uint32]Hash{}}
}

// LastGlobalExitRoot = getLastGlobalExitRoot().
func (l *L1) LastGlobalExitRoot() Hash { return GER(l.LastMainnetExitRoot, l.LastRollupExitRoot) }

// InfoRoot = getRoot() of the GER contract.
func (l *L1) InfoRoot() Hash { return l.InfoTree.Root() }

// UpdateExitRootFromBridge = updateExitRoot(newRoot) with msg.sender == bridgeAddress.
func (l *L1) UpdateExitRootFromBridge(newRoot Hash, b BlockCtx) []L1Event {
	l.LastMainnetExitRoot = newRoot
	return l.afterUpdate(b)
}

// UpdateExitRootFromRollupManager = updateExitRoot(newRoot) with msg.sender == rollupManager.
func (l *L1) UpdateExitRootFromRollupManager(newRoot Hash, b BlockCtx) []L1Event {
	l.LastRollupExitRoot = newRoot
	return l.afterUpdate(b)
}

func (l *L1) afterUpdate(b BlockCtx) []L1Event {
	ger := GER(l.LastMainnetExitRoot, l.LastRollupExitRoot)
	if l.GlobalExitRootMap[ger] {
		return nil // "If it already exists, do not modify the blockhash": no leaf, no event
	}
	leaf := L1InfoLeaf(ger, b.ParentHash, b.Timestamp)
	l.InfoTree.AddLeaf(leaf)
	root := l.InfoTree.Root()
	l.GlobalExitRootMap[ger] = true
	l.Leaves = append(l.Leaves, InfoLeaf{Index: uint32(len(l.Leaves)), MainnetExitRoot: l.LastMainnetExitRoot,
		RollupExitRoot: l.LastRollupExitRoot, GER: ger, ParentHash: b.ParentHash, Timestamp: b.Timestamp, Hash: leaf, Root: root})
	return []L1Event{
		{Emitter: EmitterGER, Kind: EvUpdateL1InfoTree, MainnetExitRoot: l.LastMainnetExitRoot, RollupExitRoot: l.LastRollupExitRoot},
		{Emitter: EmitterGER, Kind: EvUpdateL1InfoTreeV2, CurrentL1InfoRoot: root, LeafCount: uint32(l.InfoTree.DepositCount),
			Blockhash: b.ParentHash, MinTimestamp: b.Timestamp},
	}
}

// VerifyBatches = verifyBatches / verifyBatchesTrustedAggregator of the rollup manager, reduced to
// what touches the exit trees (the shape of the repository's VerifyBatchesMock).
func (l *L1) VerifyBatches(rollupID uint32, numBatch uint64, newLocalExitRoot, newStateRoot Hash, updateGER, trusted bool,
	sender common.Address, b BlockCtx) []L1Event {
	if rollupID > l.RollupCount {
		l.RollupCount = rollupID
	}
	l.RollupIDToLastExitRoot[rollupID] = newLocalExitRoot
	var evs []L1Event
	if updateGER {
		evs = l.UpdateExitRootFromRollupManager(l.RollupExitRoot(), b)
	}
	kind := EvVerifyBatches
	if trusted {
		kind = EvVerifyBatchesTrustedAggr
	}
	return append(evs, L1Event{Emitter: EmitterRollupManager, Kind: kind, RollupID: rollupID, NumBatch: numBatch,
		StateRoot: newStateRoot, ExitRoot: newLocalExitRoot, Aggregator: sender})
}

// RollupExitRoot = getRollupExitRoot(): computed twice — as a transliteration of the contract's loop
// and with the sparse reference tree (leaf rollupID-1) — and the two must agree.
func (l *L1) RollupExitRoot() Hash {
	a := l.rollupExitRootTransliterated()
	if l.RollupCount == 0 {
		return a // bytes32(0): "If there are no nodes return 0"
	}
	m := NewMerkle()
	for id, v := range l.RollupIDToLastExitRoot {
		if v != (Hash{}) {
			m.Set(id-1, v)
		}
	}
	if bRoot := m.Root(); a != bRoot {
		panic("ref: getRollupExitRoot transliteration and sparse Merkle tree disagree")
	}
	return a
}

func (l *L1) rollupExitRootTransliterated() Hash {
	currentNodes := uint64(l.RollupCount)
	if currentNodes == 0 {
		return Hash{}
	}
	tmpTree := make([]Hash, currentNodes)
	for i := uint64(0); i < currentNodes; i++ {
		tmpTree[i] = l.RollupIDToLastExitRoot[uint32(i+1)]
	}
	var currentZeroHashHeight Hash
	remainingLevels := Height
	for currentNodes != 1 {
		nextIterationNodes := currentNodes/2 + currentNodes%2
		nextTmpTree := make([]Hash, nextIterationNodes)
		for i := uint64(0); i < nextIterationNodes; i++ {
			if i == nextIterationNodes-1 && currentNodes%2 == 1 {
				nextTmpTree[i] = Keccak(tmpTree[i*2][:], currentZeroHashHeight[:])
			} else {
				nextTmpTree[i] = Keccak(tmpTree[i*2][:], tmpTree[i*2+1][:])
			}
		}
		tmpTree = nextTmpTree
		currentNodes = nextIterationNodes
		currentZeroHashHeight = Keccak(currentZeroHashHeight[:], currentZeroHashHeight[:])
		remainingLevels--
	}
	currentRoot := tmpTree[0]
	for i := 0; i < remainingLevels; i++ {
		currentRoot = Keccak(currentRoot[:], currentZeroHashHeight[:])
		currentZeroHashHeight = Keccak(currentZeroHashHeight[:], currentZeroHashHeight[:])
	}
	return currentRoot
}

// ---------------------------------------------------------------------------------------------
// The L1 bridge's deposit side.

// L1Bridge is PolygonZkEVMBridgeV2 as far as deposits are concerned (native gas token, network 0).
type L1Bridge struct {
	NetworkID               uint32
	Tree                    DepositTree
	LastUpdatedDepositCount uint64
	Leaves                  []Hash
}

// Deposit = _addLeaf of a bridgeAsset / bridgeMessage plus the BridgeEvent; when forceUpdate is set
// the new deposit root is pushed to the GER contract (l1 may be nil: no GER contract modelled).
func (br *L1Bridge) Deposit(leafType uint8, originNetwork uint32, originAddr common.Address, destNetwork uint32,
	destAddr common.Address, amount *big.Int, metadata []byte, forceUpdate bool, l1 *L1, b BlockCtx) []L1Event {
	ev := L1Event{Emitter: EmitterBridge, Kind: EvBridge, LeafType: leafType, OriginNetwork: originNetwork, OriginAddress: originAddr,
		DestinationNetwork: destNetwork, DestinationAddress: destAddr, Amount: new(big.Int).Set(amount),
		Metadata: append([]byte{}, metadata...), DepositCount: uint32(br.Tree.DepositCount)}
	leaf := BridgeLeaf(leafType, originNetwork, originAddr, destNetwork, destAddr, amount, metadata)
	br.Tree.AddLeaf(leaf)
	br.Leaves = append(br.Leaves, leaf)
	evs := []L1Event{ev}
	if forceUpdate {
		evs = append(evs, br.UpdateGlobalExitRoot(l1, b)...)
	}
	return evs
}

// BridgeMessage: leafType 1, origin = (this network, msg.sender), amount = msg.value.
func (br *L1Bridge) BridgeMessage(sender common.Address, destNetwork uint32, destAddr common.Address, value *big.Int,
	metadata []byte, forceUpdate bool, l1 *L1, b BlockCtx) []L1Event {
	return br.Deposit(leafTypeMessage, br.NetworkID, sender, destNetwork, destAddr, value, metadata, forceUpdate, l1, b)
}

// BridgeAsset: leafType 0, origin = the token's origin (network, address), metadata = token metadata
// (empty for the native gas token of a network without custom gas token).
func (br *L1Bridge) BridgeAsset(originNetwork uint32, originToken common.Address, destNetwork uint32, destAddr common.Address,
	amount *big.Int, tokenMetadata []byte, forceUpdate bool, l1 *L1, b BlockCtx) []L1Event {
	return br.Deposit(leafTypeAsset, originNetwork, originToken, destNetwork, destAddr, amount, tokenMetadata, forceUpdate, l1, b)
}

// UpdateGlobalExitRoot = updateGlobalExitRoot(): pushes the deposit root only if there were deposits
// since the last push.
func (br *L1Bridge) UpdateGlobalExitRoot(l1 *L1, b BlockCtx) []L1Event {
	if br.LastUpdatedDepositCount < br.Tree.DepositCount {
		br.LastUpdatedDepositCount = br.Tree.DepositCount
		if l1 != nil {
			return l1.UpdateExitRootFromBridge(br.Tree.Root(), b)
		}
	}
	return nil
}

// Clone returns an independent copy (explorers branch on it).
func (l *L1) Clone() *L1 {
	n := *l
	n.GlobalExitRootMap = make(map[Hash]bool, len(l.GlobalExitRootMap))
	for k, v := range l.GlobalExitRootMap {
		n.GlobalExitRootMap[k] = v
	}
	n.RollupIDToLastExitRoot = make(map[uint32]Hash, len(l.RollupIDToLastExitRoot))
	for k, v := range l.RollupIDToLastExitRoot {
		n.RollupIDToLastExitRoot[k] = v
	}
	n.Leaves = append([]InfoLeaf{}, l.Leaves...)
	return &n
}

// Clone returns an independent copy.
func (br *L1Bridge) Clone() *L1Bridge {
	n := *br
	n.Leaves = append([]Hash{}, br.Leaves...)
	return &n
}
