// Package ref holds deliberately boring reference models, written from the definitions and
// sharing no code with aggkit's tree/, bridgesync/ or l1infotreesync/ packages.
package ref

import (
	"encoding/binary"
	"math/big"

	"github.com/ethereum/go-ethereum/common"
	"golang.org/x/crypto/sha3"
)

const Height = 32

type Hash = common.Hash

// Keccak is keccak256 of the concatenation.
func Keccak(parts ...[]byte) Hash {
	h := sha3.NewLegacyKeccak256()
	for _, p := range parts {
		h.Write(p)
	}
	var out Hash
	copy(out[:], h.Sum(nil))
	return out
}

var zero [Height + 1]Hash

func init() {
	for i := 1; i <= Height; i++ {
		zero[i] = Keccak(zero[i-1][:], zero[i-1][:])
	}
}

// Zero returns the root of an empty subtree of the given height (0 = leaf level).
func Zero(level int) Hash { return zero[level] }

// Merkle is a sparse height-32 keccak tree: a plain map from position to leaf value. Root, proof
// and verification are computed recursively from the definition (nothing incremental).
type Merkle struct {
	Leaves map[uint32]Hash
}

func NewMerkle() *Merkle { return &Merkle{Leaves: map[uint32]Hash{}} }

func (m *Merkle) Clone() *Merkle {
	n := NewMerkle()
	for k, v := range m.Leaves {
		n.Leaves[k] = v
	}
	return n
}

func (m *Merkle) Set(i uint32, v Hash) { m.Leaves[i] = v }

// node returns the hash of the subtree at the given level whose leftmost leaf is first
// (first is a multiple of 2^level). keys lists the populated positions inside it.
func (m *Merkle) node(level int, first uint64, keys []uint32) Hash {
	if len(keys) == 0 {
		return zero[level]
	}
	if level == 0 {
		return m.Leaves[uint32(first)]
	}
	half := uint64(1) << (level - 1)
	var l, r []uint32
	for _, k := range keys {
		if uint64(k) < first+half {
			l = append(l, k)
		} else {
			r = append(r, k)
		}
	}
	lh := m.node(level-1, first, l)
	rh := m.node(level-1, first+half, r)
	return Keccak(lh[:], rh[:])
}

func (m *Merkle) keys() []uint32 {
	ks := make([]uint32, 0, len(m.Leaves))
	for k := range m.Leaves {
		ks = append(ks, k)
	}
	return ks
}

// Root of the whole tree.
func (m *Merkle) Root() Hash { return m.node(Height, 0, m.keys()) }

// Proof returns the 32 siblings of position i, leaf level first.
func (m *Merkle) Proof(i uint32) [Height]Hash {
	var p [Height]Hash
	ks := m.keys()
	for level := 0; level < Height; level++ {
		// sibling subtree at this level
		sz := uint64(1) << level
		mine := (uint64(i) >> level) << level
		sib := mine ^ sz
		var in []uint32
		for _, k := range ks {
			if uint64(k) >= sib && uint64(k) < sib+sz {
				in = append(in, k)
			}
		}
		p[level] = m.node(level, sib, in)
	}
	return p
}

// Verify folds leaf and proof (leaf level first) at position i into a root.
func Verify(leaf Hash, proof [Height]Hash, i uint32) Hash {
	cur := leaf
	for level := 0; level < Height; level++ {
		if (uint64(i)>>level)%2 == 1 {
			cur = Keccak(proof[level][:], cur[:])
		} else {
			cur = Keccak(cur[:], proof[level][:])
		}
	}
	return cur
}

// DepositTree is a line-by-line transliteration of DepositContractBase.sol (the bridge's and the
// L1 info tree's incremental Merkle accumulator).
type DepositTree struct {
	Branch       [Height]Hash
	DepositCount uint64
}

// AddLeaf = _addLeaf.
func (d *DepositTree) AddLeaf(leaf Hash) {
	node := leaf
	d.DepositCount++
	size := d.DepositCount
	for height := 0; height < Height; height++ {
		if (size>>height)&1 == 1 {
			d.Branch[height] = node
			return
		}
		node = Keccak(d.Branch[height][:], node[:])
	}
	panic("unreachable: tree full")
}

// Root = getRoot.
func (d *DepositTree) Root() Hash {
	var node, currentZero Hash
	size := d.DepositCount
	for height := 0; height < Height; height++ {
		if (size>>height)&1 == 1 {
			node = Keccak(d.Branch[height][:], node[:])
		} else {
			node = Keccak(node[:], currentZero[:])
		}
		currentZero = Keccak(currentZero[:], currentZero[:])
	}
	return node
}

// BridgeLeaf = getLeafValue: keccak(abi.encodePacked(uint8 leafType, uint32 originNetwork,
// address originAddress, uint32 destinationNetwork, address destinationAddress, uint256 amount,
// bytes32 keccak(metadata))).
func BridgeLeaf(leafType uint8, originNetwork uint32, originAddr common.Address, destNetwork uint32,
	destAddr common.Address, amount *big.Int, metadata []byte) Hash {
	var on, dn [4]byte
	binary.BigEndian.PutUint32(on[:], originNetwork)
	binary.BigEndian.PutUint32(dn[:], destNetwork)
	var amt [32]byte
	if amount != nil {
		amount.FillBytes(amt[:])
	}
	mh := Keccak(metadata)
	return Keccak([]byte{leafType}, on[:], originAddr[:], dn[:], destAddr[:], amt[:], mh[:])
}

// GER = keccak(mainnetExitRoot ‖ rollupExitRoot).
func GER(mer, rer Hash) Hash { return Keccak(mer[:], rer[:]) }

// L1InfoLeaf = getLeafValue of PolygonZkEVMGlobalExitRootV2: keccak(GER ‖ blockhash ‖ uint64 timestamp).
func L1InfoLeaf(ger, parentHash Hash, timestamp uint64) Hash {
	var ts [8]byte
	binary.BigEndian.PutUint64(ts[:], timestamp)
	return Keccak(ger[:], parentHash[:], ts[:])
}

// GlobalIndex = leaf + rollup·2^32 + mainnet·2^64.
func GlobalIndex(mainnet bool, rollup, leaf uint32) *big.Int {
	v := new(big.Int).SetUint64(uint64(leaf))
	v.Add(v, new(big.Int).Lsh(new(big.Int).SetUint64(uint64(rollup)), 32))
	if mainnet {
		v.Add(v, new(big.Int).Lsh(big.NewInt(1), 64))
	}
	return v
}

// AppendRoots returns the root after each append of leaves to an empty tree, computed with BOTH
// references, and panics if they disagree (the references check each other before use).
func AppendRoots(leaves []Hash) []Hash {
	m := NewMerkle()
	var d DepositTree
	out := make([]Hash, len(leaves))
	for i, l := range leaves {
		m.Set(uint32(i), l)
		d.AddLeaf(l)
		r1, r2 := m.Root(), d.Root()
		if r1 != r2 {
			panic("ref: Merkle and DepositTree disagree")
		}
		out[i] = r1
	}
	return out
}
