// Package simchain is a deterministic EVM chain at the level aggkit observes it: numbered blocks
// whose hash is what go-ethereum computes for the served header, logs per block, a tip, a
// finalized pointer, forks, and per-component clients whose every RPC is a scheduler gate.
package simchain

import (
	"context"
	"encoding/binary"
	"fmt"
	"math/big"

	"github.com/ethereum/go-ethereum"
	"github.com/ethereum/go-ethereum/common"
	"github.com/ethereum/go-ethereum/core/types"
	"github.com/ethereum/go-ethereum/crypto"
	"github.com/ethereum/go-ethereum/rpc"
	"verif/h/act"
)

// LogSpec describes one log of a block (before hashes are known).
type LogSpec struct {
	Address common.Address
	Topics  []common.Hash
	Data    []byte
	Removed bool
	// Orphan: the log is served with the hash of a block that is NOT the canonical block of that
	// number (what a node reports for a log of a reorged-away block, together with Removed).
	Orphan bool
}

// Block is one block of the chain.
type Block struct {
	Num    uint64
	Salt   uint64 // fork identity: changes the hash (and that of every descendant)
	Time   uint64
	Logs   []LogSpec
	header *types.Header
}

// Chain holds the canonical chain; index i = block number i (block 0 = genesis).
type Chain struct {
	Blocks    []*Block
	Visible   uint64 // the tip as served to clients (blocks above it exist in the script but are not yet "mined")
	Finalized uint64
	Safe      uint64
	ChainID   uint64
	// Calls answers eth_call by 4-byte selector (hex) → ABI-encoded return data.
	Calls map[string][]byte
	// CallHook, if set, is asked first (after the gate is released): it sees the whole call message and
	// the block argument, so the answer can depend on the arguments and on the chain state at the
	// visible tip; ok=false falls through to Calls.
	CallHook func(call ethereum.CallMsg, blockNumber *big.Int) (ret []byte, ok bool)
}

func New() *Chain {
	c := &Chain{ChainID: 1337, Calls: map[string][]byte{}}
	c.Blocks = []*Block{{Num: 0, Time: 1000}}
	c.seal(0)
	return c
}

func (c *Chain) seal(i int) {
	b := c.Blocks[i]
	var parent common.Hash
	if i > 0 {
		parent = c.Blocks[i-1].header.Hash()
	}
	extra := binary.BigEndian.AppendUint64(nil, b.Salt)
	var dig []byte
	for _, l := range b.Logs {
		dig = append(dig, l.Address[:]...)
		for _, t := range l.Topics {
			dig = append(dig, t[:]...)
		}
		dig = append(dig, l.Data...)
		if l.Removed {
			dig = append(dig, 1)
		}
	}
	extra = append(extra, crypto.Keccak256(dig)[:8]...)
	b.header = &types.Header{ParentHash: parent, Number: new(big.Int).SetUint64(b.Num), Time: b.Time, Extra: extra,
		Difficulty: big.NewInt(0)}
}

// Tip is the highest existing block number.
func (c *Chain) Tip() uint64 { return uint64(len(c.Blocks) - 1) }

// Append adds a block with the given logs on top of the chain (not yet visible unless Visible is moved).
func (c *Chain) Append(salt uint64, logs []LogSpec) *Block {
	n := uint64(len(c.Blocks))
	b := &Block{Num: n, Salt: salt, Time: 1000 + n*12 + salt, Logs: logs}
	c.Blocks = append(c.Blocks, b)
	c.seal(int(n))
	return b
}

// Fork replaces every block >= from (must be above Finalized) by the given new blocks.
func (c *Chain) Fork(from uint64, salt uint64, newBlocks [][]LogSpec) {
	if from <= c.Finalized {
		panic("simchain: fork at or below the finalized block")
	}
	c.Blocks = c.Blocks[:from]
	for _, logs := range newBlocks {
		c.Append(salt, logs)
	}
	if c.Visible > c.Tip() {
		c.Visible = c.Tip()
	}
}

// Hash of block n.
func (c *Chain) Hash(n uint64) common.Hash { return c.Blocks[n].header.Hash() }

// Header of block n (copy).
func (c *Chain) Header(n uint64) *types.Header { return types.CopyHeader(c.Blocks[n].header) }

// LogsOf returns the served logs of block n.
func (c *Chain) LogsOf(n uint64) []types.Log {
	b := c.Blocks[n]
	out := make([]types.Log, 0, len(b.Logs))
	for i, l := range b.Logs {
		bh := b.header.Hash()
		if l.Orphan {
			bh = crypto.Keccak256Hash([]byte("orphaned-block"), bh[:])
		}
		out = append(out, types.Log{Address: l.Address, Topics: l.Topics, Data: l.Data, BlockNumber: n,
			TxHash: crypto.Keccak256Hash([]byte(fmt.Sprintf("tx-%d-%d-%d", n, b.Salt, i))), TxIndex: uint(i),
			BlockHash: bh, Index: uint(i), Removed: l.Removed})
	}
	return out
}

// Client is one component's view of the chain; every method is a gate of the scheduler.
type Client struct {
	C    *Chain
	S    *act.Sched
	Comp string
	// Hook, if set, is called after the gate is released and before the answer is computed.
	Hook func(op string, arg any)
}

func NewClient(c *Chain, s *act.Sched, comp string) *Client { return &Client{C: c, S: s, Comp: comp} }

func (cl *Client) gate(ctx context.Context, op, arg string, info any) error {
	if cl.S != nil { // a client without a scheduler answers at once (its calls are not scheduling points)
		d := cl.S.EnterCtx(ctx, cl.Comp, op, arg, info)
		if d.Err != nil {
			return d.Err
		}
	}
	if ctx != nil && ctx.Err() != nil {
		return ctx.Err()
	}
	if cl.Hook != nil {
		cl.Hook(op, info)
	}
	return nil
}

func (cl *Client) resolve(number *big.Int) (uint64, error) {
	if number == nil {
		return cl.C.Visible, nil
	}
	if number.Sign() >= 0 {
		n := number.Uint64()
		if n > cl.C.Visible {
			return 0, ethereum.NotFound
		}
		return n, nil
	}
	switch number.Int64() {
	case rpc.LatestBlockNumber.Int64(), rpc.PendingBlockNumber.Int64():
		return cl.C.Visible, nil
	case rpc.FinalizedBlockNumber.Int64():
		return cl.C.Finalized, nil
	case rpc.SafeBlockNumber.Int64():
		return cl.C.Safe, nil
	case rpc.EarliestBlockNumber.Int64():
		return 0, nil
	}
	return 0, fmt.Errorf("simchain: unknown block tag %s", number)
}

// TagName names a block-number argument.
func TagName(number *big.Int) string {
	if number == nil {
		return "latest"
	}
	switch number.Int64() {
	case rpc.LatestBlockNumber.Int64():
		return "latest"
	case rpc.PendingBlockNumber.Int64():
		return "pending"
	case rpc.FinalizedBlockNumber.Int64():
		return "finalized"
	case rpc.SafeBlockNumber.Int64():
		return "safe"
	}
	return number.String()
}

func (cl *Client) HeaderByNumber(ctx context.Context, number *big.Int) (*types.Header, error) {
	if err := cl.gate(ctx, "HeaderByNumber", TagName(number), number); err != nil {
		return nil, err
	}
	n, err := cl.resolve(number)
	if err != nil {
		return nil, err
	}
	return cl.C.Header(n), nil
}

func (cl *Client) BlockByNumber(ctx context.Context, number *big.Int) (*types.Block, error) {
	if err := cl.gate(ctx, "BlockByNumber", TagName(number), number); err != nil {
		return nil, err
	}
	n, err := cl.resolve(number)
	if err != nil {
		return nil, err
	}
	return types.NewBlockWithHeader(cl.C.Header(n)), nil
}

func (cl *Client) HeaderByHash(ctx context.Context, hash common.Hash) (*types.Header, error) {
	if err := cl.gate(ctx, "HeaderByHash", hash.Hex()[:10], hash); err != nil {
		return nil, err
	}
	for n := uint64(0); n <= cl.C.Visible; n++ {
		if cl.C.Hash(n) == hash {
			return cl.C.Header(n), nil
		}
	}
	return nil, ethereum.NotFound
}

func (cl *Client) BlockByHash(ctx context.Context, hash common.Hash) (*types.Block, error) {
	h, err := cl.HeaderByHash(ctx, hash)
	if err != nil {
		return nil, err
	}
	return types.NewBlockWithHeader(h), nil
}

func (cl *Client) BlockNumber(ctx context.Context) (uint64, error) {
	if err := cl.gate(ctx, "BlockNumber", "", nil); err != nil {
		return 0, err
	}
	return cl.C.Visible, nil
}

func (cl *Client) ChainID(ctx context.Context) (*big.Int, error) {
	if err := cl.gate(ctx, "ChainID", "", nil); err != nil {
		return nil, err
	}
	return new(big.Int).SetUint64(cl.C.ChainID), nil
}

func (cl *Client) FilterLogs(ctx context.Context, q ethereum.FilterQuery) ([]types.Log, error) {
	arg := fmt.Sprintf("%v..%v", q.FromBlock, q.ToBlock)
	if err := cl.gate(ctx, "FilterLogs", arg, q); err != nil {
		return nil, err
	}
	from, to := uint64(0), cl.C.Visible
	if q.FromBlock != nil {
		from = q.FromBlock.Uint64()
	}
	if q.ToBlock != nil && q.ToBlock.Sign() >= 0 {
		to = q.ToBlock.Uint64()
	}
	if to > cl.C.Visible {
		to = cl.C.Visible
	}
	var out []types.Log
	for n := from; n <= to; n++ {
		for _, l := range cl.C.LogsOf(n) {
			if len(q.Addresses) > 0 {
				ok := false
				for _, a := range q.Addresses {
					if a == l.Address {
						ok = true
					}
				}
				if !ok {
					continue
				}
			}
			out = append(out, l)
		}
	}
	return out, nil
}

func (cl *Client) CallContract(ctx context.Context, call ethereum.CallMsg, blockNumber *big.Int) ([]byte, error) {
	sel := ""
	if len(call.Data) >= 4 {
		sel = fmt.Sprintf("%x", call.Data[:4])
	}
	if err := cl.gate(ctx, "CallContract", sel, call); err != nil {
		return nil, err
	}
	if cl.C.CallHook != nil {
		if r, ok := cl.C.CallHook(call, blockNumber); ok {
			return r, nil
		}
	}
	if r, ok := cl.C.Calls[sel]; ok {
		return r, nil
	}
	return make([]byte, 32), nil
}

func (cl *Client) CodeAt(ctx context.Context, contract common.Address, blockNumber *big.Int) ([]byte, error) {
	return []byte{1}, nil
}

// ---- the rest of BaseEthereumClienter: not used by the code under test; fail loudly if it is

func unsupported(name string) error { return fmt.Errorf("simchain: %s not supported", name) }

func (cl *Client) SubscribeFilterLogs(ctx context.Context, q ethereum.FilterQuery, ch chan<- types.Log) (ethereum.Subscription, error) {
	return nil, unsupported("SubscribeFilterLogs")
}
func (cl *Client) SubscribeNewHead(ctx context.Context, ch chan<- *types.Header) (ethereum.Subscription, error) {
	return nil, unsupported("SubscribeNewHead")
}
func (cl *Client) TransactionCount(ctx context.Context, blockHash common.Hash) (uint, error) {
	return 0, unsupported("TransactionCount")
}
func (cl *Client) TransactionInBlock(ctx context.Context, blockHash common.Hash, index uint) (*types.Transaction, error) {
	return nil, unsupported("TransactionInBlock")
}
func (cl *Client) PendingCodeAt(ctx context.Context, account common.Address) ([]byte, error) {
	return nil, unsupported("PendingCodeAt")
}
func (cl *Client) PendingNonceAt(ctx context.Context, account common.Address) (uint64, error) {
	return 0, unsupported("PendingNonceAt")
}
func (cl *Client) SuggestGasPrice(ctx context.Context) (*big.Int, error) {
	return nil, unsupported("SuggestGasPrice")
}
func (cl *Client) SuggestGasTipCap(ctx context.Context) (*big.Int, error) {
	return nil, unsupported("SuggestGasTipCap")
}
func (cl *Client) EstimateGas(ctx context.Context, call ethereum.CallMsg) (uint64, error) {
	return 0, unsupported("EstimateGas")
}
func (cl *Client) SendTransaction(ctx context.Context, tx *types.Transaction) error {
	return unsupported("SendTransaction")
}
