// Package act is the controlled scheduler (E-ACT) for aggkit's real goroutines. Every call a
// component makes to its environment (an Ethereum RPC, a store call, AddBlockToTrack, ...) goes
// through Sched.Enter, which parks the calling goroutine at a gate until the harness releases it.
// The whole execution runs inside one testing/synctest bubble: after releasing ONE gate (or
// performing one environment event) the harness calls Settle, which returns only when every other
// goroutine of the bubble is durably blocked again (at a gate, in a select, on a timer), so at most
// one goroutine is ever runnable and the execution is a deterministic function of the harness's
// decisions. The fake clock moves only when the harness sleeps.
package act

import (
	"context"
	"fmt"
	"runtime"
	"sort"
	"strings"
	"sync"
	"testing/synctest"
	"time"
)

// Directive is the harness's answer to a parked call.
type Directive struct {
	Err error // non-nil: the call fails with this error and has no effect
	Val any   // optional override / extra information for the callee
}

// Gate is one parked call.
type Gate struct {
	Comp  string // component instance the call belongs to (each component has its own client/wrapper)
	Op    string // operation name
	Arg   string // canonical text of the arguments
	Info  any    // free-form (e.g. the raw argument)
	Stack string // names of the calling functions (innermost first), to tell call sites apart
	Ctx   context.Context // the caller's context, if it passed one (cancelled callers can be released at once)
	seq   int
	reply chan Directive
}

// Cancelled reports whether the caller's context is already cancelled.
func (g *Gate) Cancelled() bool { return g.Ctx != nil && g.Ctx.Err() != nil }

func (g *Gate) String() string { return fmt.Sprintf("%s.%s(%s)", g.Comp, g.Op, g.Arg) }

// Sched collects parked gates.
type Sched struct {
	mu     sync.Mutex
	parked []*Gate
	seq    int
	Steps  int
	// Tick is the fake-time step used to fire pending timers when nothing is parked.
	Tick time.Duration
	// Free: gates do not park (free-running mode for the separate -race pass).
	Free bool
	// Trace, when non-nil, receives every released gate.
	Trace func(g *Gate, d Directive)
}

func New() *Sched { return &Sched{Tick: 2 * time.Millisecond} }

// Enter is called by component goroutines (inside the bubble): parks until released.
func (s *Sched) Enter(comp, op, arg string, info any) Directive {
	return s.EnterCtx(nil, comp, op, arg, info)
}

// EnterCtx is Enter that also records the caller's context.
func (s *Sched) EnterCtx(ctx context.Context, comp, op, arg string, info any) Directive {
	if s.Free {
		return Directive{}
	}
	g := &Gate{Comp: comp, Op: op, Arg: arg, Info: info, reply: make(chan Directive), Stack: callers(), Ctx: ctx}
	s.mu.Lock()
	s.seq++
	g.seq = s.seq
	s.parked = append(s.parked, g)
	s.mu.Unlock()
	return <-g.reply
}

func callers() string {
	pcs := make([]uintptr, 16)
	n := runtime.Callers(4, pcs)
	frames := runtime.CallersFrames(pcs[:n])
	var sb strings.Builder
	for {
		f, more := frames.Next()
		name := f.Function
		if i := strings.LastIndex(name, "/"); i >= 0 {
			name = name[i+1:]
		}
		sb.WriteString(name)
		sb.WriteString(";")
		if !more {
			break
		}
	}
	return sb.String()
}

// Parked returns the gates currently parked, in canonical order (component name, then arrival).
// Call only after Settle.
func (s *Sched) Parked() []*Gate {
	s.mu.Lock()
	defer s.mu.Unlock()
	out := append([]*Gate{}, s.parked...)
	sort.SliceStable(out, func(i, j int) bool {
		if out[i].Comp != out[j].Comp {
			return out[i].Comp < out[j].Comp
		}
		return out[i].seq < out[j].seq
	})
	return out
}

// Release lets the parked call proceed with the directive and waits for quiescence.
func (s *Sched) Release(g *Gate, d Directive) {
	s.mu.Lock()
	for i, x := range s.parked {
		if x == g {
			s.parked = append(s.parked[:i], s.parked[i+1:]...)
			break
		}
	}
	s.mu.Unlock()
	s.Steps++
	if s.Trace != nil {
		s.Trace(g, d)
	}
	g.reply <- d
	synctest.Wait()
}

// Settle waits until every other goroutine in the bubble is durably blocked. If nothing is parked
// it advances the fake clock (up to maxTicks times) so that pending timers (poll tickers, retry
// sleeps) fire, and returns the parked gates.
func (s *Sched) Settle(maxTicks int) []*Gate {
	synctest.Wait()
	for i := 0; i < maxTicks && len(s.Parked()) == 0; i++ {
		time.Sleep(s.Tick)
		synctest.Wait()
	}
	return s.Parked()
}

// SettleIf is Settle that advances the clock while no parked gate satisfies live (gates that the
// harness will never release — e.g. a poll that would see nothing new — must not stop the clock).
func (s *Sched) SettleIf(maxTicks int, live func(*Gate) bool) []*Gate {
	synctest.Wait()
	anyLive := func() bool {
		for _, g := range s.Parked() {
			if live(g) {
				return true
			}
		}
		return false
	}
	for i := 0; i < maxTicks && !anyLive(); i++ {
		time.Sleep(s.Tick)
		synctest.Wait()
	}
	return s.Parked()
}

// Drain releases every parked gate with err until nothing parks any more (used after cancelling
// the components' contexts so that all goroutines can exit and the bubble can end).
func (s *Sched) Drain(err error, maxRounds int) bool {
	for i := 0; i < maxRounds; i++ {
		gs := s.Settle(3)
		if len(gs) == 0 {
			return true
		}
		for _, g := range gs {
			s.Release(g, Directive{Err: err})
		}
	}
	return len(s.Settle(1)) == 0
}
