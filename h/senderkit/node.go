package senderkit

import (
	"context"
	"database/sql"
	"encoding/hex"
	"fmt"
	agglayergrpc "github.com/agglayer/aggkit/agglayer/grpc"
	"math/big"
	"strings"
	"time"

	"github.com/0xPolygon/cdk-contracts-tooling/contracts/pp/l2-sovereign-chain/polygonrollupmanager"
	agglayertypes "github.com/agglayer/aggkit/agglayer/types"
	"github.com/agglayer/aggkit/aggoracle/chaingerreader"
	"github.com/agglayer/aggkit/aggsender"
	"github.com/agglayer/aggkit/aggsender/config"
	aggdb "github.com/agglayer/aggkit/aggsender/db"
	"github.com/agglayer/aggkit/aggsender/flows"
	"github.com/agglayer/aggkit/aggsender/query"
	"github.com/agglayer/aggkit/aggsender/statuschecker"
	"github.com/agglayer/aggkit/aggsender/types"
	"github.com/agglayer/aggkit/bridgesync"
	cfgtypes "github.com/agglayer/aggkit/config/types"
	treetypes "github.com/agglayer/aggkit/tree/types"
	aggkittypes "github.com/agglayer/aggkit/types"
	"github.com/agglayer/go_signer/signer"
	"github.com/ethereum/go-ethereum/common"
	"github.com/ethereum/go-ethereum/crypto"
	_ "github.com/mattn/go-sqlite3"
	"verif/h/kit"
)

// Crash points of the send path.
const (
	CrashBeforeSubmit = "beforeSubmit"
	CrashAfterSubmit  = "afterSubmitBeforeStore"
	CrashAfterStore   = "afterStore"
)

// CrashPoints in the order used for event names.
var CrashPoints = []string{CrashBeforeSubmit, CrashAfterSubmit, CrashAfterStore}

// crashSentinel is the panic value that stands for "the process dies here".
type crashSentinel struct{ point string }

// knobs are the environment switches of one execution, shared by all wrappers.
type knobs struct {
	ag          *Agglayer
	crashAt     string // armed crash point
	crashFired  bool
	faultK      int // armed: the faultK-th write statement of the next SaveLastSentCertificate fails
	faultFired  bool
	faultStmts  int // write statements counted in the last armed call
	proverShort bool
	ctl         *sql.DB // second connection to the certificate DB (fault injection, dumps)
	judged      []Judgement
	trace       func(format string, args ...any)
	saves       int
}

func (k *knobs) tracef(format string, args ...any) {
	if k.trace != nil {
		k.trace(format, args...)
	}
}

// ---------------------------------------------------------------------------------------------
// wrappers around the Agglayer client and the storage (crash points, storage faults)

type clientWrap struct {
	*Agglayer
	k *knobs
	w *agglayergrpc.AgglayerGRPCClient // the real gRPC client over the model's node-state service (wire.go)
}

func (c *clientWrap) SendCertificate(ctx context.Context, cert *agglayertypes.Certificate) (common.Hash, error) {
	if c.k.crashAt == CrashBeforeSubmit {
		c.k.crashFired = true
		panic(crashSentinel{CrashBeforeSubmit})
	}
	id, err := c.Agglayer.SendCertificate(ctx, cert)
	if err == nil && c.k.crashAt == CrashAfterSubmit {
		c.k.crashFired = true
		panic(crashSentinel{CrashAfterSubmit})
	}
	return id, err
}

type storageWrap struct {
	aggdb.AggSenderStorage
	k *knobs
}

func (s *storageWrap) SaveLastSentCertificate(ctx context.Context, cert types.Certificate) error {
	s.k.saves++
	if s.k.faultK > 0 && s.k.ctl != nil {
		k := s.k.faultK
		s.k.faultK = 0 // one shot
		before := DumpRowsRaw(s.k.ctl)
		mustExec(s.k.ctl, `UPDATE verif_fault SET n = 0, armed = ?`, k)
		err := s.AggSenderStorage.SaveLastSentCertificate(ctx, cert)
		var n int
		if e := s.k.ctl.QueryRow(`SELECT n FROM verif_fault`).Scan(&n); e != nil {
			panic(fmt.Sprintf("senderkit: reading fault counter: %v", e))
		}
		mustExec(s.k.ctl, `UPDATE verif_fault SET n = 0, armed = 0`)
		if err != nil {
			s.k.faultFired = true
			after := DumpRowsRaw(s.k.ctl)
			s.k.tracef("storage fault at write statement %d of SaveLastSentCertificate -> %v", k, err)
			if before != after {
				s.k.judged = append(s.k.judged, Judgement{"failed-write-changed-rows",
					fmt.Sprintf("SaveLastSentCertificate failed at write statement %d (%v) but the tables changed:\nbefore:\n%s\nafter:\n%s", k, err, before, after)})
			}
		} else {
			s.k.faultStmts = n
			s.k.tracef("storage fault armed at statement %d but the save has only %d write statements", k, n)
		}
		return err
	}
	err := s.AggSenderStorage.SaveLastSentCertificate(ctx, cert)
	if err == nil && s.k.crashAt == CrashAfterStore {
		s.k.crashFired = true
		panic(crashSentinel{CrashAfterStore})
	}
	return err
}

func mustExec(db *sql.DB, q string, args ...any) {
	if _, err := db.Exec(q, args...); err != nil {
		panic(fmt.Sprintf("senderkit: control statement %q failed: %v", q, err))
	}
}

const triggerBody = ` BEGIN
  UPDATE verif_fault SET n = n + 1 WHERE armed > 0;
  SELECT RAISE(ABORT, 'injected storage fault') WHERE (SELECT armed FROM verif_fault) > 0
     AND (SELECT n FROM verif_fault) = (SELECT armed FROM verif_fault);
END;`

// installFaultTriggers installs the E-FLT triggers (DESIGN §3.4) through the control connection.
func installFaultTriggers(ctl *sql.DB) {
	mustExec(ctl, `CREATE TABLE IF NOT EXISTS verif_fault (id INTEGER PRIMARY KEY CHECK (id = 1), n INTEGER NOT NULL, armed INTEGER NOT NULL)`)
	mustExec(ctl, `INSERT OR IGNORE INTO verif_fault VALUES (1, 0, 0)`)
	for _, tbl := range []string{"certificate_info", "certificate_info_history"} {
		for _, op := range []string{"INSERT", "UPDATE", "DELETE"} {
			mustExec(ctl, fmt.Sprintf(`CREATE TRIGGER IF NOT EXISTS verif_f_%s_%s BEFORE %s ON %s`, tbl, strings.ToLower(op), op, tbl)+triggerBody)
		}
	}
}

// DumpRowsRaw prints every column of both certificate tables (for the byte-identical check).
func DumpRowsRaw(db *sql.DB) string {
	var sb strings.Builder
	for _, q := range []string{`SELECT * FROM certificate_info ORDER BY height`, `SELECT * FROM certificate_info_history ORDER BY height, retry_count`} {
		rows, err := db.Query(q)
		if err != nil {
			panic(fmt.Sprintf("senderkit: %s: %v", q, err))
		}
		cols, _ := rows.Columns()
		for rows.Next() {
			vals := make([]any, len(cols))
			ptrs := make([]any, len(cols))
			for i := range vals {
				ptrs[i] = &vals[i]
			}
			if err := rows.Scan(ptrs...); err != nil {
				panic(err)
			}
			for i, v := range vals {
				if b, ok := v.([]byte); ok {
					fmt.Fprintf(&sb, "%s=%s|", cols[i], hex.EncodeToString(b))
				} else {
					fmt.Fprintf(&sb, "%s=%v|", cols[i], v)
				}
			}
			sb.WriteString("\n")
		}
		rows.Close()
		sb.WriteString("--\n")
	}
	return sb.String()
}

// LocalRow is the canonical projection of one row of certificate_info(_history).
type LocalRow struct {
	Height     uint64
	Retry      int
	ID         common.Hash
	Status     agglayertypes.CertificateStatus
	PrevLER    string
	NewLER     string
	From, To   uint64
	HasProof   bool
	ProofEnd   string
	Root       string
	LeafCount  int64
	CertType   string
	CertSource string
}

// ReadRows reads the canonical projection of a certificate table (timestamps and the signed
// certificate text, which the send path never reads back, are dropped).
func ReadRows(db *sql.DB, table string) []LocalRow {
	rows, err := db.Query(`SELECT height, retry_count, certificate_id, status, previous_local_exit_root, new_local_exit_root, from_block, to_block,
		aggchain_proof, finalized_l1_info_tree_root, l1_info_tree_leaf_count, cert_type, cert_source FROM ` + table + ` ORDER BY height, retry_count`)
	if err != nil {
		panic(fmt.Sprintf("senderkit: reading %s: %v", table, err))
	}
	defer rows.Close()
	var out []LocalRow
	for rows.Next() {
		var r LocalRow
		var id string
		var prev, root, ct, cs sql.NullString
		var proof []byte
		var lc sql.NullInt64
		var retry sql.NullInt64
		var st int
		if err := rows.Scan(&r.Height, &retry, &id, &st, &prev, &r.NewLER, &r.From, &r.To, &proof, &root, &lc, &ct, &cs); err != nil {
			panic(fmt.Sprintf("senderkit: scanning %s: %v", table, err))
		}
		r.Retry = int(retry.Int64)
		r.ID = common.HexToHash(id)
		r.Status = agglayertypes.CertificateStatus(st)
		r.PrevLER, r.Root, r.CertType, r.CertSource, r.LeafCount = prev.String, root.String, ct.String, cs.String, lc.Int64
		if !prev.Valid {
			r.PrevLER = "nil"
		}
		if !root.Valid {
			r.Root = "nil"
		}
		if len(proof) > 0 && string(proof) != "null" {
			r.HasProof = true
			r.ProofEnd = hex.EncodeToString(crypto.Keccak256(proof))[:12]
		}
		out = append(out, r)
	}
	return out
}

// ---------------------------------------------------------------------------------------------
// hand-written fakes of external services

type fakeEpoch struct {
	ready bool
	n     uint64
}

func (f *fakeEpoch) Subscribe(string) <-chan types.EpochEvent {
	ch := make(chan types.EpochEvent, 1)
	if f.ready {
		f.n++
		ch <- types.EpochEvent{Epoch: f.n}
	}
	return ch
}
func (f *fakeEpoch) Start(context.Context)             {}
func (f *fakeEpoch) GetEpochStatus() types.EpochStatus { return types.EpochStatus{Epoch: f.n} }
func (f *fakeEpoch) String() string                    { return "scripted epoch notifier" }

// fakeProver returns a proof for the requested range, or a shorter one when the explorer armed it.
type fakeProver struct{ k *knobs }

func (p *fakeProver) GenerateAggchainProof(_ context.Context, req *types.AggchainProofRequest) (*types.AggchainProof, error) {
	end := req.RequestedEndBlock
	from := req.LastProvenBlock + 1
	if p.k.proverShort {
		p.k.proverShort = false
		if end > from {
			end = from + (end-from-1)/2
		}
		p.k.tracef("prover: proof for (%d,%d] ends early at %d", req.LastProvenBlock, req.RequestedEndBlock, end)
	}
	if end < from {
		return nil, fmt.Errorf("fake prover: empty range (%d,%d]", req.LastProvenBlock, req.RequestedEndBlock)
	}
	return &types.AggchainProof{
		LastProvenBlock: req.LastProvenBlock, EndBlock: end,
		CustomChainData: []byte{0xcc, byte(from), byte(end)},
		LocalExitRoot:   common.Hash{},
		AggchainParams:  hashOf(fmt.Sprintf("aggchain-params-%d-%d", from, end)),
		Context:         map[string][]byte{"end": {byte(end)}},
		SP1StarkProof:   &types.SP1StarkProof{Version: "verif", Proof: []byte{0x51, byte(from), byte(end)}, Vkey: []byte{0x76}},
	}, nil
}

func (p *fakeProver) GenerateOptimisticAggchainProof(*types.AggchainProofRequest, []byte) (*types.AggchainProof, error) {
	return nil, fmt.Errorf("fake prover: optimistic mode is off in this harness")
}

type fakeGERReader struct{}

func (fakeGERReader) GetInjectedGERsForRange(context.Context, uint64, uint64) (map[common.Hash]chaingerreader.InjectedGER, error) {
	return map[common.Hash]chaingerreader.InjectedGER{}, nil
}

type fakeOptimistic struct{}

func (fakeOptimistic) IsOptimisticModeOn() (bool, error) { return false, nil }

type fakeRollupData struct{}

func (fakeRollupData) GetRollupData(*big.Int) (polygonrollupmanager.PolygonRollupManagerRollupDataReturn, error) {
	return polygonrollupmanager.PolygonRollupManagerRollupDataReturn{}, nil // LastLocalExitRoot zero -> empty tree root
}

// l2switch is the node's view of the L2 bridge syncer: it forwards every call to the real store
// that has processed the first *n blocks of the history.
type l2switch struct {
	set *StoreSet
	n   *int
}

func (l l2switch) cur() *bridgesync.BridgeSync { return l.set.L2[*l.n] }
func (l l2switch) GetBlockByLER(ctx context.Context, ler common.Hash) (uint64, error) {
	return l.cur().GetBlockByLER(ctx, ler)
}
func (l l2switch) GetExitRootByIndex(ctx context.Context, index uint32) (treetypes.Root, error) {
	return l.cur().GetExitRootByIndex(ctx, index)
}
func (l l2switch) GetBridges(ctx context.Context, from, to uint64) ([]bridgesync.Bridge, error) {
	return l.cur().GetBridges(ctx, from, to)
}
func (l l2switch) GetClaims(ctx context.Context, from, to uint64) ([]bridgesync.Claim, error) {
	return l.cur().GetClaims(ctx, from, to)
}
func (l l2switch) OriginNetwork() uint32                          { return l.cur().OriginNetwork() }
func (l l2switch) BlockFinality() aggkittypes.BlockNumberFinality { return l.cur().BlockFinality() }
func (l l2switch) GetLastProcessedBlock(ctx context.Context) (uint64, error) {
	return l.cur().GetLastProcessedBlock(ctx)
}

// ---------------------------------------------------------------------------------------------
// the node

// Cfg is the configuration of a unit.
type Cfg struct {
	Flow   string // "PP" | "FEP"
	Retry  bool   // RetryCertAfterInError
	Hist   int
	Faults bool // install the storage-fault triggers (C13)
	// NoPrevLER: the model Agglayer's headers omit the (optional) previous local exit root
	NoPrevLER bool
	// StoreRetriesForever: MaxRetriesStoreCertificate = 0, documented as "retry until the submitted certificate is stored"
	StoreRetriesForever bool
}

func (c Cfg) String() string {
	s := fmt.Sprintf("flow=%s,retry=%v,l2=%s", c.Flow, c.Retry, HistoryNames[c.Hist])
	if c.NoPrevLER {
		s += ",headers-without-prev-ler"
	}
	if c.StoreRetriesForever {
		s += ",store-retries=forever"
	}
	return s
}

type node struct {
	storage *aggdb.AggSenderSQLStorage
	sender  *aggsender.AggSender
	epoch   *fakeEpoch
}

var signerKey = func() []byte {
	b := make([]byte, 32)
	for i := range b {
		b[i] = byte(i + 1)
	}
	return b
}()

func (x *Exec) maxCertSize() uint {
	if x.Cfg.Flow == "FEP" {
		return x.W.Hist.MaxCertSizeFEP
	}
	return x.W.Hist.MaxCertSizePP
}

// buildNode constructs a fresh real node on the certificate DB file (creating it if missing).
func (x *Exec) buildNode() (*node, error) {
	logger := kit.Logger()
	st, err := aggdb.NewAggSenderSQLStorage(logger, aggdb.AggSenderSQLStorageConfig{DBPath: x.dbPath, KeepCertificatesHistory: true})
	if err != nil {
		return nil, fmt.Errorf("NewAggSenderSQLStorage: %w", err)
	}
	if x.k.ctl == nil {
		ctl, err := sql.Open("sqlite3", fmt.Sprintf("file:%s?_journal_mode=WAL&_busy_timeout=5000", x.dbPath))
		if err != nil {
			return nil, err
		}
		x.k.ctl = ctl
	}
	cfg := config.Config{
		StoragePath:                    x.dbPath,
		MaxRetriesStoreCertificate:     map[bool]int{false: 2, true: 0}[x.Cfg.StoreRetriesForever],
		DelayBetweenRetries:            cfgtypes.Duration{Duration: time.Nanosecond}, // the status-tick hook keeps a 1 ns ticker alive: a longer fake sleep would step through every tick
		KeepCertificatesHistory:        true,
		MaxCertSize:                    x.maxCertSize(),
		CheckStatusCertificateInterval: cfgtypes.Duration{Duration: time.Minute},
		RetryCertAfterInError:          x.Cfg.Retry,
		Mode:                           map[string]string{"PP": string(types.PessimisticProofMode), "FEP": string(types.AggchainProofMode)}[x.Cfg.Flow],
	}
	storage := &storageWrap{AggSenderStorage: st, k: x.k}
	client := &clientWrap{Agglayer: x.Ag, k: x.k}
	key, err := crypto.ToECDSA(signerKey)
	if err != nil {
		return nil, err
	}
	sgn := signer.NewLocalSignFromPrivateKey("verif", logger, key, 0)
	l1c := FakeL1{}
	l2 := l2switch{set: x.set, n: &x.N}
	l2q := query.NewBridgeDataQuerier(logger, l2, cfg.DelayBetweenRetries.Duration)
	l1q := query.NewL1InfoTreeDataQuerier(l1c, x.set.L1)
	lerq, err := query.NewLERDataQuerier(common.Address{}, 0, fakeRollupData{})
	if err != nil {
		return nil, err
	}
	base := flows.NewBaseFlow(logger, l2q, storage, l1q, lerq, flows.NewBaseFlowConfig(cfg.MaxCertSize, 0, false))
	var flow types.AggsenderFlow
	switch x.Cfg.Flow {
	case "PP":
		flow = flows.NewPPFlow(logger, base, storage, l1q, l2q, sgn, false, 0)
	case "FEP":
		flow = flows.NewAggchainProverFlow(logger, flows.NewAggchainProverFlowConfig(0), base, &fakeProver{k: x.k}, storage, l1q, l2q,
			query.NewGERDataQuerier(l1q, fakeGERReader{}), l1c, sgn, fakeOptimistic{}, nil)
	default:
		return nil, fmt.Errorf("unknown flow %q", x.Cfg.Flow)
	}
	checker := statuschecker.NewCertStatusChecker(logger, storage, client, L2Network)
	ep := &fakeEpoch{}
	snd := aggsender.NewVerifAggSender(logger, cfg, storage, client, ep, flow, checker, L2Network)
	return &node{storage: st, sender: snd, epoch: ep}, nil
}

func (n *node) close() {
	if n != nil && n.storage != nil {
		n.storage.VerifDB().Close()
	}
}
