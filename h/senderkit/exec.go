package senderkit

import (
	"context"
	"errors"
	"fmt"
	"os"
	"path/filepath"
	"sort"
	"strings"
	"sync/atomic"
	"testing/synctest"
	"time"

	agglayertypes "github.com/agglayer/aggkit/agglayer/types"
	"verif/h/mc"
	"verif/h/ref"
	"verif/h/storekit"
)

// Opts selects the alphabet and the oracle clauses of a property.
type Opts struct {
	// Crashes enables the C13 alphabet: crash points, Restart, LoseDB, storage faults.
	Crashes bool
	// MaxCrashEvents bounds the number of crash/fault events per history.
	MaxCrashEvents int
	// RowsMatchAgglayer enables C02's clause (e): exactly one local row per height the Agglayer received.
	RowsMatchAgglayer bool
	// Contradictions adds the event AgglayerLosesLast (the Agglayer forgets its most recent
	// certificate, then the node restarts): the only way the alphabet produces records that
	// contradict the Agglayer's, so that "refuses to proceed" is exercised.
	Contradictions bool
	// NoPlainFailNext drops the free-standing FailNextAgglayerCall event (explored in C02); a failing
	// first Agglayer call is instead offered together with the restart events (Restart+fail, LoseDB+fail).
	NoPlainFailNext bool
	// Verbose evaluates the invariants and logs the state after EVERY event of the history (replay);
	// otherwise that is done for the last event only: every proper prefix of an explored history is
	// itself an explored history whose last event was checked.
	Verbose bool
	// NoAdvance drops the single-step verdict event (the Agglayer-side situations are then nothing,
	// pending, in error, settled).
	NoAdvance bool
	// ReadFaults > 0: the send iterations are also offered with their k-th SELECT refused, k = 1..ReadFaults (an iteration that
	// compiles fewer statements is the plain iteration: same state, merged by the search)
	ReadFaults int
	// StorageFaultsOnly: of the crash alphabet only the one-shot storage faults of the send path (C02's fault units)
	StorageFaultsOnly bool
}

// Exec is one execution: a history of events applied to fresh real objects.
type Exec struct {
	C   *mc.Ctx
	Cfg Cfg
	Opt Opts
	W   *World

	set    *StoreSet
	N      int // L2 blocks processed so far
	Ag     *Agglayer
	k      *knobs
	dir    string
	dbPath string
	node   *node

	initPending bool   // the node is still inside its start-up reconciliation (it has not entered the send loop)
	initStage   string // why
	budgetUsed  int
	live        bool   // the event being applied is the last one of the history (the new transition)
	stop        bool   // a violation was found: the state is not expanded
	probe       func() // bounded-progress probe to run after key and enabled events are fixed
	// the most recent restart of this history completed its start-up without a contradiction: the node must stay able
	// to proceed in every later state too (e.g. when the certificate it adopted at start-up ends InError afterwards)
	restartedOK             bool
	restartWhy, restartDesc string
	tmpl                    []byte // an empty certificate DB as the real constructor creates it
}

var execSeq atomic.Int64

// Deadline, when set, is the wall-clock time after which executions are no longer started: Run
// then reports a horizon hit (the evidence says exhaustive:false) and the state is not expanded.
var Deadline time.Time

// SetDeadlineFromArgs reads the orchestrator's --deadline <seconds> flag.
func SetDeadlineFromArgs(args []string) {
	for i, a := range args {
		v := ""
		if (a == "--deadline" || a == "-deadline") && i+1 < len(args) {
			v = args[i+1]
		} else if s, ok := strings.CutPrefix(a, "--deadline="); ok {
			v = s
		}
		if v != "" {
			var secs float64
			if _, err := fmt.Sscanf(v, "%g", &secs); err == nil && secs > 0 {
				Deadline = time.Now().Add(time.Duration(secs * float64(time.Second)))
			}
		}
	}
}

// Run executes history on fresh objects and returns the canonical state key and the enabled events.
func Run(c *mc.Ctx, cfg Cfg, opt Opts, w *World, history []string) (key string, enabled []string) {
	if !Deadline.IsZero() && time.Now().After(Deadline) { // real clock: we are outside the bubble here
		c.HorizonHit()
		return "not executed: soft deadline of this invocation reached", nil
	}
	set, err := w.Acquire()
	if err != nil {
		panic(fmt.Sprintf("senderkit: cannot build stores: %v", err))
	}
	defer w.Release(set)
	dir := filepath.Join(w.dir, fmt.Sprintf("x-%d", execSeq.Add(1)))
	if err := os.MkdirAll(dir, 0o755); err != nil {
		panic(err)
	}
	defer os.RemoveAll(dir)
	x := &Exec{C: c, Cfg: cfg, Opt: opt, W: w, set: set, dir: dir, dbPath: filepath.Join(dir, "aggsender.sqlite")}
	x.tmpl = w.EmptyCertDB(cfg.Faults)
	x.Ag = NewAgglayer(w.Hist)
	x.Ag.OmitPrevLER = cfg.NoPrevLER
	x.k = &knobs{ag: x.Ag}
	x.Ag.Trace = func(f string, a ...any) { c.Obs(f, a...) }
	x.k.trace = x.Ag.Trace
	// one bubble per execution: time.Now is a deterministic fake clock, sleeps cost nothing
	synctest.Run(func() { key, enabled = x.run(history) })
	return key, enabled
}

func (x *Exec) run(history []string) (string, []string) {
	defer func() {
		x.node.close()
		if x.k.ctl != nil {
			x.k.ctl.Close()
		}
	}()
	x.startNode()
	if len(history) == 0 || x.Opt.Verbose {
		x.check()
	}
	for i, ev := range history {
		if x.stop {
			break
		}
		x.live = i == len(history)-1
		time.Sleep(100 * time.Second) // every event happens at its own (fake) time
		x.apply(ev)
		if x.live || x.Opt.Verbose {
			x.check()
			x.C.Obs("%-40s => %s", ev, x.oneLine())
		} else {
			x.flushJudgements("")
			x.C.Obs("%s", ev)
		}
	}
	key := x.key()
	x.C.Obs("state %x", ref.Keccak([]byte(key)))
	if x.stop {
		return key, nil
	}
	en := x.enabled()
	if x.probe == nil && x.restartedOK && !x.initPending && x.Opt.Crashes {
		why, desc := x.restartWhy, x.restartDesc
		x.probe = func() { x.probeProgress(why+" earlier in this history", desc) }
	}
	if x.probe != nil {
		// destructive look-ahead on the objects of this execution (they are discarded afterwards)
		x.probe()
		if x.stop {
			return key, nil
		}
	}
	return key, en
}

func (x *Exec) witness(name string) {
	if x.live {
		x.C.Witness(name)
	}
}

func (x *Exec) fail(key, format string, args ...any) {
	x.stop = true
	x.C.Failf(key, "[%s] "+format, append([]any{x.Cfg.String()}, args...)...)
}

// ---------------------------------------------------------------------------------------------
// node life cycle

func (x *Exec) startNode() {
	if _, err := os.Stat(x.dbPath); os.IsNotExist(err) {
		// no certificate DB: the node starts on an empty one
		if err := os.WriteFile(x.dbPath, x.tmpl, 0o644); err != nil {
			panic(err)
		}
	}
	n, err := x.buildNode()
	if err != nil {
		panic(fmt.Sprintf("senderkit: building the node: %v", err))
	}
	x.node = n
	x.runInit()
}

// runInit runs the real start-up steps (VerifInit). The reconciliation loop retries forever by
// design; "never completes" = it is still failing after three retries, at which point the context
// is cancelled.
func (x *Exec) runInit() {
	ctx, cancel := context.WithCancel(context.Background())
	defer cancel()
	attempts := 0
	x.Ag.OnCall = func(m string) {
		if m == "GetLatestSettledCertificateHeader" {
			attempts++
			if attempts > 4 {
				cancel()
			}
		}
	}
	var err error
	crashed, pan := x.guard(func() { err = x.node.sender.VerifInit(ctx) })
	x.Ag.OnCall = nil
	switch {
	case crashed || pan != "":
		x.initPending, x.initStage = true, "panic: "+pan
	case err == nil:
		x.initPending, x.initStage = false, ""
	case errors.Is(err, context.Canceled):
		x.initPending, x.initStage = true, "reconciliation"
	default:
		x.initPending, x.initStage = true, "flow-startup-check: "+err.Error()
		x.C.Obs("VerifInit: flow start-up check failed: %v", err)
	}
}

// guard runs f; a crash sentinel is recovered (crashed=true); any other panic is reported.
func (x *Exec) guard(f func()) (crashed bool, other string) {
	defer func() {
		if r := recover(); r != nil {
			if _, ok := r.(crashSentinel); ok {
				crashed = true
				return
			}
			other = fmt.Sprint(r)
		}
	}()
	f()
	return false, ""
}

// restart throws every object away and builds a new node on the same files.
func (x *Exec) restart(why string) {
	x.node.close()
	x.node = nil
	x.k.crashAt, x.k.faultK = "", 0
	desc, contradiction := x.localSituation() // what the restarting node finds, seen from outside
	x.startNode()
	x.C.Obs("restart (%s; %s): start-up %s", why, desc, map[bool]string{false: "completed", true: "did NOT complete (" + x.initStage + ")"}[x.initPending])
	x.Ag.FailCall = 0 // an armed n-th-call failure concerns the calls of this start-up only
	x.judgeRestart(why, desc, contradiction)
}

// localSituation describes, from outside the node, how its last record relates to the Agglayer.
func (x *Exec) localSituation() (desc string, contradiction bool) {
	var rows []LocalRow
	if x.k.ctl != nil {
		rows = ReadRows(x.k.ctl, "certificate_info")
	}
	maxH, any := x.Ag.MaxHeight()
	for _, r := range rows {
		if !x.Ag.Knows(r.ID) {
			// One situation gets a name of its own (a known finding is recorded under it): the Agglayer has lost the RETRY of
			// an InError certificate that the node had recorded (also InError meanwhile) and still holds the earlier, failed
			// certificate of that height, which the node knows from its history table.
			if last := x.Ag.Last(); last != nil && r.Status == agglayertypes.InError && last.Status == agglayertypes.InError &&
				last.Height == r.Height && x.k.ctl != nil {
				for _, h := range ReadRows(x.k.ctl, "certificate_info_history") {
					if h.ID == last.ID && h.Height == r.Height && h.Retry < r.Retry {
						return "local-id-unknown-to-agglayer/in-error-retry-lost-by-the-agglayer-which-holds-the-earlier-in-error-certificate", true
					}
				}
			}
			return "local-id-unknown-to-agglayer", true
		}
		if !any || r.Height > maxH {
			return "local-height-above-agglayer", true
		}
	}
	if len(rows) == 0 {
		if !any {
			return "both-empty", false
		}
		return "local-empty", false
	}
	l := rows[len(rows)-1]
	last := x.Ag.Last()
	switch {
	case last.ID == l.ID:
		return "local-is-agglayer-latest", false
	case last.Height == l.Height:
		return "agglayer-has-unrecorded-replacement-at-same-height", false
	case last.Height == l.Height+1:
		return "agglayer-has-unrecorded-next-height", false
	}
	return "agglayer-further-ahead", false
}

// judgeRestart is the C13 oracle for a restart: records contradict the Agglayer's <=> the node
// refuses to proceed; otherwise bounded progress.
func (x *Exec) judgeRestart(why, desc string, contradiction bool) {
	x.witness("restart/" + desc)
	switch {
	case contradiction && !x.initPending:
		x.fail("proceeds-despite-contradiction/"+desc, "after %s the node's records contradict the Agglayer's (%s) but start-up completed.\nlocal:\n%s\nagglayer:\n%s",
			why, desc, x.localDump(), x.Ag.Dump())
	case !contradiction && x.initPending && x.initStage == "reconciliation":
		x.fail("restart-refuses/reconciliation/"+desc,
			"after %s nothing in the node's records contradicts the Agglayer's (%s: every local id is known to the Agglayer, no local height above the Agglayer's), "+
				"but the start-up reconciliation still fails after 3 retries (it retries the same comparison forever).\nlocal:\n%s\nagglayer:\n%s",
			why, desc, x.localDump(), x.Ag.Dump())
	case !contradiction && x.initPending:
		x.fail("restart-refuses/"+strings.SplitN(x.initStage, ":", 2)[0], "after %s nothing in the node's records contradicts the Agglayer's (%s) but the node does not start (Start panics on this error): %s.\nlocal:\n%s\nagglayer:\n%s",
			why, desc, x.initStage, x.localDump(), x.Ag.Dump())
	}
	x.restartedOK, x.restartWhy, x.restartDesc = !contradiction && !x.initPending, why, desc
	if !x.stop && !x.initPending && x.live {
		x.probe = func() { x.probeProgress(why, desc) }
	}
}

// probeProgress is the bounded-progress clause: once the Agglayer has closed everything and unsent
// L2 events exist, at most two epoch ticks produce a submission. It runs on the objects of this
// execution after the state key is fixed by the caller (the execution is discarded afterwards).
func (x *Exec) probeProgress(why, desc string) {
	x.Ag.FailNext, x.Ag.FailCall, x.k.proverShort = false, 0, false
	for _, e := range x.Ag.OpenEntries() {
		x.Ag.Settle(e)
	}
	lastTo := uint64(0)
	if s := x.Ag.LastSettled(); s != nil {
		lastTo = s.To
	}
	unsent := 0
	if uint64(x.N) > lastTo {
		unsent = len(x.W.Hist.ExitsIn(lastTo+1, uint64(x.N))) + len(x.W.Hist.ClaimsIn(lastTo+1, uint64(x.N)))
	}
	if unsent == 0 {
		x.witness("progress-probe/nothing-unsent")
		return
	}
	before := len(x.Ag.Entries)
	for i := 0; i < 2 && len(x.Ag.Entries) == before; i++ {
		time.Sleep(100 * time.Second)
		x.tick(true, "", 0)
	}
	x.flushJudgements("in the progress probe after " + why)
	if len(x.Ag.Entries) == before {
		x.fail("no-progress-after-restart/"+desc, "after %s (%s) start-up completed, the Agglayer has closed every certificate and %d L2 events of blocks [%d,%d] are unsent, "+
			"but two epoch ticks produced no submission.\nlocal:\n%s\nagglayer:\n%s", why, desc, unsent, lastTo+1, x.N, x.localDump(), x.Ag.Dump())
		return
	}
	x.witness("progress-probe/submitted")
}

// ---------------------------------------------------------------------------------------------
// events

func (x *Exec) openTarget() *Entry {
	if o := x.Ag.OpenEntries(); len(o) > 0 {
		return o[0]
	}
	return nil
}

// tick runs one iteration of the real send loop.
func (x *Exec) tick(epoch bool, crashAt string, faultK int) (crashed bool) {
	if x.initPending {
		// the node is still in its start-up loop: a tick is another round of it
		x.runInit()
		return false
	}
	x.k.crashAt, x.k.faultK, x.k.crashFired, x.k.faultFired = crashAt, faultK, false, false
	before := len(x.Ag.Entries)
	crashed, other := x.guard(func() {
		ctx, cancel := context.WithCancel(context.Background())
		defer cancel()
		x.node.epoch.ready = epoch
		if epoch {
			x.node.sender.VerifEpochTick(ctx)
		} else {
			x.node.sender.VerifStatusTick(ctx)
		}
	})
	x.k.crashAt, x.k.faultK = "", 0
	if other != "" {
		x.fail("node-panic", "the send loop panicked: %s", other)
	}
	if len(x.Ag.Entries) > before {
		x.witness("submission")
		e := x.Ag.Last()
		if e.Height > 0 {
			x.witness("submission-at-height>0")
		}
		for _, o := range x.Ag.Entries[:before] {
			if o.Height == e.Height && o.Status == agglayertypes.InError {
				x.witness("replacement-of-in-error-certificate")
				if o.ID == e.ID {
					x.witness("replacement-with-identical-id")
				}
				break
			}
		}
		if !epoch {
			x.witness("submission-from-status-tick")
		}
		if int(e.To) < x.N {
			x.witness("certificate-ends-before-last-processed-block")
		}
	}
	return crashed
}

func (x *Exec) apply(ev string) {
	name, arg, _ := strings.Cut(ev, "/")
	if base, ok := strings.CutSuffix(name, "+fail"); ok {
		// the restart happens while the Agglayer is unreachable: its first call fails without effect
		name = base
		x.Ag.FailNext = true
	}
	if base, ok := strings.CutSuffix(name, "+fail2"); ok {
		// the SECOND call of the start-up fails (the first one, the settled-certificate query, is answered)
		name = base
		x.Ag.FailCall = 2
	}
	recoveryFault := false
	if base, ok := strings.CutSuffix(name, "+fault"); ok {
		// the first write statement of the save made by the start-up reconciliation fails
		name = base
		recoveryFault = true
	}
	switch name {
	case "L2Block":
		if x.N < x.W.Hist.NumBlocks() {
			x.N++
		}
	case "EpochTick", "StatusTick":
		crashAt, faultK := "", 0
		failAtRestart := 0
		if base, ok := strings.CutSuffix(arg, "+fail2"); ok {
			arg, failAtRestart = base, 2
		}
		if strings.HasPrefix(arg, "crash@") {
			crashAt = strings.TrimPrefix(arg, "crash@")
		} else if strings.HasPrefix(arg, "fault@") {
			fmt.Sscanf(strings.TrimPrefix(arg, "fault@"), "%d", &faultK)
		}
		readK := 0
		var disarm func() (int, bool)
		if strings.HasPrefix(arg, "readfault@") {
			// the readK-th SELECT any store of the node compiles during this iteration is refused (storekit's statement
			// gate in failing-read mode): an error that is neither "no rows" nor a cancellation
			fmt.Sscanf(strings.TrimPrefix(arg, "readfault@"), "%d", &readK)
			disarm = storekit.GateReadFailsAt(readK)
		}
		crashed := x.tick(name == "EpochTick", crashAt, faultK)
		if disarm != nil {
			x.budgetUsed++
			if _, fired := disarm(); fired {
				x.witness("read-fault-fired")
				x.k.tracef("read fault: SELECT number %d of the iteration was refused", readK)
			} else {
				x.witness("read-fault-not-reached")
			}
		}
		if crashAt != "" {
			x.budgetUsed++
			if crashed {
				x.witness("crash-fired@" + crashAt)
			} else {
				x.witness("crash-point-not-reached(stop-after-tick)")
			}
			// the process stops here: at the armed point if it was reached, after the iteration otherwise
			x.Ag.FailCall = failAtRestart // (the n-th Agglayer call of the start-up fails once)
			x.restart("a stop at " + crashAt + map[bool]string{true: "", false: " (point not reached: stop after the iteration)"}[crashed])
		}
		if faultK > 0 {
			x.budgetUsed++
			if x.k.faultFired {
				x.witness(fmt.Sprintf("storage-fault-fired@%d", faultK))
			} else {
				x.witness("storage-fault-not-reached")
			}
		}
	case "Advance":
		if e := x.openTarget(); e != nil {
			x.Ag.Advance(e)
		}
	case "Settle":
		if e := x.openTarget(); e != nil {
			x.Ag.Settle(e)
			if e.Height >= 1 {
				x.witness("settled-at-height>=1")
			}
			if e.Height >= 2 {
				x.witness("settled-at-height>=2")
			}
		}
	case "InError":
		if e := x.openTarget(); e != nil {
			x.Ag.Fail(e)
		}
	case "FailNext":
		x.Ag.FailNext = true
	case "ProverShort":
		x.k.proverShort = true
	case "Restart":
		x.budgetUsed++
		x.restart("a stop between two iterations")
	case "AgglayerLosesLast":
		x.budgetUsed++
		if n := len(x.Ag.Entries); n > 0 {
			x.C.Obs("the Agglayer forgets submission #%d", n-1)
			x.Ag.Entries = x.Ag.Entries[:n-1]
		}
		x.restart("the Agglayer losing its most recent certificate")
	case "LoseDB":
		x.budgetUsed++
		sit := "nothing"
		if l := x.Ag.Last(); l != nil {
			sit = l.Status.String()
		}
		x.witness("lose-db/agglayer-latest=" + sit)
		x.node.close()
		x.node = nil
		if x.k.ctl != nil {
			x.k.ctl.Close()
			x.k.ctl = nil
		}
		for _, suffix := range []string{"", "-wal", "-shm"} {
			os.Remove(x.dbPath + suffix)
		}
		x.k.crashAt, x.k.faultK = "", 0
		if recoveryFault {
			x.k.faultK, x.k.faultFired = 1, false
		}
		desc, contradiction := x.localSituation()
		x.startNode()
		if recoveryFault {
			x.witness(map[bool]string{true: "storage-fault-fired-in-recovery-save", false: "storage-fault-in-recovery-not-reached"}[x.k.faultFired])
			x.k.faultK = 0
		}
		x.C.Obs("certificate DB lost (%s); restart: start-up %s", desc, map[bool]string{false: "completed", true: "did NOT complete (" + x.initStage + ")"}[x.initPending])
		x.judgeRestart("losing the certificate database", desc, contradiction)
	default:
		panic("senderkit: unknown event " + ev)
	}
}

// enabled lists the events enabled in the current state, in canonical order.
func (x *Exec) enabled() []string {
	var ev []string
	if x.N < x.W.Hist.NumBlocks() {
		ev = append(ev, "L2Block")
	}
	ev = append(ev, "EpochTick", "StatusTick")
	open := x.Ag.OpenEntries()
	if len(open) > 0 {
		if s := open[0].Status; !x.Opt.NoAdvance && (s == agglayertypes.Pending || s == agglayertypes.Proven) {
			ev = append(ev, "Advance")
		}
		ev = append(ev, "Settle", "InError")
	}
	if !x.Ag.FailNext && !x.Opt.NoPlainFailNext {
		ev = append(ev, "FailNext")
	}
	if x.Cfg.Flow == "FEP" && !x.k.proverShort {
		ev = append(ev, "ProverShort")
	}
	if x.Opt.Crashes && x.budgetUsed < x.Opt.MaxCrashEvents {
		only := x.Opt.StorageFaultsOnly
		if !only {
			ev = append(ev, "Restart", "LoseDB")
		}
		if x.Opt.NoPlainFailNext && !only {
			ev = append(ev, "Restart+fail", "LoseDB+fail", "Restart+fail2", "LoseDB+fail2")
		}
		if x.Cfg.Faults && len(x.Ag.Entries) > 0 && !only {
			ev = append(ev, "LoseDB+fault") // the recovery save is a save transaction too
		}
		if x.Opt.Contradictions && len(x.Ag.Entries) > 0 && x.Ag.Last().Status != agglayertypes.Settled {
			// (a settled certificate is final, DESIGN §5.5: the model Agglayer never loses one)
			ev = append(ev, "AgglayerLosesLast")
		}
		// An iteration can submit only when nothing is undecided and something is unsent (a submission
		// in any other state is already a violation found by the plain tick), so the crash points and
		// storage faults of the send path are placed on those iterations only; a stop anywhere else is
		// the Restart event. A save has one write statement, or three when it replaces a row.
		last := x.Ag.Last()
		replacing := last != nil && last.Status == agglayertypes.InError
		unsent := replacing || (last == nil && x.N > 0) || (last != nil && uint64(x.N) > last.To)
		if len(open) == 0 && !x.initPending && unsent {
			kinds := []string{"EpochTick"}
			if x.Cfg.Retry && replacing {
				kinds = append(kinds, "StatusTick")
			}
			nf := 1
			if replacing {
				nf = 3
			}
			for _, k := range kinds {
				for _, p := range CrashPoints {
					if x.Opt.StorageFaultsOnly {
						break
					}
					ev = append(ev, k+"/crash@"+p)
					if x.Opt.NoPlainFailNext && p == "afterSubmitBeforeStore" && k == "EpochTick" {
						// the node comes back while the Agglayer answers its first query and fails the second one
						ev = append(ev, k+"/crash@"+p+"+fail2")
					}
				}
				for f := 1; f <= nf; f++ {
					ev = append(ev, fmt.Sprintf("%s/fault@%d", k, f))
				}
				if x.Opt.ReadFaults > 0 && k == "EpochTick" {
					for f := 1; f <= x.Opt.ReadFaults; f++ {
						ev = append(ev, fmt.Sprintf("%s/readfault@%d", k, f))
					}
				}
			}
		}
	}
	return ev
}

// ---------------------------------------------------------------------------------------------
// invariants and canonical state

func (x *Exec) flushJudgements(where string) {
	for _, j := range x.Ag.Judged {
		x.fail(j.Key, "%s%s", j.What, suffix(where))
	}
	x.Ag.Judged = nil
	for _, j := range x.k.judged {
		x.fail(j.Key, "%s%s", j.What, suffix(where))
	}
	x.k.judged = nil
}

func suffix(s string) string {
	if s == "" {
		return ""
	}
	return " (" + s + ")"
}

// check evaluates the state invariants: judgements of the model Agglayer, the settled prefix
// (oracle d) and the local table (oracle e).
func (x *Exec) check() {
	x.flushJudgements("")
	for _, j := range x.Ag.CheckSettledPrefix() {
		x.fail(j.Key, "%s", j.What)
	}
	rows := ReadRows(x.k.ctl, "certificate_info")
	seen := map[uint64]int{}
	for _, r := range rows {
		seen[r.Height]++
	}
	for h, n := range seen {
		if n > 1 {
			x.fail("more-than-one-local-row-per-height", "certificate_info holds %d rows for height %d:\n%s", n, h, x.localDump())
		}
	}
	if x.Opt.RowsMatchAgglayer {
		want := map[uint64]bool{}
		for _, e := range x.Ag.Entries {
			want[e.Height] = true
		}
		var missing, extra []uint64
		for h := range want {
			if seen[h] == 0 {
				missing = append(missing, h)
			}
		}
		for h := range seen {
			if !want[h] {
				extra = append(extra, h)
			}
		}
		if len(missing)+len(extra) > 0 {
			sort.Slice(missing, func(i, j int) bool { return missing[i] < missing[j] })
			sort.Slice(extra, func(i, j int) bool { return extra[i] < extra[j] })
			x.fail("local-rows-differ-from-submitted-heights", "certificate_info lacks heights %v / has unsubmitted heights %v.\nlocal:\n%s\nagglayer:\n%s",
				missing, extra, x.localDump(), x.Ag.Dump())
		}
	}
}

func (x *Exec) rowString(r LocalRow) string {
	return fmt.Sprintf("h=%d retry=%d %s %s [%d,%d] prev=%s new=%s proof=%v:%s root=%s leaves=%d type=%s src=%s", r.Height, r.Retry, x.Ag.NameOf(r.ID),
		r.Status, r.From, r.To, shortS(r.PrevLER), shortS(r.NewLER), r.HasProof, r.ProofEnd, shortS(r.Root), r.LeafCount, r.CertType, r.CertSource)
}

func shortS(s string) string {
	if len(s) > 10 {
		return s[:10]
	}
	return s
}

func (x *Exec) localDump() string {
	var sb strings.Builder
	for _, r := range ReadRows(x.k.ctl, "certificate_info") {
		sb.WriteString("  " + x.rowString(r) + "\n")
	}
	for _, r := range ReadRows(x.k.ctl, "certificate_info_history") {
		sb.WriteString("  history: " + x.rowString(r) + "\n")
	}
	return sb.String()
}

func (x *Exec) oneLine() string {
	var loc []string
	for _, r := range ReadRows(x.k.ctl, "certificate_info") {
		loc = append(loc, fmt.Sprintf("h%d:%s:%s[%d,%d]r%d", r.Height, x.Ag.NameOf(r.ID), r.Status, r.From, r.To, r.Retry))
	}
	var ag []string
	for _, e := range x.Ag.Entries {
		ag = append(ag, fmt.Sprintf("#%d:h%d:%s[%d,%d]", e.Ord, e.Height, e.Status, e.From, e.To))
	}
	s := fmt.Sprintf("L2=%d local{%s} agglayer{%s}", x.N, strings.Join(loc, " "), strings.Join(ag, " "))
	if x.initPending {
		s += " START-UP-NOT-COMPLETED(" + x.initStage + ")"
	}
	return s
}

// key is the canonical projection of the whole state: local rows (ids renamed, timestamps and the
// signed text dropped), the model Agglayer, the L2 position, armed failures, the crash budget.
func (x *Exec) key() string {
	var sb strings.Builder
	sb.WriteString(x.localDump())
	sb.WriteString(x.Ag.Dump())
	fmt.Fprintf(&sb, "\nL2=%d proverShort=%v initPending=%v(%s)", x.N, x.k.proverShort, x.initPending, strings.SplitN(x.initStage, ":", 2)[0])
	if x.Opt.Crashes {
		fmt.Fprintf(&sb, " crashBudgetUsed=%d", x.budgetUsed)
	}
	return sb.String()
}
