// Package senderkit drives the REAL aggsender (loop body, status checker, flows, SQLite storage)
// against real L2 bridge / L1 info tree stores and a model Agglayer that judges every submission.
// It is shared by the C02 and C13 harnesses.
package senderkit

import (
	"context"
	"fmt"
	"math/big"
	"os"
	"path/filepath"
	"sync"
	"sync/atomic"

	aggdb "github.com/agglayer/aggkit/aggsender/db"
	"github.com/agglayer/aggkit/bridgesync"
	"github.com/agglayer/aggkit/l1infotreesync"
	aggsync "github.com/agglayer/aggkit/sync"
	treetypes "github.com/agglayer/aggkit/tree/types"
	aggkittypes "github.com/agglayer/aggkit/types"
	"github.com/ethereum/go-ethereum/common"
	ethtypes "github.com/ethereum/go-ethereum/core/types"
	"verif/h/kit"
	"verif/h/ref"
)

const (
	// L2Network is the network id of the chain whose aggsender is under test (rollup index 0).
	L2Network uint32 = 1
	// OtherRollup is another rollup (rollup index 1) from which one claim originates.
	OtherRollup uint32 = 2
	// FinalizedL1 is the finalized L1 block of the mini-world; the L1 info tree store has processed it.
	FinalizedL1 uint64 = 3
)

// ExitRef is the reference form of one L2 bridge exit (what a settled certificate must contain).
type ExitRef struct {
	Block uint64
	Key   string
}

// ClaimRef is the reference form of one L2 claim.
type ClaimRef struct {
	Block uint64
	Key   string
}

// History is one L2 event history (the scenario of a unit).
type History struct {
	Name   string
	Blocks []aggsync.Block // blocks 1..N as fed to the real bridge store
	Exits  []ExitRef       // reference: all bridge exits in chain order
	Claims []ClaimRef      // reference: all claims in chain order
	// MaxCertSize per flow (0 = no limit)
	MaxCertSizePP, MaxCertSizeFEP uint
}

// NumBlocks is the length of the history.
func (h *History) NumBlocks() int { return len(h.Blocks) }

// ExitsIn returns the reference exits of blocks [from,to].
func (h *History) ExitsIn(from, to uint64) []string {
	var out []string
	for _, e := range h.Exits {
		if e.Block >= from && e.Block <= to {
			out = append(out, e.Key)
		}
	}
	return out
}

// ClaimsIn returns the reference claims of blocks [from,to].
func (h *History) ClaimsIn(from, to uint64) []string {
	var out []string
	for _, e := range h.Claims {
		if e.Block >= from && e.Block <= to {
			out = append(out, e.Key)
		}
	}
	return out
}

// ExitKey is the canonical identity of a bridge exit as the Agglayer sees it. metaHash is
// keccak(metadata) for non-empty metadata, empty otherwise.
func ExitKey(leafType uint8, originNet uint32, originAddr common.Address, destNet uint32, destAddr common.Address,
	amount *big.Int, metaHash []byte) string {
	a := "0"
	if amount != nil {
		a = amount.String()
	}
	return fmt.Sprintf("lt%d|on%d|%s|dn%d|%s|amt%s|m%x", leafType, originNet, originAddr.Hex(), destNet, destAddr.Hex(), a, metaHash)
}

func metaHash(md []byte) []byte {
	if len(md) == 0 {
		return nil
	}
	h := ref.Keccak(md)
	return h[:]
}

// ClaimKey is the canonical identity of an imported bridge exit.
func ClaimKey(mainnet bool, rollupIdx, leafIdx uint32, exitKey string) string {
	return fmt.Sprintf("gi(%v,%d,%d)|%s", mainnet, rollupIdx, leafIdx, exitKey)
}

// ---------------------------------------------------------------------------------------------
// the hand-built consistent mini-world for claims (mainnet exit tree, another rollup's exit tree,
// the rollup exit tree, the L1 info tree)

type l1deposit struct {
	leafType   uint8
	originNet  uint32
	originAddr common.Address
	destNet    uint32
	destAddr   common.Address
	amount     *big.Int
	metadata   []byte
}

func (d l1deposit) leaf() ref.Hash {
	return ref.BridgeLeaf(d.leafType, d.originNet, d.originAddr, d.destNet, d.destAddr, d.amount, d.metadata)
}

type claimWorld struct {
	mainnet  []l1deposit // leaves 0.. of the mainnet exit tree, all destined to L2Network
	other    []l1deposit // leaves of OtherRollup's local exit tree
	mer, rer ref.Hash
	ger      ref.Hash
	mProofs  [][ref.Height]ref.Hash // proofs of mainnet leaves against mer
	oProofs  [][ref.Height]ref.Hash // proofs of other-rollup leaves against its LER
	rerProof [ref.Height]ref.Hash   // proof of OtherRollup's LER (index 1) against rer
}

func addr(b byte) common.Address {
	var a common.Address
	for i := range a {
		a[i] = b
	}
	return a
}

func hashOf(s string) common.Hash { return ref.Keccak([]byte(s)) }

func buildClaimWorld() *claimWorld {
	cw := &claimWorld{}
	cw.mainnet = []l1deposit{
		{0, 0, common.Address{}, L2Network, addr(0xa1), big.NewInt(7001), nil},
		{1, 0, addr(0x33), L2Network, addr(0xa2), big.NewInt(0), []byte("hello-l2")},
		{0, 0, addr(0x44), L2Network, addr(0xa3), big.NewInt(7003), []byte{1, 2, 3}},
	}
	cw.other = []l1deposit{
		{0, OtherRollup, addr(0x55), L2Network, addr(0xa4), big.NewInt(8001), nil},
	}
	mt := ref.NewMerkle()
	for i, d := range cw.mainnet {
		mt.Set(uint32(i), d.leaf())
	}
	cw.mer = mt.Root()
	for i := range cw.mainnet {
		cw.mProofs = append(cw.mProofs, mt.Proof(uint32(i)))
	}
	ot := ref.NewMerkle()
	for i, d := range cw.other {
		ot.Set(uint32(i), d.leaf())
	}
	oler := ot.Root()
	for i := range cw.other {
		cw.oProofs = append(cw.oProofs, ot.Proof(uint32(i)))
	}
	rt := ref.NewMerkle()
	rt.Set(OtherRollup-1, oler) // rollup index 1
	cw.rer = rt.Root()
	cw.rerProof = rt.Proof(OtherRollup - 1)
	cw.ger = ref.GER(cw.mer, cw.rer)
	// self-check: the references must agree with each other before use
	for i, d := range cw.mainnet {
		if ref.Verify(d.leaf(), cw.mProofs[i], uint32(i)) != cw.mer {
			panic("senderkit: inconsistent mainnet proof")
		}
	}
	for i, d := range cw.other {
		if ref.Verify(ref.Verify(d.leaf(), cw.oProofs[i], uint32(i)), cw.rerProof, OtherRollup-1) != cw.rer {
			panic("senderkit: inconsistent rollup proof")
		}
	}
	return cw
}

func toProof(p [ref.Height]ref.Hash) treetypes.Proof {
	var out treetypes.Proof
	for i := range p {
		out[i] = p[i]
	}
	return out
}

// ---------------------------------------------------------------------------------------------
// history construction

type histBuilder struct {
	h        *History
	cw       *claimWorld
	deposits uint32
	cur      *aggsync.Block
	pos      uint64
}

func newHist(name string, cw *claimWorld) *histBuilder {
	return &histBuilder{h: &History{Name: name}, cw: cw}
}

func (b *histBuilder) block() *histBuilder {
	num := uint64(len(b.h.Blocks) + 1)
	b.h.Blocks = append(b.h.Blocks, aggsync.Block{Num: num, Hash: hashOf(fmt.Sprintf("%s/l2block/%d", b.h.Name, num))})
	b.cur = &b.h.Blocks[len(b.h.Blocks)-1]
	b.pos = 0
	return b
}

// bridge adds one bridge exit to the current block. Every field a real downloader sets is set.
func (b *histBuilder) bridge(leafType uint8, originNet uint32, originAddr common.Address, destNet uint32, metadata []byte) *histBuilder {
	dc := b.deposits
	b.deposits++
	amount := big.NewInt(int64(1000 + dc)) // unique per exit: makes the identity of an exit unambiguous
	if leafType == 1 {
		amount = big.NewInt(0)
	}
	dest := addr(byte(0xd0 + dc))
	br := &bridgesync.Bridge{
		BlockNum: b.cur.Num, BlockPos: b.pos, FromAddress: addr(0xf0), TxHash: hashOf(fmt.Sprintf("%s/tx/%d/%d", b.h.Name, b.cur.Num, b.pos)),
		Calldata: []byte{0xca, 0x11, byte(dc)}, BlockTimestamp: 1_700_000_000 + b.cur.Num*12,
		LeafType: leafType, OriginNetwork: originNet, OriginAddress: originAddr, DestinationNetwork: destNet,
		DestinationAddress: dest, Amount: amount, Metadata: metadata, DepositCount: dc,
		IsNativeToken: originAddr == (common.Address{}),
	}
	b.cur.Events = append(b.cur.Events, bridgesync.Event{Bridge: br})
	b.h.Exits = append(b.h.Exits, ExitRef{b.cur.Num, ExitKey(leafType, originNet, originAddr, destNet, dest, amount, metaHash(metadata))})
	b.pos++
	return b
}

// claim adds a claim of mainnet deposit i (mainnet=true) or of OtherRollup's deposit i.
func (b *histBuilder) claim(mainnet bool, i int) *histBuilder {
	var d l1deposit
	var gi *big.Int
	var pl, pr treetypes.Proof
	var rollupIdx uint32
	if mainnet {
		d = b.cw.mainnet[i]
		gi = ref.GlobalIndex(true, 0, uint32(i))
		pl = toProof(b.cw.mProofs[i])
	} else {
		d = b.cw.other[i]
		rollupIdx = OtherRollup - 1
		gi = ref.GlobalIndex(false, rollupIdx, uint32(i))
		pl = toProof(b.cw.oProofs[i])
		pr = toProof(b.cw.rerProof)
	}
	cl := &bridgesync.Claim{
		BlockNum: b.cur.Num, BlockPos: b.pos, FromAddress: addr(0xf1), TxHash: hashOf(fmt.Sprintf("%s/tx/%d/%d", b.h.Name, b.cur.Num, b.pos)),
		GlobalIndex: gi, OriginNetwork: d.originNet, OriginAddress: d.originAddr, DestinationAddress: d.destAddr,
		Amount: d.amount, ProofLocalExitRoot: pl, ProofRollupExitRoot: pr, MainnetExitRoot: b.cw.mer, RollupExitRoot: b.cw.rer,
		GlobalExitRoot: b.cw.ger, DestinationNetwork: d.destNet, Metadata: d.metadata, IsMessage: d.leafType == 1,
		BlockTimestamp: 1_700_000_000 + b.cur.Num*12,
	}
	b.cur.Events = append(b.cur.Events, bridgesync.Event{Claim: cl})
	b.h.Claims = append(b.h.Claims, ClaimRef{b.cur.Num, ClaimKey(mainnet, rollupIdx, uint32(i),
		ExitKey(d.leafType, d.originNet, d.originAddr, d.destNet, d.destAddr, d.amount, metaHash(d.metadata)))})
	b.pos++
	return b
}

// HistoryNames lists the L2 histories in unit order.
var HistoryNames = []string{"bridges", "bridges+claims", "empty-blocks+empty-tail", "oversize-block"}

func buildHistories(cw *claimWorld) []*History {
	tok := addr(0x77)
	var hs []*History
	// 0: bridges only
	b := newHist(HistoryNames[0], cw)
	b.block().bridge(0, 0, common.Address{}, 0, nil)
	b.block().bridge(0, L2Network, tok, 0, []byte("meta-1")).bridge(1, L2Network, addr(0x66), OtherRollup, []byte("msg"))
	b.block().bridge(0, 0, common.Address{}, OtherRollup, nil)
	b.block().bridge(0, L2Network, tok, 0, nil)
	hs = append(hs, b.h)
	// 1: bridges and claims (claims from mainnet and from another rollup)
	b = newHist(HistoryNames[1], cw)
	b.block().claim(true, 0).bridge(0, 0, common.Address{}, 0, nil)
	b.block().claim(false, 0)
	b.block().bridge(0, L2Network, tok, 0, []byte("meta-2")).claim(true, 1)
	b.block().claim(true, 2).bridge(1, L2Network, addr(0x66), 0, []byte("msg2"))
	hs = append(hs, b.h)
	// 2: empty blocks in front, between, and an empty tail
	b = newHist(HistoryNames[2], cw)
	b.block()
	b.block().bridge(0, 0, common.Address{}, 0, nil)
	b.block()
	b.block().bridge(0, L2Network, tok, 0, []byte("meta-3"))
	b.block()
	hs = append(hs, b.h)
	// 3: a single block that alone exceeds MaxCertSize, then blocks that force a cut
	b = newHist(HistoryNames[3], cw)
	b.block().bridge(0, 0, common.Address{}, 0, nil).bridge(0, L2Network, tok, 0, nil).bridge(0, 0, common.Address{}, 0, nil).bridge(0, L2Network, tok, OtherRollup, nil)
	b.block().bridge(0, 0, common.Address{}, 0, nil)
	b.block().bridge(0, 0, common.Address{}, 0, nil).bridge(0, L2Network, tok, 0, nil)
	b.block().bridge(0, 0, common.Address{}, 0, nil)
	// PP: signature 71 + 92 per bridge: block 1 alone = 439 > 300; blocks 2..3 = 347 > 300 -> cut to [2,2]
	b.h.MaxCertSizePP = 300
	// FEP: proof 10240 + 92 per bridge
	b.h.MaxCertSizeFEP = 10240 + 300 - 71
	hs = append(hs, b.h)
	return hs
}

// ---------------------------------------------------------------------------------------------
// L1 side

// L1Header is the header of L1 block n in the mini-world.
func L1Header(n uint64) *ethtypes.Header {
	return &ethtypes.Header{Number: new(big.Int).SetUint64(n), Time: 1_600_000_000 + n*12, Difficulty: big.NewInt(0),
		Extra: []byte(fmt.Sprintf("verif-l1-%d", n))}
}

// FakeL1 is the hand-written L1 client: only HeaderByNumber (finality) is served.
type FakeL1 struct {
	aggkittypes.BaseEthereumClienter
}

func (FakeL1) HeaderByNumber(_ context.Context, number *big.Int) (*ethtypes.Header, error) {
	if number == nil || number.Sign() < 0 {
		// finalized / latest / safe
		return L1Header(FinalizedL1), nil
	}
	if number.Uint64() > FinalizedL1+1 {
		return nil, fmt.Errorf("fake L1: block %d not found", number.Uint64())
	}
	return L1Header(number.Uint64()), nil
}

func l1Blocks(cw *claimWorld) []aggsync.Block {
	mk := func(n uint64, mer, rer ref.Hash) aggsync.Block {
		return aggsync.Block{Num: n, Hash: L1Header(n).Hash(), Events: []any{l1infotreesync.Event{
			UpdateL1InfoTree: &l1infotreesync.UpdateL1InfoTree{BlockPosition: 0, MainnetExitRoot: mer, RollupExitRoot: rer,
				ParentHash: L1Header(n - 1).Hash(), Timestamp: L1Header(n).Time}}}}
	}
	return []aggsync.Block{
		mk(1, hashOf("mer-0"), hashOf("rer-0")),
		mk(2, cw.mer, cw.rer),
		mk(3, hashOf("mer-2"), cw.rer),
	}
}

// ---------------------------------------------------------------------------------------------
// real stores, pooled

// StoreSet is one private set of real stores for one execution at a time: L2[n] is a real bridge
// store that has processed blocks 1..n of the history through the real ProcessBlock; L1 is the real
// L1 info tree store of the mini-world.
type StoreSet struct {
	L2 []*bridgesync.BridgeSync
	L1 *l1infotreesync.L1InfoTreeSync
}

// World is a history plus a pool of store sets.
type World struct {
	Hist *History
	dir  string
	mu   sync.Mutex
	free []*StoreSet
	seq  atomic.Int64
	cw   *claimWorld

	tmplOnce sync.Once
	tmpl     []byte
}

// EmptyCertDB returns the bytes of an empty certificate database exactly as the real constructor
// creates it (all migrations applied), with the fault triggers installed when faults is set. A new
// or a lost database of an execution is a copy of it; the real constructor is still run on the copy.
func (w *World) EmptyCertDB(faults bool) []byte {
	w.tmplOnce.Do(func() {
		if err := os.MkdirAll(w.dir, 0o755); err != nil {
			panic(err)
		}
		p := filepath.Join(w.dir, "empty-cert-db.sqlite")
		st, err := aggdb.NewAggSenderSQLStorage(kit.Logger(), aggdb.AggSenderSQLStorageConfig{DBPath: p, KeepCertificatesHistory: true})
		if err != nil {
			panic(fmt.Sprintf("senderkit: template certificate DB: %v", err))
		}
		if faults {
			installFaultTriggers(st.VerifDB())
		}
		if _, err := st.VerifDB().Exec(`PRAGMA wal_checkpoint(TRUNCATE)`); err != nil {
			panic(err)
		}
		st.VerifDB().Close()
		b, err := os.ReadFile(p)
		if err != nil {
			panic(err)
		}
		w.tmpl = b
	})
	return w.tmpl
}

// ScratchRoot returns the parent directory for scratch files.
func ScratchRoot() string {
	if s := os.Getenv("VERIF_SCRATCH"); s != "" {
		return s
	}
	return "/dev/shm"
}

// NewWorld builds the world of history index hist; stores are created lazily under dir.
func NewWorld(hist int, dir string) *World {
	cw := buildClaimWorld()
	return &World{Hist: buildHistories(cw)[hist], dir: dir, cw: cw}
}

// AllHistories returns the reference histories (for plans / documentation).
func AllHistories() []*History { return buildHistories(buildClaimWorld()) }

func (w *World) newSet() (*StoreSet, error) {
	id := w.seq.Add(1)
	d := filepath.Join(w.dir, fmt.Sprintf("stores-%d", id))
	if err := os.MkdirAll(d, 0o755); err != nil {
		return nil, err
	}
	ctx := context.Background()
	s := &StoreSet{}
	for n := 0; n <= w.Hist.NumBlocks(); n++ {
		bs, err := bridgesync.NewVerifBridgeSync(filepath.Join(d, fmt.Sprintf("l2_%d.sqlite", n)), bridgesync.L2BridgeSyncer, L2Network, nil)
		if err != nil {
			return nil, err
		}
		for i := 0; i < n; i++ {
			if err := bs.VerifStore().ProcessBlock(ctx, w.Hist.Blocks[i]); err != nil {
				return nil, fmt.Errorf("ProcessBlock l2 %d: %w", i+1, err)
			}
		}
		s.L2 = append(s.L2, bs)
	}
	l1, err := l1infotreesync.NewVerifL1InfoTreeSync(filepath.Join(d, "l1info.sqlite"))
	if err != nil {
		return nil, err
	}
	for _, b := range l1Blocks(w.cw) {
		if err := l1.VerifStore().ProcessBlock(ctx, b); err != nil {
			return nil, fmt.Errorf("ProcessBlock l1 %d: %w", b.Num, err)
		}
	}
	s.L1 = l1
	return s, nil
}

// Acquire hands out a private store set (must be called OUTSIDE a synctest bubble).
func (w *World) Acquire() (*StoreSet, error) {
	w.mu.Lock()
	if n := len(w.free); n > 0 {
		s := w.free[n-1]
		w.free = w.free[:n-1]
		w.mu.Unlock()
		return s, nil
	}
	w.mu.Unlock()
	return w.newSet()
}

// Release returns a store set to the pool.
func (w *World) Release(s *StoreSet) {
	w.mu.Lock()
	w.free = append(w.free, s)
	w.mu.Unlock()
}

// Close closes all pooled stores and removes the directory.
func (w *World) Close() {
	w.mu.Lock()
	defer w.mu.Unlock()
	for _, s := range w.free {
		for _, b := range s.L2 {
			b.VerifDB().Close()
		}
		s.L1.VerifDB().Close()
	}
	w.free = nil
	os.RemoveAll(w.dir)
}
