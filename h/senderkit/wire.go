package senderkit

// The certificate headers the node reads from the (model) Agglayer travel through the REAL gRPC client: the model's header is
// rendered as the protobuf message the Agglayer's node-state service answers with, and AgglayerGRPCClient's own
// GetLatestSettled/PendingCertificateHeader and GetCertificateHeader turn it back into the header the aggsender sees
// (convertProtoCertificateHeader: optional fields, status enum, error message). What the model means and what the node
// gets differ only if that conversion changes something.

import (
	"context"

	v1nodegrpc "buf.build/gen/go/agglayer/agglayer/grpc/go/agglayer/node/v1/nodev1grpc"
	v1nodetypes "buf.build/gen/go/agglayer/agglayer/protocolbuffers/go/agglayer/node/types/v1"
	v1node "buf.build/gen/go/agglayer/agglayer/protocolbuffers/go/agglayer/node/v1"
	v1types "buf.build/gen/go/agglayer/interop/protocolbuffers/go/agglayer/interop/types/v1"
	agglayergrpc "github.com/agglayer/aggkit/agglayer/grpc"
	agglayertypes "github.com/agglayer/aggkit/agglayer/types"
	cfgtypes "github.com/agglayer/aggkit/config/types"
	aggkitgrpc "github.com/agglayer/aggkit/grpc"
	"github.com/ethereum/go-ethereum/common"
	"google.golang.org/grpc"
	"time"
)

type stateService struct {
	v1nodegrpc.NodeStateServiceClient
	a *Agglayer
}

func protoStatus(s agglayertypes.CertificateStatus) v1nodetypes.CertificateStatus {
	switch s {
	case agglayertypes.Proven:
		return v1nodetypes.CertificateStatus_CERTIFICATE_STATUS_PROVEN
	case agglayertypes.Candidate:
		return v1nodetypes.CertificateStatus_CERTIFICATE_STATUS_CANDIDATE
	case agglayertypes.InError:
		return v1nodetypes.CertificateStatus_CERTIFICATE_STATUS_IN_ERROR
	case agglayertypes.Settled:
		return v1nodetypes.CertificateStatus_CERTIFICATE_STATUS_SETTLED
	default:
		return v1nodetypes.CertificateStatus_CERTIFICATE_STATUS_PENDING
	}
}

func fb32(h common.Hash) *v1types.FixedBytes32 { return &v1types.FixedBytes32{Value: h.Bytes()} }

func protoHeader(h *agglayertypes.CertificateHeader) *v1nodetypes.CertificateHeader {
	if h == nil {
		return nil
	}
	p := &v1nodetypes.CertificateHeader{NetworkId: h.NetworkID, Height: h.Height, EpochNumber: h.EpochNumber,
		CertificateIndex: h.CertificateIndex, CertificateId: &v1nodetypes.CertificateId{Value: fb32(h.CertificateID)},
		NewLocalExitRoot: fb32(h.NewLocalExitRoot), Status: protoStatus(h.Status), Metadata: fb32(h.Metadata)}
	if h.PreviousLocalExitRoot != nil { // optional on the wire
		p.PrevLocalExitRoot = fb32(*h.PreviousLocalExitRoot)
	}
	if h.SettlementTxHash != nil {
		p.SettlementTxHash = fb32(*h.SettlementTxHash)
	}
	if h.Error != nil {
		p.Error = &v1nodetypes.CertificateStatusError{Message: []byte(h.Error.Error())}
	}
	return p
}

func (s *stateService) GetLatestCertificateHeader(ctx context.Context, in *v1node.GetLatestCertificateHeaderRequest,
	_ ...grpc.CallOption) (*v1node.GetLatestCertificateHeaderResponse, error) {
	var (
		h   *agglayertypes.CertificateHeader
		err error
	)
	if in.Type == v1node.LatestCertificateRequestType_LATEST_CERTIFICATE_REQUEST_TYPE_SETTLED {
		h, err = s.a.GetLatestSettledCertificateHeader(ctx, in.NetworkId)
	} else {
		h, err = s.a.GetLatestPendingCertificateHeader(ctx, in.NetworkId)
	}
	if err != nil {
		return nil, err
	}
	return &v1node.GetLatestCertificateHeaderResponse{CertificateHeader: protoHeader(h)}, nil
}

func (s *stateService) GetCertificateHeader(ctx context.Context, in *v1node.GetCertificateHeaderRequest,
	_ ...grpc.CallOption) (*v1node.GetCertificateHeaderResponse, error) {
	h, err := s.a.GetCertificateHeader(ctx, common.BytesToHash(in.CertificateId.Value.Value))
	if err != nil {
		return nil, err
	}
	return &v1node.GetCertificateHeaderResponse{CertificateHeader: protoHeader(h)}, nil
}

// wireClient is the real gRPC client over the model's node-state service.
func wireClient(a *Agglayer) *agglayergrpc.AgglayerGRPCClient {
	return agglayergrpc.NewVerifAgglayerGRPCClient(&aggkitgrpc.ClientConfig{RequestTimeout: cfgtypes.NewDuration(time.Hour)},
		&stateService{a: a}, nil, nil)
}

func (c *clientWrap) GetLatestSettledCertificateHeader(ctx context.Context, id uint32) (*agglayertypes.CertificateHeader, error) {
	return c.wire().GetLatestSettledCertificateHeader(ctx, id)
}

func (c *clientWrap) GetLatestPendingCertificateHeader(ctx context.Context, id uint32) (*agglayertypes.CertificateHeader, error) {
	return c.wire().GetLatestPendingCertificateHeader(ctx, id)
}

func (c *clientWrap) GetCertificateHeader(ctx context.Context, id common.Hash) (*agglayertypes.CertificateHeader, error) {
	return c.wire().GetCertificateHeader(ctx, id)
}

func (c *clientWrap) wire() *agglayergrpc.AgglayerGRPCClient {
	if c.w == nil {
		c.w = wireClient(c.Agglayer)
	}
	return c.w
}
