package senderkit

import (
	"context"
	"encoding/binary"
	"encoding/json"
	"errors"
	"fmt"
	"sort"
	"strings"

	agglayertypes "github.com/agglayer/aggkit/agglayer/types"
	"github.com/ethereum/go-ethereum/common"
	"verif/h/ref"
)

// Entry is one certificate received by the model Agglayer.
type Entry struct {
	Ord      int // ordinal of submission
	ID       common.Hash
	Height   uint64
	PrevLER  common.Hash
	NewLER   common.Hash
	Metadata common.Hash
	From, To uint64 // decoded from the metadata the node attached (the only block range the Agglayer sees)
	MetaOK   bool
	Status   agglayertypes.CertificateStatus
	Exits    []string
	Claims   []string
}

func (e *Entry) open() bool {
	return e.Status == agglayertypes.Pending || e.Status == agglayertypes.Proven || e.Status == agglayertypes.Candidate
}

// Judgement is one verdict of the oracle.
type Judgement struct {
	Key  string
	What string
}

// Agglayer is the model Agglayer of DESIGN §5.5. It accepts every submission and records a
// judgement whenever a submission breaks the protocol (the oracle of C02 / C13).
type Agglayer struct {
	Hist     *History
	StartLER common.Hash
	Entries  []*Entry
	FailNext bool
	FailCall int // n > 0: the n-th next call fails with a transport error (no effect); counts down
	Judged   []Judgement
	Calls    map[string]int
	OnCall   func(method string) // observer (used to bound VerifInit)
	Trace    func(format string, args ...any)
	// OmitPrevLER: the headers the service returns do not carry prev_local_exit_root (the field is optional in the API)
	OmitPrevLER bool
	submitted   int
}

// EmptyLER is the root of the empty exit tree (the start LER when the rollup manager reports zero).
func EmptyLER() common.Hash { return ref.Zero(ref.Height) }

func NewAgglayer(h *History) *Agglayer {
	return &Agglayer{Hist: h, StartLER: EmptyLER(), Calls: map[string]int{}}
}

var errTransport = errors.New("model agglayer: injected transport error (no effect)")

func (a *Agglayer) enter(method string) error {
	a.Calls[method]++
	if a.OnCall != nil {
		a.OnCall(method)
	}
	if a.FailNext {
		a.FailNext = false
		a.trace("agglayer.%s -> injected transport error", method)
		return errTransport
	}
	if a.FailCall > 0 {
		a.FailCall--
		if a.FailCall == 0 {
			a.trace("agglayer.%s -> injected transport error", method)
			return errTransport
		}
	}
	return nil
}

func (a *Agglayer) trace(format string, args ...any) {
	if a.Trace != nil {
		a.Trace(format, args...)
	}
}

// NameOf renames a certificate id to (height, ordinal of first submission with that id).
func (a *Agglayer) NameOf(id common.Hash) string {
	for _, e := range a.Entries {
		if e.ID == id {
			return fmt.Sprintf("c%d@h%d", e.Ord, e.Height)
		}
	}
	return "unknown"
}

// Knows reports whether the Agglayer has ever received a certificate with this id.
func (a *Agglayer) Knows(id common.Hash) bool {
	for _, e := range a.Entries {
		if e.ID == id {
			return true
		}
	}
	return false
}

// decodeMetadata reads the node's metadata layout (version 2: from, offset, createdAt, type)
// independently of aggkit's decoder.
func decodeMetadata(m common.Hash) (from, to uint64, ok bool) {
	if m[0] != 2 && m[0] != 1 {
		return 0, 0, false
	}
	from = binary.BigEndian.Uint64(m[1:9])
	off := binary.BigEndian.Uint32(m[9:13])
	return from, from + uint64(off), true
}

func exitKeyOfCert(b *agglayertypes.BridgeExit) string {
	var on uint32
	var oa common.Address
	if b.TokenInfo != nil {
		on, oa = b.TokenInfo.OriginNetwork, b.TokenInfo.OriginTokenAddress
	}
	return ExitKey(b.LeafType.Uint8(), on, oa, b.DestinationNetwork, b.DestinationAddress, b.Amount, b.Metadata)
}

// LastSettled returns the settled entry with the greatest height, or nil.
func (a *Agglayer) LastSettled() *Entry {
	var best *Entry
	for _, e := range a.Entries {
		if e.Status == agglayertypes.Settled && (best == nil || e.Height >= best.Height) {
			best = e
		}
	}
	return best
}

// OpenEntries lists the entries that are still undecided.
func (a *Agglayer) OpenEntries() []*Entry {
	var out []*Entry
	for _, e := range a.Entries {
		if e.open() {
			out = append(out, e)
		}
	}
	return out
}

// Last returns the most recently received entry or nil.
func (a *Agglayer) Last() *Entry {
	if len(a.Entries) == 0 {
		return nil
	}
	return a.Entries[len(a.Entries)-1]
}

// MaxHeight returns the greatest height received, ok=false if nothing was received.
func (a *Agglayer) MaxHeight() (uint64, bool) {
	var m uint64
	for _, e := range a.Entries {
		if e.Height > m {
			m = e.Height
		}
	}
	return m, len(a.Entries) > 0
}

func (a *Agglayer) judge(key, format string, args ...any) {
	a.Judged = append(a.Judged, Judgement{key, fmt.Sprintf(format, args...)})
}

// SendCertificate judges the submission (oracle (a),(b),(c)), then accepts it.
func (a *Agglayer) SendCertificate(_ context.Context, cert *agglayertypes.Certificate) (common.Hash, error) {
	if err := a.enter("SendCertificate"); err != nil {
		return common.Hash{}, err
	}
	raw, err := json.Marshal(cert)
	if err != nil {
		return common.Hash{}, fmt.Errorf("model agglayer: cannot encode certificate: %w", err)
	}
	id := ref.Keccak(raw)
	e := &Entry{Ord: len(a.Entries), ID: id, Height: cert.Height, PrevLER: cert.PrevLocalExitRoot, NewLER: cert.NewLocalExitRoot,
		Metadata: cert.Metadata, Status: agglayertypes.Pending}
	e.From, e.To, e.MetaOK = decodeMetadata(cert.Metadata)
	for _, b := range cert.BridgeExits {
		e.Exits = append(e.Exits, exitKeyOfCert(b))
	}
	for _, ib := range cert.ImportedBridgeExits {
		var gi agglayertypes.GlobalIndex
		if ib.GlobalIndex != nil {
			gi = *ib.GlobalIndex
		}
		e.Claims = append(e.Claims, ClaimKey(gi.MainnetFlag, gi.RollupIndex, gi.LeafIndex, exitKeyOfCert(ib.BridgeExit)))
	}
	desc := fmt.Sprintf("submission #%d height=%d blocks=[%d,%d] prevLER=%s newLER=%s exits=%d claims=%d", e.Ord, e.Height, e.From, e.To,
		short(e.PrevLER), short(e.NewLER), len(e.Exits), len(e.Claims))

	// (a) nothing may be submitted while an earlier certificate is undecided
	for _, o := range a.OpenEntries() {
		a.judge("submit-while-undecided", "%s arrived while submission #%d (height %d) is still %s", desc, o.Ord, o.Height, o.Status)
	}
	// (b) height / previous LER / first block follow the last settled certificate
	wantH, wantPrev, wantFrom := uint64(0), a.StartLER, uint64(1)
	if s := a.LastSettled(); s != nil {
		wantH, wantPrev, wantFrom = s.Height+1, s.NewLER, s.To+1
	}
	if !e.MetaOK {
		a.judge("unreadable-metadata", "%s: metadata %s is not version 1/2", desc, cert.Metadata.Hex())
	}
	if e.Height != wantH {
		a.judge("wrong-height", "%s: height must be %d (last settled + 1, 0 at the start)", desc, wantH)
	}
	if e.PrevLER != wantPrev {
		a.judge("wrong-previous-ler", "%s: previous LER must be %s (new LER of the last settled certificate / start LER)", desc, short(wantPrev))
	}
	if e.MetaOK && e.From != wantFrom {
		a.judge("wrong-first-block", "%s: first block must be %d (block after the last settled certificate's last block)", desc, wantFrom)
	}
	if e.MetaOK && e.To < e.From {
		a.judge("empty-block-range", "%s: last block before first block", desc)
	}
	// (c) a replacement of a certificate in error keeps height and first block
	var prevAtH *Entry
	for _, o := range a.Entries {
		if o.Height == wantH && o.Status == agglayertypes.InError {
			prevAtH = o
		}
	}
	if prevAtH != nil {
		if e.Height != prevAtH.Height {
			a.judge("replacement-changed-height", "%s replaces submission #%d (in error, height %d) but has another height", desc, prevAtH.Ord, prevAtH.Height)
		}
		if e.MetaOK && prevAtH.MetaOK && e.From != prevAtH.From {
			a.judge("replacement-changed-first-block", "%s replaces submission #%d (in error, first block %d) but starts elsewhere", desc, prevAtH.Ord, prevAtH.From)
		}
	}
	a.Entries = append(a.Entries, e)
	a.submitted++
	a.trace("agglayer.SendCertificate: %s -> %s", desc, a.NameOf(id))
	return id, nil
}

func short(h common.Hash) string { return h.Hex()[:10] }

func (a *Agglayer) header(e *Entry) *agglayertypes.CertificateHeader {
	prev := e.PrevLER
	h := &agglayertypes.CertificateHeader{NetworkID: L2Network, Height: e.Height, CertificateID: e.ID,
		PreviousLocalExitRoot: &prev, NewLocalExitRoot: e.NewLER, Status: e.Status, Metadata: e.Metadata}
	if a.OmitPrevLER {
		h.PreviousLocalExitRoot = nil
	}
	return h
}

// GetCertificateHeader returns the current header of the most recent submission with this id.
func (a *Agglayer) GetCertificateHeader(_ context.Context, id common.Hash) (*agglayertypes.CertificateHeader, error) {
	if err := a.enter("GetCertificateHeader"); err != nil {
		return nil, err
	}
	for i := len(a.Entries) - 1; i >= 0; i-- {
		if a.Entries[i].ID == id {
			return a.header(a.Entries[i]), nil
		}
	}
	return nil, fmt.Errorf("model agglayer: certificate %s not found", id.Hex())
}

// GetEpochConfiguration is part of the client interface; the send loop does not use it.
func (a *Agglayer) GetEpochConfiguration(_ context.Context) (*agglayertypes.ClockConfiguration, error) {
	if err := a.enter("GetEpochConfiguration"); err != nil {
		return nil, err
	}
	return &agglayertypes.ClockConfiguration{EpochDuration: 10, GenesisBlock: 1}, nil
}

// GetLatestSettledCertificateHeader returns the highest settled certificate or nil.
func (a *Agglayer) GetLatestSettledCertificateHeader(_ context.Context, _ uint32) (*agglayertypes.CertificateHeader, error) {
	if err := a.enter("GetLatestSettledCertificateHeader"); err != nil {
		return nil, err
	}
	if s := a.LastSettled(); s != nil {
		return a.header(s), nil
	}
	return nil, nil
}

// latestPending: the most recent certificate that is not settled and has not been superseded by a
// settled certificate of the same or a higher height.
func (a *Agglayer) latestPending() *Entry {
	s := a.LastSettled()
	for i := len(a.Entries) - 1; i >= 0; i-- {
		e := a.Entries[i]
		if e.Status == agglayertypes.Settled {
			continue
		}
		if s != nil && s.Height >= e.Height {
			continue
		}
		return e
	}
	return nil
}

func (a *Agglayer) GetLatestPendingCertificateHeader(_ context.Context, _ uint32) (*agglayertypes.CertificateHeader, error) {
	if err := a.enter("GetLatestPendingCertificateHeader"); err != nil {
		return nil, err
	}
	if p := a.latestPending(); p != nil {
		return a.header(p), nil
	}
	return nil, nil
}

// ---------------------------------------------------------------------------------------------
// verdict events

// Advance moves the open certificate one step Pending->Proven->Candidate->Settled.
func (a *Agglayer) Advance(e *Entry) {
	switch e.Status {
	case agglayertypes.Pending:
		e.Status = agglayertypes.Proven
	case agglayertypes.Proven:
		e.Status = agglayertypes.Candidate
	case agglayertypes.Candidate:
		e.Status = agglayertypes.Settled
	}
}

// Settle moves an open certificate to Settled (several verdict steps between two polls).
func (a *Agglayer) Settle(e *Entry) {
	if e.open() {
		e.Status = agglayertypes.Settled
	}
}

// Fail moves an open certificate to InError.
func (a *Agglayer) Fail(e *Entry) {
	if e.open() {
		e.Status = agglayertypes.InError
	}
}

// ---------------------------------------------------------------------------------------------
// oracle (d): the settled certificates, in height order, cover blocks 1.. without gap and contain
// every bridge exit and claim of those blocks exactly once and in chain order.

func (a *Agglayer) CheckSettledPrefix() []Judgement {
	var out []Judgement
	var settled []*Entry
	for _, e := range a.Entries {
		if e.Status == agglayertypes.Settled {
			settled = append(settled, e)
		}
	}
	sort.SliceStable(settled, func(i, j int) bool { return settled[i].Height < settled[j].Height })
	var exits, claims []string
	next := uint64(1)
	for i, e := range settled {
		if e.Height != uint64(i) {
			out = append(out, Judgement{"settled-heights-not-consecutive", fmt.Sprintf("settled certificates have heights %v", heights(settled))})
			return out
		}
		if !e.MetaOK || e.From != next || e.To < e.From {
			out = append(out, Judgement{"settled-block-ranges-not-contiguous",
				fmt.Sprintf("settled certificate at height %d covers [%d,%d], expected to start at %d", e.Height, e.From, e.To, next)})
			return out
		}
		next = e.To + 1
		exits = append(exits, e.Exits...)
		claims = append(claims, e.Claims...)
	}
	if len(settled) == 0 {
		return nil
	}
	last := next - 1
	wantE, wantC := a.Hist.ExitsIn(1, last), a.Hist.ClaimsIn(1, last)
	if strings.Join(exits, "\n") != strings.Join(wantE, "\n") {
		out = append(out, Judgement{"settled-exits-differ-from-chain", fmt.Sprintf("blocks [1,%d]: settled certificates carry %d bridge exits %s; the chain has %d: %s",
			last, len(exits), diffList(exits, wantE), len(wantE), strings.Join(wantE, " ; "))})
	}
	if strings.Join(claims, "\n") != strings.Join(wantC, "\n") {
		out = append(out, Judgement{"settled-claims-differ-from-chain", fmt.Sprintf("blocks [1,%d]: settled certificates carry %d claims %s; the chain has %d: %s",
			last, len(claims), diffList(claims, wantC), len(wantC), strings.Join(wantC, " ; "))})
	}
	return out
}

func heights(es []*Entry) []uint64 {
	var hs []uint64
	for _, e := range es {
		hs = append(hs, e.Height)
	}
	return hs
}

func diffList(got, want []string) string {
	for i := 0; i < len(got) || i < len(want); i++ {
		g, w := "<none>", "<none>"
		if i < len(got) {
			g = got[i]
		}
		if i < len(want) {
			w = want[i]
		}
		if g != w {
			return fmt.Sprintf("(first difference at position %d: got %s, want %s)", i, g, w)
		}
	}
	return "(equal)"
}

// Dump is the canonical state of the model (ids renamed, no timestamps).
func (a *Agglayer) Dump() string {
	var sb strings.Builder
	for _, e := range a.Entries {
		fmt.Fprintf(&sb, "#%d %s h=%d %s [%d,%d] prev=%s new=%s x=%d c=%d\n", e.Ord, a.NameOf(e.ID), e.Height, e.Status, e.From, e.To,
			short(e.PrevLER), short(e.NewLER), len(e.Exits), len(e.Claims))
	}
	fmt.Fprintf(&sb, "failNext=%v", a.FailNext)
	return sb.String()
}
