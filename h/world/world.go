// Package world is the consistent multi-chain scenario generator of DESIGN §5.3.
//
// A World models, at the level aggkit observes them:
//   - L1 (network 0): the bridge's mainnet exit tree, the global exit root manager (last mainnet /
//     rollup exit root, the L1 info tree) and the rollup manager (one local exit root per rollup,
//     the rollup exit tree);
//   - "our" L2 (network 1, rollup id 1, rollup index 0): bridge exit tree, injected GERs, claims;
//   - another rollup B (network 2, rollup id 2, rollup index 1): only its exit tree matters.
//
// The abstract part (this file) is pure bookkeeping with integers: which deposit exists, which L1
// info leaf carries which (mainnet deposit count, verified B count, verified L2 count), which block
// holds which log. It decides enabledness the way the contracts would (claim only against an
// injected GER whose exit roots cover the deposit, no double claim, the oracle only injects the
// latest finalized GER, a new L1 info leaf only for a new GER ...). Hashes, roots, headers and
// proofs are computed from it by Materialize (concrete.go) with package ref only.
package world

import (
	"fmt"
	"math/big"
	"strings"

	"github.com/ethereum/go-ethereum/common"
)

const (
	NetL1 uint32 = 0
	NetL2 uint32 = 1 // our rollup: rollup id 1, rollup index 0
	NetB  uint32 = 2 // the other rollup: rollup id 2, rollup index 1
)

// OpKind enumerates the operations of DESIGN §5.3.
type OpKind uint8

const (
	L1Deposit      OpKind = iota // A = field variant, B = 1: forceUpdateGlobalExitRoot=false (no GER update)
	RollupBDeposit               // A = field variant
	VerifyRollupB
	L2Deposit // A = field variant (also picks the destination network 0 / 2)
	VerifyL2
	CloseL1Block
	FinalizeL1 // A = k >= 1: the finalized pointer advances by k closed blocks
	InjectGER  // the latest finalized GER is injected on L2 (as aggoracle would)
	ClaimOnL2  // A = origin network (0 or 2), B = deposit count, C = L1 info leaf index of the GER
	CloseL2Block
)

// Op is one operation.
type Op struct {
	Kind    OpKind
	A, B, C int
}

func (o Op) String() string {
	switch o.Kind {
	case L1Deposit:
		if o.B == 1 {
			return fmt.Sprintf("L1Dq%d", o.A)
		}
		return fmt.Sprintf("L1D%d", o.A)
	case RollupBDeposit:
		return fmt.Sprintf("BD%d", o.A)
	case VerifyRollupB:
		return "VB"
	case L2Deposit:
		return fmt.Sprintf("L2D%d", o.A)
	case VerifyL2:
		return "V2"
	case CloseL1Block:
		return "C1"
	case FinalizeL1:
		return fmt.Sprintf("F%d", o.A)
	case InjectGER:
		return "INJ"
	case ClaimOnL2:
		return fmt.Sprintf("CL(%d:%d@%d)", o.A, o.B, o.C)
	case CloseL2Block:
		return "C2"
	}
	return "?"
}

// OpsString renders an operation sequence.
func OpsString(ops []Op) string {
	s := make([]string, len(ops))
	for i, o := range ops {
		s[i] = o.String()
	}
	return strings.Join(s, " ")
}

// Deposit is one bridge (a leaf of some network's exit tree).
type Deposit struct {
	Net                uint32 // network where the bridge was made
	Count              uint32 // deposit count = leaf index
	Variant            int
	LeafType           uint8
	OriginNetwork      uint32
	OriginAddress      common.Address
	DestinationNetwork uint32
	DestinationAddress common.Address
	Amount             *big.Int
	Metadata           []byte
	Quiet              bool // L1 only: no global exit root update
	// placement (L1 and L2 deposits; B's chain is not observed)
	Block    uint64
	LogIndex uint64
	Tx       int
}

// InfoLeaf is one leaf of the L1 info tree, identified by what its exit roots contain.
type InfoLeaf struct {
	Index    uint32
	MerCount uint32 // L1 deposits contained in its mainnet exit root (0: root is 0x0)
	BVer     uint32 // B deposits contained in B's verified local exit root (0: not verified)
	L2Ver    uint32 // L2 deposits contained in our rollup's verified local exit root
	Block    uint64
	LogIndex uint64 // log index of UpdateL1InfoTree; UpdateL1InfoTreeV2 is LogIndex+1
	Tx       int

	// concrete (Materialize)
	MER, RER, GER, ParentHash, Hash, RootAfter common.Hash
	Timestamp                                  uint64
}

// CoversL1 reports whether the leaf's mainnet exit root contains L1 deposit cnt.
func (l *InfoLeaf) CoversL1(cnt uint32) bool { return l.MerCount > cnt }

// CoversB reports whether the leaf's rollup exit root contains B's deposit cnt.
func (l *InfoLeaf) CoversB(cnt uint32) bool { return l.BVer > cnt }

// CoversL2 reports whether the leaf's rollup exit root contains our rollup's deposit cnt.
func (l *InfoLeaf) CoversL2(cnt uint32) bool { return l.L2Ver > cnt }

type EvKind uint8

const (
	EvBridge EvKind = iota
	EvInfo          // UpdateL1InfoTree (LogIndex) + UpdateL1InfoTreeV2 (LogIndex+1)
	EvVerify        // VerifyBatchesTrustedAggregator
	EvClaim
	EvInject
)

// Event is one log (or log pair) in a block.
type Event struct {
	Kind     EvKind
	LogIndex uint64
	Tx       int
	Dep      *Deposit  // bridge, claim
	Leaf     *InfoLeaf // info, inject, claim (the GER claimed against)
	RollupID uint32    // verify
	Count    uint32    // verify: deposits contained in the verified local exit root
	NumBatch uint64    // verify

	// concrete, claims only
	Claim *ClaimData
}

// Block is a closed or open block of L1 or L2.
type Block struct {
	Num     uint64
	Events  []*Event
	nextLog uint64
	// FinalizedL1 is, for an L2 block, the L1 finalized pointer when the block was closed.
	FinalizedL1 uint64

	// concrete
	Hash, ParentHash common.Hash
	Timestamp        uint64
}

// Limits bound the abstract state (per family of scenarios).
type Limits struct {
	MaxL1Deps, MaxBDeps, MaxL2Deps int
	MaxClaims                      int
	MaxL1Blocks, MaxL2Blocks       int
	NoEmptyL1Blocks                bool
	NoEmptyL2Blocks                bool
}

// World is the state after a sequence of operations.
type World struct {
	Ops []Op

	L1Blocks  []*Block // closed
	L1Open    *Block
	Finalized uint64
	L1Deps    []*Deposit
	BDeps     []*Deposit
	L2Deps    []*Deposit
	merCount  uint32
	bVer      uint32
	l2Ver     uint32
	numBatch  [3]uint64
	Leaves    []*InfoLeaf
	l1Tx      int

	L2Blocks []*Block
	L2Open   *Block
	Injected []*InfoLeaf
	Claims   []*Event
	claimed  map[[2]uint32]bool
	l2Tx     int

	concrete *concrete
	l2Gap    uint64 // 0: dense
}

// Spacing numbers the L2 blocks of a world: block i (0-based) has number First + i*Gap. The zero value is the dense chain
// 1, 2, 3, ... A syncer's store is sparse in reality (it holds the blocks with events of its contracts plus the last block of
// every downloaded range), so the block ranges of certificates are long and the events sit at arbitrary distances.
type Spacing struct{ First, Gap uint64 }

func (s Spacing) String() string {
	if s == (Spacing{}) {
		return "dense"
	}
	return fmt.Sprintf("L2 blocks %d+%d*i", s.First, s.Gap)
}

// NewSpaced is New with another numbering of the L2 blocks.
func NewSpaced(sp Spacing) *World {
	w := New()
	if sp != (Spacing{}) {
		w.l2Gap = sp.Gap
		w.L2Open.Num = sp.First
	}
	return w
}

func (w *World) nextL2Num() uint64 {
	if w.l2Gap == 0 {
		return w.L2Open.Num + 1
	}
	return w.L2Open.Num + w.l2Gap
}

// New returns the initial world: no deposits, no L1 info leaf, empty open blocks number 1.
func New() *World {
	return &World{L1Open: &Block{Num: 1}, L2Open: &Block{Num: 1}, claimed: map[[2]uint32]bool{}}
}

// Clone copies the abstract state (pointers to immutable deposits / leaves / events are shared).
func (w *World) Clone() *World {
	n := *w
	n.Ops = append([]Op{}, w.Ops...)
	n.L1Blocks = append([]*Block{}, w.L1Blocks...)
	n.L2Blocks = append([]*Block{}, w.L2Blocks...)
	o1, o2 := *w.L1Open, *w.L2Open
	o1.Events = append([]*Event{}, w.L1Open.Events...)
	o2.Events = append([]*Event{}, w.L2Open.Events...)
	n.L1Open, n.L2Open = &o1, &o2
	n.L1Deps = append([]*Deposit{}, w.L1Deps...)
	n.BDeps = append([]*Deposit{}, w.BDeps...)
	n.L2Deps = append([]*Deposit{}, w.L2Deps...)
	n.Leaves = append([]*InfoLeaf{}, w.Leaves...)
	n.Injected = append([]*InfoLeaf{}, w.Injected...)
	n.Claims = append([]*Event{}, w.Claims...)
	n.claimed = make(map[[2]uint32]bool, len(w.claimed))
	for k, v := range w.claimed {
		n.claimed[k] = v
	}
	n.concrete = nil
	return &n
}

func (w *World) depsOf(net uint32) []*Deposit {
	switch net {
	case NetL1:
		return w.L1Deps
	case NetL2:
		return w.L2Deps
	default:
		return w.BDeps
	}
}

// latestFinalizedLeaf is the L1 info leaf the oracle would inject now (nil: none).
func (w *World) latestFinalizedLeaf() *InfoLeaf {
	var best *InfoLeaf
	for _, l := range w.Leaves {
		if l.Block <= w.Finalized && l.Block <= uint64(len(w.L1Blocks)) {
			best = l
		}
	}
	return best
}

func (w *World) isInjected(l *InfoLeaf) bool {
	for _, x := range w.Injected {
		if x == l {
			return true
		}
	}
	return false
}

func lastEmpty(bs []*Block) bool { return len(bs) > 0 && len(bs[len(bs)-1].Events) == 0 }

// Enabled reports whether the contracts / chains would accept op in this state (and the state
// stays within lim). The reason is returned for diagnostics.
func (w *World) Enabled(op Op, lim Limits) (bool, string) {
	switch op.Kind {
	case L1Deposit:
		if lim.MaxL1Deps > 0 && len(w.L1Deps) >= lim.MaxL1Deps {
			return false, "limit"
		}
	case RollupBDeposit:
		if lim.MaxBDeps > 0 && len(w.BDeps) >= lim.MaxBDeps {
			return false, "limit"
		}
	case L2Deposit:
		if lim.MaxL2Deps > 0 && len(w.L2Deps) >= lim.MaxL2Deps {
			return false, "limit"
		}
	case VerifyRollupB:
		// a verification that does not change B's local exit root changes no exit root and adds no
		// L1 info leaf; aggkit skips its event entirely: not part of the alphabet
		if uint32(len(w.BDeps)) <= w.bVer {
			return false, "no new local exit root"
		}
	case VerifyL2:
		if uint32(len(w.L2Deps)) <= w.l2Ver {
			return false, "no new local exit root"
		}
	case CloseL1Block:
		if len(w.L1Open.Events) == 0 && (lim.NoEmptyL1Blocks || lastEmpty(w.L1Blocks) || len(w.L1Blocks) == 0) {
			return false, "empty block"
		}
		if lim.MaxL1Blocks > 0 && len(w.L1Blocks) >= lim.MaxL1Blocks {
			return false, "limit"
		}
	case CloseL2Block:
		if len(w.L2Open.Events) == 0 && (lim.NoEmptyL2Blocks || lastEmpty(w.L2Blocks)) {
			return false, "empty block"
		}
		if lim.MaxL2Blocks > 0 && len(w.L2Blocks) >= lim.MaxL2Blocks {
			return false, "limit"
		}
	case FinalizeL1:
		if op.A < 1 || w.Finalized+uint64(op.A) > uint64(len(w.L1Blocks)) {
			return false, "beyond the closed blocks"
		}
	case InjectGER:
		l := w.latestFinalizedLeaf()
		if l == nil {
			return false, "no finalized L1 info leaf"
		}
		if w.isInjected(l) {
			return false, "already injected"
		}
	case ClaimOnL2:
		net := uint32(op.A)
		if net != NetL1 && net != NetB {
			return false, "origin"
		}
		deps := w.depsOf(net)
		if op.B < 0 || op.B >= len(deps) {
			return false, "no such deposit"
		}
		d := deps[op.B]
		if d.DestinationNetwork != NetL2 {
			return false, "not destined to this network"
		}
		if w.claimed[[2]uint32{net, d.Count}] {
			return false, "already claimed"
		}
		if op.C < 0 || op.C >= len(w.Leaves) {
			return false, "no such GER"
		}
		l := w.Leaves[op.C]
		if !w.isInjected(l) {
			return false, "GER not injected"
		}
		if net == NetL1 && !l.CoversL1(d.Count) || net == NetB && !l.CoversB(d.Count) {
			return false, "exit roots of the GER do not contain the deposit"
		}
		if lim.MaxClaims > 0 && len(w.Claims) >= lim.MaxClaims {
			return false, "limit"
		}
	default:
		return false, "unknown op"
	}
	return true, ""
}

func (w *World) l1Log(n uint64) uint64 {
	i := w.L1Open.nextLog
	w.L1Open.nextLog += n
	return i
}

func (w *World) l2Log() uint64 {
	i := w.L2Open.nextLog
	w.L2Open.nextLog++
	return i
}

// updateExitRoot is PolygonZkEVMGlobalExitRootV2.updateExitRoot: a new L1 info leaf iff the GER
// (identified by what its exit roots contain) is new.
func (w *World) updateExitRoot(tx int) {
	for _, l := range w.Leaves {
		if l.MerCount == w.merCount && l.BVer == w.bVer && l.L2Ver == w.l2Ver {
			return
		}
	}
	l := &InfoLeaf{Index: uint32(len(w.Leaves)), MerCount: w.merCount, BVer: w.bVer, L2Ver: w.l2Ver,
		Block: w.L1Open.Num, LogIndex: w.l1Log(2), Tx: tx}
	w.Leaves = append(w.Leaves, l)
	w.L1Open.Events = append(w.L1Open.Events, &Event{Kind: EvInfo, LogIndex: l.LogIndex, Tx: tx, Leaf: l})
}

// Apply executes op (which must be enabled).
func (w *World) Apply(op Op) {
	w.concrete = nil
	w.Ops = append(w.Ops, op)
	switch op.Kind {
	case L1Deposit:
		w.l1Tx++
		d := newDeposit(NetL1, uint32(len(w.L1Deps)), op.A)
		d.Quiet = op.B == 1
		d.Block, d.LogIndex, d.Tx = w.L1Open.Num, w.l1Log(1), w.l1Tx
		w.L1Deps = append(w.L1Deps, d)
		w.L1Open.Events = append(w.L1Open.Events, &Event{Kind: EvBridge, LogIndex: d.LogIndex, Tx: d.Tx, Dep: d})
		if !d.Quiet {
			w.merCount = uint32(len(w.L1Deps))
			w.updateExitRoot(d.Tx)
		}
	case RollupBDeposit:
		w.BDeps = append(w.BDeps, newDeposit(NetB, uint32(len(w.BDeps)), op.A))
	case L2Deposit:
		w.l2Tx++
		d := newDeposit(NetL2, uint32(len(w.L2Deps)), op.A)
		d.Block, d.LogIndex, d.Tx = w.L2Open.Num, w.l2Log(), w.l2Tx
		w.L2Deps = append(w.L2Deps, d)
		w.L2Open.Events = append(w.L2Open.Events, &Event{Kind: EvBridge, LogIndex: d.LogIndex, Tx: d.Tx, Dep: d})
	case VerifyRollupB, VerifyL2:
		w.l1Tx++
		id := NetB
		if op.Kind == VerifyL2 {
			id = NetL2
			w.l2Ver = uint32(len(w.L2Deps))
		} else {
			w.bVer = uint32(len(w.BDeps))
		}
		w.numBatch[id]++
		// _verifyAndRewardBatches calls updateExitRoot before the VerifyBatches* event is emitted
		w.updateExitRoot(w.l1Tx)
		cnt := w.bVer
		if id == NetL2 {
			cnt = w.l2Ver
		}
		w.L1Open.Events = append(w.L1Open.Events, &Event{Kind: EvVerify, LogIndex: w.l1Log(1), Tx: w.l1Tx,
			RollupID: id, Count: cnt, NumBatch: w.numBatch[id]})
	case CloseL1Block:
		w.L1Blocks = append(w.L1Blocks, w.L1Open)
		w.L1Open = &Block{Num: w.L1Open.Num + 1}
	case CloseL2Block:
		w.L2Open.FinalizedL1 = w.Finalized
		w.L2Blocks = append(w.L2Blocks, w.L2Open)
		w.L2Open = &Block{Num: w.nextL2Num()}
	case FinalizeL1:
		w.Finalized += uint64(op.A)
	case InjectGER:
		w.l2Tx++
		l := w.latestFinalizedLeaf()
		w.Injected = append(w.Injected, l)
		w.L2Open.Events = append(w.L2Open.Events, &Event{Kind: EvInject, LogIndex: w.l2Log(), Tx: w.l2Tx, Leaf: l})
	case ClaimOnL2:
		w.l2Tx++
		d := w.depsOf(uint32(op.A))[op.B]
		e := &Event{Kind: EvClaim, LogIndex: w.l2Log(), Tx: w.l2Tx, Dep: d, Leaf: w.Leaves[op.C]}
		w.claimed[[2]uint32{d.Net, d.Count}] = true
		w.Claims = append(w.Claims, e)
		w.L2Open.Events = append(w.L2Open.Events, e)
	}
}

// Step applies op if it is enabled.
func (w *World) Step(op Op, lim Limits) error {
	if ok, why := w.Enabled(op, lim); !ok {
		return fmt.Errorf("world: %s rejected: %s", op, why)
	}
	w.Apply(op)
	return nil
}

// Finish closes the open blocks that hold events (the chains move on); the result is what the
// node can observe. It does not count as operations.
func (w *World) Finish() {
	w.concrete = nil
	if len(w.L1Open.Events) > 0 {
		w.L1Blocks = append(w.L1Blocks, w.L1Open)
		w.L1Open = &Block{Num: w.L1Open.Num + 1}
	}
	if len(w.L2Open.Events) > 0 {
		w.L2Open.FinalizedL1 = w.Finalized
		w.L2Blocks = append(w.L2Blocks, w.L2Open)
		w.L2Open = &Block{Num: w.nextL2Num()}
	}
}

// Key is the canonical form of the state: everything observable, nothing about the order in
// which independent operations were issued. finished=true renders the state as Finish would
// leave it; withFinality=true also distinguishes where the L1 finalized pointer stood when each
// L2 block was closed.
func (w *World) Key(finished, withFinality bool) string {
	var sb strings.Builder
	blk := func(b *Block, l2 bool) {
		sb.WriteByte('[')
		for _, e := range b.Events {
			switch e.Kind {
			case EvBridge:
				fmt.Fprintf(&sb, "b%d.%d.%v,", e.Dep.Count, e.Dep.Variant, e.Dep.Quiet)
			case EvInfo:
				fmt.Fprintf(&sb, "i%d,", e.Leaf.Index)
			case EvVerify:
				fmt.Fprintf(&sb, "v%d.%d,", e.RollupID, e.Count)
			case EvClaim:
				fmt.Fprintf(&sb, "c%d.%d@%d,", e.Dep.Net, e.Dep.Count, e.Leaf.Index)
			case EvInject:
				fmt.Fprintf(&sb, "j%d,", e.Leaf.Index)
			}
		}
		if l2 && withFinality {
			fmt.Fprintf(&sb, "f%d", b.FinalizedL1)
		}
		sb.WriteByte(']')
	}
	sb.WriteString("L1:")
	for _, b := range w.L1Blocks {
		blk(b, false)
	}
	if finished && len(w.L1Open.Events) > 0 {
		blk(w.L1Open, false)
	} else if !finished {
		sb.WriteString("|open")
		blk(w.L1Open, false)
	}
	fmt.Fprintf(&sb, " F%d B:", w.Finalized)
	for _, d := range w.BDeps {
		fmt.Fprintf(&sb, "%d,", d.Variant)
	}
	sb.WriteString(" L2:")
	for _, b := range w.L2Blocks {
		blk(b, true)
	}
	if finished && len(w.L2Open.Events) > 0 {
		o := *w.L2Open
		o.FinalizedL1 = w.Finalized
		blk(&o, true)
	} else if !finished {
		sb.WriteString("|open")
		o := *w.L2Open
		o.FinalizedL1 = 0
		blk(&o, true)
	}
	// per-leaf content (which exit roots) is implied by the L1 event order, except for B's verified
	// count, which depends on when B's deposits happened relative to the verifications
	sb.WriteString(" leaves:")
	for _, l := range w.Leaves {
		fmt.Fprintf(&sb, "%d.%d.%d,", l.MerCount, l.BVer, l.L2Ver)
	}
	return sb.String()
}

// GasToken is the custom gas token of the observed chains (what gasTokenAddress() of the bridge answers): a deposit whose
// origin token is this address is flagged IsNativeToken by the bridge syncer although it carries token metadata.
var GasToken = common.HexToAddress("0x00000000000000000000000000000000009a5709")

// newDeposit fixes the field values of a deposit from its network, ordinal and variant. The five
// variants cover: asset / message, empty / non-empty metadata, native / foreign / custom-gas-token origin,
// small / zero / huge amounts. Every deposit of a world is distinct.
func newDeposit(net, count uint32, variant int) *Deposit {
	d := &Deposit{Net: net, Count: count, Variant: variant, DestinationNetwork: NetL2}
	if net == NetL2 {
		d.DestinationNetwork = NetL1
		if variant%2 == 1 {
			d.DestinationNetwork = NetB
		}
	}
	ord := byte(net*16 + count + 1)
	d.DestinationAddress = common.BytesToAddress([]byte{0xd0, byte(net), ord, byte(variant)})
	switch variant % 5 { //nolint:mnd
	case 4: // the chain's custom gas token (the syncer flags it as native) WITH token metadata
		d.LeafType = 0
		d.OriginNetwork = 0
		d.OriginAddress = GasToken
		d.Amount = big.NewInt(int64(5_000_000 + int(ord)))
		d.Metadata = make([]byte, 96)
		d.Metadata[31], d.Metadata[63], d.Metadata[95] = 0x60, 0xa0, 6
		d.Metadata[1] = ord
	case 0: // native asset, no metadata
		d.LeafType = 0
		d.OriginNetwork = 0
		d.OriginAddress = common.Address{}
		d.Amount = big.NewInt(int64(1000 + int(ord)))
	case 1: // message with metadata
		d.LeafType = 1
		d.OriginNetwork = net
		d.OriginAddress = common.BytesToAddress([]byte{0xa1, byte(net), ord})
		d.Amount = big.NewInt(0)
		d.Metadata = make([]byte, 1+int(count)%3)
		for i := range d.Metadata {
			d.Metadata[i] = ord + byte(i)
		}
	case 2: // foreign ERC-20 with token metadata, huge amount
		d.LeafType = 0
		d.OriginNetwork = (net + 1) % 3
		d.OriginAddress = common.BytesToAddress([]byte{0xe2, byte(net), ord})
		d.Amount = new(big.Int).Add(new(big.Int).Lsh(big.NewInt(1), 255), big.NewInt(int64(ord)))
		d.Metadata = make([]byte, 96)
		d.Metadata[31], d.Metadata[63], d.Metadata[95] = 0x60, 0xa0, 18
		d.Metadata[0] = ord
	case 3: // message without metadata, maximal amount
		d.LeafType = 1
		d.OriginNetwork = net
		d.OriginAddress = common.BytesToAddress([]byte{0xa3, byte(net), ord})
		d.Amount = new(big.Int).Sub(new(big.Int).Lsh(big.NewInt(1), 256), big.NewInt(int64(ord)))
	}
	return d
}
