package world

// OrderVariant: the same operations in another order on L1 — the first operation that adds an L1 info leaf (an L1
// deposit, a verification) and is preceded by a leaf-adding operation of another kind moves to the front, so the L1
// info leaf indices that cover a given deposit count differ between the dropped fork and the canonical chain.
func OrderVariant(ops []Op) ([]Op, bool) {
	adds := func(k OpKind) bool { return k == L1Deposit || k == VerifyRollupB || k == VerifyL2 }
	first := -1
	for j, o := range ops {
		if !adds(o.Kind) {
			continue
		}
		if first < 0 {
			first = j
			continue
		}
		if o.Kind != ops[first].Kind && (o.Kind == L1Deposit || ops[first].Kind == L1Deposit) {
			ops2 := append([]Op{o}, ops[:j]...)
			return append(ops2, ops[j+1:]...), true
		}
	}
	return nil, false
}


// SwapVariants: every scenario obtained by exchanging two L1 operations that add an L1 info leaf, are of different
// kinds and lie in the same L1 block (the same transactions included in another order by a competing block: the leaf
// after the later of the two is bit-for-bit the same on both forks, the leaf between them is not).
func SwapVariants(ops []Op) [][]Op {
	adds := func(k OpKind) bool { return k == L1Deposit || k == VerifyRollupB || k == VerifyL2 }
	var out [][]Op
	for i := range ops {
		if !adds(ops[i].Kind) {
			continue
		}
		for j := i + 1; j < len(ops) && ops[j].Kind != CloseL1Block; j++ {
			if !adds(ops[j].Kind) || ops[j].Kind == ops[i].Kind {
				continue
			}
			v := append([]Op{}, ops...)
			v[i], v[j] = v[j], v[i]
			if _, err := Build(v); err == nil {
				out = append(out, v)
			}
		}
	}
	return out
}
