package world

import (
	"fmt"
	"math/big"

	"github.com/ethereum/go-ethereum/common"
	"github.com/ethereum/go-ethereum/core/types"
	"verif/h/ref"
)

// ClaimData is what a claim transaction on L2 carried in its calldata (the values the bridge
// contract checked and accepted).
type ClaimData struct {
	Mainnet     bool
	RollupIndex uint32
	LeafIndex   uint32
	GlobalIndex *big.Int
	ProofLocal  [ref.Height]common.Hash
	ProofRollup [ref.Height]common.Hash
	MER, RER    common.Hash
	GER         common.Hash
}

type concrete struct {
	leaves [3][]ref.Hash // bridge leaf hashes per network
	roots  [3][]ref.Hash // roots[net][i] = exit root after i+1 deposits
	info   []ref.Hash    // L1 info tree root after i+1 leaves
	l1Hdr  map[uint64]*types.Header
	l2Hdr  map[uint64]*types.Header
}

const (
	l1Time0 = 1_700_000_000
	l2Time0 = 1_700_000_001
)

// LeafHash is the exit tree leaf of a deposit (reference computation).
func (d *Deposit) LeafHash() ref.Hash {
	return ref.BridgeLeaf(d.LeafType, d.OriginNetwork, d.OriginAddress, d.DestinationNetwork, d.DestinationAddress,
		d.Amount, d.Metadata)
}

// TxHash of the i-th transaction of a chain.
func TxHash(chain string, i int) common.Hash {
	return ref.Keccak([]byte(fmt.Sprintf("tx/%s/%d", chain, i)))
}

// Sender of the i-th transaction of a chain.
func Sender(chain string, i int) common.Address {
	h := ref.Keccak([]byte(fmt.Sprintf("from/%s/%d", chain, i)))
	return common.BytesToAddress(h[12:])
}

func digest(b *Block) []byte {
	s := ""
	for _, e := range b.Events {
		s += fmt.Sprintf("%d/%d/%d;", e.Kind, e.LogIndex, e.Tx)
		if e.Dep != nil {
			s += fmt.Sprintf("d%d.%d.%d;", e.Dep.Net, e.Dep.Count, e.Dep.Variant)
		}
		if e.Leaf != nil {
			s += fmt.Sprintf("l%d;", e.Leaf.Index)
		}
	}
	h := ref.Keccak([]byte(s))
	return h[:]
}

func headers(chain string, blocks []*Block, t0, dt uint64) map[uint64]*types.Header {
	m := map[uint64]*types.Header{}
	g := &types.Header{Number: big.NewInt(0), Time: t0, Extra: []byte(chain + " genesis"), Difficulty: big.NewInt(0)}
	m[0] = g
	parent := g.Hash()
	for _, b := range blocks {
		h := &types.Header{ParentHash: parent, Number: new(big.Int).SetUint64(b.Num), Time: t0 + dt*b.Num,
			Extra: digest(b), Difficulty: big.NewInt(0)}
		m[b.Num] = h
		b.ParentHash, b.Hash, b.Timestamp = parent, h.Hash(), h.Time
		parent = b.Hash
	}
	return m
}

// Materialize computes every hash, root, header and proof of the world from the abstract state,
// with package ref only. Call Finish first: only closed blocks exist for the node.
func (w *World) Materialize() {
	if w.concrete != nil {
		return
	}
	c := &concrete{}
	for net, deps := range [][]*Deposit{w.L1Deps, w.L2Deps, w.BDeps} {
		hs := make([]ref.Hash, len(deps))
		for i, d := range deps {
			hs[i] = d.LeafHash()
		}
		c.leaves[net] = hs
		c.roots[net] = ref.AppendRoots(hs)
	}
	c.l1Hdr = headers("L1", w.L1Blocks, l1Time0, 12)
	c.l2Hdr = headers("L2", w.L2Blocks, l2Time0, 3)
	w.concrete = c

	closed := uint64(len(w.L1Blocks))
	var infoLeaves []ref.Hash
	for _, l := range w.Leaves {
		if l.Block > closed {
			break // still in the open block: not observable
		}
		b := w.L1Blocks[l.Block-1]
		l.MER = w.ExitRootOrZero(NetL1, l.MerCount)
		l.RER = w.RollupExitRoot(l.BVer, l.L2Ver)
		l.GER = ref.GER(l.MER, l.RER)
		l.ParentHash, l.Timestamp = b.ParentHash, b.Timestamp
		l.Hash = ref.L1InfoLeaf(l.GER, l.ParentHash, l.Timestamp)
		infoLeaves = append(infoLeaves, l.Hash)
	}
	c.info = ref.AppendRoots(infoLeaves)
	for i := range c.info {
		w.Leaves[i].RootAfter = c.info[i]
	}
	for _, e := range w.Claims {
		e.Claim = w.claimData(e.Dep, e.Leaf)
	}
}

// ExitRootOrZero is the exit root of a network after count deposits as the L1 contracts hold it:
// 0x0 while nothing was ever reported (count 0).
func (w *World) ExitRootOrZero(net uint32, count uint32) ref.Hash {
	if count == 0 {
		return ref.Hash{}
	}
	return w.concrete.roots[net][count-1]
}

// ExitRoot is the root of the exit tree of a network holding its first count deposits (count 0:
// the root of the empty tree).
func (w *World) ExitRoot(net uint32, count uint32) ref.Hash {
	if count == 0 {
		return ref.Zero(ref.Height)
	}
	return w.concrete.roots[net][count-1]
}

// ExitTree is the exit tree of a network holding its first count deposits.
func (w *World) ExitTree(net uint32, count uint32) *ref.Merkle {
	m := ref.NewMerkle()
	for i := uint32(0); i < count; i++ {
		m.Set(i, w.concrete.leaves[net][i])
	}
	return m
}

// RollupExitTree is the rollup manager's tree of local exit roots: position rollupID-1.
func (w *World) RollupExitTree(bVer, l2Ver uint32) *ref.Merkle {
	m := ref.NewMerkle()
	if l2Ver > 0 {
		m.Set(NetL2-1, w.ExitRootOrZero(NetL2, l2Ver))
	}
	if bVer > 0 {
		m.Set(NetB-1, w.ExitRootOrZero(NetB, bVer))
	}
	return m
}

// RollupExitRoot as the GER manager holds it: 0x0 until the first verification.
func (w *World) RollupExitRoot(bVer, l2Ver uint32) ref.Hash {
	if bVer == 0 && l2Ver == 0 {
		return ref.Hash{}
	}
	return w.RollupExitTree(bVer, l2Ver).Root()
}

// InfoRoot is the L1 info tree root after leafCount leaves (0: empty tree).
func (w *World) InfoRoot(leafCount uint32) ref.Hash {
	if leafCount == 0 {
		return ref.Zero(ref.Height)
	}
	return w.concrete.info[leafCount-1]
}

// ObservableLeaves are the L1 info leaves in closed blocks.
func (w *World) ObservableLeaves() []*InfoLeaf { return w.Leaves[:len(w.concrete.info)] }

// L1Header / L2Header return the header of a closed block (nil: no such block).
func (w *World) L1Header(num uint64) *types.Header { return w.concrete.l1Hdr[num] }
func (w *World) L2Header(num uint64) *types.Header { return w.concrete.l2Hdr[num] }

func (w *World) claimData(d *Deposit, l *InfoLeaf) *ClaimData {
	cd := &ClaimData{LeafIndex: d.Count, MER: l.MER, RER: l.RER, GER: l.GER}
	if d.Net == NetL1 {
		cd.Mainnet = true
		cd.ProofLocal = w.ExitTree(NetL1, l.MerCount).Proof(d.Count)
		// smtProofRollupExitRoot is ignored by the contract for mainnet leaves; claimers send what the
		// bridge service returned for network 0: the empty proof
	} else {
		cd.RollupIndex = NetB - 1
		cd.ProofLocal = w.ExitTree(NetB, l.BVer).Proof(d.Count)
		cd.ProofRollup = w.RollupExitTree(l.BVer, l.L2Ver).Proof(NetB - 1)
	}
	cd.GlobalIndex = ref.GlobalIndex(cd.Mainnet, cd.RollupIndex, cd.LeafIndex)
	// the contract's own acceptance check, with the reference verifier
	if cd.Mainnet {
		if ref.Verify(d.LeafHash(), cd.ProofLocal, d.Count) != l.MER {
			panic("world: mainnet claim proof does not verify")
		}
	} else {
		ler := ref.Verify(d.LeafHash(), cd.ProofLocal, d.Count)
		if ler != w.ExitRootOrZero(NetB, l.BVer) || ref.Verify(ler, cd.ProofRollup, cd.RollupIndex) != l.RER {
			panic("world: rollup claim proof does not verify")
		}
	}
	return cd
}

// ObservableOrAllLeaves is usable before Materialize: every leaf of the abstract state.
func (w *World) ObservableOrAllLeaves() []*InfoLeaf { return w.Leaves }
