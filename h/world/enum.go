package world

import (
	"crypto/sha256"
	"encoding/binary"
)

// Template is one letter of a family's alphabet. In a given state it expands to zero or more
// instances; an instance is a short fixed sequence of operations (a single operation, or a macro
// such as "finalize everything that is closed, then inject").
type Template struct {
	Name      string
	Instances func(w *World) [][]Op
}

// One is the template of a single fixed operation.
func One(op Op) Template {
	return Template{Name: op.String(), Instances: func(*World) [][]Op { return [][]Op{{op}} }}
}

// Seq is the template of a fixed sequence (macro).
func Seq(name string, ops ...Op) Template {
	return Template{Name: name, Instances: func(*World) [][]Op { return [][]Op{ops} }}
}

// FinalizeAllAndInject: the finalized pointer moves to the last closed L1 block (if it is behind),
// then the oracle injects the latest finalized GER.
func FinalizeAllAndInject() Template {
	return Template{Name: "F*+INJ", Instances: func(w *World) [][]Op {
		var ops []Op
		if k := len(w.L1Blocks) - int(w.Finalized); k > 0 {
			ops = append(ops, Op{Kind: FinalizeL1, A: k})
		}
		return [][]Op{append(ops, Op{Kind: InjectGER})}
	}}
}

// CloseFinalizeInject: close the open L1 block if it holds events, finalize everything, inject.
func CloseFinalizeInject() Template {
	return Template{Name: "C1+F*+INJ", Instances: func(w *World) [][]Op {
		var ops []Op
		closed := len(w.L1Blocks)
		if len(w.L1Open.Events) > 0 {
			ops = append(ops, Op{Kind: CloseL1Block})
			closed++
		}
		if k := closed - int(w.Finalized); k > 0 {
			ops = append(ops, Op{Kind: FinalizeL1, A: k})
		}
		return [][]Op{append(ops, Op{Kind: InjectGER})}
	}}
}

// AnyClaim expands to every claim the L2 bridge would accept now: every unclaimed deposit destined
// to L2 against every injected GER that covers it (all=false: only the newest and the oldest
// covering GER, which are the two extremes the properties care about).
func AnyClaim(all bool) Template {
	return Template{Name: "CL(*)", Instances: func(w *World) [][]Op {
		var out [][]Op
		for _, net := range []uint32{NetL1, NetB} {
			for _, d := range w.depsOf(net) {
				if d.DestinationNetwork != NetL2 || w.claimed[[2]uint32{net, d.Count}] {
					continue
				}
				var cov []int
				seen := map[uint32]bool{}
				for _, l := range w.Injected {
					if seen[l.Index] {
						continue
					}
					if net == NetL1 && l.CoversL1(d.Count) || net == NetB && l.CoversB(d.Count) {
						cov = append(cov, int(l.Index))
						seen[l.Index] = true
					}
				}
				if !all && len(cov) > 2 {
					cov = []int{cov[0], cov[len(cov)-1]}
				}
				for _, li := range cov {
					out = append(out, []Op{{Kind: ClaimOnL2, A: int(net), B: int(d.Count), C: li}})
				}
			}
		}
		return out
	}}
}

// Family is a bounded set of scenarios: all sequences of at most MaxLen template instances.
type Family struct {
	Name         string
	Prelude      []Op // applied before the enumerated part (not counted in the length)
	Templates    []Template
	MaxLen       int
	Limits       Limits
	WithFinality bool              // distinguish scenarios by the L1 finalized pointer at each L2 block close
	Keep         func(*World) bool // on the finished world: is the scenario relevant to the property
	// Spacings: every scenario of the family is run once per L2 block numbering (nil: the dense numbering only)
	Spacings []Spacing
}

// Scenario is one enumerated operation sequence.
type Scenario struct {
	Family string
	Len    int // number of template instances
	Ops    []Op
}

func h128(s string) [16]byte {
	h := sha256.Sum256([]byte(s))
	var o [16]byte
	copy(o[:], h[:16])
	return o
}

// Enumerate lists the family's scenarios, shortest first, de-duplicated by the canonical form of
// the finished world (two sequences that differ only in the order of independent operations, or in
// a trailing block close, are the same scenario). Deterministic.
func Enumerate(f Family) []Scenario {
	var out []Scenario
	seen := map[[16]byte]struct{}{}
	emitted := map[[16]byte]struct{}{}
	emit := func(w *World, n int) {
		k := h128(w.Key(true, f.WithFinality))
		if _, ok := emitted[k]; ok {
			return
		}
		emitted[k] = struct{}{}
		if f.Keep != nil {
			fw := w.Clone()
			fw.Finish()
			if !f.Keep(fw) {
				return
			}
		}
		out = append(out, Scenario{Family: f.Name, Len: n, Ops: append([]Op{}, w.Ops...)})
	}
	w0 := New()
	for _, op := range f.Prelude {
		if err := w0.Step(op, Limits{}); err != nil {
			panic(err)
		}
	}
	frontier := []*World{w0}
	emit(w0, 0)
	seen[h128(frontier[0].Key(false, f.WithFinality))] = struct{}{}
	for depth := 1; depth <= f.MaxLen && len(frontier) > 0; depth++ {
		var next []*World
		for _, w := range frontier {
			for _, t := range f.Templates {
				for _, inst := range t.Instances(w) {
					ok := true
					n := w.Clone()
					for _, op := range inst {
						if en, _ := n.Enabled(op, f.Limits); !en {
							ok = false
							break
						}
						n.Apply(op)
					}
					if !ok {
						continue
					}
					k := h128(n.Key(false, f.WithFinality))
					if _, dup := seen[k]; dup {
						continue
					}
					seen[k] = struct{}{}
					emit(n, depth)
					if depth < f.MaxLen {
						next = append(next, n)
					}
				}
			}
		}
		frontier = next
	}
	return out
}

// Build replays an operation sequence from the initial world, finishes and materializes it.
func Build(ops []Op) (*World, error) { return BuildSpaced(ops, Spacing{}) }

// BuildSpaced is Build with another numbering of the L2 blocks.
func BuildSpaced(ops []Op, sp Spacing) (*World, error) {
	w := NewSpaced(sp)
	for _, op := range ops {
		if err := w.Step(op, Limits{}); err != nil {
			return nil, err
		}
	}
	w.Finish()
	w.Materialize()
	return w, nil
}

// Seed64 is a stable 64-bit digest of an operation sequence (for deterministic variation).
func Seed64(ops []Op) uint64 {
	h := sha256.Sum256([]byte(OpsString(ops)))
	return binary.LittleEndian.Uint64(h[:8])
}

// L1DepositRot is an L1 deposit whose field variant rotates with the deposit count (every world
// with several deposits mixes assets, messages, empty and non-empty metadata, small and huge amounts).
func L1DepositRot(quiet bool) Template {
	name, q := "L1D*", 0
	if quiet {
		name, q = "L1Dq*", 1
	}
	return Template{Name: name, Instances: func(w *World) [][]Op {
		return [][]Op{{{Kind: L1Deposit, A: (len(w.L1Deps) + 1) % 5, B: q}}}
	}}
}

// BDepositRot is a deposit on rollup B with a rotating field variant.
func BDepositRot() Template {
	return Template{Name: "BD*", Instances: func(w *World) [][]Op {
		return [][]Op{{{Kind: RollupBDeposit, A: (len(w.BDeps) + 3) % 5}}}
	}}
}

// L2DepositRot is a deposit on our L2 with a rotating field variant (and destination network).
func L2DepositRot() Template {
	return Template{Name: "L2D*", Instances: func(w *World) [][]Op {
		return [][]Op{{{Kind: L2Deposit, A: (len(w.L2Deps) + 4) % 5}}}
	}}
}

// NextClaim expands to the claim of the lowest-numbered unclaimed deposit of each origin (mainnet,
// rollup B), against the oldest and against the newest injected GER covering it.
func NextClaim() Template {
	any := AnyClaim(false)
	return Template{Name: "CL(next)", Instances: func(w *World) [][]Op {
		var out [][]Op
		first := map[int]int{}
		for _, inst := range any.Instances(w) {
			op := inst[0]
			if b, ok := first[op.A]; ok && b != op.B {
				continue
			}
			first[op.A] = op.B
			out = append(out, inst)
		}
		return out
	}}
}
