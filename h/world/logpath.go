package world

// The L2 bridge store is fed through the REAL log appender of the bridge syncer (bridgesync.buildAppender through the
// VerifBuildAppender hook, syncFullClaims = true): every bridge and claim of a closed L2 block is rendered as the log the
// bridge contract emits (ABI-packed with the binding's own ABI) plus the call trace of its transaction, the real handlers
// parse them (ParseBridgeEvent / ParseClaimEvent, extractCall, setClaimCalldata) and what they append is what the store
// processes. The hand-written rendering in load.go (bridgeEvent / claimEvent) states what the chain event is; the two must
// agree field by field, so a handler that drops, swaps or truncates a field is reported by every check that loads a world.

import (
	"context"
	"encoding/json"
	"fmt"
	"math/big"
	"strings"
	gosync "sync"

	"github.com/0xPolygon/cdk-contracts-tooling/contracts/pp/l2-sovereign-chain/polygonzkevmbridgev2"
	"github.com/agglayer/aggkit/bridgesync"
	"github.com/agglayer/aggkit/sync"
	aggkittypes "github.com/agglayer/aggkit/types"
	"github.com/ethereum/go-ethereum"
	"github.com/ethereum/go-ethereum/accounts/abi"
	"github.com/ethereum/go-ethereum/common"
	"github.com/ethereum/go-ethereum/common/hexutil"
	"github.com/ethereum/go-ethereum/core/types"
)

var l2BridgeAddr = common.HexToAddress("0x00000000000000000000000000000000b21d9e02")

type traceNode struct {
	aggkittypes.EthClienter
	gasTokenSelector []byte
	mu               gosync.Mutex
	traces           map[common.Hash][]byte
}

func (f *traceNode) CallContract(_ context.Context, msg ethereum.CallMsg, _ *big.Int) ([]byte, error) {
	if msg.To == nil || *msg.To != l2BridgeAddr || string(msg.Data) != string(f.gasTokenSelector) {
		return nil, fmt.Errorf("world trace node: unexpected eth_call %x", msg.Data)
	}
	return common.LeftPadBytes(GasToken.Bytes(), 32), nil // abi.encode(address): the chain has a custom gas token
}

func (f *traceNode) Call(result any, method string, args ...any) error {
	if method != "debug_traceTransaction" || len(args) != 2 {
		return fmt.Errorf("world trace node: unknown RPC %s/%d", method, len(args))
	}
	txh, ok := args[0].(common.Hash)
	if !ok {
		return fmt.Errorf("world trace node: bad transaction argument %T", args[0])
	}
	f.mu.Lock()
	tr, ok := f.traces[txh]
	f.mu.Unlock()
	if !ok {
		return fmt.Errorf("world trace node: transaction %s not found", txh.Hex())
	}
	return json.Unmarshal(tr, result)
}

type l2LogPath struct {
	node     *traceNode
	abi      *abi.ABI
	appender sync.LogAppenderMap
}

var (
	l2PathOnce gosync.Once
	l2Path     *l2LogPath
)

func getL2Path() *l2LogPath {
	l2PathOnce.Do(func() {
		a, err := polygonzkevmbridgev2.Polygonzkevmbridgev2MetaData.GetAbi()
		if err != nil {
			panic(err)
		}
		n := &traceNode{gasTokenSelector: a.Methods["gasTokenAddress"].ID, traces: map[common.Hash][]byte{}}
		app, err := bridgesync.VerifBuildAppender(n, l2BridgeAddr, true)
		if err != nil {
			panic(fmt.Sprintf("world: VerifBuildAppender: %v", err))
		}
		l2Path = &l2LogPath{node: n, abi: a, appender: app}
	})
	return l2Path
}

func (lp *l2LogPath) setTrace(tx common.Hash, from common.Address, input []byte) {
	tr, _ := json.Marshal(map[string]any{"from": from, "to": l2BridgeAddr, "value": "0x0", "input": hexutil.Encode(input)})
	lp.node.mu.Lock()
	lp.node.traces[tx] = tr
	lp.node.mu.Unlock()
}

func (lp *l2LogPath) dropTrace(tx common.Hash) {
	lp.node.mu.Lock()
	delete(lp.node.traces, tx)
	lp.node.mu.Unlock()
}

func bridgeCalldata(chain string, tx int) []byte {
	return append([]byte{0xcd, 0x58, 0x65, 0x79}, TxHash(chain, tx).Bytes()[:8]...)
}

// L2BridgeBlockViaLogs renders a closed L2 block for the L2 bridge syncer's store by running the real log handlers.
func (w *World) L2BridgeBlockViaLogs(b *Block) (sync.Block, error) { return w.bridgeBlockViaLogs("L2", b) }

// L1BridgeBlockViaLogs: the same for the L1 bridge syncer's store (bridges only; claims on L1 are not part of a world).
func (w *World) L1BridgeBlockViaLogs(b *Block) (sync.Block, error) { return w.bridgeBlockViaLogs("L1", b) }

func (w *World) bridgeBlockViaLogs(chain string, b *Block) (sync.Block, error) {
	lp := getL2Path()
	eb := &sync.EVMBlock{EVMBlockHeader: sync.EVMBlockHeader{Num: b.Num, Hash: b.Hash, ParentHash: b.ParentHash, Timestamp: b.Timestamp}}
	for _, e := range b.Events {
		if e.Kind != EvBridge && (e.Kind != EvClaim || chain != "L2") {
			continue
		}
		txh := TxHash(chain, e.Tx)
		var (
			evName string
			data   []byte
			err    error
		)
		d := e.Dep
		switch e.Kind {
		case EvBridge:
			evName = "BridgeEvent"
			data, err = lp.abi.Events[evName].Inputs.Pack(d.LeafType, d.OriginNetwork, d.OriginAddress, d.DestinationNetwork,
				d.DestinationAddress, d.Amount, d.Metadata, d.Count)
			lp.setTrace(txh, Sender(chain, e.Tx), bridgeCalldata(chain, d.Tx))
		case EvClaim:
			evName = "ClaimEvent"
			cd := e.Claim
			data, err = lp.abi.Events[evName].Inputs.Pack(cd.GlobalIndex, d.OriginNetwork, d.OriginAddress, d.DestinationAddress, d.Amount)
			if err != nil {
				break
			}
			method := "claimAsset"
			if d.LeafType == 1 {
				method = "claimMessage"
			}
			var pl, pr [32][32]byte
			for i := range pl {
				pl[i], pr[i] = cd.ProofLocal[i], cd.ProofRollup[i]
			}
			var input []byte
			input, err = lp.abi.Pack(method, pl, pr, cd.GlobalIndex, [32]byte(cd.MER), [32]byte(cd.RER), d.OriginNetwork, d.OriginAddress,
				d.DestinationNetwork, d.DestinationAddress, d.Amount, d.Metadata)
			lp.setTrace(txh, Sender(chain, e.Tx), input)
		}
		if err != nil {
			return sync.Block{}, fmt.Errorf("world: packing %s: %w", evName, err)
		}
		ev := lp.abi.Events[evName]
		h, ok := lp.appender[ev.ID]
		if !ok {
			return sync.Block{}, fmt.Errorf("the bridge syncer's appender has no handler for the %s topic of the contract binding", evName)
		}
		l := types.Log{Address: l2BridgeAddr, Topics: []common.Hash{ev.ID}, Data: data, BlockNumber: b.Num, TxHash: txh,
			BlockHash: b.Hash, Index: uint(e.LogIndex)}
		herr := h(eb, l)
		lp.dropTrace(txh)
		if herr != nil {
			return sync.Block{}, fmt.Errorf("the bridge syncer's %s handler refused the log of %s block %d, log %d: %w", evName, chain, b.Num, e.LogIndex, herr)
		}
	}
	return sync.Block{Num: b.Num, Hash: b.Hash, Events: eb.Events}, nil
}

// sameEvents compares what the real handlers appended with the chain events as load.go states them, field by field over the
// fields this package knows (a field added to the event structs later is not judged).
func sameEvents(got, want []any) error {
	if len(got) != len(want) {
		return fmt.Errorf("the real log handlers appended %d events, the block holds %d bridge/claim events", len(got), len(want))
	}
	norm := func(v any) (map[string]any, string) {
		b, _ := json.Marshal(v)
		// an absent byte string may be nil or empty
		txt := strings.ReplaceAll(string(b), ":null", `:""`)
		var m map[string]any
		dec := json.NewDecoder(strings.NewReader(txt))
		dec.UseNumber()
		_ = dec.Decode(&m)
		return m, txt
	}
	var differs func(path string, g, w any) string
	differs = func(path string, g, w any) string {
		wm, ok := w.(map[string]any)
		if !ok {
			gb, _ := json.Marshal(g)
			wb, _ := json.Marshal(w)
			if string(gb) != string(wb) {
				return path
			}
			return ""
		}
		gm, _ := g.(map[string]any)
		for k, wv := range wm {
			if d := differs(path+"."+k, gm[k], wv); d != "" {
				return d
			}
		}
		return ""
	}
	for i := range got {
		gm, gtxt := norm(got[i])
		wm, wtxt := norm(want[i])
		if d := differs("event", gm, wm); d != "" {
			return fmt.Errorf("event %d differs at %s: the real log handler appended\n      %s\n   the chain event is\n      %s", i, d, gtxt, wtxt)
		}
	}
	return nil
}

// LoadKey names a load failure: what the real log handlers appended is a finding about the bridge syncer, not about the store.
func LoadKey(err error, storeKey string) string {
	if err != nil && strings.Contains(err.Error(), "bridge syncer") {
		return "bridge-syncer/appended-events-differ-from-the-chain-events"
	}
	return storeKey
}
