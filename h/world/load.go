package world

import (
	"context"
	"database/sql"
	"fmt"
	"math/big"
	"os"
	"path/filepath"
	"sync/atomic"

	"github.com/agglayer/aggkit/bridgesync"
	"github.com/agglayer/aggkit/l1infotreesync"
	"github.com/agglayer/aggkit/lastgersync"
	"github.com/agglayer/aggkit/sync"
	"github.com/ethereum/go-ethereum/common"
	"verif/h/ref"
)

// Stores are REAL aggkit stores (real processors behind the real facades, no driver), on
// database files in a per-execution directory under /dev/shm.
type Stores struct {
	Dir      string
	L1Bridge *bridgesync.BridgeSync
	L2Bridge *bridgesync.BridgeSync
	L1Info   *l1infotreesync.L1InfoTreeSync
	LastGER  *lastgersync.LastGERSync
	dbs      []*sql.DB
}

// Which selects the stores to build.
type Which struct{ L1Bridge, L2Bridge, L1Info, LastGER bool }

var dirSeq atomic.Uint64

// ScratchDir creates a fresh per-execution directory (under $VERIF_SCRATCH if set, else /dev/shm).
func ScratchDir(prefix string) (string, error) {
	parent := os.Getenv("VERIF_SCRATCH")
	if parent == "" {
		parent = "/dev/shm"
	}
	d := filepath.Join(parent, fmt.Sprintf("%s-%d-%d", prefix, os.Getpid(), dirSeq.Add(1)))
	return d, os.MkdirAll(d, 0o755)
}

// NewStores builds the selected stores (each constructor runs the real migrations).
func NewStores(which Which) (*Stores, error) {
	dir, err := ScratchDir("world")
	if err != nil {
		return nil, err
	}
	s := &Stores{Dir: dir}
	fail := func(err error) (*Stores, error) { s.Close(); return nil, err }
	if which.L1Bridge {
		if s.L1Bridge, err = bridgesync.NewVerifBridgeSync(filepath.Join(dir, "bridge_l1.sqlite"),
			bridgesync.L1BridgeSyncer, NetL1, nil); err != nil {
			return fail(err)
		}
		s.dbs = append(s.dbs, s.L1Bridge.VerifDB())
	}
	if which.L2Bridge {
		if s.L2Bridge, err = bridgesync.NewVerifBridgeSync(filepath.Join(dir, "bridge_l2.sqlite"),
			bridgesync.L2BridgeSyncer, NetL2, nil); err != nil {
			return fail(err)
		}
		s.dbs = append(s.dbs, s.L2Bridge.VerifDB())
	}
	if which.L1Info {
		if s.L1Info, err = l1infotreesync.NewVerifL1InfoTreeSync(filepath.Join(dir, "l1info.sqlite")); err != nil {
			return fail(err)
		}
		s.dbs = append(s.dbs, s.L1Info.VerifDB())
	}
	if which.LastGER {
		if s.LastGER, err = lastgersync.NewVerifLastGERSync(filepath.Join(dir, "lastger.sqlite")); err != nil {
			return fail(err)
		}
		s.dbs = append(s.dbs, s.LastGER.VerifDB())
	}
	return s, nil
}

// TrackDB registers another database handle to be closed with the stores.
func (s *Stores) TrackDB(db *sql.DB) { s.dbs = append(s.dbs, db) }

// Close closes every database and deletes the directory.
func (s *Stores) Close() {
	for _, db := range s.dbs {
		db.Close()
	}
	os.RemoveAll(s.Dir)
}

// bridgeEvent is the value the real bridge downloader would append for a BridgeEvent log.
func bridgeEvent(chain string, b *Block, d *Deposit) bridgesync.Event {
	// calldata as found by extractCall: opaque to the store; kept small and distinct
	calldata := append([]byte{0xcd, 0x58, 0x65, 0x79}, TxHash(chain, d.Tx).Bytes()[:8]...)
	return bridgesync.Event{Bridge: &bridgesync.Bridge{
		BlockNum:           b.Num,
		BlockPos:           d.LogIndex,
		FromAddress:        Sender(chain, d.Tx),
		TxHash:             TxHash(chain, d.Tx),
		Calldata:           calldata,
		BlockTimestamp:     b.Timestamp,
		LeafType:           d.LeafType,
		OriginNetwork:      d.OriginNetwork,
		OriginAddress:      d.OriginAddress,
		DestinationNetwork: d.DestinationNetwork,
		DestinationAddress: d.DestinationAddress,
		Amount:             new(big.Int).Set(d.Amount),
		Metadata:           append([]byte(nil), d.Metadata...),
		DepositCount:       d.Count,
		IsNativeToken:      d.OriginAddress == (common.Address{}) || d.OriginAddress == GasToken,
	}}
}

// claimEvent is the value the real bridge downloader would append for a ClaimEvent log after
// setClaimCalldata decoded the claim call (syncFullClaims).
func claimEvent(b *Block, e *Event) bridgesync.Event {
	d, cd := e.Dep, e.Claim
	return bridgesync.Event{Claim: &bridgesync.Claim{
		BlockNum:            b.Num,
		BlockPos:            e.LogIndex,
		FromAddress:         Sender("L2", e.Tx),
		TxHash:              TxHash("L2", e.Tx),
		GlobalIndex:         new(big.Int).Set(cd.GlobalIndex),
		OriginNetwork:       d.OriginNetwork,
		OriginAddress:       d.OriginAddress,
		DestinationAddress:  d.DestinationAddress,
		Amount:              new(big.Int).Set(d.Amount),
		ProofLocalExitRoot:  cd.ProofLocal,
		ProofRollupExitRoot: cd.ProofRollup,
		MainnetExitRoot:     cd.MER,
		RollupExitRoot:      cd.RER,
		GlobalExitRoot:      ref.GER(cd.MER, cd.RER), // the downloader derives it from the calldata roots
		DestinationNetwork:  d.DestinationNetwork,
		Metadata:            append([]byte(nil), d.Metadata...),
		IsMessage:           d.LeafType == 1,
		BlockTimestamp:      b.Timestamp,
	}}
}

// L1BridgeBlock renders a closed L1 block as the L1 bridge syncer's driver would hand it to its store.
func (w *World) L1BridgeBlock(b *Block) sync.Block {
	sb := sync.Block{Num: b.Num, Hash: b.Hash}
	for _, e := range b.Events {
		if e.Kind == EvBridge {
			sb.Events = append(sb.Events, bridgeEvent("L1", b, e.Dep))
		}
	}
	return sb
}

// L2BridgeBlock renders a closed L2 block for the L2 bridge syncer's store.
func (w *World) L2BridgeBlock(b *Block) sync.Block {
	sb := sync.Block{Num: b.Num, Hash: b.Hash}
	for _, e := range b.Events {
		switch e.Kind {
		case EvBridge:
			sb.Events = append(sb.Events, bridgeEvent("L2", b, e.Dep))
		case EvClaim:
			sb.Events = append(sb.Events, claimEvent(b, e))
		}
	}
	return sb
}

// L1InfoBlock renders a closed L1 block for the L1 info tree syncer's store: UpdateL1InfoTree,
// UpdateL1InfoTreeV2 (whose root / leaf count the store cross-checks) and VerifyBatches*.
func (w *World) L1InfoBlock(b *Block) sync.Block {
	sb := sync.Block{Num: b.Num, Hash: b.Hash}
	for _, e := range b.Events {
		switch e.Kind {
		case EvInfo:
			l := e.Leaf
			sb.Events = append(sb.Events,
				l1infotreesync.Event{UpdateL1InfoTree: &l1infotreesync.UpdateL1InfoTree{
					BlockPosition: l.LogIndex, MainnetExitRoot: l.MER, RollupExitRoot: l.RER,
					ParentHash: b.ParentHash, Timestamp: b.Timestamp}},
				l1infotreesync.Event{UpdateL1InfoTreeV2: &l1infotreesync.UpdateL1InfoTreeV2{
					CurrentL1InfoRoot: l.RootAfter, LeafCount: l.Index + 1, Blockhash: b.ParentHash,
					MinTimestamp: b.Timestamp}})
		case EvVerify:
			sb.Events = append(sb.Events, l1infotreesync.Event{VerifyBatches: &l1infotreesync.VerifyBatches{
				BlockPosition: e.LogIndex, RollupID: e.RollupID, NumBatch: e.NumBatch,
				StateRoot:  ref.Keccak([]byte(fmt.Sprintf("state/%d/%d", e.RollupID, e.NumBatch))),
				ExitRoot:   w.ExitRootOrZero(e.RollupID, e.Count),
				Aggregator: Sender("L1", e.Tx)}})
		}
	}
	return sb
}

// LastGERBlock renders a closed L2 block for the injected-GER syncer's store.
func (w *World) LastGERBlock(b *Block) sync.Block {
	sb := sync.Block{Num: b.Num, Hash: b.Hash}
	for _, e := range b.Events {
		if e.Kind == EvInject {
			sb.Events = append(sb.Events, lastgersync.VerifEvent(lastgersync.GEREvent{
				BlockNum: b.Num, GlobalExitRoot: e.Leaf.GER, L1InfoTreeIndex: e.Leaf.Index}))
		}
	}
	return sb
}

// LoadL1 feeds the L1-side stores the way a caught-up syncer would have: every block that holds
// an event of the store's contracts, plus the last closed block (the driver always records the
// end of a downloaded range). dense=true feeds every closed block.
func (w *World) LoadL1(ctx context.Context, s *Stores, dense bool) error {
	last := len(w.L1Blocks) - 1
	for i, b := range w.L1Blocks {
		if s.L1Bridge != nil {
			if want := w.L1BridgeBlock(b); dense || len(want.Events) > 0 || i == last {
				// through the real log handlers of the bridge syncer (logpath.go)
				sb, err := w.L1BridgeBlockViaLogs(b)
				if err != nil {
					return fmt.Errorf("L1 bridge syncer, block %d: %w", b.Num, err)
				}
				if err := sameEvents(sb.Events, want.Events); err != nil {
					return fmt.Errorf("L1 bridge syncer, block %d: %w", b.Num, err)
				}
				if err := s.L1Bridge.VerifStore().ProcessBlock(ctx, sb); err != nil {
					return fmt.Errorf("L1 bridge store, block %d: %w", b.Num, err)
				}
			}
		}
		if s.L1Info != nil {
			if sb := w.L1InfoBlock(b); dense || len(sb.Events) > 0 || i == last {
				if err := s.L1Info.VerifStore().ProcessBlock(ctx, sb); err != nil {
					return fmt.Errorf("L1 info store, block %d: %w", b.Num, err)
				}
			}
		}
	}
	return nil
}

// LoadL2Block feeds one closed L2 block to the L2 bridge store.
func (w *World) LoadL2Block(ctx context.Context, s *Stores, b *Block) error {
	if s.L2Bridge != nil {
		// through the real log handlers of the bridge syncer (logpath.go); what they append must be the chain's events
		sb, err := w.L2BridgeBlockViaLogs(b)
		if err != nil {
			return fmt.Errorf("L2 bridge syncer, block %d: %w", b.Num, err)
		}
		if err := sameEvents(sb.Events, w.L2BridgeBlock(b).Events); err != nil {
			return fmt.Errorf("L2 bridge syncer, block %d: %w", b.Num, err)
		}
		if err := s.L2Bridge.VerifStore().ProcessBlock(ctx, sb); err != nil {
			return fmt.Errorf("L2 bridge store, block %d: %w", b.Num, err)
		}
	}
	return nil
}

// LoadLastGERBlock feeds one closed L2 block to the injected-GER store.
func (w *World) LoadLastGERBlock(ctx context.Context, s *Stores, b *Block) error {
	if err := s.LastGER.VerifStore().ProcessBlock(ctx, w.LastGERBlock(b)); err != nil {
		return fmt.Errorf("injected GER store, block %d: %w", b.Num, err)
	}
	return nil
}

// CheckL1 compares the L1-side stores' own answers with the world's reference trees (every exit
// root by index, every L1 info leaf and root, every verified local exit root). A difference is
// either a harness bug or a C01/C11 finding; the scenario must not be used then. withRollupTree=false
// leaves out the rollup exit tree lookups (for C12, whose own oracle is about exactly those).
func (w *World) CheckL1(ctx context.Context, s *Stores, withRollupTree bool) error {
	if s.L1Bridge != nil {
		for i := range w.L1Deps {
			r, err := s.L1Bridge.GetExitRootByIndex(ctx, uint32(i))
			if err != nil || r.Hash != w.ExitRoot(NetL1, uint32(i+1)) {
				return fmt.Errorf("L1 bridge store: exit root after deposit %d: got %v (%v), reference %v",
					i, r.Hash, err, w.ExitRoot(NetL1, uint32(i+1)))
			}
		}
	}
	if s.L1Info != nil {
		for _, l := range w.ObservableLeaves() {
			got, err := s.L1Info.GetInfoByIndex(ctx, l.Index)
			if err != nil || got.GlobalExitRoot != l.GER || got.Hash != l.Hash || got.MainnetExitRoot != l.MER ||
				got.RollupExitRoot != l.RER || got.BlockNumber != l.Block {
				return fmt.Errorf("L1 info store: leaf %d: got %+v (%v), reference %+v", l.Index, got, err, l)
			}
			r, err := s.L1Info.GetL1InfoTreeRootByIndex(ctx, l.Index)
			if err != nil || r.Hash != l.RootAfter {
				return fmt.Errorf("L1 info store: root after leaf %d: got %v (%v), reference %v", l.Index, r.Hash, err, l.RootAfter)
			}
			if !withRollupTree {
				continue
			}
			if l.BVer > 0 {
				ler, err := s.L1Info.GetLocalExitRoot(ctx, NetB, l.RER)
				if err != nil || ler != w.ExitRootOrZero(NetB, l.BVer) {
					return fmt.Errorf("L1 info store: rollup exit tree under leaf %d: B's exit root %v (%v), reference %v",
						l.Index, ler, err, w.ExitRootOrZero(NetB, l.BVer))
				}
			}
			if l.L2Ver > 0 {
				ler, err := s.L1Info.GetLocalExitRoot(ctx, NetL2, l.RER)
				if err != nil || ler != w.ExitRootOrZero(NetL2, l.L2Ver) {
					return fmt.Errorf("L1 info store: rollup exit tree under leaf %d: L2's exit root %v (%v), reference %v",
						l.Index, ler, err, w.ExitRootOrZero(NetL2, l.L2Ver))
				}
			}
		}
	}
	return nil
}

// CheckL2 compares the L2 bridge store's exit roots with the reference, for the deposits in blocks
// up to upTo.
func (w *World) CheckL2(ctx context.Context, s *Stores, upTo uint64) error {
	for i, d := range w.L2Deps {
		if d.Block > upTo {
			break
		}
		r, err := s.L2Bridge.GetExitRootByIndex(ctx, uint32(i))
		if err != nil || r.Hash != w.ExitRoot(NetL2, uint32(i+1)) {
			return fmt.Errorf("L2 bridge store: exit root after deposit %d: got %v (%v), reference %v",
				i, r.Hash, err, w.ExitRoot(NetL2, uint32(i+1)))
		}
	}
	return nil
}
