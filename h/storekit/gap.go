package storekit

import (
	"github.com/agglayer/aggkit/bridgesync"
	"github.com/agglayer/aggkit/l1infotreesync"
	aggsync "github.com/agglayer/aggkit/sync"
	"github.com/ethereum/go-ethereum/common"
	"verif/h/ref"
)

// GapKinds is the per-store alphabet of INCONSISTENT blocks: blocks whose content contradicts the
// tree the store has built from the reference chain (C14). A gap block is never appended to the
// reference: a correct store refuses it.
//
//	bridge:  skip         one deposit whose DepositCount skips one index
//	         good+skip    a correct deposit followed by one that skips an index (work to roll back)
//	         claim+skip   a claim followed by a deposit that skips an index
//	         repeat       a deposit that re-uses the last index (needs >= 1 leaf)
//	l1info:  badroot      leaf update + V2 announcement with a wrong root
//	         badcount     leaf update + V2 announcement with the right root and leaf count + 1
//	         verify+badroot  a verify-batches event, then leaf update + V2 announcement with a wrong root
//	         v2only-badroot  only a V2 announcement with a wrong root (needs >= 1 leaf: with an empty tree
//	                         the store cannot compare and returns a plain error instead of halting)
//	         v2only-stale    only a V2 announcement naming the PREVIOUS root and count (needs >= 2 leaves)
var GapKinds = map[Kind][]string{
	Bridge: {"skip", "good+skip", "claim+skip", "repeat"},
	L1Info: {"badroot", "badcount", "verify+badroot", "v2only-badroot", "v2only-stale"},
}

// GapApplicable reports whether the gap kind can be built on a chain with nLeaves tree leaves.
func GapApplicable(kind string, nLeaves int) bool {
	switch kind {
	case "repeat", "v2only-badroot":
		return nLeaves >= 1
	case "v2only-stale":
		return nLeaves >= 2
	}
	return true
}

// GapBlock builds the inconsistent block of the given kind with number num (> tip). The reference
// chain is NOT modified.
func (c *Chain) GapBlock(num uint64, kind string) aggsync.Block {
	if num <= c.Tip() {
		panic("storekit: GapBlock: block number not above tip")
	}
	leaves := c.Leaves()
	if !GapApplicable(kind, len(leaves)) {
		panic("storekit: GapBlock: kind " + kind + " not applicable")
	}
	const salt = 7
	parent := c.tipHash()
	hash := h("gapblk", num, uint64(len(kind)), uint64(len(leaves)))
	var evs []any
	switch c.Kind {
	case Bridge:
		dc := uint32(len(leaves))
		switch kind {
		case "skip":
			evs = append(evs, bridgesync.Event{Bridge: MakeBridge(num, 0, dc+1, salt)})
		case "good+skip":
			evs = append(evs, bridgesync.Event{Bridge: MakeBridge(num, 0, dc, salt)},
				bridgesync.Event{Bridge: MakeBridge(num, 1, dc+2, salt)})
		case "claim+skip":
			evs = append(evs, bridgesync.Event{Claim: makeClaim(num, 0, salt)},
				bridgesync.Event{Bridge: MakeBridge(num, 1, dc+1, salt)})
		case "repeat":
			evs = append(evs, bridgesync.Event{Bridge: MakeBridge(num, 0, dc-1, salt)})
		default:
			panic("storekit: unknown bridge gap kind " + kind)
		}
	case L1Info:
		info := func(pos uint64) (l1infotreesync.Event, common.Hash) {
			u := &l1infotreesync.UpdateL1InfoTree{BlockPosition: pos, MainnetExitRoot: h("MER", num, pos, salt),
				RollupExitRoot: h("RER", num, pos, salt), ParentHash: parent, Timestamp: 1000 + num}
			return l1infotreesync.Event{UpdateL1InfoTree: u},
				ref.L1InfoLeaf(ref.GER(u.MainnetExitRoot, u.RollupExitRoot), u.ParentHash, u.Timestamp)
		}
		v2 := func(root common.Hash, count int) l1infotreesync.Event {
			return l1infotreesync.Event{UpdateL1InfoTreeV2: &l1infotreesync.UpdateL1InfoTreeV2{
				CurrentL1InfoRoot: root, LeafCount: uint32(count), Blockhash: parent, MinTimestamp: 1000 + num}}
		}
		switch kind {
		case "badroot", "badcount", "verify+badroot":
			pos := uint64(0)
			if kind == "verify+badroot" {
				evs = append(evs, l1infotreesync.Event{VerifyBatches: &l1infotreesync.VerifyBatches{BlockPosition: 0,
					RollupID: 2, NumBatch: num, StateRoot: h("sr", num), ExitRoot: h("xr", num, salt), Aggregator: addr("agg", num)}})
				pos = 1
			}
			e, leaf := info(pos)
			all := append(append([]common.Hash{}, leaves...), leaf)
			roots := ref.AppendRoots(all)
			evs = append(evs, e)
			if kind == "badcount" {
				evs = append(evs, v2(roots[len(roots)-1], len(all)+1))
			} else {
				evs = append(evs, v2(h("not-the-root", num), len(all)))
			}
		case "v2only-badroot":
			evs = append(evs, v2(h("not-the-root", num), len(leaves)))
		case "v2only-stale":
			roots := ref.AppendRoots(leaves)
			evs = append(evs, v2(roots[len(roots)-2], len(leaves)-1))
		default:
			panic("storekit: unknown l1info gap kind " + kind)
		}
	default:
		panic("storekit: GapBlock: store kind has no inconsistency detection")
	}
	return aggsync.Block{Num: num, Hash: hash, Events: evs}
}

// BlockWithDepositCount builds a bridge-store block number num (> tip) holding one deposit whose DepositCount is dc,
// whatever the reference chain's next index is. The reference chain is NOT modified.
func (c *Chain) BlockWithDepositCount(num uint64, dc uint32) aggsync.Block {
	if c.Kind != Bridge || num <= c.Tip() {
		panic("storekit: BlockWithDepositCount: bridge store and a block number above the tip only")
	}
	return aggsync.Block{Num: num, Hash: h("dcblk", num, uint64(dc)), Events: []any{bridgesync.Event{Bridge: MakeBridge(num, 0, dc, 7)}}}
}
