package storekit

// Statement gate: lets a complete WRITER transaction (a block commit, a reorg) land between two statements of a READER call.
//
// Every SQLite connection of the process gets an authorizer callback (installed through the registered driver's ConnectHook).
// SQLite calls it with SQLITE_SELECT each time a SELECT (or sub-select) is compiled, i.e. immediately before that statement
// runs. While a gate is armed, the k-th such event of the reader first probes the write lock from a control connection with
// no busy timeout (BEGIN IMMEDIATE): if the reader's own transaction holds it, no writer can commit at this point and the
// position is recorded as closed; otherwise the writer runs to completion on its own connection and the reader goes on.
// One reader call x every position x every writer is a complete enumeration of the interleavings "one writer transaction
// lands inside one read call" at statement granularity (SQLite serialises anything finer itself).

import (
	"database/sql"
	"fmt"
	"sync"

	sqlite3 "github.com/mattn/go-sqlite3"
)

type stmtGate struct {
	armed    bool
	inWriter bool
	seen     int // SELECT compilations of the reader so far
	at       int // position at which the writer lands (1-based)
	writer   func()
	ctl      *sql.DB
	Landed   bool // the writer ran
	Closed   bool // position reached but the reader held the write lock
	deny     bool // instead of a writer: the statement at the position is refused (a failing read)
	Denied   bool
}

var (
	gate        stmtGate
	gateInstall sync.Once
)

// InstallStatementGate must run before the first store of the process is opened.
func InstallStatementGate() {
	gateInstall.Do(func() {
		db, err := sql.Open("sqlite3", ":memory:")
		if err != nil {
			panic(err)
		}
		drv, ok := db.Driver().(*sqlite3.SQLiteDriver)
		db.Close()
		if !ok {
			panic("storekit: the registered sqlite3 driver is not *sqlite3.SQLiteDriver")
		}
		drv.ConnectHook = func(conn *sqlite3.SQLiteConn) error {
			conn.RegisterAuthorizer(func(op int, _, _, _ string) int {
				if op == sqlite3.SQLITE_SELECT && gate.armed && !gate.inWriter {
					gate.seen++
					if gate.seen == gate.at {
						if gate.deny {
							gate.Denied = true
							return sqlite3.SQLITE_DENY // the statement does not compile: "not authorized" (a read that fails)
						}
						gate.fire()
					}
				}
				return sqlite3.SQLITE_OK
			})
			return nil
		}
	})
}

func (g *stmtGate) fire() {
	g.inWriter = true
	defer func() { g.inWriter = false }()
	if _, err := g.ctl.Exec("BEGIN IMMEDIATE"); err != nil {
		g.Closed = true // the reader's transaction holds the write lock: nothing can commit here
		return
	}
	if _, err := g.ctl.Exec("ROLLBACK"); err != nil {
		panic(fmt.Sprintf("storekit: statement gate: ROLLBACK of the probe: %v", err))
	}
	g.writer()
	g.Landed = true
}

// ReadWithWriterAt runs read(); when read compiles its at-th SELECT, writer() runs first (if the write lock is free).
// It returns the number of SELECT compilations of the read, and whether the writer landed / found the position closed.
// at = 0: the read alone (to count positions).
func (n *Node) ReadWithWriterAt(at int, writer func(), read func()) (positions int, landed, closed bool) {
	ctl, err := sql.Open("sqlite3", fmt.Sprintf("file:%s?_busy_timeout=0&_journal_mode=WAL", n.Path))
	if err != nil {
		panic(err)
	}
	defer ctl.Close()
	ctl.SetMaxOpenConns(1)
	if err := ctl.Ping(); err != nil {
		panic(err)
	}
	gate = stmtGate{armed: true, at: at, writer: writer, ctl: ctl}
	defer func() { gate = stmtGate{} }()
	read()
	gate.armed = false
	return gate.seen, gate.Landed, gate.Closed
}

// GateReadFailsAt arms the gate process-wide in "failing read" mode: the at-th SELECT compiled from now on is refused by the
// authorizer (the call that issued it gets an error that is neither sql.ErrNoRows nor a context error, like a disk or busy
// error). The returned function disarms the gate and reports how many SELECTs were compiled and whether the fault fired.
// at = 0 only counts. For stores that are not storekit nodes (the aggsender's certificate database).
func GateReadFailsAt(at int) (disarm func() (positions int, fired bool)) {
	gate = stmtGate{armed: true, at: at, deny: true}
	return func() (int, bool) {
		n, f := gate.seen, gate.Denied
		gate = stmtGate{}
		return n, f
	}
}

// ReadFailsAt runs read() with the at-th SELECT it compiles refused.
func (n *Node) ReadFailsAt(at int, read func()) (positions int, fired bool) {
	disarm := GateReadFailsAt(at)
	read()
	return disarm()
}
