package storekit

import (
	"fmt"
	"strings"
)

const faultTable = "zz_verif_fault"

// InstallFaultTriggers installs, through the store's own database handle, BEFORE INSERT/UPDATE/
// DELETE triggers on every table: each row write bumps a counter and fails when the counter
// reaches the armed position. No aggkit code is involved: the fault happens inside SQLite.
// The fault is ONE-SHOT: RAISE(FAIL) keeps the counter increment of the failing statement (ABORT
// would roll it back and make every later write of the transaction fail as well), so exactly the
// k-th row write fails and the statements after it work again — a transaction that swallowed the
// error would go on and commit without that row.
func (n *Node) InstallFaultTriggers() {
	must := func(q string) {
		if _, err := n.DB.Exec(q); err != nil {
			panic(fmt.Sprintf("storekit: %s: %v", q, err))
		}
	}
	must(fmt.Sprintf(`CREATE TABLE IF NOT EXISTS %s (k INTEGER NOT NULL, armed INTEGER NOT NULL, commitfault INTEGER NOT NULL DEFAULT 0)`, faultTable))
	must(fmt.Sprintf(`DELETE FROM %s`, faultTable))
	must(fmt.Sprintf(`INSERT INTO %s (k, armed) VALUES (0, -1)`, faultTable))
	// a failing COMMIT: while commitfault = 1 every row write also inserts a row that violates a DEFERRED foreign key,
	// which SQLite checks when the transaction commits (the stores open their files with _foreign_keys=on)
	must(`CREATE TABLE IF NOT EXISTS zz_verif_fkp (id INTEGER PRIMARY KEY)`)
	must(`CREATE TABLE IF NOT EXISTS zz_verif_fkc (pid INTEGER REFERENCES zz_verif_fkp(id) DEFERRABLE INITIALLY DEFERRED)`)
	rows, err := n.DB.Query(`SELECT name FROM sqlite_master WHERE type='table' AND name NOT LIKE 'sqlite_%' AND name NOT LIKE 'gorp_%' AND name NOT LIKE 'zz_verif_%'`)
	if err != nil {
		panic(err)
	}
	var tables []string
	for rows.Next() {
		var t string
		rows.Scan(&t)
		tables = append(tables, t)
	}
	rows.Close()
	for _, t := range tables {
		for _, op := range []string{"INSERT", "UPDATE", "DELETE"} {
			must(fmt.Sprintf(`CREATE TRIGGER IF NOT EXISTS zz_vf_%s_%s BEFORE %s ON %s BEGIN
				UPDATE %s SET k = k + 1;
				SELECT RAISE(FAIL, 'verif: injected storage fault') WHERE (SELECT k FROM %s) = (SELECT armed FROM %s);
				INSERT INTO zz_verif_fkc (pid) SELECT 1 WHERE (SELECT commitfault FROM %s) = 1;
			END;`, t, op, op, t, faultTable, faultTable, faultTable, faultTable))
		}
	}
}

// Arm makes the k-th row write from now on fail (k >= 1); Arm(-1) disarms. Resets the counter.
func (n *Node) Arm(k int) {
	if _, err := n.DB.Exec(fmt.Sprintf(`UPDATE %s SET k = 0, armed = %d, commitfault = 0`, faultTable, k)); err != nil {
		if strings.Contains(err.Error(), "database is locked") {
			// somebody still holds the write lock after the busy timeout: a transaction of the code under test was left
			// open (the harness itself opens none). Reported by the caller through StillLocked.
			n.StillLocked = true
			return
		}
		panic(err)
	}
}

// ArmCommit(true) makes the COMMIT of every transaction that writes at least one row fail (deferred foreign-key
// violation: every statement of the transaction succeeds, the failure is reported by COMMIT itself; database/sql then
// considers the transaction finished, so a later Rollback reports sql.ErrTxDone). ArmCommit(false) disarms.
// Row-write faults are disarmed and the counter is reset either way.
func (n *Node) ArmCommit(on bool) {
	v := 0
	if on {
		v = 1
	}
	if _, err := n.DB.Exec(fmt.Sprintf(`UPDATE %s SET k = 0, armed = -1, commitfault = %d`, faultTable, v)); err != nil {
		panic(err)
	}
}

// Writes returns the number of row writes counted since the last Arm (committed ones only).
func (n *Node) Writes() int {
	var k int
	if err := n.DB.QueryRow(fmt.Sprintf(`SELECT k FROM %s`, faultTable)).Scan(&k); err != nil {
		panic(err)
	}
	return k
}

// WithoutTables renames every table whose name matches the LIKE pattern away, runs f, and renames them
// back: while f runs, every statement that reads or writes such a table fails inside SQLite ("no such
// table") — a storage fault on the READ path, which row-write triggers cannot produce.
func (n *Node) WithoutTables(like string, f func()) (renamed int) {
	rows, err := n.DB.Query(`SELECT name FROM sqlite_master WHERE type='table' AND name LIKE ?`, like)
	if err != nil {
		panic(err)
	}
	var tables []string
	for rows.Next() {
		var t string
		rows.Scan(&t)
		tables = append(tables, t)
	}
	rows.Close()
	for _, t := range tables {
		if _, err := n.DB.Exec(fmt.Sprintf(`ALTER TABLE %s RENAME TO %s_zzaway`, t, t)); err != nil {
			panic(fmt.Sprintf("storekit: rename %s away: %v", t, err))
		}
	}
	defer func() {
		for _, t := range tables {
			if _, err := n.DB.Exec(fmt.Sprintf(`ALTER TABLE %s_zzaway RENAME TO %s`, t, t)); err != nil {
				panic(fmt.Sprintf("storekit: rename %s back: %v", t, err))
			}
		}
	}()
	f()
	return len(tables)
}
