package storekit

import (
	"context"
	"encoding/json"
	"fmt"
	"reflect"
	"sort"
	"strings"
	"time"

	"github.com/ethereum/go-ethereum/common"
	"verif/h/ref"
)

// Obs is one line of an observation: a query through the real facade and its canonical answer.
type Obs struct {
	Call string
	Res  string
}

func res(vals ...any) string {
	parts := make([]string, 0, len(vals))
	for _, v := range vals {
		if e, ok := v.(error); ok {
			if e == nil {
				parts = append(parts, "ok")
			} else {
				parts = append(parts, "ERR("+e.Error()+")")
			}
			continue
		}
		if v == nil {
			parts = append(parts, "ok")
			continue
		}
		b, err := json.Marshal(v)
		if err != nil {
			parts = append(parts, fmt.Sprintf("%+v", v))
		} else {
			parts = append(parts, string(b))
		}
	}
	return strings.Join(parts, " | ")
}

// queriedMethods / nonQueryMethods classify every exported facade method. Observe panics when the
// facade has a method that is in neither list, so an entry point added later cannot go unobserved.
var queriedMethods = map[Kind][]string{
	Bridge: {"GetClaimsPaged", "GetBridgesPaged", "GetLastProcessedBlock", "GetBridgeRootByHash", "GetClaims", "GetBridges",
		"GetTokenMappings", "GetLegacyTokenMigrations", "GetProof", "GetBlockByLER", "GetRootByLER", "GetExitRootByIndex"},
	L1Info: {"GetL1InfoTreeMerkleProof", "GetRollupExitTreeMerkleProof", "GetLatestInfoUntilBlock", "GetInfoByIndex",
		"GetL1InfoTreeRootByIndex", "GetLastRollupExitRoot", "GetLastL1InfoTreeRoot", "GetLastProcessedBlock", "GetLocalExitRoot",
		"GetLastVerifiedBatches", "GetFirstVerifiedBatches", "GetFirstVerifiedBatchesAfterBlock", "GetFirstL1InfoWithRollupExitRoot",
		"GetLastInfo", "GetFirstInfo", "GetFirstInfoAfterBlock", "GetInfoByGlobalExitRoot", "GetL1InfoTreeMerkleProofFromIndexToRoot",
		"GetInitL1InfoRootMap", "GetProcessedBlockUntil"},
	GER: {"GetFirstGERAfterL1InfoTreeIndex", "GetLastProcessedBlock"},
}
var nonQueryMethods = map[Kind][]string{
	Bridge: {"Start", "OriginNetwork", "BlockFinality", "GetLastReorgEvent", "GetContractDepositCount",
		"VerifStore", "VerifDB", "VerifIsHalted"},
	L1Info: {"Start", "VerifStore", "VerifDB", "VerifIsHalted"},
	GER:    {"Start", "VerifStore", "VerifDB"},
}

func (n *Node) facade() any {
	switch n.Kind {
	case Bridge:
		return n.B
	case L1Info:
		return n.L
	}
	return n.G
}

// CheckMethodCoverage returns the exported facade methods that Observe does not know about.
func (n *Node) CheckMethodCoverage() []string {
	known := map[string]bool{}
	for _, m := range queriedMethods[n.Kind] {
		known[m] = true
	}
	for _, m := range nonQueryMethods[n.Kind] {
		known[m] = true
	}
	var unknown []string
	t := reflect.TypeOf(n.facade())
	for i := 0; i < t.NumMethod(); i++ {
		if !known[t.Method(i).Name] {
			unknown = append(unknown, t.Method(i).Name)
		}
	}
	sort.Strings(unknown)
	return unknown
}

// Observe returns the complete observation of the store through every exported query method of
// its real facade, with arguments drawn from the reference chain c (block numbers 0..tip+1, indices
// 0..count, every root of the current history, the dropped forks' roots for lookups, one unknown
// hash, a few pagings). Proof requests are made for roots of the CURRENT history only.
func (n *Node) Observe(c *Chain) []Obs {
	var out []Obs
	last := time.Now()
	add := func(call string, vals ...any) {
		out = append(out, Obs{call, res(vals...)})
		if n.timing != nil {
			now := time.Now()
			n.timing[MethodOf(call)] += now.Sub(last)
			last = now
		}
	}
	tip := c.Tip()
	leaves := c.Leaves()
	roots := ref.AppendRoots(leaves)
	unknown := h("unknown-hash")
	switch n.Kind {
	case Bridge:
		s := n.B
		v, err := s.GetLastProcessedBlock(ctx)
		add("GetLastProcessedBlock()", v, err)
		ranges := [][2]uint64{{0, tip}, {1, tip}, {tip, tip}, {0, tip + 1}, {2, 1}}
		for b := uint64(1); b <= tip; b++ {
			ranges = append(ranges, [2]uint64{b, b})
		}
		for _, r := range ranges {
			bs, err := s.GetBridges(ctx, r[0], r[1])
			add(fmt.Sprintf("GetBridges(%d,%d)", r[0], r[1]), bs, err)
			cs, err := s.GetClaims(ctx, r[0], r[1])
			add(fmt.Sprintf("GetClaims(%d,%d)", r[0], r[1]), cs, err)
		}
		for i := 0; i <= len(leaves); i++ {
			r, err := s.GetExitRootByIndex(ctx, uint32(i))
			add(fmt.Sprintf("GetExitRootByIndex(%d)", i), r, err)
		}
		lookups := append(append([]common.Hash{}, roots...), unknown)
		for _, hh := range lookups {
			r1, err := s.GetRootByLER(ctx, hh)
			add(fmt.Sprintf("GetRootByLER(%s)", hh.Hex()[:10]), r1, err)
			r2, err := s.GetBridgeRootByHash(ctx, hh)
			add(fmt.Sprintf("GetBridgeRootByHash(%s)", hh.Hex()[:10]), r2, err)
			r3, err := s.GetBlockByLER(ctx, hh)
			add(fmt.Sprintf("GetBlockByLER(%s)", hh.Hex()[:10]), r3, err)
		}
		for _, j := range proofRoots(len(roots)) {
			for _, i := range proofPositions(j) {
				p, err := s.GetProof(ctx, uint32(i), roots[j])
				add(fmt.Sprintf("GetProof(%d,root%d)", i, j), p, err)
			}
		}
		one := uint64(1)
		zero := uint64(0)
		for _, pg := range [][2]uint32{{1, 100}, {1, 1}, {2, 1}, {2, 2}, {0, 1}, {1, 0}} {
			bs, cnt, err := s.GetBridgesPaged(ctx, pg[0], pg[1], nil, nil, "")
			add(fmt.Sprintf("GetBridgesPaged(%d,%d,nil,nil,'')", pg[0], pg[1]), bs, cnt, err)
			cs, cnt, err := s.GetClaimsPaged(ctx, pg[0], pg[1], nil, "")
			add(fmt.Sprintf("GetClaimsPaged(%d,%d,nil,'')", pg[0], pg[1]), cs, cnt, err)
			tm, cnt, err := s.GetTokenMappings(ctx, pg[0], pg[1])
			add(fmt.Sprintf("GetTokenMappings(%d,%d)", pg[0], pg[1]), tm, cnt, err)
			lm, cnt, err := s.GetLegacyTokenMigrations(ctx, pg[0], pg[1])
			add(fmt.Sprintf("GetLegacyTokenMigrations(%d,%d)", pg[0], pg[1]), lm, cnt, err)
		}
		for _, dc := range []*uint64{&zero, &one} {
			bs, cnt, err := s.GetBridgesPaged(ctx, 1, 10, dc, nil, "")
			add(fmt.Sprintf("GetBridgesPaged(1,10,&%d,nil,'')", *dc), bs, cnt, err)
		}
		for _, nets := range [][]uint32{{0}, {2}, {0, 2}} {
			bs, cnt, err := s.GetBridgesPaged(ctx, 1, 10, nil, nets, "")
			add(fmt.Sprintf("GetBridgesPaged(1,10,nil,%v,'')", nets), bs, cnt, err)
			cs, cnt, err := s.GetClaimsPaged(ctx, 1, 10, nets, "")
			add(fmt.Sprintf("GetClaimsPaged(1,10,%v,'')", nets), cs, cnt, err)
		}
		fa := addr("from", 1, 0).Hex()
		bs, cnt, err := s.GetBridgesPaged(ctx, 1, 10, nil, nil, fa)
		add("GetBridgesPaged(1,10,nil,nil,from(1,0))", bs, cnt, err)
		cs, cnt, err := s.GetClaimsPaged(ctx, 1, 10, nil, addr("cfrom", 1, 0).Hex())
		add("GetClaimsPaged(1,10,nil,cfrom(1,0))", cs, cnt, err)
	case L1Info:
		s := n.L
		v, err := s.GetLastProcessedBlock(ctx)
		add("GetLastProcessedBlock()", v, err)
		for b := uint64(0); b <= tip+1; b++ {
			l, err := s.GetLatestInfoUntilBlock(ctx, b)
			add(fmt.Sprintf("GetLatestInfoUntilBlock(%d)", b), l, err)
			l2, err := s.GetFirstInfoAfterBlock(b)
			add(fmt.Sprintf("GetFirstInfoAfterBlock(%d)", b), l2, err)
			pb, ph, err := s.GetProcessedBlockUntil(ctx, b)
			add(fmt.Sprintf("GetProcessedBlockUntil(%d)", b), pb, ph, err)
			for rid := uint32(1); rid <= 3; rid++ {
				vb, err := s.GetFirstVerifiedBatchesAfterBlock(rid, b)
				add(fmt.Sprintf("GetFirstVerifiedBatchesAfterBlock(%d,%d)", rid, b), vb, err)
			}
		}
		var gers, rers []common.Hash
		for i := 0; i <= len(leaves); i++ {
			l, err := s.GetInfoByIndex(ctx, uint32(i))
			add(fmt.Sprintf("GetInfoByIndex(%d)", i), l, err)
			if err == nil && l != nil {
				gers = append(gers, l.GlobalExitRoot)
				rers = append(rers, l.RollupExitRoot)
			}
			r, err := s.GetL1InfoTreeRootByIndex(ctx, uint32(i))
			add(fmt.Sprintf("GetL1InfoTreeRootByIndex(%d)", i), r, err)
			p, r2, err := s.GetL1InfoTreeMerkleProof(ctx, uint32(i))
			add(fmt.Sprintf("GetL1InfoTreeMerkleProof(%d)", i), p, r2, err)
		}
		for _, j := range proofRoots(len(roots)) {
			for _, i := range proofPositions(j) {
				p, err := s.GetL1InfoTreeMerkleProofFromIndexToRoot(ctx, uint32(i), roots[j])
				add(fmt.Sprintf("GetL1InfoTreeMerkleProofFromIndexToRoot(%d,root%d)", i, j), p, err)
			}
		}
		for _, g := range append(gers, unknown) {
			l, err := s.GetInfoByGlobalExitRoot(g)
			add(fmt.Sprintf("GetInfoByGlobalExitRoot(%s)", g.Hex()[:10]), l, err)
		}
		for _, g := range append(rers, unknown) {
			l, err := s.GetFirstL1InfoWithRollupExitRoot(g)
			add(fmt.Sprintf("GetFirstL1InfoWithRollupExitRoot(%s)", g.Hex()[:10]), l, err)
		}
		r, err := s.GetLastRollupExitRoot(ctx)
		add("GetLastRollupExitRoot()", r, err)
		r1, err := s.GetLastL1InfoTreeRoot(ctx)
		add("GetLastL1InfoTreeRoot()", r1, err)
		li, err := s.GetLastInfo()
		add("GetLastInfo()", li, err)
		fi, err := s.GetFirstInfo()
		add("GetFirstInfo()", fi, err)
		im, err := s.GetInitL1InfoRootMap(ctx)
		add("GetInitL1InfoRootMap()", im, err)
		// rollup exit tree: every recorded root (via verified batches) × rollup ids
		var rxRoots []common.Hash
		for rid := uint32(0); rid <= 4; rid++ {
			vb, err := s.GetLastVerifiedBatches(rid)
			add(fmt.Sprintf("GetLastVerifiedBatches(%d)", rid), vb, err)
			if err == nil && vb != nil {
				rxRoots = append(rxRoots, vb.RollupExitRoot)
			}
			fb, err := s.GetFirstVerifiedBatches(rid)
			add(fmt.Sprintf("GetFirstVerifiedBatches(%d)", rid), fb, err)
			if err == nil && fb != nil {
				rxRoots = append(rxRoots, fb.RollupExitRoot)
			}
		}
		if err == nil {
			rxRoots = append(rxRoots, r.Hash)
		}
		seen := map[common.Hash]bool{}
		for _, rr := range rxRoots {
			if seen[rr] {
				continue
			}
			seen[rr] = true
			for net := uint32(0); net <= 4; net++ {
				p, err := s.GetRollupExitTreeMerkleProof(ctx, net, rr)
				add(fmt.Sprintf("GetRollupExitTreeMerkleProof(%d,%s)", net, rr.Hex()[:10]), p, err)
				if net > 0 {
					l, err := s.GetLocalExitRoot(ctx, net, rr)
					add(fmt.Sprintf("GetLocalExitRoot(%d,%s)", net, rr.Hex()[:10]), l, err)
				}
			}
		}
	case GER:
		s := n.G
		v, err := s.GetLastProcessedBlock(ctx)
		add("GetLastProcessedBlock()", v, err)
		for x := uint32(0); x <= uint32(len(c.Blocks))+2; x++ {
			g, err := s.GetFirstGERAfterL1InfoTreeIndex(ctx, x)
			add(fmt.Sprintf("GetFirstGERAfterL1InfoTreeIndex(%d)", x), g, err)
		}
	}
	// exported facade methods this package does not know by name (added to aggkit later): called by reflection when
	// every parameter is a context, an integer, a bool or a hash; the others are listed in Unclassified (reported by the
	// checks as a note, not as an error: an added entry point must not turn the check into a harness failure)
	n.observeUnclassified(c, add)
	return out
}

// proofPositions: first, middle and last position covered by root j (every (root, position) pair
// is C08's job; the differential observation keeps the observation linear in the history).
func proofPositions(j int) []int {
	out := []int{0}
	if j/2 > 0 {
		out = append(out, j/2)
	}
	if j > 0 && j != j/2 {
		out = append(out, j)
	}
	return out
}

var ctxType = reflect.TypeOf((*context.Context)(nil)).Elem()

// SkippedMethods collects, per process, the unclassified facade methods that could not be called by reflection.
var SkippedMethods = map[string]bool{}

func (n *Node) observeUnclassified(c *Chain, add func(call string, vals ...any)) {
	names := n.CheckMethodCoverage()
	if len(names) == 0 {
		return
	}
	tip := c.Tip()
	roots := ref.AppendRoots(c.Leaves())
	fac := reflect.ValueOf(n.facade())
	for _, name := range names {
		m := fac.MethodByName(name)
		t := m.Type()
		if t.NumOut() == 0 || t.IsVariadic() {
			SkippedMethods[string(n.Kind)+"."+name] = true
			continue
		}
		pools := make([][]reflect.Value, t.NumIn())
		ok := true
		for i := 0; i < t.NumIn() && ok; i++ {
			pt := t.In(i)
			switch {
			case pt == ctxType:
				pools[i] = []reflect.Value{reflect.ValueOf(ctx)}
			case pt.Kind() == reflect.Bool:
				pools[i] = []reflect.Value{reflect.ValueOf(false).Convert(pt), reflect.ValueOf(true).Convert(pt)}
			case pt.Kind() == reflect.Uint64 || pt.Kind() == reflect.Uint32 || pt.Kind() == reflect.Uint || pt.Kind() == reflect.Int ||
				pt.Kind() == reflect.Int64 || pt.Kind() == reflect.Int32 || pt.Kind() == reflect.Uint8:
				for x := uint64(0); x <= tip+1 || x <= uint64(len(roots)); x++ {
					pools[i] = append(pools[i], reflect.ValueOf(x).Convert(pt))
				}
			case pt == reflect.TypeOf(common.Hash{}):
				hs := append([]common.Hash{h("unknown-hash")}, roots...)
				for _, b := range c.Blocks {
					hs = append(hs, b.Hash)
				}
				for _, x := range hs {
					pools[i] = append(pools[i], reflect.ValueOf(x))
				}
			default:
				ok = false
			}
		}
		if !ok {
			SkippedMethods[string(n.Kind)+"."+name] = true
			continue
		}
		idx := make([]int, len(pools))
		for calls := 0; calls < 64; calls++ {
			args := make([]reflect.Value, len(pools))
			var txt []string
			for i := range pools {
				args[i] = pools[i][idx[i]]
				if pools[i][idx[i]].Type() != ctxType && t.In(i) != ctxType {
					txt = append(txt, fmt.Sprintf("%v", args[i].Interface()))
				}
			}
			func() {
				defer func() {
					if r := recover(); r != nil {
						add(fmt.Sprintf("%s(%s)", name, strings.Join(txt, ",")), fmt.Sprintf("panic: %v", r))
					}
				}()
				outs := m.Call(args)
				vals := make([]any, len(outs))
				for i, o := range outs {
					vals[i] = o.Interface()
				}
				add(fmt.Sprintf("%s(%s)", name, strings.Join(txt, ",")), vals...)
			}()
			// next tuple (odometer)
			k := len(idx) - 1
			for ; k >= 0; k-- {
				idx[k]++
				if idx[k] < len(pools[k]) {
					break
				}
				idx[k] = 0
			}
			if k < 0 {
				break
			}
		}
	}
}

// proofRoots: the first and the last recorded root.
func proofRoots(n int) []int {
	switch n {
	case 0:
		return nil
	case 1:
		return []int{0}
	}
	return []int{0, n - 1}
}

// ObserveDropped looks up every root of the dropped forks: each must be unknown to the store.
// Returns the lookups that were NOT answered with an error.
func (n *Node) ObserveDropped(c *Chain) []Obs {
	var bad []Obs
	cur := map[common.Hash]bool{}
	for _, r := range ref.AppendRoots(c.Leaves()) {
		cur[r] = true
	}
	for _, hh := range c.DroppedRoots {
		if cur[hh] {
			continue // the new fork re-created the same root
		}
		switch n.Kind {
		case Bridge:
			if r, err := n.B.GetRootByLER(ctx, hh); err == nil {
				bad = append(bad, Obs{fmt.Sprintf("GetRootByLER(dropped %s)", hh.Hex()[:10]), res(r)})
			}
			if r, err := n.B.GetBridgeRootByHash(ctx, hh); err == nil {
				bad = append(bad, Obs{fmt.Sprintf("GetBridgeRootByHash(dropped %s)", hh.Hex()[:10]), res(r)})
			}
			if r, err := n.B.GetBlockByLER(ctx, hh); err == nil {
				bad = append(bad, Obs{fmt.Sprintf("GetBlockByLER(dropped %s)", hh.Hex()[:10]), res(r)})
			}
		}
	}
	return bad
}

// Signature identifies the surviving chain (what a fresh node would be fed).
func (c *Chain) Signature() string {
	var sb strings.Builder
	sb.WriteString(string(c.Kind))
	for _, b := range c.Blocks {
		fmt.Fprintf(&sb, "|%d:%s:%d", b.Num, b.Kind, b.Salt)
	}
	return sb.String()
}

// ObserveTimed is Observe with per-method wall time (development aid).
func (n *Node) ObserveTimed(c *Chain) map[string]time.Duration {
	n.timing = map[string]time.Duration{}
	n.Observe(c)
	t := n.timing
	n.timing = nil
	return t
}

// Diff returns the first differing line of two observations ("" if equal).
func Diff(a, b []Obs) (call, ra, rb string) {
	for i := 0; i < len(a) && i < len(b); i++ {
		if a[i].Call != b[i].Call {
			return "(call lists differ)", a[i].Call, b[i].Call
		}
		if a[i].Res != b[i].Res {
			return a[i].Call, a[i].Res, b[i].Res
		}
	}
	if len(a) != len(b) {
		return "(observation lengths differ)", fmt.Sprint(len(a)), fmt.Sprint(len(b))
	}
	return "", "", ""
}

// MethodOf strips the arguments from a call string.
func MethodOf(call string) string {
	if i := strings.Index(call, "("); i >= 0 {
		return call[:i]
	}
	return call
}

// Digest is a compact fingerprint of an observation.
func Digest(o []Obs) string {
	var sb strings.Builder
	for _, x := range o {
		sb.WriteString(x.Call)
		sb.WriteString("=")
		sb.WriteString(x.Res)
		sb.WriteString("\n")
	}
	return ref.Keccak([]byte(sb.String())).Hex()[:18]
}
