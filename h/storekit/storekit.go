// Package storekit drives the three real SQLite-backed stores (bridge, L1 info tree, injected GER)
// through their real facades, generates deterministic block contents from small "kind" alphabets
// while keeping the boring reference (the list of blocks believed processed), and produces the
// complete observation of a store through every exported query method.
package storekit

import (
	"context"
	"database/sql"
	"encoding/binary"
	"fmt"
	"math/big"
	"os"
	"path/filepath"
	"sync/atomic"
	"time"

	"github.com/agglayer/aggkit/bridgesync"
	"github.com/agglayer/aggkit/l1infotreesync"
	"github.com/agglayer/aggkit/lastgersync"
	aggsync "github.com/agglayer/aggkit/sync"
	"github.com/ethereum/go-ethereum/common"
	"verif/h/ref"
)

type Kind string

const (
	Bridge Kind = "bridge"
	L1Info Kind = "l1info"
	GER    Kind = "ger"
)

var Kinds = []Kind{Bridge, L1Info, GER}

// BlockKinds is the per-store alphabet of block contents (NextAt also knows "bridge3" / "info3":
// three leaves in one block, used by C07 only).
var BlockKinds = map[Kind][]string{
	Bridge: {"empty", "bridge", "bridge2", "claim", "tokenmap", "migrate", "rmlegacy", "bridge+claim", "same"},
	L1Info: {"empty", "info", "info2", "verify", "v2", "init", "verify+info"},
	GER:    {"empty", "insert", "remove", "insertinfo", "again"},
}

// Writer is the write side of a store.
type Writer interface {
	GetLastProcessedBlock(ctx context.Context) (uint64, error)
	ProcessBlock(ctx context.Context, block aggsync.Block) error
	Reorg(ctx context.Context, firstReorgedBlock uint64) error
}

// Node is one real store on one file, behind its real facade.
type Node struct {
	Kind Kind
	Path string
	B    *bridgesync.BridgeSync
	L    *l1infotreesync.L1InfoTreeSync
	G    *lastgersync.LastGERSync
	// StillLocked: a control statement of the harness found the database write-locked after the busy timeout
	StillLocked bool
	W    Writer
	DB   *sql.DB

	timing map[string]time.Duration
}

var seq atomic.Int64

// ScratchDir returns a fresh directory under $VERIF_SCRATCH (or /dev/shm).
func ScratchDir() string {
	base := os.Getenv("VERIF_SCRATCH")
	if base == "" {
		base = "/dev/shm"
	}
	d := filepath.Join(base, fmt.Sprintf("sk-%d-%d", os.Getpid(), seq.Add(1)))
	if err := os.MkdirAll(d, 0o755); err != nil {
		panic(err)
	}
	return d
}

var ctx = context.Background()

// Open creates a store of the given kind on a fresh file in dir using the real constructor.
func Open(kind Kind, dir string) *Node {
	n := &Node{Kind: kind, Path: filepath.Join(dir, fmt.Sprintf("%s-%d.sqlite", kind, seq.Add(1)))}
	n.open()
	return n
}

// OpenAt opens (or creates) a store on the given file.
func OpenAt(kind Kind, path string) *Node {
	n := &Node{Kind: kind, Path: path}
	n.open()
	return n
}

func (n *Node) open() {
	var err error
	switch n.Kind {
	case Bridge:
		n.B, err = bridgesync.NewVerifBridgeSync(n.Path, bridgesync.L2BridgeSyncer, 1, nil)
		if err == nil {
			n.W, n.DB = n.B.VerifStore(), n.B.VerifDB()
		}
	case L1Info:
		n.L, err = l1infotreesync.NewVerifL1InfoTreeSync(n.Path)
		if err == nil {
			n.W, n.DB = n.L.VerifStore(), n.L.VerifDB()
		}
	case GER:
		n.G, err = lastgersync.NewVerifLastGERSync(n.Path)
		if err == nil {
			n.W, n.DB = n.G.VerifStore(), n.G.VerifDB()
		}
	}
	if err != nil {
		panic(fmt.Sprintf("storekit: open %s: %v", n.Kind, err))
	}
}

// Restart drops every in-memory object and re-opens the same file with the real constructor
// (= a process restart: frontier uninitialised, not halted).
func (n *Node) Restart() {
	n.DB.Close()
	n.B, n.L, n.G = nil, nil, nil
	n.open()
}

// Close closes the handle and removes the file.
func (n *Node) Close() {
	if n.DB != nil {
		n.DB.Close()
	}
	os.Remove(n.Path)
	os.Remove(n.Path + "-wal")
	os.Remove(n.Path + "-shm")
}

// HoldReader opens a result set on the store's own *sql.DB and leaves it open, as a concurrent query
// of the API would while it iterates: the pooled connection it uses stays checked out, so whatever the
// store does next runs on ANOTHER connection of the pool. release closes the result set.
func (n *Node) HoldReader() (release func()) {
	rows, err := n.DB.Query("SELECT num FROM block ORDER BY num")
	if err != nil {
		panic(fmt.Sprintf("storekit: HoldReader: %v", err))
	}
	return func() { rows.Close() }
}

func (n *Node) Process(b aggsync.Block) error { return n.W.ProcessBlock(ctx, b) }
func (n *Node) Reorg(from uint64) error       { return n.W.Reorg(ctx, from) }
func (n *Node) Halted() bool {
	switch n.Kind {
	case Bridge:
		return n.B.VerifIsHalted()
	case L1Info:
		return n.L.VerifIsHalted()
	}
	return false
}

// ---------------------------------------------------------------------------------------------
// Reference chain + deterministic content generation

// RefBlock is one block of the reference: what was handed to the store.
type RefBlock struct {
	Num    uint64
	Hash   common.Hash
	Kind   string
	Salt   int
	Block  aggsync.Block
	Leaves []common.Hash // exit-tree / L1-info-tree leaves appended by this block, in order
	// Verifies: verify-batches events of this block (filled by NextL1Ops only; see Chain.Verifies)
	Verifies []VerifyRef
}

// Chain is the boring reference of one store: the list of blocks believed processed.
type Chain struct {
	Kind   Kind
	Blocks []RefBlock
	// DroppedRoots collects tree roots of blocks that were reorged away (used as extra lookup args).
	DroppedRoots []common.Hash
}

func NewChain(k Kind) *Chain { return &Chain{Kind: k} }

func (c *Chain) Clone() *Chain {
	n := &Chain{Kind: c.Kind}
	n.Blocks = append(n.Blocks, c.Blocks...)
	n.DroppedRoots = append(n.DroppedRoots, c.DroppedRoots...)
	return n
}

func (c *Chain) Tip() uint64 {
	if len(c.Blocks) == 0 {
		return 0
	}
	return c.Blocks[len(c.Blocks)-1].Num
}

func (c *Chain) tipHash() common.Hash {
	if len(c.Blocks) == 0 {
		return common.Hash{}
	}
	return c.Blocks[len(c.Blocks)-1].Hash
}

// Leaves lists all append-only tree leaves of the chain, in order.
func (c *Chain) Leaves() []common.Hash {
	var out []common.Hash
	for _, b := range c.Blocks {
		out = append(out, b.Leaves...)
	}
	return out
}

// Truncate drops blocks >= from (a reorg), remembering their roots.
func (c *Chain) Truncate(from uint64) int {
	keep := 0
	for keep < len(c.Blocks) && c.Blocks[keep].Num < from {
		keep++
	}
	dropped := len(c.Blocks) - keep
	if dropped > 0 {
		roots := ref.AppendRoots(c.Leaves())
		kept := 0
		for _, b := range c.Blocks[:keep] {
			kept += len(b.Leaves)
		}
		c.DroppedRoots = append(c.DroppedRoots, roots[kept:]...)
	}
	c.Blocks = c.Blocks[:keep]
	return dropped
}

func h(tag string, xs ...uint64) common.Hash {
	buf := []byte(tag)
	for _, x := range xs {
		buf = binary.BigEndian.AppendUint64(buf, x)
	}
	return ref.Keccak(buf)
}

func addr(tag string, xs ...uint64) common.Address {
	return common.BytesToAddress(h(tag, xs...).Bytes()[:20])
}

var amounts = []*big.Int{
	big.NewInt(0), big.NewInt(1), new(big.Int).Lsh(big.NewInt(1), 64),
	new(big.Int).Sub(new(big.Int).Lsh(big.NewInt(1), 256), big.NewInt(1)), nil,
}
var metas = [][]byte{nil, {0x01}, []byte("0123456789abcdef0123456789abcdef"), []byte("0123456789abcdef0123456789abcdefX")}

// MakeBridge returns the deterministic deposit #dc (fields cycle through boundary pools).
func MakeBridge(num, pos uint64, dc uint32, salt int) *bridgesync.Bridge {
	amt := amounts[int(dc)%len(amounts)]
	if amt != nil {
		amt = new(big.Int).Set(amt)
	}
	return &bridgesync.Bridge{
		BlockNum: num, BlockPos: pos, FromAddress: addr("from", num, pos), TxHash: h("tx", num, pos, uint64(salt)),
		Calldata: []byte{byte(dc), 0xca}, BlockTimestamp: 1000 + num, LeafType: uint8(dc % 2),
		OriginNetwork: []uint32{0, 1, 0xffffffff}[int(dc)%3], OriginAddress: addr("oa", uint64(dc)),
		DestinationNetwork: []uint32{0, 2, 0xffffffff}[int(dc+uint32(salt))%3], DestinationAddress: addr("da", uint64(dc), uint64(salt)),
		Amount: amt, Metadata: metas[int(dc+uint32(salt))%len(metas)], DepositCount: dc, IsNativeToken: dc%2 == 0,
	}
}

func makeClaim(num, pos uint64, salt int) *bridgesync.Claim {
	gi := ref.GlobalIndex(num%2 == 0, uint32(num%3), uint32(num*7+pos))
	if num%2 == 0 {
		gi = ref.GlobalIndex(true, 0, uint32(num*7+pos))
	}
	c := &bridgesync.Claim{
		BlockNum: num, BlockPos: pos, FromAddress: addr("cfrom", num, pos), TxHash: h("ctx", num, pos, uint64(salt)),
		GlobalIndex: gi, OriginNetwork: uint32(num % 3), OriginAddress: addr("coa", num),
		DestinationAddress: addr("cda", num, uint64(salt)), Amount: big.NewInt(int64(num) * 10),
		MainnetExitRoot: h("mer", num), RollupExitRoot: h("rer", num), DestinationNetwork: 1,
		Metadata: metas[int(num)%len(metas)], IsMessage: num%2 == 1, BlockTimestamp: 1000 + num,
	}
	c.GlobalExitRoot = ref.GER(c.MainnetExitRoot, c.RollupExitRoot)
	for i := range c.ProofLocalExitRoot {
		c.ProofLocalExitRoot[i] = h("pl", num, uint64(i))
		c.ProofRollupExitRoot[i] = h("pr", num, uint64(i))
	}
	return c
}

// Next builds the next block (number tip+1) of the given kind and fork salt, appends it to the
// reference and returns what must be handed to the store.
func (c *Chain) Next(kind string, salt int) aggsync.Block { return c.NextAt(c.Tip()+1, kind, salt) }

// NextAt is Next with an explicit block number (> tip): syncers skip blocks without events.
func (c *Chain) NextAt(num uint64, kind string, salt int) aggsync.Block {
	if num <= c.Tip() {
		panic("storekit: NextAt: block number not above tip")
	}
	parent := c.tipHash()
	rb := RefBlock{Num: num, Kind: kind, Salt: salt, Hash: h("blk", num, uint64(salt), binary.BigEndian.Uint64(parent[:8]), uint64(len(kind)))}
	var evs []any
	switch c.Kind {
	case Bridge:
		dc := uint32(len(c.Leaves()))
		pos := uint64(0)
		addBridge := func() {
			b := MakeBridge(num, pos, dc, salt)
			evs = append(evs, bridgesync.Event{Bridge: b})
			rb.Leaves = append(rb.Leaves, ref.BridgeLeaf(b.LeafType, b.OriginNetwork, b.OriginAddress, b.DestinationNetwork,
				b.DestinationAddress, b.Amount, b.Metadata))
			dc++
			pos++
		}
		switch kind {
		case "empty":
		case "bridge":
			addBridge()
		case "bridge2":
			addBridge()
			addBridge()
		case "bridge3":
			addBridge()
			addBridge()
			addBridge()
		case "same":
			// the same bridge transaction included again (e.g. re-included on a new fork, or simply an
			// identical transfer): every hashed field is identical, only the deposit count differs
			b := MakeBridge(num, pos, dc, salt)
			b.LeafType, b.OriginNetwork, b.OriginAddress = 0, 0, addr("same-oa")
			b.DestinationNetwork, b.DestinationAddress = 2, addr("same-da")
			b.Amount, b.Metadata = big.NewInt(7), nil
			evs = append(evs, bridgesync.Event{Bridge: b})
			rb.Leaves = append(rb.Leaves, ref.BridgeLeaf(b.LeafType, b.OriginNetwork, b.OriginAddress, b.DestinationNetwork,
				b.DestinationAddress, b.Amount, b.Metadata))
		case "claim":
			evs = append(evs, bridgesync.Event{Claim: makeClaim(num, pos, salt)})
		case "bridge+claim":
			addBridge()
			evs = append(evs, bridgesync.Event{Claim: makeClaim(num, pos, salt)})
		case "tokenmap":
			evs = append(evs, bridgesync.Event{TokenMapping: &bridgesync.TokenMapping{BlockNum: num, BlockPos: 0,
				BlockTimestamp: 1000 + num, TxHash: h("tmtx", num, uint64(salt)), OriginNetwork: uint32(num % 2),
				OriginTokenAddress: addr("ota", num), WrappedTokenAddress: addr("wta", num, uint64(salt)),
				Metadata: []byte{byte(num)}, IsNotMintable: num%2 == 0, Calldata: []byte{1, 2}, Type: 0}})
		case "migrate":
			k := uint64(c.countKind("migrate"))
			evs = append(evs, bridgesync.Event{LegacyTokenMigration: &bridgesync.LegacyTokenMigration{BlockNum: num, BlockPos: 0,
				BlockTimestamp: 1000 + num, TxHash: h("mgtx", num, uint64(salt)), Sender: addr("snd", num),
				LegacyTokenAddress: addr("legacy", k), UpdatedTokenAddress: addr("upd", k, uint64(salt)),
				Amount: big.NewInt(int64(num)), Calldata: []byte{3}}})
		case "rmlegacy":
			// removes the earliest migration of the current chain that has not been removed yet
			k := uint64(c.countKind("rmlegacy"))
			evs = append(evs, bridgesync.Event{RemoveLegacyToken: &bridgesync.RemoveLegacyToken{BlockNum: num, BlockPos: 0,
				BlockTimestamp: 1000 + num, TxHash: h("rmtx", num, uint64(salt)), LegacyTokenAddress: addr("legacy", k)}})
		default:
			panic("storekit: unknown bridge block kind " + kind)
		}
	case L1Info:
		pos := uint64(0)
		leaves := c.Leaves()
		addInfo := func() {
			u := &l1infotreesync.UpdateL1InfoTree{BlockPosition: pos, MainnetExitRoot: h("MER", num, pos, uint64(salt)),
				RollupExitRoot: h("RER", num, pos, uint64(salt)), ParentHash: parent, Timestamp: 1000 + num}
			evs = append(evs, l1infotreesync.Event{UpdateL1InfoTree: u})
			rb.Leaves = append(rb.Leaves, ref.L1InfoLeaf(ref.GER(u.MainnetExitRoot, u.RollupExitRoot), u.ParentHash, u.Timestamp))
			pos++
		}
		addVerify := func() {
			nv := uint64(c.countKind("verify") + c.countKind("verify+info"))
			evs = append(evs, l1infotreesync.Event{VerifyBatches: &l1infotreesync.VerifyBatches{BlockPosition: pos,
				RollupID: uint32(1 + nv%3), NumBatch: num, StateRoot: h("sr", num), ExitRoot: h("xr", num, uint64(salt)),
				Aggregator: addr("agg", num)}})
			pos++
		}
		switch kind {
		case "empty":
		case "info":
			addInfo()
		case "info2":
			addInfo()
			addInfo()
		case "info3":
			addInfo()
			addInfo()
			addInfo()
		case "verify":
			addVerify()
		case "verify+info":
			addVerify()
			addInfo()
		case "v2":
			// the contract emits the leaf update and the root announcement together
			addInfo()
			all := append(append([]common.Hash{}, leaves...), rb.Leaves...)
			roots := ref.AppendRoots(all)
			evs = append(evs, l1infotreesync.Event{UpdateL1InfoTreeV2: &l1infotreesync.UpdateL1InfoTreeV2{
				CurrentL1InfoRoot: roots[len(roots)-1], LeafCount: uint32(len(all)), Blockhash: parent, MinTimestamp: 1000 + num}})
		case "init":
			if c.countKind("init") == 0 {
				evs = append(evs, l1infotreesync.Event{InitL1InfoRootMap: &l1infotreesync.InitL1InfoRootMap{
					LeafCount: uint32(len(leaves)), CurrentL1InfoRoot: h("initroot", num, uint64(salt))}})
			}
		default:
			panic("storekit: unknown l1info block kind " + kind)
		}
	case GER:
		ins := uint64(c.countKind("insert") + c.countKind("insertinfo"))
		switch kind {
		case "empty":
		case "insert":
			evs = append(evs, &lastgersync.Event{GEREvent: &lastgersync.GEREvent{BlockNum: num,
				GlobalExitRoot: h("ger", ins, uint64(salt)), L1InfoTreeIndex: uint32(ins) + 1}})
		case "insertinfo":
			evs = append(evs, &lastgersync.Event{GERInfo: &lastgersync.GlobalExitRootInfo{
				GlobalExitRoot: h("ger", ins, uint64(salt)), L1InfoTreeIndex: uint32(ins) + 1}})
		case "again":
			// the most recently injected root of the current chain is injected once more (same root, same index: the
			// index is a function of the root); nothing if no root has been injected yet
			if ev := c.lastInsertedGER(); ev != nil {
				evs = append(evs, &lastgersync.Event{GEREvent: &lastgersync.GEREvent{BlockNum: num,
					GlobalExitRoot: ev.GlobalExitRoot, L1InfoTreeIndex: ev.L1InfoTreeIndex}})
			}
		case "remove":
			// removes the earliest inserted root of the current chain that has not been removed yet
			if g, ok := c.nthInsertedGER(c.countKind("remove")); ok {
				evs = append(evs, &lastgersync.Event{GEREvent: &lastgersync.GEREvent{BlockNum: num, GlobalExitRoot: g, IsRemove: true}})
			}
		default:
			panic("storekit: unknown ger block kind " + kind)
		}
	}
	rb.Block = aggsync.Block{Num: num, Hash: rb.Hash, Events: evs}
	c.Blocks = append(c.Blocks, rb)
	return rb.Block
}

func (c *Chain) countKind(kind string) int {
	n := 0
	for _, b := range c.Blocks {
		if b.Kind == kind {
			n++
		}
	}
	return n
}

func (c *Chain) lastInsertedGER() *lastgersync.GEREvent {
	var last *lastgersync.GEREvent
	for _, b := range c.Blocks {
		for _, e := range b.Block.Events {
			ev := e.(*lastgersync.Event)
			switch {
			case ev.GEREvent != nil && !ev.GEREvent.IsRemove:
				last = ev.GEREvent
			case ev.GERInfo != nil:
				last = &lastgersync.GEREvent{GlobalExitRoot: ev.GERInfo.GlobalExitRoot, L1InfoTreeIndex: ev.GERInfo.L1InfoTreeIndex}
			}
		}
	}
	return last
}

// nthInsertedGER: the n-th distinct root injected on the current chain.
func (c *Chain) nthInsertedGER(n int) (common.Hash, bool) {
	i := 0
	seen := map[common.Hash]bool{}
	for _, b := range c.Blocks {
		for _, e := range b.Block.Events {
			ev := e.(*lastgersync.Event)
			var g common.Hash
			switch {
			case ev.GEREvent != nil && !ev.GEREvent.IsRemove:
				g = ev.GEREvent.GlobalExitRoot
			case ev.GERInfo != nil:
				g = ev.GERInfo.GlobalExitRoot
			default:
				continue
			}
			if seen[g] {
				continue
			}
			seen[g] = true
			if i == n {
				return g, true
			}
			i++
		}
	}
	return common.Hash{}, false
}

// RemovalInDroppedTargetsKept reports whether some block >= from contains a removal event whose
// target row was created by a block < from (the structural known finding of C04/C16).
func (c *Chain) RemovalInDroppedTargetsKept(from uint64) bool {
	switch c.Kind {
	case Bridge:
		created := map[common.Address]uint64{}
		for _, b := range c.Blocks {
			for _, e := range b.Block.Events {
				ev := e.(bridgesync.Event)
				if ev.LegacyTokenMigration != nil {
					if _, ok := created[ev.LegacyTokenMigration.LegacyTokenAddress]; !ok {
						created[ev.LegacyTokenMigration.LegacyTokenAddress] = b.Num
					}
				}
				if ev.RemoveLegacyToken != nil && b.Num >= from {
					if at, ok := created[ev.RemoveLegacyToken.LegacyTokenAddress]; ok && at < from {
						return true
					}
				}
			}
		}
	case GER:
		// live rows of a root: the blocks that injected it since its last removal (a removal deletes all of them)
		live := map[common.Hash][]uint64{}
		for _, b := range c.Blocks {
			for _, e := range b.Block.Events {
				ev := e.(*lastgersync.Event)
				if ev.GERInfo != nil {
					live[ev.GERInfo.GlobalExitRoot] = append(live[ev.GERInfo.GlobalExitRoot], b.Num)
				}
				if ev.GEREvent != nil && !ev.GEREvent.IsRemove {
					live[ev.GEREvent.GlobalExitRoot] = append(live[ev.GEREvent.GlobalExitRoot], b.Num)
				}
				if ev.GEREvent != nil && ev.GEREvent.IsRemove {
					if rows := live[ev.GEREvent.GlobalExitRoot]; b.Num >= from && len(rows) > 0 && rows[0] < from {
						return true
					}
					delete(live, ev.GEREvent.GlobalExitRoot)
				}
			}
		}
	}
	return false
}
