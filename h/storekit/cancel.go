package storekit

import (
	"context"
	"fmt"
	"runtime"
	"strings"
	"time"

	aggsync "github.com/agglayer/aggkit/sync"
	sqlite3 "github.com/mattn/go-sqlite3"
)

const cancelTable = "zz_verif_cancel"

// ProcessCancelledAt runs ProcessBlock with a context that is cancelled while the k-th row write of the
// block's transaction executes. Placement is deterministic although database/sql reacts to the cancellation
// from its own watcher goroutine: the row write calls (through a BEFORE trigger) an SQL function registered
// on the store's own connection; the function cancels the context and returns only once the watcher
// goroutine (database/sql.(*Tx).awaitDone) has marked the transaction done and is parked on the
// transaction's close mutex, which the running statement holds. The statement then completes, the watcher
// rolls the SQLite transaction back, and every later statement of the block sees sql.ErrTxDone — as does
// the deferred Rollback of aggkit's Tx wrapper, so aggkit's rollback callbacks do NOT run. The function
// returns after the watcher goroutine is gone (the ROLLBACK has been executed).
//
// The triggers exist only for the duration of the call (a connection on which the function is not
// registered could not compile a write on a table carrying them).
//
// outsideTx reports that the k-th row write was not part of any database/sql transaction (no watcher goroutine
// exists while it executes): there is nothing to cancel mid-transaction at that position, the context is left
// alone and the block is processed to its end.
func (n *Node) ProcessCancelledAt(k int, b aggsync.Block) (err error, fired, outsideTx bool) {
	must := func(q string) {
		if _, e := n.DB.Exec(q); e != nil {
			panic(fmt.Sprintf("storekit: %s: %v", q, e))
		}
	}
	cctx, cancel := context.WithCancel(context.Background())
	defer cancel()
	hook := func() int64 {
		fired = true
		if !watcherExists() {
			outsideTx = true
			return 0
		}
		cancel()
		waitWatcher(true)
		return 0
	}
	// register the function on every pooled connection (normally exactly one)
	var held []interface{ Close() error }
	for {
		c, e := n.DB.Conn(ctx)
		if e != nil {
			panic(e)
		}
		held = append(held, c)
		if e := c.Raw(func(dc any) error {
			return dc.(*sqlite3.SQLiteConn).RegisterFunc("verif_cancel", hook, false)
		}); e != nil {
			panic(fmt.Sprintf("storekit: RegisterFunc: %v", e))
		}
		if n.DB.Stats().Idle == 0 {
			break
		}
	}
	nconn := len(held)
	for i := len(held) - 1; i >= 0; i-- {
		held[i].Close()
	}
	if st := n.DB.Stats(); st.OpenConnections != nconn {
		panic(fmt.Sprintf("storekit: pool changed while registering the hook: %+v", st))
	}
	must(fmt.Sprintf(`CREATE TABLE IF NOT EXISTS %s (k INTEGER NOT NULL, armed INTEGER NOT NULL)`, cancelTable))
	must(fmt.Sprintf(`DELETE FROM %s`, cancelTable))
	must(fmt.Sprintf(`INSERT INTO %s (k, armed) VALUES (0, %d)`, cancelTable, k))
	tables := n.userTables()
	for _, t := range tables {
		for _, op := range []string{"INSERT", "UPDATE", "DELETE"} {
			must(fmt.Sprintf(`CREATE TRIGGER zz_vc_%s_%s BEFORE %s ON %s BEGIN
				UPDATE %s SET k = k + 1;
				SELECT verif_cancel() WHERE (SELECT k FROM %s) = (SELECT armed FROM %s);
			END;`, t, op, op, t, cancelTable, cancelTable, cancelTable))
		}
	}
	waitWatcher(false) // the watcher of an earlier, finished transaction leaves asynchronously
	err = n.W.ProcessBlock(cctx, b)
	waitWatcher(false)
	for _, t := range tables {
		for _, op := range []string{"INSERT", "UPDATE", "DELETE"} {
			must(fmt.Sprintf(`DROP TRIGGER zz_vc_%s_%s`, t, op))
		}
	}
	must(fmt.Sprintf(`DROP TABLE %s`, cancelTable))
	return err, fired, outsideTx
}

func watcherExists() bool {
	return strings.Contains(allStacks(), watcherMark)
}

// the watcher goroutine is the only goroutine database/sql.(*DB).beginDC starts; until it has run for the first time its
// stack shows the compiler's go-statement wrapper, not awaitDone, so the creation site is what identifies it
const watcherMark = "created by database/sql.(*DB).beginDC"

// allStacks is the complete goroutine dump (the buffer grows until the dump fits: a truncated dump could hide the watcher).
func allStacks() string {
	for size := 1 << 20; ; size *= 2 {
		buf := make([]byte, size)
		if n := runtime.Stack(buf, true); n < size {
			return string(buf[:n])
		}
	}
}

func (n *Node) userTables() []string {
	rows, err := n.DB.Query(`SELECT name FROM sqlite_master WHERE type='table' AND name NOT LIKE 'sqlite_%' AND name NOT LIKE 'gorp_%' AND name NOT LIKE 'zz_verif_%'`)
	if err != nil {
		panic(err)
	}
	defer rows.Close()
	var tables []string
	for rows.Next() {
		var t string
		rows.Scan(&t)
		tables = append(tables, t)
	}
	return tables
}

// waitWatcher(true) returns when a goroutine running database/sql.(*Tx).awaitDone is parked in
// sync.(*RWMutex).Lock; waitWatcher(false) returns when no goroutine runs awaitDone any more.
func waitWatcher(parked bool) {
	deadline := time.Now().Add(20 * time.Second)
	for {
		s := allStacks()
		found, isParked := false, false
		for _, g := range strings.Split(s, "\n\n") {
			if strings.Contains(g, watcherMark) {
				found = true
				if strings.Contains(g, "sync.(*RWMutex).Lock") {
					isParked = true
				}
			}
		}
		if parked && isParked || !parked && !found {
			return
		}
		if time.Now().After(deadline) {
			panic(fmt.Sprintf("storekit: waitWatcher(%v): database/sql watcher goroutine not in the expected state", parked))
		}
		runtime.Gosched()
		time.Sleep(20 * time.Microsecond)
	}
}
