// C08 — every Merkle proof served verifies against the root it was asked for, and the leaf
// reported for a position under a root is the value last written there as of that root.
//
// SUT: the real bridge and L1-info stores behind their real facades (storekit): tree.AppendOnlyTree
// (exit tree, L1 info tree) and tree.UpdatableTree (rollup exit tree) on real SQLite files, with
// restarts (real constructor on the same file) and reorgs (real Reorg).
// Families of histories:
//
//	exit   — every composition of a deposit sequence into blocks (the C01 structure space)
//	l1     — every L1 history over an alphabet with repeated and non-contiguous rollup ids
//	reorg  — history, reorg, optional restart, continuation on the new fork (the C04 shape)
//	synth  — high-index pre-states written with SQL (the C01 bit-pattern space)
//
// For EVERY root the node has recorded and EVERY position present under it the proof is requested
// through the facade and folded with the REFERENCE leaf by ref.Verify (written from the
// definition; shares nothing with tree.CalculateRoot): the result must be exactly that root.
package main

import (
	"context"
	"fmt"
	"sort"
	"strings"

	"github.com/agglayer/aggkit/bridgesync"
	aggsync "github.com/agglayer/aggkit/sync"
	"github.com/ethereum/go-ethereum/common"
	"math/big"
	"verif/h/kit"
	"verif/h/mc"
	"verif/h/ref"
	sk "verif/h/storekit"
)

type params struct {
	Family string
	// exit
	N        int
	Comp     []int
	Shape    int
	Empties  int
	Restarts bool
	// l1 / reorg
	Store   sk.Kind
	Prefix  []string // first kinds of the history (unit)
	Len     int      // total history length (l1)
	MaxCont int      // reorg: continuation length 0..MaxCont
	// synth
	C uint64
}

var bg = context.Background()

// ---------------------------------------------------------------------------------------------
// alphabets

const (
	ridA  = uint32(1)
	ridB  = uint32(2)
	ridC  = uint32(5)
	ridHi = uint32(0x80000002) // tree position 0x80000001: top and bottom index bits set
)

// quick uses the sub-alphabets whose blocks contain the others' events ("ii" has "i"'s, "mix" has "v5"'s)
func l1Kinds(tier string) []string {
	if tier == "thorough" {
		return []string{"i", "ii", "v1", "v2", "v5", "vH", "mix"}
	}
	return []string{"ii", "v1", "v2", "vH", "mix"}
}

func l1ReorgKinds(tier string) []string {
	if tier == "thorough" {
		return []string{"ii", "v1", "v2", "mix"}
	}
	return []string{"ii", "v1", "mix"}
}

// "s1" / "s2": one / two bridges whose hashed fields are all identical to every other "s" bridge (the leaf hash does not
// cover the deposit count): equal leaves give equal subtrees, i.e. node rows shared between versions of the tree
var bridgeReorgKinds = []string{"b1", "b2", "e", "s1", "s2"}

// l1Ops expands a block kind into events. Exit roots are fresh (unique per block, rollup, fork)
// except "same" (the value the rollup already holds: the contract's tree does not change) and
// "zero" (ignored by the node; nothing is written).
func l1Ops(kind string, num uint64, salt int) []sk.L1Op {
	fresh := func(r uint32) sk.L1Op { return sk.L1Op{Rollup: r, Exit: sk.H("xr", num, uint64(r), uint64(salt))} }
	switch kind {
	case "e":
		return nil
	case "i":
		return []sk.L1Op{{Info: true}}
	case "ii":
		return []sk.L1Op{{Info: true}, {Info: true}}
	case "v1":
		return []sk.L1Op{fresh(ridA)}
	case "v2":
		return []sk.L1Op{fresh(ridB)}
	case "v5":
		return []sk.L1Op{fresh(ridC)}
	case "vH":
		return []sk.L1Op{fresh(ridHi)}
	case "mix":
		f := fresh(ridA)
		return []sk.L1Op{f, {Rollup: ridA, Exit: f.Exit}, {Rollup: ridA}, fresh(ridC), {Info: true}, fresh(ridB)}
	}
	panic("unknown l1 kind " + kind)
}

func maxN(tier string) int {
	if tier == "thorough" {
		return 10
	}
	return 7
}

func l1Len(tier string) int {
	if tier == "thorough" {
		return 5
	}
	return 4
}

func synthCounts() []uint64 {
	seen := map[uint64]bool{}
	var out []uint64
	add := func(c uint64) {
		if !seen[c] && c >= 1 && c <= 1<<32-2 {
			seen[c] = true
			out = append(out, c)
		}
	}
	for c := uint64(1); c < 256; c++ {
		add(c)
	}
	for k := uint(1); k <= 31; k++ {
		for _, d := range []int64{-2, -1, 0, 1} {
			add(uint64(int64(1)<<k + d))
		}
	}
	for _, c := range []uint64{1<<32 - 5, 1<<32 - 4, 1<<32 - 3, 1<<32 - 2, 0xaaaaaaaa, 0x55555555, 0x80000001, 0xfffeffff, 0x7fffffff + 0x10000} {
		add(c)
	}
	return out
}

func words(al []string, n int) [][]string {
	out := [][]string{{}}
	for i := 0; i < n; i++ {
		var next [][]string
		for _, w := range out {
			for _, k := range al {
				next = append(next, append(append([]string{}, w...), k))
			}
		}
		out = next
	}
	return out
}

func units(tier string) []mc.Unit {
	var us []mc.Unit
	for n := 1; n <= maxN(tier); n++ {
		for _, comp := range sk.Compositions(n) {
			for _, v := range []struct {
				shape, emp int
				restarts   bool
			}{{0, 0, true}, {0, 1, false}, {1, 0, false}} {
				us = append(us, mc.Unit{Name: fmt.Sprintf("exit:n=%d,blocks=%s,shape=%d,empties=%d", n, joinInts(comp), v.shape, v.emp),
					Params: params{Family: "exit", N: n, Comp: comp, Shape: v.shape, Empties: v.emp, Restarts: v.restarts}})
			}
		}
	}
	for _, w := range words(l1Kinds(tier), l1Len(tier)-1) {
		us = append(us, mc.Unit{Name: "l1:" + strings.Join(w, ","), Params: params{Family: "l1", Prefix: w, Len: l1Len(tier)}})
	}
	cont := 1
	if tier == "thorough" {
		cont = 2
	}
	for _, w := range words(bridgeReorgKinds, 3) {
		us = append(us, mc.Unit{Name: "reorg:bridge:" + strings.Join(w, ","), Params: params{Family: "reorg", Store: sk.Bridge, Prefix: w, MaxCont: cont}})
	}
	for _, w := range words(l1ReorgKinds(tier), 3) {
		us = append(us, mc.Unit{Name: "reorg:l1info:" + strings.Join(w, ","), Params: params{Family: "reorg", Store: sk.L1Info, Prefix: w, MaxCont: cont}})
	}
	for _, c := range synthCounts() {
		us = append(us, mc.Unit{Name: fmt.Sprintf("synth:count=%d", c), Params: params{Family: "synth", C: c}})
	}
	// ahead: the node is asked about roots it has not recorded yet (it lags behind whoever learnt them elsewhere)
	for n := 1; n <= 3; n++ { //nolint:mnd
		for _, w := range words([]string{"b1", "b2"}, n) {
			us = append(us, mc.Unit{Name: "ahead:bridge:" + strings.Join(w, ","), Params: params{Family: "ahead", Store: sk.Bridge, Prefix: w}})
		}
	}
	gateLen := 2
	if tier == "thorough" {
		gateLen = 3
	}
	for n := 1; n <= gateLen; n++ {
		for _, w := range words([]string{"b1", "b2", "s1"}, n) {
			us = append(us, mc.Unit{Name: "gate:bridge:" + strings.Join(w, ","), Params: params{Family: "gate", Store: sk.Bridge, Prefix: w}})
		}
		for _, w := range words([]string{"ii", "v1"}, n) {
			us = append(us, mc.Unit{Name: "gate:l1info:" + strings.Join(w, ","), Params: params{Family: "gate", Store: sk.L1Info, Prefix: w}})
		}
	}
	return us
}

func joinInts(x []int) string {
	s := make([]string, len(x))
	for i, v := range x {
		s[i] = fmt.Sprint(v)
	}
	return strings.Join(s, "+")
}

// ---------------------------------------------------------------------------------------------
// oracles

// appendTree is the query side of one append-only tree behind its facade.
type appendTree struct {
	name      string // key prefix
	proofCall string
	rootAt    func(j uint32) (ref.Hash, error)
	proof     func(i uint32, root ref.Hash) ([ref.Height]ref.Hash, error)
}

func exitTree(n *sk.Node) appendTree {
	return appendTree{name: "exit", proofCall: "GetProof",
		rootAt: func(j uint32) (ref.Hash, error) {
			r, err := n.B.GetExitRootByIndex(bg, j)
			return r.Hash, err
		},
		proof: func(i uint32, root ref.Hash) ([ref.Height]ref.Hash, error) {
			p, err := n.B.GetProof(bg, i, root)
			return [ref.Height]ref.Hash(p), err
		}}
}

func infoTree(n *sk.Node) appendTree {
	return appendTree{name: "l1info", proofCall: "GetL1InfoTreeMerkleProofFromIndexToRoot",
		rootAt: func(j uint32) (ref.Hash, error) {
			r, err := n.L.GetL1InfoTreeRootByIndex(bg, j)
			return r.Hash, err
		},
		proof: func(i uint32, root ref.Hash) ([ref.Height]ref.Hash, error) {
			p, err := n.L.GetL1InfoTreeMerkleProofFromIndexToRoot(bg, i, root)
			return [ref.Height]ref.Hash(p), err
		}}
}

// checkPairs: for every recorded root r_j with fromJ <= j < len(leaves) and every position i <= j,
// the proof of i under r_j folded with the reference leaf i must give r_j.
func checkPairs(c *mc.Ctx, t appendTree, leaves []ref.Hash, fromJ int, when string) {
	for j := fromJ; j < len(leaves); j++ {
		rj, err := t.rootAt(uint32(j))
		if err != nil {
			c.Failf(t.name+"/no-root-recorded-for-an-appended-leaf", "%s: no root for index %d: %v", when, j, err)
			continue
		}
		for i := 0; i <= j; i++ {
			p, err := t.proof(uint32(i), rj)
			c.AddEvals(1)
			if err != nil {
				c.Failf(t.name+"/"+t.proofCall+"/error", "%s: %s(%d, root of index %d) failed: %v", when, t.proofCall, i, j, err)
				continue
			}
			if got := ref.Verify(leaves[i], p, uint32(i)); got != rj {
				c.Failf(t.name+"/"+t.proofCall+"/proof-does-not-verify", "%s: %s(%d, root %s recorded for index %d) folds with leaf %s to %s",
					when, t.proofCall, i, rj.Hex(), j, leaves[i].Hex(), got.Hex())
			}
		}
	}
}

// checkInfoLatest: GetL1InfoTreeMerkleProof(i) returns the proof of i under the root recorded for i.
func checkInfoLatest(c *mc.Ctx, n *sk.Node, leaves []ref.Hash, when string) {
	for i := range leaves {
		p, r, err := n.L.GetL1InfoTreeMerkleProof(bg, uint32(i))
		c.AddEvals(1)
		if err != nil {
			c.Failf("l1info/GetL1InfoTreeMerkleProof/error", "%s: GetL1InfoTreeMerkleProof(%d): %v", when, i, err)
			continue
		}
		if got := ref.Verify(leaves[i], [ref.Height]ref.Hash(p), uint32(i)); got != r.Hash || r.Index != uint32(i) {
			c.Failf("l1info/GetL1InfoTreeMerkleProof/proof-does-not-verify", "%s: GetL1InfoTreeMerkleProof(%d) returned root %s (index %d); the proof folds with leaf %s to %s",
				when, i, r.Hash.Hex(), r.Index, leaves[i].Hex(), got.Hex())
		}
	}
}

type recRoot struct {
	blk, pos uint64
	hash     ref.Hash
	src      string
}

// rollupStateAsOf folds the verify events up to and including (blk,pos).
func rollupStateAsOf(vs []sk.VerifyRef, blk, pos uint64) (map[uint32]common.Hash, ref.Hash) {
	var upto []sk.VerifyRef
	for _, v := range vs {
		if v.Block < blk || (v.Block == blk && v.Pos <= pos) {
			upto = append(upto, v)
		}
	}
	st := sk.RollupStates(upto)
	if len(st) == 0 {
		return map[uint32]common.Hash{}, ref.Zero(ref.Height)
	}
	last := st[len(st)-1]
	return last.Leaves, last.Root
}

// recordedRollupRoots lists every root the node has recorded for the rollup exit tree: the rows of
// the tree's root table (read with plain SQL), every verify-batches row reachable through the
// facade, and GetLastRollupExitRoot.
func recordedRollupRoots(n *sk.Node, chain *sk.Chain, fromBlock uint64) []recRoot {
	var out []recRoot
	rows, err := n.DB.Query(`SELECT hash, block_num, block_position FROM rollup_exit_root WHERE block_num >= $1 ORDER BY block_num, block_position`, fromBlock)
	if err != nil {
		panic(err)
	}
	for rows.Next() {
		var hs string
		var r recRoot
		if err := rows.Scan(&hs, &r.blk, &r.pos); err != nil {
			panic(err)
		}
		r.hash, r.src = common.HexToHash(hs), "root table"
		out = append(out, r)
	}
	rows.Close()
	for _, rid := range []uint32{ridA, ridB, ridC, ridHi} {
		if vb, err := n.L.GetLastVerifiedBatches(rid); err == nil && vb != nil && vb.BlockNumber >= fromBlock {
			out = append(out, recRoot{vb.BlockNumber, vb.BlockPosition, vb.RollupExitRoot, fmt.Sprintf("GetLastVerifiedBatches(%d)", rid)})
		}
		if fromBlock > 0 {
			continue
		}
		if vb, err := n.L.GetFirstVerifiedBatches(rid); err == nil && vb != nil {
			out = append(out, recRoot{vb.BlockNumber, vb.BlockPosition, vb.RollupExitRoot, fmt.Sprintf("GetFirstVerifiedBatches(%d)", rid)})
		}
		for _, b := range chain.Blocks {
			if vb, err := n.L.GetFirstVerifiedBatchesAfterBlock(rid, b.Num); err == nil && vb != nil {
				out = append(out, recRoot{vb.BlockNumber, vb.BlockPosition, vb.RollupExitRoot, fmt.Sprintf("GetFirstVerifiedBatchesAfterBlock(%d,%d)", rid, b.Num)})
			}
		}
	}
	if r, err := n.L.GetLastRollupExitRoot(bg); err == nil && r.BlockNum >= fromBlock {
		out = append(out, recRoot{r.BlockNum, r.BlockPosition, r.Hash, "GetLastRollupExitRoot"})
	}
	return out
}

// checkRollup: every recorded root × every rollup id written as of that root.
func checkRollup(c *mc.Ctx, n *sk.Node, chain *sk.Chain, fromBlock uint64, when string) {
	vs := chain.Verifies()
	done := map[string]bool{}
	for _, r := range recordedRollupRoots(n, chain, fromBlock) {
		k := fmt.Sprintf("%d/%d/%x", r.blk, r.pos, r.hash)
		if done[k] {
			continue
		}
		done[k] = true
		leaves, wantRoot := rollupStateAsOf(vs, r.blk, r.pos)
		c.Witness("rollup_root_checked")
		if r.hash != wantRoot {
			c.Failf("rollupexit/recorded-root-is-not-the-root-of-the-values-written", "%s: root %s recorded at block %d pos %d (%s); reference root of %s is %s",
				when, r.hash.Hex(), r.blk, r.pos, r.src, leavesStr(leaves), wantRoot.Hex())
		}
		var idx []uint32
		for i := range leaves {
			idx = append(idx, i)
		}
		sort.Slice(idx, func(a, b int) bool { return idx[a] < idx[b] })
		if len(idx) > 1 {
			c.Witness("rollup_root_with_several_leaves")
		}
		for _, i := range idx {
			c.AddEvals(1)
			p, err := n.L.GetRollupExitTreeMerkleProof(bg, i+1, r.hash)
			if err != nil {
				c.Failf("rollupexit/GetRollupExitTreeMerkleProof/error", "%s: GetRollupExitTreeMerkleProof(%d, %s): %v", when, i+1, r.hash.Hex(), err)
			} else if got := ref.Verify(leaves[i], [ref.Height]ref.Hash(p), i); got != r.hash {
				c.Failf("rollupexit/GetRollupExitTreeMerkleProof/proof-does-not-verify", "%s: GetRollupExitTreeMerkleProof(%d, root %s recorded at block %d pos %d, %s) folds with the value last written %s to %s; values written as of that root: %s",
					when, i+1, r.hash.Hex(), r.blk, r.pos, r.src, leaves[i].Hex(), got.Hex(), leavesStr(leaves))
			}
			l, err := n.L.GetLocalExitRoot(bg, i+1, r.hash)
			if err != nil {
				c.Failf("rollupexit/GetLocalExitRoot/error", "%s: GetLocalExitRoot(%d, %s): %v", when, i+1, r.hash.Hex(), err)
			} else if l != leaves[i] {
				c.Failf("rollupexit/GetLocalExitRoot/not-the-value-last-written", "%s: GetLocalExitRoot(%d, root %s recorded at block %d pos %d) = %s; value last written as of that root %s; values: %s",
					when, i+1, r.hash.Hex(), r.blk, r.pos, l.Hex(), leaves[i].Hex(), leavesStr(leaves))
			}
		}
	}
}

func leavesStr(m map[uint32]common.Hash) string {
	var idx []uint32
	for i := range m {
		idx = append(idx, i)
	}
	sort.Slice(idx, func(a, b int) bool { return idx[a] < idx[b] })
	var sb strings.Builder
	sb.WriteString("{")
	for _, i := range idx {
		fmt.Fprintf(&sb, " rollup %d: %s", i+1, m[i].Hex()[:12])
	}
	sb.WriteString(" }")
	return sb.String()
}

// ---------------------------------------------------------------------------------------------

func run(c *mc.Ctx, u mc.Unit) {
	p := u.Params.(params)
	dir := sk.ScratchDir()
	defer kit.RemoveScratch(dir)
	defer func() {
		if x := recover(); x != nil {
			if strings.HasPrefix(fmt.Sprintf("%T", x), "mc.") {
				panic(x)
			}
			c.Failf("store/panic-on-valid-input", "unit %s choices %v: panic: %v", u.Name, c.Choices, x)
		}
	}()
	switch p.Family {
	case "exit":
		runExit(c, p, dir)
	case "l1":
		runL1(c, p, dir)
	case "reorg":
		runReorg(c, p, dir)
	case "ahead":
		runAhead(c, p, dir)
	case "gate":
		runGate(c, p, dir)
	case "synth":
		runSynth(c, p, dir)
	}
}

func mkBridge(shape int, num, pos uint64, dc uint32, salt int) *bridgesync.Bridge {
	if shape == 1 {
		b := sk.MakeBridge(num, pos, 0, 0)
		b.DepositCount = dc
		return b
	}
	b := sk.MakeBridge(num, pos, dc, salt)
	if shape == 2 { // identical leaves
		b.LeafType, b.OriginNetwork, b.OriginAddress = 0, 0, common.HexToAddress("0x5a5e")
		b.DestinationNetwork, b.DestinationAddress = 2, common.HexToAddress("0xda5e")
		b.Amount, b.Metadata = big.NewInt(7), nil
	}
	return b
}

func feedBridges(c *mc.Ctx, node *sk.Node, chain *sk.Chain, shape, n, salt int) bool {
	num := chain.Tip() + 1
	dc := uint32(len(chain.Leaves()))
	var bs []*bridgesync.Bridge
	for pos := 0; pos < n; pos++ {
		bs = append(bs, mkBridge(shape, num, uint64(pos), dc+uint32(pos), salt))
	}
	if err := node.Process(chain.NextBridges(num, salt, bs)); err != nil {
		c.Failf("store/ProcessBlock-error-on-valid-block", "bridge block %d with %d deposits: %v", num, n, err)
		return false
	}
	return true
}

// ---- exit: the C01 structure space ---------------------------------------------------------------

func runExit(c *mc.Ctx, p params, dir string) {
	node := sk.Open(sk.Bridge, dir)
	defer node.Close()
	sizes := p.Comp
	if p.Empties == 1 {
		sizes = []int{0}
		for _, s := range p.Comp {
			sizes = append(sizes, s, 0)
		}
	}
	restartAt := -1
	if p.Restarts {
		restartAt = c.Choose(len(sizes)+2, "restart-point") - 1 // boundary 0..len(sizes), -1 none
	}
	chain := sk.NewChain(sk.Bridge)
	t := exitTree(node)
	if restartAt == 0 {
		node.Restart()
	}
	for bi, sz := range sizes {
		before := len(chain.Leaves())
		if !feedBridges(c, node, chain, p.Shape, sz, 0) {
			return
		}
		checkPairs(c, t, chain.Leaves(), before, fmt.Sprintf("blocks %v restart@%d, after block %d", sizes, restartAt, bi+1))
		if c.Failed() {
			return
		}
		if restartAt == bi+1 {
			node.Restart()
			c.Witness("restart")
		}
	}
	checkPairs(c, t, chain.Leaves(), 0, fmt.Sprintf("blocks %v restart@%d, at the end", sizes, restartAt))
	c.Witness("historical_roots_checked")
	c.NonTrivial()
	c.Obs("exit blocks=%v shape=%d restart@%d leaves=%d", sizes, p.Shape, restartAt, len(chain.Leaves()))
}

// ---- l1: info tree + rollup exit tree ---------------------------------------------------------------

func feedL1(c *mc.Ctx, node *sk.Node, chain *sk.Chain, kind string, salt int) bool {
	num := chain.Tip() + 1
	blk := chain.NextL1Ops(num, salt, kind, l1Ops(kind, num, salt))
	if err := node.Process(blk); err != nil {
		c.Failf("store/ProcessBlock-error-on-valid-block", "l1 block %d kind %s salt %d: %v", num, kind, salt, err)
		return false
	}
	return true
}

func histStr(chain *sk.Chain) string {
	var s []string
	for _, b := range chain.Blocks {
		s = append(s, fmt.Sprintf("%d:%s/%d", b.Num, b.Kind, b.Salt))
	}
	return "[" + strings.Join(s, " ") + "]"
}

func runL1(c *mc.Ctx, p params, dir string) {
	node := sk.Open(sk.L1Info, dir)
	defer node.Close()
	chain := sk.NewChain(sk.L1Info)
	t := infoTree(node)
	hist := append([]string{}, p.Prefix...)
	for len(hist) < p.Len {
		al := l1Kinds(c.Tier)
		hist = append(hist, al[c.Choose(len(al), "block-kind")])
	}
	restart := c.Bool("restart-in-the-middle")
	repeated := map[uint32]int{}
	for bi, k := range hist {
		before := len(chain.Leaves())
		if !feedL1(c, node, chain, k, 0) {
			return
		}
		when := fmt.Sprintf("history %v restart=%v, after block %d", hist, restart, bi+1)
		checkPairs(c, t, chain.Leaves(), before, when)
		checkRollup(c, node, chain, chain.Tip(), when)
		if c.Failed() {
			return
		}
		if restart && bi+1 == p.Len/2 {
			node.Restart()
			c.Witness("restart")
		}
	}
	for _, v := range sk.RollupStates(chain.Verifies()) {
		repeated[v.At.Rollup]++
	}
	for _, n := range repeated {
		if n > 1 {
			c.Witness("same_rollup_updated_repeatedly")
			break
		}
	}
	when := fmt.Sprintf("history %v restart=%v, at the end", hist, restart)
	checkPairs(c, t, chain.Leaves(), 0, when)
	checkInfoLatest(c, node, chain.Leaves(), when)
	checkRollup(c, node, chain, 0, when)
	c.NonTrivial()
	c.Obs("l1 history=%v restart=%v leaves=%d rollupwrites=%d", hist, restart, len(chain.Leaves()), len(sk.RollupStates(chain.Verifies())))
}

// ---- reorg: the C04 shape ---------------------------------------------------------------------------

func runReorg(c *mc.Ctx, p params, dir string) {
	node := sk.Open(p.Store, dir)
	defer node.Close()
	chain := sk.NewChain(p.Store)
	feed := func(kind string, salt int) bool {
		if p.Store == sk.L1Info {
			return feedL1(c, node, chain, kind, salt)
		}
		return feedBridges(c, node, chain, map[bool]int{false: 0, true: 2}[kind[0] == 's'], map[string]int{"b1": 1, "b2": 2, "e": 0, "s1": 1, "s2": 2}[kind], salt)
	}
	for _, k := range p.Prefix {
		if !feed(k, 0) {
			return
		}
	}
	al := bridgeReorgKinds
	if p.Store == sk.L1Info {
		al = l1ReorgKinds(c.Tier)
	}
	from := uint64(1 + c.Choose(len(p.Prefix), "reorg-point"))
	if err := node.Reorg(from); err != nil {
		c.Failf("store/Reorg-error", "history %v: Reorg(%d): %v", p.Prefix, from, err)
		return
	}
	chain.Truncate(from)
	c.Witness("reorg")
	if c.Bool("restart-after-reorg") {
		node.Restart()
		c.Witness("restart")
	}
	contLen := c.Choose(p.MaxCont+1, "continuation-length")
	salt := 1
	if contLen > 0 && c.Bool("new-fork-has-the-same-content") {
		salt = 0
	}
	for i := 0; i < contLen; i++ {
		if !feed(al[c.Choose(len(al), "continuation-kind")], salt) {
			return
		}
	}
	when := fmt.Sprintf("history %v, reorg at %d, surviving+continuation %s (choices %v)", p.Prefix, from, histStr(chain), c.Choices)
	if p.Store == sk.Bridge {
		checkPairs(c, exitTree(node), chain.Leaves(), 0, when)
	} else {
		checkPairs(c, infoTree(node), chain.Leaves(), 0, when)
		checkInfoLatest(c, node, chain.Leaves(), when)
		checkRollup(c, node, chain, 0, when)
	}
	c.NonTrivial()
	c.Obs("reorg %s history=%v choices=%v final=%s", p.Store, p.Prefix, c.Choices, histStr(chain))
}

// ---- ahead: proofs asked under roots the node has not recorded yet ------------------------------------------------
//
// A second node that already synced the history tells which exit roots are coming. Before every block the lagging node is
// asked for the proof of every position under every root it has NOT recorded yet (whatever it answers is ignored: nothing is
// promised for a root it does not know); after the block every recorded root x position must be served with a proof that
// folds to the root — an earlier miss must not stick to the node.
func runAhead(c *mc.Ctx, p params, dir string) {
	dirA := sk.ScratchDir()
	defer kit.RemoveScratch(dirA)
	ahead := sk.Open(sk.Bridge, dirA)
	defer ahead.Close()
	chainA := sk.NewChain(sk.Bridge)
	for _, k := range p.Prefix {
		if !feedBridges(c, ahead, chainA, 0, map[string]int{"b1": 1, "b2": 2}[k], 0) {
			return
		}
	}
	ta := exitTree(ahead)
	var roots []ref.Hash
	for j := range chainA.Leaves() {
		r, err := ta.rootAt(uint32(j))
		if err != nil {
			c.Failf("exit/no-root-recorded-for-an-appended-leaf", "history %v: no root for index %d: %v", p.Prefix, j, err)
			return
		}
		roots = append(roots, r)
	}
	node := sk.Open(sk.Bridge, dir)
	defer node.Close()
	chain := sk.NewChain(sk.Bridge)
	t := exitTree(node)
	for bi, k := range p.Prefix {
		for j := len(chain.Leaves()); j < len(roots); j++ {
			for i := 0; i <= j; i++ {
				_, _ = t.proof(uint32(i), roots[j])
				c.Witness("proofs_asked_under_a_root_not_recorded_yet")
			}
		}
		if c.Bool("restart-before-the-block") {
			node.Restart()
			t = exitTree(node)
		}
		if !feedBridges(c, node, chain, 0, map[string]int{"b1": 1, "b2": 2}[k], 0) {
			return
		}
		checkPairs(c, t, chain.Leaves(), 0, fmt.Sprintf("history %v, roots asked for before they were recorded, after block %d", p.Prefix, bi+1))
	}
	c.NonTrivial()
	c.Obs("ahead history=%v choices=%v", p.Prefix, c.Choices)
}

// ---- gate: one syncer transaction lands inside a proof query ----------------------------------------------
//
// A proof is read row by row (32 node rows) while the syncer goes on committing blocks and reorgs. For every history, every
// recorded root x position, every syncer transaction (a reorg from any block, the next block) and every statement of the
// query before which that transaction can land (storekit's statement gate): a proof that is SERVED must still fold to the
// root it was asked for. An error answer is accepted when the transaction landed (the root may be gone).
func runGate(c *mc.Ctx, p params, dir string) {
	node := sk.Open(p.Store, dir)
	defer node.Close()
	chain := sk.NewChain(p.Store)
	feed := func(kind string, salt int) bool {
		if p.Store == sk.L1Info {
			return feedL1(c, node, chain, kind, salt)
		}
		return feedBridges(c, node, chain, map[bool]int{false: 0, true: 2}[kind[0] == 's'], map[string]int{"b1": 1, "b2": 2, "s1": 1}[kind], salt)
	}
	for _, k := range p.Prefix {
		if !feed(k, 0) {
			return
		}
	}
	t := exitTree(node)
	if p.Store == sk.L1Info {
		t = infoTree(node)
	}
	leaves := chain.Leaves()
	if len(leaves) == 0 {
		return
	}
	j := uint32(c.Choose(len(leaves), "root-of-index"))
	i := uint32(c.Choose(int(j)+1, "position"))
	rj, err := t.rootAt(j)
	if err != nil {
		c.Failf(t.name+"/no-root-recorded-for-an-appended-leaf", "history %v: no root for index %d: %v", p.Prefix, j, err)
		return
	}
	tip := chain.Tip()
	wi := c.Choose(int(tip)+2, "syncer-transaction") //nolint:mnd // tip+1: no transaction, the statement itself fails
	wname := fmt.Sprintf("Reorg(%d)", wi+1)
	writer := func() {
		if err := node.Reorg(uint64(wi + 1)); err != nil {
			panic(fmt.Sprintf("c08 gate: %s: %v", wname, err))
		}
	}
	if wi == int(tip) {
		wname = "ProcessBlock(next)"
		writer = func() { feed(p.Prefix[0], 1) }
	}
	var pr [ref.Height]ref.Hash
	var perr error
	positions, _, _ := node.ReadWithWriterAt(0, nil, func() { pr, perr = t.proof(i, rj) })
	if perr != nil || positions == 0 {
		c.Failf(t.name+"/"+t.proofCall+"/error", "history %v: %s(%d, root of index %d) failed on the quiet store: %v (%d statements seen)", p.Prefix, t.proofCall, i, j, perr, positions)
		return
	}
	at := 1 + c.Choose(positions, "statement-before-which-the-transaction-lands")
	if wi == int(tip)+1 {
		// a row read of the query fails (an error that is neither "no rows" nor a cancellation): the query must fail or
		// still serve a proof that folds to the root
		_, fired := node.ReadFailsAt(at, func() { pr, perr = t.proof(i, rj) })
		when := fmt.Sprintf("history %v, %s(%d, root recorded for index %d), statement %d of %d fails", p.Prefix, t.proofCall, i, j, at, positions)
		c.AddEvals(1)
		c.NonTrivial()
		if !fired {
			c.Witness("gate_positions_not_reached")
			return
		}
		c.Witness("gate_row_reads_that_fail_inside_a_proof_query")
		if perr != nil {
			c.Witness("gate_failed_reads_reported_as_errors")
			c.Obs("%s -> error", when)
			return
		}
		if got := ref.Verify(leaves[i], pr, i); got != rj {
			c.Failf(t.name+"/"+t.proofCall+"/proof-does-not-verify/a-row-read-failed-inside-the-query", "%s: the query reported no error and served a proof that folds with leaf %s to %s, not to the root %s it was asked for",
				when, leaves[i].Hex(), got.Hex(), rj.Hex())
		}
		c.Obs("%s -> served, verifies", when)
		return
	}
	_, landed, closed := node.ReadWithWriterAt(at, writer, func() { pr, perr = t.proof(i, rj) })
	when := fmt.Sprintf("history %v, %s(%d, root recorded for index %d), %s lands before statement %d of %d", p.Prefix, t.proofCall, i, j, wname, at, positions)
	c.AddEvals(1)
	c.NonTrivial()
	switch {
	case closed:
		c.Witness("gate_positions_closed_by_the_readers_transaction")
	case landed:
		c.Witness("gate_transactions_landed_inside_a_proof_query")
	default:
		c.Witness("gate_positions_not_reached")
	}
	if perr != nil {
		if !landed {
			c.Failf(t.name+"/"+t.proofCall+"/error", "%s: failed although no transaction landed: %v", when, perr)
		}
		c.Obs("%s -> error %v", when, perr)
		return
	}
	if got := ref.Verify(leaves[i], pr, i); got != rj {
		c.Failf(t.name+"/"+t.proofCall+"/proof-does-not-verify/transaction-landed-inside-the-query", "%s: the served proof folds with leaf %s to %s, not to the root %s it was asked for",
			when, leaves[i].Hex(), got.Hex(), rj.Hex())
	}
	c.Obs("%s -> served, verifies", when)
}

// ---- synth: high-index pre-states ---------------------------------------------------------------------

const maxCount = 1<<32 - 1 // DepositContractBase._MAX_DEPOSIT_COUNT

func runSynth(c *mc.Ctx, p params, dir string) {
	node := sk.Open(sk.Bridge, dir)
	defer node.Close()
	s := sk.NewSynth(p.C)
	node.InstallSynth(s)
	d := s.Tree
	maxM := 3
	if left := maxCount - p.C; left < 3 {
		maxM = int(left)
	}
	// quick: the longest continuation only (its compositions contain the shorter ones as prefixes)
	m := maxM
	if c.Tier == "thorough" {
		m = 1 + c.Choose(maxM, "deposits")
	}
	comps := sk.Compositions(m)
	comp := comps[c.Choose(len(comps), "composition")]
	mask := 0
	if len(comp) > 1 {
		mask = c.Choose(1<<(len(comp)-1), "restarts-between-blocks")
	}
	type pos struct {
		idx  uint32
		leaf ref.Hash
	}
	present := []pos{{uint32(p.C - 1), s.LastLeaf}}
	type rec struct {
		idx   uint32
		nleaf int // number of entries of present covered by this root
	}
	recs := []rec{{uint32(p.C - 1), 1}}
	check := func(from int, when string) {
		for _, r := range recs[from:] {
			rr, err := node.B.GetExitRootByIndex(bg, r.idx)
			if err != nil {
				c.Failf("exit/no-root-recorded-for-an-appended-leaf", "%s: no root for index %d: %v", when, r.idx, err)
				continue
			}
			for _, ps := range present[:r.nleaf] {
				c.AddEvals(1)
				pr, err := node.B.GetProof(bg, ps.idx, rr.Hash)
				if err != nil {
					c.Failf("exit/GetProof/error", "%s: GetProof(%d, root of index %d): %v", when, ps.idx, r.idx, err)
					continue
				}
				if got := ref.Verify(ps.leaf, [ref.Height]ref.Hash(pr), ps.idx); got != rr.Hash {
					c.Failf("exit/GetProof/proof-does-not-verify", "%s: GetProof(%d, root %s recorded for index %d) folds with leaf %s to %s",
						when, ps.idx, rr.Hash.Hex(), r.idx, ps.leaf.Hex(), got.Hex())
				}
			}
		}
	}
	num := uint64(sk.SynthBlock)
	dc := p.C
	check(0, fmt.Sprintf("pre-state count %d", p.C))
	for bi, sz := range comp {
		num++
		var evs []any
		from := len(recs)
		for q := 0; q < sz; q++ {
			b := sk.MakeBridge(num, uint64(q), uint32(dc), 0)
			leaf := ref.BridgeLeaf(b.LeafType, b.OriginNetwork, b.OriginAddress, b.DestinationNetwork, b.DestinationAddress, b.Amount, b.Metadata)
			d.AddLeaf(leaf)
			present = append(present, pos{uint32(dc), leaf})
			recs = append(recs, rec{uint32(dc), len(present)})
			evs = append(evs, bridgesync.Event{Bridge: b})
			dc++
		}
		when := fmt.Sprintf("pre-state count %d, blocks %v restarts-mask %d, after block %d", p.C, comp, mask, num)
		if err := node.Process(aggsync.Block{Num: num, Hash: sk.H("synthblk", num, p.C), Events: evs}); err != nil {
			c.Failf("store/ProcessBlock-error-on-valid-block", "%s: %v", when, err)
			return
		}
		check(from, when)
		if c.Failed() {
			return
		}
		if bi < len(comp)-1 && mask&(1<<bi) != 0 {
			node.Restart()
			c.Witness("restart")
		}
	}
	// the contract's accumulator agrees with the last recorded root (ties the synthetic state to the reference)
	if rr, err := node.B.GetExitRootByIndex(bg, uint32(dc-1)); err == nil && rr.Hash == d.Root() {
		c.Witness("synth_last_root_equals_contract_root")
	}
	check(0, fmt.Sprintf("pre-state count %d, blocks %v restarts-mask %d, at the end", p.C, comp, mask))
	c.NonTrivial()
	c.Obs("synth count=%d blocks=%v restarts=%d", p.C, comp, mask)
}

func main() {
	mc.Main(mc.Spec{
		ID: "C08", Level: "exploration",
		Units:              units,
		Batch:              func(string) int { return 8 },
		MaxEvalsPerProcess: 60000, // evaluations count proofs here; bounds store constructions per process (descriptor leak)
		Run:                run,
		Setup:              func(string) { kit.Quiet(); sk.InstallStatementGate() },
		Rule: "five unit families. gate: unit = (store, history of 1..2 (thorough 3) blocks), choices: recorded root, position, the syncer transaction (reorg from any block / next block) and the statement of the proof query before which it lands (all).  exit: unit = (n, composition into blocks, leaf shape, empty-block pattern), choice: one restart point among all block boundaries (for the plain pattern). " +
			"l1: unit = first blocks of an L1 history over the alphabet {i, ii, v1, v2, v5, vH, mix} (quick: {ii, v1, v2, vH, mix}), choices: the remaining blocks, restart in the middle. " +
			"reorg: unit = (store, 3-block history), choices: reorg point, restart, continuation length and kinds, new fork with the same or different content. " +
			"synth: unit = pre-state deposit count, choices: 1..3 appended deposits (quick: 3), composition, restarts. All choice trees explored completely. " +
			"In every execution EVERY recorded root x EVERY position present under it is checked, after the block that recorded the root and again at the end (historical roots). " +
			"evaluations = (root, position) proof checks + executions; non-trivial = every execution; distinct = distinct (unit, choices, observation)",
		Assumptions: []string{
			"append-only trees: the root asked for is the one the node itself reports for index j (GetExitRootByIndex / GetL1InfoTreeRootByIndex); that it equals the contract's root is C01/C11's statement",
			"rollup exit tree: the recorded roots are the rows of the tree's root table (read with plain SQL through the store's handle), every verify-batches row reachable through GetLast/First/FirstAfterBlock and GetLastRollupExitRoot; 'as of that root' = all verify events up to the (block, position) the root was recorded at; positions never written are not queried",
			"exit roots of verify events are pairwise distinct except the deliberate 'same value' and 'zero' events, so the rollup exit tree never returns to an earlier root (the root table's primary key is the hash)",
			"rollup ids {1, 2, 5, 0x80000002}; L1 info and bridge leaves from storekit's deterministic generators",
			"synthetic pre-states: only position c-1 and the appended positions are present (the subtrees to the left are opaque hashes), so only those positions are queried",
			"SQLite (modernc) is trusted",
		},
		Bounds: func(tier string) map[string]any {
			return map[string]any{"exit_max_deposits": maxN(tier), "l1_history_length": l1Len(tier), "l1_alphabet": l1Kinds(tier),
				"reorg_history_length": 3, "reorg_alphabets": map[string]any{"bridge": bridgeReorgKinds, "l1info": l1ReorgKinds(tier)},
				"reorg_max_continuation": map[string]int{"quick": 1, "thorough": 2}[tier], "synth_counts": len(synthCounts())}
		},
	})
}
