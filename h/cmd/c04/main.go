// C04 — a reorg leaves the node exactly as if the dropped blocks had never been seen.
//
// SUT: the three real stores behind their real facades (storekit). For every history over the
// store's block-kind alphabet, every reorg point (first block … above the tip), optional restart,
// every continuation on the new fork, and a second (nested / repeated) reorg inside the
// continuation, node A (history, reorg, continuation) is compared with a FRESH node B that only
// ever saw the surviving blocks: the complete observation through every exported query method
// must be identical, and the tree roots must equal the reference roots.
package main

import (
	"fmt"
	"strings"

	"verif/h/kit"
	"verif/h/mc"
	"verif/h/ref"
	sk "verif/h/storekit"
)

type params struct {
	Store     sk.Kind
	History   []string
	MaxCont   int      // continuation length 0..MaxCont
	ContKinds []string // alphabet of continuation blocks
	Restart   bool     // explore a restart between reorg and continuation
	Nested    bool     // explore a second reorg inside / at / above the continuation
	AfterFull bool     // block after the second reorg: full alphabet (else: none or the continuation's kind)
	Reader    bool     // explore a concurrent reader holding a pooled connection while the first reorg runs
	NestedMax int      // a second reorg is explored only for continuations of at most this length (0: any)
	// Sparse: the syncer skipped blocks without events — the stored blocks are numbered 2, 4, 6, ... and the reorg points
	// include the numbers in between, which have no row in the store's block table
	Sparse bool
}

var bCache = map[string][]sk.Obs{}

// reduced alphabets for the longest histories (tree-relevant and deletion-relevant kinds)
var reduced = map[sk.Kind][]string{
	sk.Bridge: {"empty", "bridge", "bridge2", "migrate", "rmlegacy", "same"},
	sk.L1Info: {"empty", "info", "info2", "verify", "v2"},
	sk.GER:    {"empty", "insert", "remove", "insertinfo", "again"},
}

func units(tier string) []mc.Unit {
	var us []mc.Unit
	for _, store := range sk.Kinds {
		full := sk.BlockKinds[store]
		add := func(maxN int, al []string, mk func(h []string) *params) {
			var rec func(h []string)
			rec = func(h []string) {
				if len(h) > 0 {
					if p := mk(h); p != nil {
						p.Store, p.History = store, append([]string{}, h...)
						name := fmt.Sprintf("%s:%s", store, strings.Join(h, ","))
						if p.Sparse {
							name += "/sparse"
						}
						us = append(us, mc.Unit{Name: name, Params: *p})
					}
				}
				if len(h) == maxN {
					return
				}
				for _, k := range al {
					rec(append(h, k))
				}
			}
			rec(nil)
		}
		sparse := func(maxN int, al []string, mk func(h []string) *params) {
			add(maxN, al, func(h []string) *params {
				p := mk(h)
				if p != nil {
					p.Sparse = true
				}
				return p
			})
		}
		if store == sk.GER { // cheap store: deeper histories
			n := 3
			if tier == "thorough" {
				n = 5
			}
			add(n, full, func(h []string) *params {
				if len(h) == 5 { // 5-block histories: without "insertinfo" (the other insertion event; same row, same tree of choices)
					for _, k := range h {
						if k == "insertinfo" {
							return nil
						}
					}
				}
				if tier == "thorough" {
					return &params{MaxCont: 1 + b2i(len(h) <= 3), ContKinds: full, Restart: true, Nested: len(h) <= 3, AfterFull: len(h) <= 2, Reader: len(h) <= 3}
				}
				return &params{MaxCont: 1, ContKinds: full, Restart: true, Nested: len(h) <= 2, AfterFull: true, Reader: len(h) <= 2}
			})
			sparse(n-1, full, func(h []string) *params { return &params{MaxCont: 1, ContKinds: full, Restart: true} })
			continue
		}
		if tier == "quick" {
			add(2, full, func(h []string) *params {
				if len(h) == 1 {
					return &params{MaxCont: 2, ContKinds: full, Restart: true, Nested: true, NestedMax: 1, Reader: true}
				}
				return &params{MaxCont: 1, ContKinds: full, Restart: true}
			})
			sparse(2, reduced[store], func(h []string) *params { return &params{MaxCont: 1, ContKinds: reduced[store], Sparse: true} })
			add(3, reduced[store], func(h []string) *params {
				if len(h) < 3 {
					return nil
				}
				return &params{MaxCont: 1, ContKinds: full[2:3]}
			})
		} else {
			add(3, full, func(h []string) *params {
				switch len(h) {
				case 1:
					return &params{MaxCont: 2, ContKinds: reduced[store], Restart: true, Nested: true, AfterFull: true, Reader: true}
				case 2:
					return &params{MaxCont: 2, ContKinds: reduced[store], Restart: true, Nested: true, Reader: true}
				}
				return &params{MaxCont: 1, ContKinds: full, Restart: true}
			})
			add(4, reduced[store], func(h []string) *params {
				if len(h) < 4 {
					return nil
				}
				return &params{MaxCont: 1, ContKinds: reduced[store]}
			})
			sparse(3, reduced[store], func(h []string) *params {
				return &params{MaxCont: 1, ContKinds: reduced[store], Sparse: true, Restart: len(h) <= 2}
			})
		}
	}
	if tier != "thorough" {
		return us
	}
	// the one- and two-block histories of the bridge and L1 info stores carry the two-block continuations, the nested
	// reorgs and the reader: their choice trees are cut into slices so that no worker is left alone with one of them
	var out []mc.Unit
	for _, u := range us {
		p := u.Params.(params)
		switch {
		case p.Store != sk.GER && p.Nested && len(p.History) == 1:
			out = append(out, mc.Sliced(u, 12)...) //nolint:mnd
		case p.Store != sk.GER && p.Nested && len(p.History) == 2:
			out = append(out, mc.Sliced(u, 3)...) //nolint:mnd
		default:
			out = append(out, u)
		}
	}
	return out
}

func b2i(b bool) int {
	if b {
		return 1
	}
	return 0
}

func feed(c *mc.Ctx, n *sk.Node, chain *sk.Chain, kind string, salt int, who string, step uint64) bool {
	blk := chain.NextAt(chain.Tip()+step, kind, salt)
	if err := n.Process(blk); err != nil {
		c.Failf(fmt.Sprintf("%s/ProcessBlock/error-on-valid-block", n.Kind), "%s: ProcessBlock(%d kind %s salt %d) failed: %v", who, blk.Num, kind, salt, err)
		return false
	}
	return true
}

func run(c *mc.Ctx, u mc.Unit) {
	p := u.Params.(params)
	dir := sk.ScratchDir()
	defer kit.RemoveScratch(dir)
	a := sk.Open(p.Store, dir)
	defer a.Close()
	chain := sk.NewChain(p.Store)
	al := p.ContKinds
	step := uint64(1)
	if p.Sparse {
		step = 2
	}
	for _, k := range p.History {
		if !feed(c, a, chain, k, 0, "A", step) {
			return
		}
	}
	n := len(p.History) * int(step)
	removalNotUndone := false
	reorg := func(b uint64) bool {
		if chain.RemovalInDroppedTargetsKept(b) {
			removalNotUndone = true
		}
		if err := a.Reorg(b); err != nil {
			c.Failf(fmt.Sprintf("%s/Reorg/error", p.Store), "Reorg(%d) failed: %v", b, err)
			return false
		}
		if chain.Truncate(b) > 0 {
			c.Witness("reorg_dropped_blocks")
		} else {
			c.Witness("reorg_dropped_nothing")
		}
		return true
	}
	leavesBefore := len(chain.Leaves())
	// the node has been serving queries: every exported query is answered on these objects before the reorg (answers a
	// facade or a tree keeps in memory must not outlive the blocks they came from)
	a.Observe(chain)
	b := uint64(1 + c.Choose(n+2, "reorg-point"))
	release := func() {}
	if p.Reader && c.Bool("reader-holds-a-connection-during-the-reorg") {
		release = a.HoldReader()
		c.Witness("reorg_on_a_second_pooled_connection")
	}
	ok1 := reorg(b)
	release()
	if !ok1 {
		return
	}
	if p.Restart && c.Bool("restart-after-reorg") {
		a.Restart()
		c.Witness("restart")
	}
	if p.Store == sk.Bridge && len(chain.Leaves()) < leavesBefore && c.Bool("new-fork-block-continues-the-deposit-count-of-the-dropped-fork") {
		// A node that only ever saw the surviving blocks refuses a deposit whose count is where the DROPPED fork stood
		// (it is not the next index of its tree); a node that saw the dropped fork must refuse it as well.
		blk := chain.BlockWithDepositCount(chain.Tip()+1, uint32(leavesBefore))
		err := a.Process(blk)
		c.Witness("blocks_continuing_the_dropped_fork_offered")
		c.NonTrivial()
		lpb, _ := a.W.GetLastProcessedBlock(nil)
		c.Obs("history=%v reorg@%d: block %d with deposit count %d (tree has %d leaves) -> %v, last processed %d", p.History, b, blk.Num, leavesBefore, len(chain.Leaves()), err, lpb)
		if err == nil || lpb != chain.Tip() {
			c.Failf("bridge/ProcessBlock/accepts-a-deposit-count-that-only-follows-the-dropped-fork", "history %v, reorg at %d (choices %v): the exit tree has %d leaves after the reorg, "+
				"a block with deposit count %d (the next index of the dropped fork) was answered with err=%v and the last processed block is %d (tip of the surviving chain: %d); "+
				"a node that never saw the dropped blocks refuses it", p.History, b, c.Choices, len(chain.Leaves()), leavesBefore, err, lpb, chain.Tip())
		}
		return
	}
	contLen := c.Choose(p.MaxCont+1, "continuation-length")
	lastKind := ""
	for i := 0; i < contLen; i++ {
		lastKind = al[c.Choose(len(al), "continuation-kind")]
		if !feed(c, a, chain, lastKind, 1, "A", step) {
			return
		}
	}
	if p.Nested && contLen > 0 && (p.NestedMax == 0 || contLen <= p.NestedMax) && c.Bool("second-reorg") {
		// nested (inside the continuation), repeated (same point) or above the tip
		lo := b
		if lo > chain.Tip()+1 {
			lo = chain.Tip() + 1
		}
		span := int(chain.Tip() + 1 - lo + 1)
		b2 := lo + uint64(c.Choose(span, "second-reorg-point"))
		if !reorg(b2) {
			return
		}
		c.Witness("second_reorg")
		if c.Bool("block-after-second-reorg") {
			k := lastKind
			if p.AfterFull {
				k = al[c.Choose(len(al), "continuation-kind")]
			}
			if !feed(c, a, chain, k, 2, "A", step) {
				return
			}
		}
	}
	// node B: a fresh node that only ever saw the surviving chain (its observation is a pure
	// function of that chain, so it is computed once per distinct surviving chain per process)
	sig := chain.Signature()
	ob, ok := bCache[sig]
	if !ok {
		bnode := sk.Open(p.Store, dir)
		for _, rb := range chain.Blocks {
			if err := bnode.Process(rb.Block); err != nil {
				c.Failf(fmt.Sprintf("%s/ProcessBlock/error-on-valid-block", p.Store), "B: ProcessBlock(%d kind %s) failed: %v", rb.Num, rb.Kind, err)
				bnode.Close()
				return
			}
		}
		ob = bnode.Observe(chain)
		bnode.Close()
		if len(bCache) > 3000 {
			bCache = map[string][]sk.Obs{}
		}
		bCache[sig] = ob
	}
	oa := a.Observe(chain)
	for _, bad := range a.ObserveDropped(chain) {
		c.Failf(fmt.Sprintf("%s/%s/root-of-dropped-fork-still-known", p.Store, sk.MethodOf(bad.Call)), "history %v reorg at %d: %s = %s",
			p.History, b, bad.Call, bad.Res)
	}
	var hist []string
	for _, rb := range chain.Blocks {
		hist = append(hist, fmt.Sprintf("%d:%s/%d", rb.Num, rb.Kind, rb.Salt))
	}
	c.Obs("history=%v reorg@%d surviving=%v obsA=%s", p.History, b, hist, sk.Digest(oa))
	c.NonTrivial()
	// differential oracle, reported per diverging query method
	seen := map[string]bool{}
	for i := 0; i < len(oa) && i < len(ob); i++ {
		if oa[i].Call != ob[i].Call {
			c.Failf(fmt.Sprintf("%s/observation-shape-differs", p.Store), "A asks %s, B asks %s", oa[i].Call, ob[i].Call)
			break
		}
		if oa[i].Res == ob[i].Res {
			continue
		}
		m := sk.MethodOf(oa[i].Call)
		if seen[m] {
			continue
		}
		seen[m] = true
		key := fmt.Sprintf("%s/%s/differs-from-node-that-never-saw-dropped-blocks", p.Store, m)
		if removalNotUndone && ((p.Store == sk.Bridge && m == "GetLegacyTokenMigrations") ||
			(p.Store == sk.GER && m == "GetFirstGERAfterL1InfoTreeIndex")) {
			key = fmt.Sprintf("%s/%s/removal-in-dropped-block-not-undone", p.Store, m)
		}
		c.Failf(key, "history %v, reorg at %d (choices %v), surviving %v: %s\n   node A: %.300s\n   fresh B: %.300s",
			p.History, b, c.Choices, hist, oa[i].Call, oa[i].Res, ob[i].Res)
	}
	if len(oa) != len(ob) {
		c.Failf(fmt.Sprintf("%s/observation-shape-differs", p.Store), "A has %d lines, B %d", len(oa), len(ob))
	}
	// absolute oracle for what the reference defines: last processed block and tree roots
	absolute(c, p, a, chain)
	for m := range sk.SkippedMethods {
		c.Witness("facade_method_not_observed/" + m)
	}
}

func absolute(c *mc.Ctx, p params, a *sk.Node, chain *sk.Chain) {
	lpb, err := a.W.GetLastProcessedBlock(nil)
	if err != nil || lpb != chain.Tip() {
		c.Failf(fmt.Sprintf("%s/GetLastProcessedBlock/not-reference", p.Store), "got %d,%v want %d", lpb, err, chain.Tip())
	}
	roots := ref.AppendRoots(chain.Leaves())
	for i, want := range roots {
		switch p.Store {
		case sk.Bridge:
			r, err := a.B.GetExitRootByIndex(nil, uint32(i))
			if err != nil || r.Hash != want {
				c.Failf("bridge/GetExitRootByIndex/not-reference-root", "index %d: got %s,%v want %s", i, r.Hash.Hex(), err, want.Hex())
			}
		case sk.L1Info:
			r, err := a.L.GetL1InfoTreeRootByIndex(nil, uint32(i))
			if err != nil || r.Hash != want {
				c.Failf("l1info/GetL1InfoTreeRootByIndex/not-reference-root", "index %d: got %s,%v want %s", i, r.Hash.Hex(), err, want.Hex())
			}
		}
	}
}

func main() {
	mc.Main(mc.Spec{
		ID: "C04", Level: "exploration",
		Units: units,
		Batch: func(tier string) int {
			if tier == "thorough" {
				return 6
			}
			return 24
		},
		MaxEvalsPerProcess: 1200, // every store construction leaks ~3 descriptors (RunMigrations keeps a handle)
		Run:                run,
		Setup:              func(string) { kit.Quiet() },
		Rule: "unit = (store, block-kind history); choice points: reorg point 1..N+2, restart, continuation length and kinds, " +
			"second reorg (point inside/at/above the continuation) and a block after it; every combination explored (unbounded DFS). " +
			"non-trivial = every execution (each ends in a full differential observation); distinct = distinct (unit, choices, observation)",
		Assumptions: []string{
			"proof requests are made for roots of the current history only: the tree keeps inner nodes of dropped forks, so a proof for a dropped root differs between A and B although that root is recorded nowhere (root lookups by dropped roots ARE compared and must be not-found on both)",
			"block contents are generated deterministically from a kind alphabet (storekit); field values cycle through boundary pools",
			"SQLite (modernc) is trusted",
		},
		Bounds: func(tier string) map[string]any {
			if tier == "thorough" {
				return map[string]any{"alphabets": sk.BlockKinds, "reduced_alphabets_for_4_block_histories": reduced,
					"bridge_l1info": "histories <=3 blocks over the full alphabet (1 block: continuation <=2, restart, nested reorg with any block after it; 2 blocks: continuation <=2, restart, nested; 3 blocks: continuation <=1, restart) + all 4-block histories over the reduced alphabet with continuation <=1",
					"ger":           "histories <=5 blocks, continuation <=1 (<=2 for histories <=3), restart, nested reorg for histories <=3", "reorg_points": "1..N+2",
					"sparse": "histories <=3 blocks (reduced alphabet; GER: <=4, full) stored at block numbers 2,4,..: reorg points 1..2N+2 include numbers without a row in the block table; continuation <=1, restart"}
			}
			return map[string]any{"alphabets": sk.BlockKinds,
				"reduced_alphabets_for_3_block_histories": reduced,
				"bridge_l1info": "histories <=2 blocks over the full alphabet (1 block: continuation <=2, restart, nested reorg after 1-block continuations; 2 blocks: continuation <=1, restart) + all 3-block histories over the reduced alphabet with continuation none or one two-leaf block",
				"ger":           "histories <=3 blocks, continuation <=1, restart, nested reorg for histories <=2", "reorg_points": "1..N+2",
				"sparse": "histories <=2 blocks (reduced alphabet; GER: full) stored at block numbers 2,4,..: reorg points 1..2N+2 include numbers without a row in the block table; continuation <=1"}
		},
	})
}
