// C18 — each epoch is announced exactly once, at the first block past the threshold.
//
// SUT: the real aggsender.NewEpochNotifierPerBlock + Start (its real goroutine loop), a fake block
// notifier whose unbuffered channel the harness feeds, and a recording synchronous subscriber.
// Space: epoch length × starting block × percentage × ALL strictly increasing block sequences in
// (start, start+3·len] (every subset, by a choice point per block), with optional no-op noise
// (repeated / older / pre-start blocks, and the starting block itself). Oracle: integer reference.
package main

import (
	"context"
	"fmt"
	"testing/synctest"

	"github.com/agglayer/aggkit/aggsender"
	"github.com/agglayer/aggkit/aggsender/types"
	"verif/h/kit"
	"verif/h/mc"
)

type params struct {
	Len   uint64
	Start uint64
	Pct   uint
	Noise bool
	// Sweep: long epochs (threshold arithmetic). Instead of every subset of blocks, every epoch gets one of
	// five arrival patterns around the first qualifying block T of the epoch (choice point per epoch).
	Sweep  bool
	Epochs int
	// Status: between two deliveries the harness may call GetEpochStatus() (as AggSender does from its own goroutine)
	// while the block notifier's current block is already AHEAD of the delivered events (the real polling notifier
	// updates its current block before it publishes). Explored with a deviation bound (skips + queries).
	Status bool
	// Hub: the notifier publishes through the REAL default hub (aggsender.GenericSubscriberImpl) and the harness is a
	// subscriber that is busy (does not read its channel) during a window of blocks, then reads everything pending.
	// Every announced epoch must still arrive exactly once (the order of delivery is the hub's business and not judged).
	Hub bool
	// Burst: a window of consecutive blocks reaches the notifier as a burst — their events are all pending on the block
	// channel (one sender goroutine each, queued in block order, as the block notifier's hub does) before the notifier
	// reads: either before it is started, or while it is held inside Publish by a slow subscriber.
	Burst bool
}

type fakeBlocks struct {
	ch  chan types.EventNewBlock
	cur uint64
}

func (f *fakeBlocks) Subscribe(string) <-chan types.EventNewBlock { return f.ch }
func (f *fakeBlocks) GetCurrentBlockNumber() uint64               { return f.cur }
func (f *fakeBlocks) String() string                              { return "fake" }

type ev struct {
	Epoch   uint64
	AtBlock uint64
	Pending int
}

type recorder struct {
	fb     *fakeBlocks
	events []ev
	hold   chan struct{} // non-nil: Publish blocks until it is closed (a slow synchronous subscriber)
	p      params
	burst  bool
}

func (r *recorder) Subscribe(string) <-chan types.EpochEvent { return make(chan types.EpochEvent) }
func (r *recorder) Publish(e types.EpochEvent) {
	p := -1
	if x, ok := e.ExtraInfo.(*aggsender.ExtraInfoEventEpoch); ok && x != nil {
		p = x.PendingBlocks
	}
	at := r.fb.cur
	if r.burst && p >= 0 {
		at = epochStart(r.p, e.Epoch+1) - uint64(p) // the block the event was published at, from its own "pending blocks" field
	}
	r.events = append(r.events, ev{e.Epoch, at, p})
	if h := r.hold; h != nil {
		<-h
	}
}

func units(tier string) []mc.Unit {
	maxLen := uint64(4)
	if tier == "thorough" {
		maxLen = 5
	}
	var us []mc.Unit
	for l := uint64(1); l <= maxLen; l++ {
		for _, s := range []uint64{0, 1, 5} {
			for pct := uint(0); pct < 100; pct++ {
				for _, noise := range []bool{false, true} {
					if noise && l > 3 && tier != "thorough" {
						continue
					}
					if noise && l > 4 {
						continue
					}
					p := params{Len: l, Start: s, Pct: pct, Noise: noise}
					us = append(us, mc.Unit{Name: fmt.Sprintf("len=%d,start=%d,pct=%d,noise=%v", l, s, pct, noise), Params: p})
				}
			}
		}
	}
	// status queries interleaved with deliveries
	for l := uint64(2); l <= 4; l++ {
		for _, s := range []uint64{0, 5} {
			for pct := uint(0); pct < 100; pct++ {
				if tier == "quick" && pct%5 != 0 && pct != 99 {
					continue
				}
				us = append(us, mc.Unit{Name: fmt.Sprintf("status:len=%d,start=%d,pct=%d", l, s, pct), Params: params{Len: l, Start: s, Pct: pct, Status: true}})
			}
		}
	}
	// bursts of block events
	for l := uint64(1); l <= 4; l++ {
		for _, s := range []uint64{0, 5} {
			for _, pct := range []uint{0, 25, 50, 75, 90, 99} {
				us = append(us, mc.Unit{Name: fmt.Sprintf("burst:len=%d,start=%d,pct=%d", l, s, pct), Params: params{Len: l, Start: s, Pct: pct, Burst: true}})
			}
		}
	}
	// the real hub with a subscriber that is busy for a while
	for l := uint64(1); l <= 4; l++ {
		for _, s := range []uint64{0, 5} {
			for _, pct := range []uint{0, 25, 50, 75, 99} {
				us = append(us, mc.Unit{Name: fmt.Sprintf("hub:len=%d,start=%d,pct=%d", l, s, pct), Params: params{Len: l, Start: s, Pct: pct, Hub: true}})
			}
		}
	}
	// threshold-arithmetic sweep over long epochs: every length in a contiguous range plus common large ones,
	// every percentage, patterns of arrivals around the exact threshold block
	lens, epochs := []uint64{}, 2
	top := uint64(60)
	if tier == "thorough" {
		top, epochs = 256, 3
	}
	for l := maxLen + 1; l <= top; l++ {
		lens = append(lens, l)
	}
	lens = append(lens, 100, 128, 300, 360, 720, 1000, 7200)
	for _, l := range lens {
		if l <= top && l > maxLen && (l == 100 || l == 128) {
			continue
		}
		for pct := uint(0); pct < 100; pct++ {
			p := params{Len: l, Start: 7, Pct: pct, Sweep: true, Epochs: epochs}
			us = append(us, mc.Unit{Name: fmt.Sprintf("sweep:len=%d,start=7,pct=%d", l, pct), Params: p})
		}
	}
	return us
}

// firstQualifying is the offset (within an epoch) of the first block that qualifies.
func firstQualifying(p params) uint64 {
	for off := uint64(0); off < p.Len; off++ {
		if qualifies(p, p.Start+off+p.Len) { // any epoch: qualification depends on the offset only
			return off
		}
	}
	return p.Len - 1
}

// sweepBlocks: the blocks fed in sweep mode, chosen per epoch.
func sweepBlocks(c *mc.Ctx, p params) []uint64 {
	t := firstQualifying(p)
	var out []uint64
	for e := 0; e < p.Epochs; e++ {
		base := p.Start + uint64(e)*p.Len
		add := func(off uint64) {
			if b := base + off; off < p.Len && b > p.Start && (len(out) == 0 || out[len(out)-1] < b) {
				out = append(out, b)
			}
		}
		switch c.Choose(5, "epoch-arrival-pattern") {
		case 0: // every block of the epoch
			for off := uint64(0); off < p.Len; off++ {
				add(off)
			}
		case 1: // exactly the threshold block
			add(t)
		case 2: // the block before and the block after the threshold block
			if t > 0 {
				add(t - 1)
			}
			add(t + 1)
		case 3: // only the block before the threshold (the epoch is never announced, unless t = 0)
			if t > 0 {
				add(t - 1)
			}
		case 4: // no block of this epoch
		}
	}
	return out
}

// reference: integer arithmetic on the property's own terms.
func epochOf(p params, b uint64) uint64    { return 1 + (b-p.Start)/p.Len }
func epochStart(p params, e uint64) uint64 { return p.Start + (e-1)*p.Len }
func qualifies(p params, b uint64) bool {
	elapsed := b - epochStart(p, epochOf(p, b))
	return elapsed*100 >= uint64(p.Pct)*p.Len || elapsed >= p.Len-1
}

// run executes inside a synctest bubble: after every fed block the harness waits until the
// notifier goroutine is durably blocked in its select again, so "the block at which an event was
// published" is observed exactly, without feeding any extra message.
func run(c *mc.Ctx, u mc.Unit) { synctest.Run(func() { runInBubble(c, u) }) }

func runInBubble(c *mc.Ctx, u mc.Unit) {
	p := u.Params.(params)
	fb := &fakeBlocks{ch: make(chan types.EventNewBlock), cur: p.Start}
	rec := &recorder{fb: fb}
	var sub types.GenericSubscriber[types.EpochEvent] = rec
	var hubCh, hubCh2 <-chan types.EpochEvent
	second := 0
	var subscribeSecond func()
	var joiner interface {
		Subscribe(string) <-chan types.EpochEvent
	}
	if p.Hub {
		hub := aggsender.NewGenericSubscriberImpl[types.EpochEvent]()
		hubCh = hub.Subscribe("verif")
		// a second consumer of the same hub (it reads at once): under another name, or under the same name (two
		// components of the same kind attached to one publisher)
		if second = c.Choose(3, "second-subscriber"); second > 0 { //nolint:mnd
			c.Witness(fmt.Sprintf("hub_executions_with_a_second_subscriber/%s", map[int]string{1: "other-name", 2: "same-name"}[second]))
		}
		subscribeSecond = func() {
			// through the notifier itself when it offers Subscribe (as the aggsender components do), else through the hub
			name := map[int]string{1: "verif-2", 2: "verif"}[second]
			if joiner != nil {
				hubCh2 = joiner.Subscribe(name)
			} else {
				hubCh2 = hub.Subscribe(name)
			}
		}
		sub = hub
	}
	n, err := aggsender.NewEpochNotifierPerBlock(fb, kit.Logger(),
		aggsender.ConfigEpochNotifierPerBlock{StartingEpochBlock: p.Start, NumBlockPerEpoch: uint(p.Len),
			EpochNotificationPercentage: p.Pct}, sub)
	if err != nil {
		c.Failf("constructor", "NewEpochNotifierPerBlock: %v", err)
		return
	}
	if j, ok := any(n).(interface {
		Subscribe(string) <-chan types.EpochEvent
	}); ok {
		joiner = j
	}
	ctx, cancel := context.WithCancel(context.Background())
	done := make(chan struct{})
	if p.Burst {
		rec.burst, rec.p = true, p
		runBurst(c, p, fb, rec, func() { go func() { n.Start(ctx); close(done) }() }, func() { cancel(); <-done })
		return
	}
	go func() { n.Start(ctx); close(done) }()
	feed := func(b uint64) {
		fb.cur = b
		fb.ch <- types.EventNewBlock{BlockNumber: b}
		synctest.Wait()
	}
	var fed []uint64
	var want []ev
	lastEpochAnnounced := uint64(0)
	if p.Noise {
		feed(p.Start) // the starting block itself: declared already seen, must produce nothing
		if p.Start > 0 {
			feed(p.Start - 1) // before the first epoch
		}
	}
	var candidates []uint64
	if p.Sweep {
		candidates = sweepBlocks(c, p)
	} else {
		for b := p.Start + 1; b <= p.Start+3*p.Len; b++ {
			candidates = append(candidates, b)
		}
	}
	joinAt := 0 // the second subscriber joins before the block with this index (0: before the first block)
	if second > 0 {
		joinAt = c.Choose(len(candidates)+1, "second-subscriber-joins-before-block")
		if joinAt > 0 {
			c.Witness("hub_executions_with_a_late_second_subscriber")
		}
	}
	busyFrom, busyLen := -1, 0
	var hubGot, hubGot2 []uint64
	drainFrom := func(ch <-chan types.EpochEvent, into *[]uint64) {
		for ch != nil {
			select {
			case e := <-ch:
				*into = append(*into, e.Epoch)
				synctest.Wait()
			default:
				return
			}
		}
	}
	drain := func() { drainFrom(hubCh, &hubGot) }
	if p.Hub {
		busyFrom = c.Choose(len(candidates)+1, "subscriber-busy-from-block") - 1 // -1: never busy
		if busyFrom >= 0 {
			busyLen = 1 + c.Choose(len(candidates)-busyFrom, "subscriber-busy-for-blocks")
		}
	}
	var want2 []ev // what the second subscriber must get: the epochs announced after it joined
	for i, b := range candidates {
		if p.Hub && second > 0 && i == joinAt {
			subscribeSecond()
			synctest.Wait()
		}
		if p.Hub {
			feed(b)
			fed = append(fed, b)
			c.Transition(1)
			if e := epochOf(p, b); qualifies(p, b) && e > lastEpochAnnounced {
				want = append(want, ev{e, b, int(epochStart(p, e+1) - b)})
				if second > 0 && i >= joinAt {
					want2 = append(want2, ev{e, b, int(epochStart(p, e+1) - b)})
				}
				lastEpochAnnounced = e
			}
			drainFrom(hubCh2, &hubGot2)
			if busyFrom < 0 || i < busyFrom || i >= busyFrom+busyLen {
				drain()
			} else {
				c.Witness("blocks_delivered_while_the_subscriber_is_busy")
			}
			continue
		}
		if !p.Sweep && c.Bool("skip-block") {
			continue
		}
		if p.Status {
			// the block notifier has already polled this block / the newest block; its event is still queued
			if q := c.Choose(3, "epoch-status-query-before-delivery"); q > 0 {
				fb.cur = b
				if q == 2 {
					fb.cur = candidates[len(candidates)-1]
				}
				_ = n.GetEpochStatus()
				c.Witness("status_queries_ahead_of_the_delivered_block")
				if i > 0 && epochOf(p, fb.cur) > epochOf(p, b) {
					c.Witness("status_queries_in_a_later_epoch_than_the_next_delivered_block")
				}
			}
		}
		feed(b)
		fed = append(fed, b)
		c.Transition(1)
		e := epochOf(p, b)
		if qualifies(p, b) && e > lastEpochAnnounced {
			want = append(want, ev{e, b, int(epochStart(p, e+1) - b)})
			lastEpochAnnounced = e
		}
		c.State(fmt.Sprintf("last=%d announced=%d", b, lastEpochAnnounced))
		if p.Noise {
			feed(b) // repeated
			if b > p.Start+1 {
				feed(b - 1) // decreasing
			}
			fb.cur = b
		}
	}
	if p.Hub {
		if second > 0 && joinAt >= len(candidates) {
			subscribeSecond() // it joins after the last block
			synctest.Wait()
		}
		drain()
		drainFrom(hubCh2, &hubGot2)
		cancel()
		<-done
		c.Obs("fed=%v busy=[%d,+%d) received=%v second(%d)=%v", fed, busyFrom, busyLen, hubGot, second, hubGot2)
		c.NonTrivial()
		if second > 0 {
			got2 := map[uint64]int{}
			for _, e := range hubGot2 {
				got2[e]++
			}
			for _, w := range want2 {
				if got2[w.Epoch] != 1 {
					c.Failf("hub/epoch-not-delivered-exactly-once/second-subscriber", "cfg %+v fed %v: epoch %d (announced at block %d) reached the second subscriber (%s) %d times; it received %v, want the epochs of %v",
						p, fed, w.Epoch, w.AtBlock, map[int]string{1: "another name", 2: "the same name as the first"}[second], got2[w.Epoch], hubGot2, want)
					break
				}
			}
			if len(hubGot2) > len(want2) && !c.Failed() {
				c.Failf("hub/extra-notification/second-subscriber", "cfg %+v fed %v: the second subscriber joined before block index %d and received %v, want the epochs of %v", p, fed, joinAt, hubGot2, want2)
			}
		}
		got := map[uint64]int{}
		for _, e := range hubGot {
			got[e]++
		}
		for _, w := range want {
			if got[w.Epoch] != 1 {
				c.Failf("hub/epoch-not-delivered-exactly-once", "cfg %+v fed %v, subscriber busy during blocks [%d,+%d): epoch %d (announced at block %d) reached the subscriber %d times; received %v, want the epochs of %v",
					p, fed, busyFrom, busyLen, w.Epoch, w.AtBlock, got[w.Epoch], hubGot, want)
				break
			}
			delete(got, w.Epoch)
		}
		if len(got) > 0 && !c.Failed() {
			c.Failf("hub/extra-notification", "cfg %+v fed %v: received %v, want the epochs of %v", p, fed, hubGot, want)
		}
		if len(want) >= 2 && busyLen > 0 {
			c.Witness("hub_executions_with_several_epochs_and_a_busy_subscriber")
		}
		return
	}
	cancel()
	<-done
	c.Obs("fed=%v events=%v", fed, rec.events)
	if len(fed) > 0 {
		c.NonTrivial()
	}
	if len(want) > 0 {
		c.Witness("executions_with_notifications")
	}
	if len(fed) > len(want) && len(want) > 0 {
		c.Witness("executions_with_non_notifying_blocks")
	}
	if fmt.Sprint(want) != fmt.Sprint(rec.events) {
		key := "missing-or-extra"
		switch {
		case len(rec.events) > len(want):
			key = "extra-notification"
		case len(rec.events) < len(want):
			key = "missing-notification"
		default:
			key = "wrong-notification"
		}
		c.Failf(key, "cfg %+v fed %v: want (epoch,atBlock,pending) %v, got %v", p, fed, want, rec.events)
	}
	for i := 1; i < len(rec.events); i++ {
		if rec.events[i].Epoch <= rec.events[i-1].Epoch {
			c.Failf("epochs-not-increasing", "cfg %+v fed %v: events %v", p, fed, rec.events)
		}
	}
}

// runBurst: see params.Burst. Every block of three epochs is delivered, in order; the blocks of one window arrive as a burst.
func runBurst(c *mc.Ctx, p params, fb *fakeBlocks, rec *recorder, start func(), stop func()) {
	var blocks []uint64
	for b := p.Start + 1; b <= p.Start+3*p.Len; b++ {
		blocks = append(blocks, b)
	}
	K := len(blocks)
	from := c.Choose(K-1, "burst-from-block")
	m := 2 + c.Choose(K-from-1, "burst-length")
	send := func(b uint64) { // one queued sender per event, in block order
		go func() { fb.ch <- types.EventNewBlock{BlockNumber: b} }()
		synctest.Wait()
	}
	started := false
	if from > 0 {
		start()
		started = true
		synctest.Wait()
	}
	for i := 0; i < K; {
		switch {
		case i == from && !started:
			// the block notifier was up before the epoch notifier: its first events are already waiting
			for _, b := range blocks[i : i+m] {
				send(b)
			}
			start()
			started = true
			synctest.Wait()
			c.Witness("bursts_pending_before_the_notifier_started")
			i += m
		case i+1 == from:
			// the subscriber is slow: if this block is announced the notifier stays inside Publish while the burst queues up
			hold := make(chan struct{})
			rec.hold = hold
			send(blocks[i])
			for _, b := range blocks[from : from+m] {
				send(b)
			}
			rec.hold = nil
			close(hold)
			synctest.Wait()
			c.Witness("bursts_queued_behind_a_block_in_progress")
			i = from + m
		default:
			send(blocks[i])
			i++
		}
		c.Transition(1)
	}
	synctest.Wait()
	stop()
	var want []ev
	last := uint64(0)
	for _, b := range blocks {
		if e := epochOf(p, b); qualifies(p, b) && e > last {
			want = append(want, ev{e, b, int(epochStart(p, e+1) - b)})
			last = e
		}
	}
	c.Obs("burst blocks[%d:%d] of %v events=%v", from, from+m, blocks, rec.events)
	c.NonTrivial()
	if fmt.Sprint(want) != fmt.Sprint(rec.events) {
		key := "burst/wrong-notification"
		if len(rec.events) < len(want) {
			key = "burst/missing-notification"
		} else if len(rec.events) > len(want) {
			key = "burst/extra-notification"
		}
		c.Failf(key, "cfg %+v blocks %v, blocks[%d:%d] delivered as a burst: want (epoch,atBlock,pending) %v, got %v", p, blocks, from, from+m, want, rec.events)
	}
}

func main() {
	mc.Main(mc.Spec{
		ID: "C18", Level: "model_checking",
		Units: units,
		Bound: func(tier string, u mc.Unit) int {
			if u.Params.(params).Status {
				if tier == "thorough" {
					return 3
				}
				return 2
			}
			return -1
		},
		Batch: func(string) int { return 40 },
		Run:   run,
		Setup: func(string) { kit.Quiet() },
		Rule: "unit = (epoch length, starting block, percentage, noise); inside a unit every subset of the blocks in " +
			"(start, start+3*len] is fed in increasing order to the real notifier goroutine (one choice point per block); " +
			"sweep units (long epochs): per epoch one of 5 arrival patterns around the first qualifying block (all blocks / exactly it / its two neighbours / only its predecessor / none); " +
			"status units: every block of 3 epochs is a candidate, choice points per block = skip it / call GetEpochStatus() first while the block notifier already reports this block or the newest block; explored up to 2 (thorough 3) deviations from 'feed everything, no query'; " +
			"burst units: every block of 3 epochs is delivered in order, one window of them (every start, every length >= 2) as a burst of events already pending on the block channel — before the notifier is started, or queued behind a block whose Publish a slow subscriber holds; the notifications must be those of the one-by-one delivery; " +
			"hub units: every block of 3 epochs is fed through the real default hub; the subscriber does not read during a window of blocks (every start and length), then reads everything pending: each announced epoch must arrive exactly once; " +
			"non-trivial = at least one block fed; distinct = distinct (unit, fed sequence, events) observations",
		Assumptions: []string{
			"the starting block itself counts as already seen (the notifier's initial state says so); it is fed as a no-op",
			"the notifier is given a synchronous recording subscriber; the default subscriber's per-event goroutines are not part of this property",
		},
		Bounds: func(tier string) map[string]any {
			if tier == "thorough" {
				return map[string]any{"epoch_len": "1..5", "start": []int{0, 1, 5}, "pct": "0..99", "blocks": "all subsets of 3 epochs", "noise": "len<=4",
					"threshold_sweep": "epoch_len 6..256 and {300,360,720,1000,7200}, start 7, pct 0..99, 5 arrival patterns per epoch around the first qualifying block, 3 epochs",
					"status_queries": "epoch_len 2..4, start {0,5}, pct 0..99, <= 3 deviations (skipped blocks + GetEpochStatus calls ahead of the delivery)"}
			}
			return map[string]any{"epoch_len": "1..4", "start": []int{0, 1, 5}, "pct": "0..99", "blocks": "all subsets of 3 epochs", "noise": "len<=3",
				"threshold_sweep": "epoch_len 5..60 and {100,128,300,360,720,1000,7200}, start 7, pct 0..99, 5 arrival patterns per epoch around the first qualifying block, 2 epochs",
				"status_queries": "epoch_len 2..4, start {0,5}, pct multiples of 5 and 99, <= 2 deviations (skipped blocks + GetEpochStatus calls ahead of the delivery)"}
		},
	})
}
