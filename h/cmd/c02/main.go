// C02 — bridge exits settle exactly once through a gap-free certificate chain.
//
// SUT: the REAL aggsender send-loop iteration (VerifEpochTick / VerifStatusTick), real certificate
// status checker, real PPFlow / AggchainProverFlow over the real base flow and real queriers, real
// AggSenderSQLStorage (SQLite), real L2 bridge store and real L1 info tree store filled through
// ProcessBlock. Environment: the model Agglayer of DESIGN §5.5 (package senderkit), which judges
// every submission, a scripted epoch notifier, a fake aggchain prover whose proof may end early.
// Engine: E-BFS over event histories, one unit per configuration.
package main

import (
	"fmt"
	"os"
	"path/filepath"
	"strconv"

	"verif/h/kit"
	"verif/h/mc"
	"verif/h/senderkit"
	"verif/h/storekit"
)

func units(tier string) []mc.Unit {
	var us []mc.Unit
	for _, retry := range []bool{false, true} {
		for _, flow := range []string{"PP", "FEP"} {
			for h := range senderkit.HistoryNames {
				cfg := senderkit.Cfg{Flow: flow, Retry: retry, Hist: h}
				us = append(us, mc.Unit{Name: cfg.String(), Params: cfg})
			}
		}
	}
	// transient storage faults under MaxRetriesStoreCertificate = 0 ("retry until the submitted certificate is stored"):
	// the node must not go on to the next certificate while the submitted one is missing from its table
	for _, retry := range []bool{false, true} {
		for h := range senderkit.HistoryNames {
			if tier == "quick" && h > 0 {
				continue
			}
			cfg := senderkit.Cfg{Flow: "PP", Retry: retry, Hist: h, Faults: true, StoreRetriesForever: true}
			us = append(us, mc.Unit{Name: cfg.String() + ",storage-faults", Params: cfg})
			// failing reads (any SELECT of a send iteration refused once) with the default bounded store retries
			cfg.StoreRetriesForever = false
			us = append(us, mc.Unit{Name: cfg.String() + ",failing-reads", Params: cfg})
		}
	}
	return us
}

func depth(tier string) int {
	if s := os.Getenv("VERIF_C02_DEPTH"); s != "" {
		if n, err := strconv.Atoi(s); err == nil {
			return n
		}
	}
	if tier == "thorough" {
		return 13
	}
	return 9
}

var baseOpts = senderkit.Opts{RowsMatchAgglayer: true}

// optsFor: the storage-fault units add the one-shot write faults of the send path (at most two per history), nothing else
// of the crash alphabet (that is C13's)
func optsFor(cfg senderkit.Cfg) senderkit.Opts {
	o := baseOpts
	if cfg.Faults {
		o.Crashes, o.StorageFaultsOnly, o.MaxCrashEvents = true, true, 2
		if !cfg.StoreRetriesForever {
			o.ReadFaults = 24 // a send iteration compiles fewer SELECTs than that on all of its stores
		}
	}
	return o
}

func worldDir(u mc.Unit) string {
	return filepath.Join(senderkit.ScratchRoot(), fmt.Sprintf("c02-%d-%s", os.Getpid(), u.Name))
}

func runUnit(r *mc.Report, base *mc.Ctx, u mc.Unit) {
	cfg := u.Params.(senderkit.Cfg)
	opts := optsFor(cfg)
	w := senderkit.NewWorld(cfg.Hist, worldDir(u))
	defer w.Close()
	// determinism self-check: one fixed history twice on fresh objects, same key and same observation
	probe := []string{"L2Block", "EpochTick", "InError", "L2Block", "EpochTick", "Settle", "StatusTick"}
	c1, c2 := &mc.Ctx{UnitName: u.Name}, &mc.Ctx{UnitName: u.Name}
	k1, _ := senderkit.Run(c1, cfg, opts, w, probe)
	k2, _ := senderkit.Run(c2, cfg, opts, w, probe)
	if k1 != k2 || c1.Digest() != c2.Digest() {
		r.Errorf("unit %s: nondeterministic execution of %v", u.Name, probe)
		return
	}
	if opts.ReadFaults > 0 {
		// the statement gate is process-wide state: executions of a unit that uses it run one after the other
		b := *base
		b.Par = 1
		base = &b
	}
	mc.BFS(r, base, mc.BFSModel{MaxDepth: depth(base.Tier), Build: func(c *mc.Ctx, history []string) (string, []string) {
		return senderkit.Run(c, cfg, opts, w, history)
	}})
}

func replay(c *mc.Ctx, u mc.Unit, v mc.Violation) {
	cfg := u.Params.(senderkit.Cfg)
	w := senderkit.NewWorld(cfg.Hist, worldDir(u)+"-replay")
	defer w.Close()
	o := optsFor(cfg)
	o.Verbose = true
	senderkit.Run(c, cfg, o, w, v.History)
}

func main() {
	senderkit.SetDeadlineFromArgs(os.Args)
	mc.Main(mc.Spec{
		ID: "C02", Level: "model_checking",
		Units:   units,
		Batch:   func(string) int { return 1 },
		RunUnit: runUnit,
		Replay:  replay,
		Setup:   func(string) { kit.Quiet(); storekit.InstallStatementGate() },
		Rule: "unit = (RetryCertAfterInError, flow PP|FEP, L2 history); inside a unit ALL sequences of the events {L2Block, EpochTick, StatusTick, " +
			"Advance (one verdict step), Settle (verdict steps up to Settled between two polls), InError, FailNextAgglayerCall, ProverShort (FEP)} " +
			"up to the depth bound are executed on fresh real objects (successor = replay of history+event); states are merged by a canonical key " +
			"(certificate_info and history rows without timestamps and with ids renamed to ordinal@height, the model Agglayer, the L2 position, armed failures); " +
			"non-trivial/distinct = a transition that reached a state not seen before in its unit",
		Assumptions: []string{
			"the model Agglayer follows DESIGN §5.5: it accepts every certificate, ids are keccak of the submitted JSON, a header carries previous LER and metadata; " +
				"a call that takes effect and then loses its answer is not explored",
			"time is the deterministic fake clock of a synctest bubble; every event happens 100 s after the previous one, so two submissions never share a creation second",
			"the L2 bridge store seen by the node after k L2Block events is a real store that processed blocks 1..k through the real ProcessBlock; the node reaches it through a forwarding shim",
			"L1 finality, the L1 info tree (3 leaves), the claim proofs and the start LER (empty tree) are fixed by the hand-built mini-world; the aggchain prover, GER reader, optimistic-mode querier and rollup data are hand-written fakes",
			"nothing is claimed beyond the depth bound (the quantifier's random walks beyond it are sampling and are not done)",
		},
		Bounds: func(tier string) map[string]any {
			return map[string]any{"depth": depth(tier), "configurations": 16, "l2_histories": senderkit.HistoryNames,
				"l2_blocks_per_history": "4-5", "MaxRetriesStoreCertificate": 2}
		},
	})
}
