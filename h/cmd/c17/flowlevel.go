package main

// Flow level: the cut as the two real flows apply it. PPFlow.GetCertificateBuildParams and
// AggchainProverFlow.GetCertificateBuildParams are called with a configured last L2 block (MaxL2BlockNumber) over the same
// layouts; whatever they return must start at the first block, end at most at the limit (exactly at the largest permitted
// block when something is returned), and hold exactly the events of the kept blocks; the aggchain prover must never be
// asked for a proof beyond the limit. Stand-ins: the L1 info querier, the GER querier, the prover (it proves what it is
// asked for and records the request), optimistic mode off.

import (
	"context"
	"fmt"

	agglayertypes "github.com/agglayer/aggkit/agglayer/types"
	"github.com/agglayer/aggkit/aggsender/flows"
	"github.com/agglayer/aggkit/aggsender/types"
	"github.com/agglayer/aggkit/bridgesync"
	"github.com/agglayer/aggkit/l1infotreesync"
	treetypes "github.com/agglayer/aggkit/tree/types"
	"github.com/ethereum/go-ethereum/common"
)

type flL1Info struct{}

func (flL1Info) GetLatestFinalizedL1InfoRoot(context.Context) (*treetypes.Root, *l1infotreesync.L1InfoTreeLeaf, error) {
	return &treetypes.Root{Hash: common.Hash{0x14}, Index: 3}, &l1infotreesync.L1InfoTreeLeaf{L1InfoTreeIndex: 3}, nil
}
func (flL1Info) GetFinalizedL1InfoTreeData(context.Context) (treetypes.Proof, *l1infotreesync.L1InfoTreeLeaf, *treetypes.Root, error) {
	return treetypes.Proof{}, &l1infotreesync.L1InfoTreeLeaf{L1InfoTreeIndex: 3}, &treetypes.Root{Hash: common.Hash{0x14}, Index: 3}, nil
}
func (flL1Info) GetProofForGER(context.Context, common.Hash, common.Hash) (*l1infotreesync.L1InfoTreeLeaf, treetypes.Proof, error) {
	return &l1infotreesync.L1InfoTreeLeaf{L1InfoTreeIndex: 3}, treetypes.Proof{}, nil
}
func (flL1Info) CheckIfClaimsArePartOfFinalizedL1InfoTree(*treetypes.Root, []bridgesync.Claim) error {
	return nil
}

type flGER struct{}

func (flGER) GetInjectedGERsProofs(context.Context, *treetypes.Root, uint64, uint64) (
	map[common.Hash]*agglayertypes.ProvenInsertedGERWithBlockNumber, error) {
	return map[common.Hash]*agglayertypes.ProvenInsertedGERWithBlockNumber{}, nil
}

type flOptimisticOff struct{}

func (flOptimisticOff) IsOptimisticModeOn() (bool, error) { return false, nil }

type flProver struct{ requestedEnd []uint64 }

func (p *flProver) GenerateAggchainProof(_ context.Context, req *types.AggchainProofRequest) (*types.AggchainProof, error) {
	p.requestedEnd = append(p.requestedEnd, req.RequestedEndBlock)
	return &types.AggchainProof{LastProvenBlock: req.LastProvenBlock, EndBlock: req.RequestedEndBlock,
		SP1StarkProof: &types.SP1StarkProof{Version: "verif", Proof: []byte{1}, Vkey: []byte{2}}}, nil
}
func (p *flProver) GenerateOptimisticAggchainProof(*types.AggchainProofRequest, []byte) (*types.AggchainProof, error) {
	return nil, fmt.Errorf("optimistic mode is off")
}

// flStorage adds what the aggchain-prover flow asks the storage.
type flStorage struct{ fakeStorage }

func (s *flStorage) GetLastSentCertificateHeaderWithProofIfInError(context.Context) (*types.CertificateHeader, *types.AggchainProof, error) {
	return s.last, nil, nil
}

// checkFlows: prev is 0 (none) or 1 (settled); no size limit.
func checkFlows(e *exec, l *layout, last *types.CertificateHeader, startL2 uint64, in string) {
	from, to := l.from, l.to
	ctx := context.Background()
	for lim := uint64(0); lim <= to+1; lim++ {
		want := to
		if lim != 0 && lim < to {
			want = lim
		}
		for _, fep := range []bool{false, true} {
			q := &fakeQuerier{l: l, lastProcessed: to}
			st := &flStorage{fakeStorage{last: last}}
			bf := flows.NewBaseFlow(nopLog{}, q, st, flL1Info{}, nil, flows.NewBaseFlowConfig(0, startL2, false))
			var (
				r      *types.CertificateBuildParams
				err    error
				name   = "pp"
				prover = &flProver{}
			)
			if fep {
				name = "fep"
				f := flows.NewAggchainProverFlow(nopLog{}, flows.NewAggchainProverFlowConfig(lim), bf, prover, st, flL1Info{}, q, flGER{}, nil, nil,
					flOptimisticOff{}, nil)
				r, err = f.GetCertificateBuildParams(ctx)
			} else {
				f := flows.NewPPFlow(nopLog{}, bf, st, flL1Info{}, q, nil, false, lim)
				r, err = f.GetCertificateBuildParams(ctx)
			}
			tag := lazy(func() string {
				return fmt.Sprintf("%s flow=%s MaxL2BlockNumber=%d", in, name, lim)
			})
			for _, end := range prover.requestedEnd {
				if lim != 0 && end > lim {
					e.failf("flow/proof-requested-beyond-the-limit", "%s: the aggchain prover was asked for a proof up to block %d", tag, end)
				}
			}
			if r == nil {
				// no certificate (nothing to certify for this flow, or the range lies beyond the limit): nothing was cut
				e.c.Witness("flow_level_no_certificate")
				_ = err
				continue
			}
			e.c.Witness("flow_level_certificates_" + name)
			if r.FromBlock != from {
				e.failf("flow/first-block-changed", "%s: result %d..%d, want first block %d", tag, r.FromBlock, r.ToBlock, from)
				continue
			}
			if r.ToBlock != want {
				key := "flow/not-the-largest-permitted-block"
				if lim != 0 && r.ToBlock > lim {
					key = "flow/certificate-beyond-the-limit"
				}
				e.failf(key, "%s: result %d..%d, want %d..%d", tag, r.FromBlock, r.ToBlock, from, want)
				continue
			}
			if want < to {
				e.c.Witness("flow_level_last_block_cuts")
			}
			wb, wc := l.wantBridges(from, want), l.wantClaims(from, want)
			if !eqBridges(r.Bridges, wb) || !eqClaims(r.Claims, wc) {
				e.failf("flow/events-differ-from-kept-blocks", "%s: result %d..%d holds %s, the kept blocks hold %s", tag, r.FromBlock, r.ToBlock,
					descr(r.Bridges, r.Claims), descr(wb, wc))
			}
		}
	}
}
