package main

import (
	"context"
	"fmt"
	"math"
	"sort"
	"strings"

	agglayertypes "github.com/agglayer/aggkit/agglayer/types"
	"github.com/agglayer/aggkit/aggsender/flows"
	"github.com/agglayer/aggkit/aggsender/types"
	"verif/h/mc"
)

// cutParams: one unit fixes the first block, the number of blocks and the options of the leading
// blocks; the last Free blocks, the previous certificate and the certificate type are choice points.
type cutParams struct {
	Start  uint64
	N      int
	Prefix []int // indices into Alpha
	Free   int
	Alpha  []int // the per-block alphabet of this unit: indices into blockOpts
	Types  int   // how many of certTypes are explored (3: pp, fep, optimistic; 2: pp, fep)
}

// limiter configurations as the real flows build them (flow_pp.go, flow_aggchain_prover.go)
type limCfg struct {
	name                 string
	allowResizeRetry     bool
	requireOneBridgeExit bool
}

var (
	certTypes = []types.CertificateType{types.CertificateTypePP, types.CertificateTypeFEP, types.CertificateTypeOptimistic}
	ppCfgs    = []limCfg{{"pp", true, false}, {"pp-forceOneBridgeExit", true, true}}
	fepCfgs   = []limCfg{{"fep", false, false}}
)

const maxFailsPerExecution = 3

type exec struct {
	c     *mc.Ctx
	fails int
}

func (e *exec) failf(key, format string, args ...any) {
	if e.fails >= maxFailsPerExecution {
		return
	}
	e.fails++
	e.c.Failf(key, format, args...)
}

func runCut(c *mc.Ctx, p cutParams) {
	e := &exec{c: c}
	var opts []int
	for _, a := range p.Prefix {
		opts = append(opts, p.Alpha[a])
	}
	for i := 0; i < p.Free; i++ {
		opts = append(opts, p.Alpha[c.Choose(len(p.Alpha), "block-layout")])
	}
	prev := c.Choose(3, "previous-certificate") // 0 none (StartL2Block), 1 settled, 2 in error (=> retry)
	ct := certTypes[c.Choose(p.Types, "certificate-type")]
	cfgs := ppCfgs
	if ct != types.CertificateTypePP {
		cfgs = fepCfgs
	}

	l := buildLayout(p.Start, opts)
	from, to := l.from, l.to
	in := fmt.Sprintf("%s type=%s prev=%s", l, ct, []string{"none", "settled", "inError"}[prev])

	// --- the size estimate of every prefix, by the real EstimatedSize on harness-built parameters
	size := make([]uint, p.N) // size[i] = EstimatedSize(from .. from+i)
	for i := range size {
		t := from + uint64(i)
		pp := &types.CertificateBuildParams{FromBlock: from, ToBlock: t, Bridges: l.wantBridges(from, t),
			Claims: l.wantClaims(from, t), CertificateType: ct}
		size[i] = pp.EstimatedSize()
		if i > 0 && size[i] < size[i-1] {
			e.failf("estimated-size/not-monotone", "%s: EstimatedSize(%d..%d)=%d < EstimatedSize(%d..%d)=%d",
				in, from, t, size[i], from, t-1, size[i-1])
		}
	}

	// --- Range, directly, for every requested sub-range including the invalid ones around the edges
	if prev == 0 {
		checkRange(e, l, ct, in)
	}

	// --- previous certificate => expected first block / retry marking
	var last *types.CertificateHeader
	startL2 := uint64(0)
	wantRetry := 0
	switch prev {
	case 0:
		startL2 = from - 1
	case 1:
		last = &types.CertificateHeader{Height: 3, FromBlock: from - 1, ToBlock: from - 1, Status: agglayertypes.Settled,
			CertType: ct}
		if from >= 3 {
			last.FromBlock = from - 3
		}
	case 2:
		// the failed certificate started at the same block and ended anywhere up to what is synced now (the chain
		// may have grown since it was built)
		failedTo := from + uint64(c.Choose(int(to-from)+1, "last-block-of-the-failed-certificate"))
		last = &types.CertificateHeader{Height: 3, FromBlock: from, ToBlock: failedTo, Status: agglayertypes.InError,
			RetryCount: 1, CertType: ct}
		wantRetry = 2
	}

	// --- every MaxCertSize at and around every threshold, 0 (= no limit), tiny and huge
	limits := []uint{0, 1, math.MaxUint}
	for _, s := range size {
		limits = append(limits, s-1, s, s+1)
	}
	sort.Slice(limits, func(i, j int) bool { return limits[i] < limits[j] })
	limits = dedupe(limits)

	var obs strings.Builder
	evals := 0
	sizeCut, sizeExceeded, limCut, limRefused, limUnchanged := false, false, false, false, false
	limiterDone := map[uint64]bool{}
	for _, max := range limits {
		evals++
		// oracle: the largest t with size(from..t) <= max; the single first block if there is none
		wantT := to
		if max != 0 {
			wantT = from
			for i := p.N - 1; i >= 0; i-- {
				if size[i] <= max {
					wantT = from + uint64(i)
					break
				}
			}
		}
		q := &fakeQuerier{l: l, lastProcessed: to}
		st := &fakeStorage{last: last}
		bf := flows.NewBaseFlow(nopLog{}, q, st, nil, nil, flows.NewBaseFlowConfig(max, startL2, false))
		r, err := bf.GetCertificateBuildParamsInternal(context.Background(), ct)
		tag := lazy(func() string { return fmt.Sprintf("%s MaxCertSize=%d (prefix sizes %v)", in, max, size) })
		if err != nil || r == nil {
			e.failf("size-cut/unexpected-error", "%s: GetCertificateBuildParamsInternal returned (%v, %v), want blocks %d..%d",
				tag, r, err, from, wantT)
			continue
		}
		if len(q.calls) != 1 || q.calls[0] != [2]uint64{from, to} {
			e.failf("size-cut/wrong-query", "%s: the syncer was asked for %v, want exactly [%d %d]", tag, q.calls, from, to)
		}
		fmt.Fprintf(&obs, "s%d:%d-%d ", max, r.FromBlock, r.ToBlock)
		ok := true
		if r.FromBlock != from {
			e.failf("size-cut/first-block-changed", "%s: result starts at %d, want %d (result %d..%d)", tag, r.FromBlock, from,
				r.FromBlock, r.ToBlock)
			ok = false
		}
		if r.ToBlock != wantT {
			ok = false
			switch {
			case r.ToBlock < from || r.ToBlock > to:
				e.failf("size-cut/last-block-outside-range", "%s: result %d..%d", tag, r.FromBlock, r.ToBlock)
			case max != 0 && size[r.ToBlock-from] > max && r.ToBlock > from:
				e.failf("size-cut/exceeds-limit-with-several-blocks", "%s: result %d..%d has estimated size %d > %d, want %d..%d",
					tag, r.FromBlock, r.ToBlock, size[r.ToBlock-from], max, from, wantT)
			default:
				e.failf("size-cut/not-the-largest-permitted-block", "%s: result %d..%d, want %d..%d", tag, r.FromBlock, r.ToBlock,
					from, wantT)
			}
		}
		// events: exactly those of the blocks the result says it covers, in the original order
		if r.FromBlock >= from && r.ToBlock <= to && r.FromBlock <= r.ToBlock {
			wb, wc := l.wantBridges(r.FromBlock, r.ToBlock), l.wantClaims(r.FromBlock, r.ToBlock)
			if !eqBridges(r.Bridges, wb) || !eqClaims(r.Claims, wc) {
				ok = false
				e.failf("size-cut/events-differ-from-kept-blocks", "%s: result %d..%d holds %s, the kept blocks hold %s", tag,
					r.FromBlock, r.ToBlock, descr(r.Bridges, r.Claims), descr(wb, wc))
			}
		}
		// the statement's own wording, on the result's own numbers
		if max != 0 && r.EstimatedSize() > max && r.NumberOfBlocks() != 1 {
			ok = false
			e.failf("size-cut/exceeds-limit-with-several-blocks", "%s: result %d..%d EstimatedSize()=%d > %d", tag, r.FromBlock,
				r.ToBlock, r.EstimatedSize(), max)
		}
		if r.RetryCount != wantRetry || r.LastSentCertificate != last || r.CertificateType != ct || r.IsARetry() != (prev == 2) {
			ok = false
			e.failf("size-cut/retry-marking-changed", "%s: result retryCount=%d lastSent=%v type=%s, want retryCount=%d lastSent=%v type=%s",
				tag, r.RetryCount, r.LastSentCertificate, r.CertificateType, wantRetry, last, ct)
		}
		if !ok {
			continue
		}
		if wantT < to {
			sizeCut = true
		}
		if max != 0 && size[wantT-from] > max {
			sizeExceeded = true
		}

		// --- the SAME flow object is polled again after an L2 reorg made the blocks of the range lighter (every 4 KiB
		// metadata gone): the cut must be recomputed from what the syncer holds now, not remembered
		if l2 := lighter(p.Start, opts); l2 != nil && wantT < to {
			size2 := make([]uint, p.N)
			for i := range size2 {
				t := from + uint64(i)
				size2[i] = (&types.CertificateBuildParams{FromBlock: from, ToBlock: t, Bridges: l2.wantBridges(from, t),
					Claims: l2.wantClaims(from, t), CertificateType: ct}).EstimatedSize()
			}
			wantT2 := from
			for i := p.N - 1; i >= 0; i-- {
				if size2[i] <= max {
					wantT2 = from + uint64(i)
					break
				}
			}
			q.l, q.calls = l2, nil
			r2, err2 := bf.GetCertificateBuildParamsInternal(context.Background(), ct)
			q.l = l
			evals++
			switch {
			case err2 != nil || r2 == nil:
				e.failf("second-poll/unexpected-error", "%s: second poll after the range got lighter returned (%v, %v)", tag, r2, err2)
			case r2.FromBlock != from || r2.ToBlock != wantT2:
				e.failf("second-poll/not-the-largest-permitted-block", "%s: the first poll gave %d..%d; after the blocks got lighter (prefix sizes %v) the same flow gives %d..%d, want %d..%d",
					tag, r.FromBlock, r.ToBlock, size2, r2.FromBlock, r2.ToBlock, from, wantT2)
			case !eqBridges(r2.Bridges, l2.wantBridges(from, wantT2)) || !eqClaims(r2.Claims, l2.wantClaims(from, wantT2)):
				e.failf("second-poll/events-differ-from-kept-blocks", "%s: second poll %d..%d holds %s", tag, r2.FromBlock, r2.ToBlock, descr(r2.Bridges, r2.Claims))
			default:
				if wantT2 > wantT {
					c.Witness("second_polls_that_fit_more_blocks")
				}
			}
		}

		// --- last-block clamp on the size-limited result (the order the flows apply them); once per
		// distinct result
		if limiterDone[wantT] {
			continue
		}
		limiterDone[wantT] = true
		for _, cfg := range cfgs {
			for lim := uint64(0); lim <= from+6; lim++ {
				evals++
				out := checkLimiter(e, l, r, cfg, lim, prev == 2, in, max)
				obs.WriteByte(out)
				switch out {
				case 'c':
					limCut = true
				case 'e':
					limRefused = true
				case '=':
					limUnchanged = true
				}
			}
		}
		// the input of the limiter must still be what it was
		if r.FromBlock != from || r.ToBlock != wantT || !eqBridges(r.Bridges, l.wantBridges(from, wantT)) ||
			!eqClaims(r.Claims, l.wantClaims(from, wantT)) {
			e.failf("limiter/modifies-its-input", "%s: after AdaptCertificate the input is %d..%d %s", tag, r.FromBlock,
				r.ToBlock, descr(r.Bridges, r.Claims))
		}
	}
	// the same cut as the two real flows apply it (non-retry certificates)
	if prev != 2 {
		checkFlows(e, l, last, startL2, in)
	}
	// "no new blocks": the syncer has not passed the previous certificate => no certificate at all
	{
		evals++
		q := &fakeQuerier{l: l, lastProcessed: from - 1}
		lastDone := last
		if prev == 2 { // a retry always has its own blocks; use a settled one that covers everything synced
			lastDone = &types.CertificateHeader{Height: 3, FromBlock: from - 1, ToBlock: from - 1, Status: agglayertypes.Settled}
		}
		bf := flows.NewBaseFlow(nopLog{}, q, &fakeStorage{last: lastDone}, nil, nil, flows.NewBaseFlowConfig(0, startL2, false))
		r, err := bf.GetCertificateBuildParamsInternal(context.Background(), ct)
		if r != nil || err == nil {
			e.failf("size-cut/certificate-without-new-blocks", "%s: last synced block %d: got (%v, %v), want no certificate",
				in, from-1, r, err)
		}
	}

	c.Obs("%s | %s", in, obs.String())
	c.AddEvals(evals - 1)
	if sizeCut || limCut {
		c.NonTrivial()
	}
	if sizeCut {
		c.Witness("executions_with_a_size_cut")
	}
	if sizeExceeded {
		c.Witness("executions_where_the_single_block_exceeds_the_limit")
	}
	if limCut {
		c.Witness("executions_with_a_last_block_cut")
	}
	if limRefused {
		c.Witness("executions_with_a_limiter_refusal")
	}
	if limUnchanged {
		c.Witness("executions_with_an_unchanged_limiter_result")
	}
}

// lighter returns the layout in which every block keeps its events but loses its 4 KiB metadata (nil: nothing to lose).
func lighter(start uint64, opts []int) *layout {
	o2 := make([]int, len(opts))
	changed := false
	for i, oi := range opts {
		o2[i] = oi
		if blockOpts[oi].meta > 0 {
			for j, b := range blockOpts {
				if b.nb == blockOpts[oi].nb && b.nc == blockOpts[oi].nc && b.meta == 0 {
					o2[i], changed = j, true
				}
			}
		}
	}
	if !changed {
		return nil
	}
	return buildLayout(start, o2)
}

// lazy is a message prefix that is only formatted when a failure is reported.
type lazy func() string

func (l lazy) String() string { return l() }

func dedupe(s []uint) []uint {
	out := s[:0]
	for i, v := range s {
		if i == 0 || v != s[i-1] {
			out = append(out, v)
		}
	}
	return out
}

// checkLimiter runs the real limiter on r (already verified to be blocks from..r.ToBlock of l) and
// returns '=' unchanged, 'c' cut, 'e' refused, '!' violation.
func checkLimiter(e *exec, l *layout, r *types.CertificateBuildParams, cfg limCfg, lim uint64, retry bool, in string,
	maxCertSize uint) byte {
	from, to := r.FromBlock, r.ToBlock
	f := flows.NewMaxL2BlockNumberLimiter(lim, nopLog{}, cfg.allowResizeRetry, cfg.requireOneBridgeExit)
	got, err := f.AdaptCertificate(r)
	tag := lazy(func() string {
		return fmt.Sprintf("%s MaxCertSize=%d limiter=%s MaxL2BlockNumber=%d input %d..%d retry=%v", in, maxCertSize, cfg.name, lim,
			from, to, retry)
	})
	if (got == nil) != (err != nil) {
		e.failf("limiter/result-and-error-disagree", "%s: got (%v, %v)", tag, got, err)
		return '!'
	}
	// reference
	if lim == 0 || to <= lim {
		// nothing to cut: the certificate must come back as it is
		if got == nil {
			e.failf("limiter/refuses-a-certificate-inside-the-limit", "%s: got error %v", tag, err)
			return '!'
		}
		if got.FromBlock != from || got.ToBlock != to || !eqBridges(got.Bridges, l.wantBridges(from, to)) ||
			!eqClaims(got.Claims, l.wantClaims(from, to)) {
			e.failf("limiter/changes-a-certificate-inside-the-limit", "%s: got %d..%d %s", tag, got.FromBlock, got.ToBlock,
				descr(got.Bridges, got.Claims))
			return '!'
		}
		return '='
	}
	// to > lim > 0: the range has to be cut to from..lim, or refused
	mustRefuse := lim < from || (retry && !cfg.allowResizeRetry)
	if got == nil {
		if mustRefuse {
			return 'e'
		}
		if cfg.requireOneBridgeExit && len(l.wantBridges(from, lim)) == 0 {
			return 'e' // the configuration asks for at least one bridge exit; nothing is sent
		}
		e.failf("limiter/refuses-a-certificate-that-can-be-cut", "%s: got error %v, want %d..%d", tag, err, from, lim)
		return '!'
	}
	if mustRefuse {
		why := "the first block is beyond the limit"
		if lim >= from {
			why = "a retry certificate must not be resized in this flow"
		}
		key := "limiter/certificate-beyond-the-limit"
		switch {
		case got.FromBlock != from:
			key = "limiter/first-block-changed"
		case got.ToBlock <= lim:
			key = "limiter/resizes-a-retry-certificate-that-must-not-be-resized"
		}
		e.failf(key, "%s: got %d..%d %s, want a refusal (%s)", tag, got.FromBlock, got.ToBlock,
			descr(got.Bridges, got.Claims), why)
		return '!'
	}
	if got.FromBlock != from {
		e.failf("limiter/first-block-changed", "%s: got %d..%d, want %d..%d", tag, got.FromBlock, got.ToBlock, from, lim)
		return '!'
	}
	if got.ToBlock != lim {
		key := "limiter/not-the-largest-permitted-block"
		if got.ToBlock > lim {
			key = "limiter/certificate-beyond-the-limit"
		}
		e.failf(key, "%s: got %d..%d, want %d..%d", tag, got.FromBlock, got.ToBlock, from, lim)
		return '!'
	}
	wb, wc := l.wantBridges(from, lim), l.wantClaims(from, lim)
	if !eqBridges(got.Bridges, wb) || !eqClaims(got.Claims, wc) {
		e.failf("limiter/events-differ-from-kept-blocks", "%s: result %d..%d holds %s, the kept blocks hold %s", tag,
			got.FromBlock, got.ToBlock, descr(got.Bridges, got.Claims), descr(wb, wc))
		return '!'
	}
	if got.IsARetry() != retry || got.CertificateType != r.CertificateType {
		e.failf("limiter/retry-marking-changed", "%s: result retry=%v type=%s", tag, got.IsARetry(), got.CertificateType)
		return '!'
	}
	return 'c'
}

// checkRange calls the real Range for every (a,b) in [from-1, to+1]^2 on a fresh full certificate.
func checkRange(e *exec, l *layout, ct types.CertificateType, in string) {
	from, to := l.from, l.to
	last := &types.CertificateHeader{Height: 1, FromBlock: from, ToBlock: to, Status: agglayertypes.InError}
	full := &types.CertificateBuildParams{FromBlock: from, ToBlock: to,
		Bridges: append(l.bridges[:0:0], l.bridges...), Claims: append(l.claims[:0:0], l.claims...),
		CertificateType: ct, RetryCount: 1, LastSentCertificate: last, CreatedAt: 77}
	n := 0
	for a := from - 1; a <= to+1; a++ {
		for b := from - 1; b <= to+1; b++ {
			n++
			got, err := full.Range(a, b)
			tag := lazy(func() string { return fmt.Sprintf("%s Range(%d,%d)", in, a, b) })
			valid := from <= a && a <= b && b <= to
			if (got == nil) != (err != nil) {
				e.failf("range/result-and-error-disagree", "%s: got (%v, %v)", tag, got, err)
				continue
			}
			if !valid {
				if got != nil {
					e.failf("range/accepts-a-range-it-does-not-cover", "%s on a certificate for %d..%d: got %d..%d %s", tag, from, to,
						got.FromBlock, got.ToBlock, descr(got.Bridges, got.Claims))
				}
				continue
			}
			if got == nil {
				e.failf("range/refuses-a-covered-range", "%s on a certificate for %d..%d: %v", tag, from, to, err)
				continue
			}
			if got.FromBlock != a || got.ToBlock != b {
				e.failf("range/wrong-bounds", "%s: got %d..%d", tag, got.FromBlock, got.ToBlock)
				continue
			}
			wb, wc := l.wantBridges(a, b), l.wantClaims(a, b)
			if !eqBridges(got.Bridges, wb) || !eqClaims(got.Claims, wc) {
				e.failf("range/events-differ-from-kept-blocks", "%s: result holds %s, blocks %d..%d hold %s", tag,
					descr(got.Bridges, got.Claims), a, b, descr(wb, wc))
				continue
			}
			if got.RetryCount != 1 || got.LastSentCertificate != last || got.CertificateType != ct || got.CreatedAt != 77 {
				e.failf("range/retry-marking-changed", "%s: retryCount=%d lastSent=%v type=%s createdAt=%d", tag, got.RetryCount,
					got.LastSentCertificate, got.CertificateType, got.CreatedAt)
			}
		}
	}
	if !eqBridges(full.Bridges, l.bridges) || !eqClaims(full.Claims, l.claims) || full.FromBlock != from || full.ToBlock != to {
		e.failf("range/modifies-its-receiver", "%s: after Range calls the certificate is %d..%d %s", in, full.FromBlock,
			full.ToBlock, descr(full.Bridges, full.Claims))
	}
	e.c.AddEvals(n)
}
