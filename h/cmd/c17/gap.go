package main

import (
	"context"
	"fmt"
	"math/big"
	"strings"

	agglayertypes "github.com/agglayer/aggkit/agglayer/types"
	"github.com/agglayer/aggkit/aggsender/flows"
	"github.com/agglayer/aggkit/aggsender/types"
	"verif/h/mc"
)

// endpoints: both ends of the uint64 line
var endpoints = []uint64{0, 1, 2, 3, 4, 5, ^uint64(0) - 2, ^uint64(0) - 1, ^uint64(0)}

type rng struct{ f, t uint64 }

func (r rng) String() string { return fmt.Sprintf("[%d,%d]", r.f, r.t) }

// wellFormed lists every range f<=t over the endpoints (45 ranges).
var wellFormed = func() []rng {
	var rs []rng
	for _, f := range endpoints {
		for _, t := range endpoints {
			if f <= t {
				rs = append(rs, rng{f, t})
			}
		}
	}
	return rs
}()

func bi(v uint64) *big.Int { return new(big.Int).SetUint64(v) }

var one = big.NewInt(1)

// refGap: plain integer arithmetic. The blocks strictly between the two ranges, or none when they
// overlap or touch.
func refGap(a, b rng) (has bool, f, t *big.Int) {
	aF, aT, bF, bT := bi(a.f), bi(a.t), bi(b.f), bi(b.t)
	lo := new(big.Int).Add(aT, one) // first block after a
	if lo.Cmp(bF) < 0 {             // a entirely below b with room in between
		return true, lo, new(big.Int).Sub(bF, one)
	}
	lo = new(big.Int).Add(bT, one)
	if lo.Cmp(aF) < 0 {
		return true, lo, new(big.Int).Sub(aF, one)
	}
	return false, nil, nil
}

// emptyByFields: the representation of "no blocks" used by BlockRange (the zero value) or an
// inverted range; judged on the fields, without calling the code under test.
func emptyByFields(r types.BlockRange) bool {
	return (r.FromBlock == 0 && r.ToBlock == 0) || r.FromBlock > r.ToBlock
}

type gapParams struct {
	Kind string // "gap" | "verify-settled" | "verify-inerror" | "count"
	Idx  int
}

// runGap: Gap(a, b) for a fixed a and every well-formed b.
func runGap(c *mc.Ctx, p gapParams) {
	e := &exec{c: c}
	a := wellFormed[p.Idx]
	var obs strings.Builder
	for _, b := range wellFormed {
		got := types.NewBlockRange(a.f, a.t).Gap(types.NewBlockRange(b.f, b.t))
		has, wf, wt := refGap(a, b)
		fmt.Fprintf(&obs, "%v:%d-%d ", b, got.FromBlock, got.ToBlock)
		if !has {
			if !emptyByFields(got) || !got.IsEmpty() || got.CountBlocks() != 0 {
				e.failf("gap/reports-a-gap-between-touching-or-overlapping-ranges",
					"%v.Gap(%v) = [%d,%d] (IsEmpty=%v CountBlocks=%d), want no gap", a, b, got.FromBlock, got.ToBlock, got.IsEmpty(),
					got.CountBlocks())
			}
			continue
		}
		c.NonTrivial()
		if emptyByFields(got) || got.IsEmpty() {
			e.failf("gap/misses-a-gap", "%v.Gap(%v) = [%d,%d] (IsEmpty=%v), want [%v,%v]", a, b, got.FromBlock, got.ToBlock,
				got.IsEmpty(), wf, wt)
			continue
		}
		if bi(got.FromBlock).Cmp(wf) != 0 || bi(got.ToBlock).Cmp(wt) != 0 {
			e.failf("gap/wrong-gap", "%v.Gap(%v) = [%d,%d], want exactly the blocks strictly between: [%v,%v]", a, b,
				got.FromBlock, got.ToBlock, wf, wt)
			continue
		}
		n := new(big.Int).Add(new(big.Int).Sub(wt, wf), one)
		if bi(got.CountBlocks()).Cmp(n) != 0 {
			e.failf("gap/wrong-count", "%v.Gap(%v) = [%d,%d]: CountBlocks=%d, want %v", a, b, got.FromBlock, got.ToBlock,
				got.CountBlocks(), n)
		}
	}
	c.Obs("a=%v %s", a, obs.String())
	c.AddEvals(len(wellFormed) - 1)
	c.Witness("gap_executions")
}

// runCount: CountBlocks / IsEmpty for every pair of endpoints, against big-integer arithmetic.
// Two documented representation limits are not judged: [0,0] doubles as the empty range, and the
// count of [0, 2^64-1] does not fit in a uint64.
func runCount(c *mc.Ctx, _ gapParams) {
	e := &exec{c: c}
	var obs strings.Builder
	n := 0
	for _, f := range endpoints {
		for _, t := range endpoints {
			n++
			r := types.NewBlockRange(f, t)
			got := r.CountBlocks()
			fmt.Fprintf(&obs, "[%d,%d]=%d ", f, t, got)
			if f == 0 && (t == 0 || t == ^uint64(0)) {
				continue
			}
			want := big.NewInt(0)
			if f <= t {
				want = new(big.Int).Add(new(big.Int).Sub(bi(t), bi(f)), one)
				c.NonTrivial()
			}
			if bi(got).Cmp(want) != 0 || r.IsEmpty() != (want.Sign() == 0) {
				e.failf("count-blocks/wrong", "[%d,%d]: CountBlocks=%d IsEmpty=%v, want %v", f, t, got, r.IsEmpty(), want)
			}
		}
	}
	c.Obs("%s", obs.String())
	c.AddEvals(n - 1)
}

// runVerifyGaps drives the real gap check of the base flow (VerifyBlockRangeGaps): the last
// certificate is settled over range Idx (or in error, starting at endpoint Idx), the new
// certificate ranges over every well-formed range; the fake syncer records the block range it is
// asked about. Choice points: whether the syncer has events there, and RequireNoFEPBlockGap.
func runVerifyGaps(c *mc.Ctx, p gapParams) {
	e := &exec{c: c}
	eventsInGap := c.Choose(2, "events-in-the-gap")
	requireNoGap := c.Bool("require-no-fep-block-gap")
	var last *types.CertificateHeader
	var settled rng // the blocks known to be settled, as a range
	if p.Kind == "verify-settled" {
		settled = wellFormed[p.Idx]
		last = &types.CertificateHeader{Height: 2, FromBlock: settled.f, ToBlock: settled.t, Status: agglayertypes.Settled}
	} else {
		// in error from block F>=1: everything below F is settled
		f := endpoints[p.Idx]
		settled = rng{0, f - 1}
		last = &types.CertificateHeader{Height: 2, FromBlock: f, ToBlock: f, Status: agglayertypes.InError}
		if f < ^uint64(0)-1 {
			last.ToBlock = f + 2
		}
	}
	var obs strings.Builder
	for _, nw := range wellFormed {
		q := &fakeQuerier{gapBridges: eventsInGap}
		bf := flows.NewBaseFlow(nopLog{}, q, &fakeStorage{}, nil, nil, flows.NewBaseFlowConfig(0, 0, requireNoGap))
		err := bf.VerifyBlockRangeGaps(context.Background(), last, nw.f, nw.t)
		has, wf, wt := refGap(nw, settled)
		tag := fmt.Sprintf("last certificate %s %d..%d (settled blocks %v), new certificate %v, eventsInGap=%d requireNoGap=%v",
			last.Status, last.FromBlock, last.ToBlock, settled, nw, eventsInGap, requireNoGap)
		fmt.Fprintf(&obs, "%v:%v:%v ", nw, q.calls, err != nil)
		if !has {
			if len(q.calls) != 0 || err != nil {
				e.failf("verify-gaps/reports-a-gap-between-touching-or-overlapping-ranges",
					"%s: the syncer was asked about %v, error %v; want no gap", tag, q.calls, err)
			}
			continue
		}
		c.NonTrivial()
		if len(q.calls) == 0 {
			if err == nil {
				e.failf("verify-gaps/misses-a-gap", "%s: no query and no error, want the blocks [%v,%v] checked", tag, wf, wt)
			}
			continue
		}
		if len(q.calls) != 1 || bi(q.calls[0][0]).Cmp(wf) != 0 || bi(q.calls[0][1]).Cmp(wt) != 0 {
			e.failf("verify-gaps/wrong-gap", "%s: the syncer was asked about %v, want exactly [%v,%v]", tag, q.calls, wf, wt)
			continue
		}
		wantErr := eventsInGap > 0 || requireNoGap
		if (err != nil) != wantErr {
			e.failf("verify-gaps/wrong-verdict", "%s: error %v, want error=%v", tag, err, wantErr)
		}
	}
	// no previous certificate: nothing to compare with
	{
		q := &fakeQuerier{gapBridges: eventsInGap}
		bf := flows.NewBaseFlow(nopLog{}, q, &fakeStorage{}, nil, nil, flows.NewBaseFlowConfig(0, 0, requireNoGap))
		if err := bf.VerifyBlockRangeGaps(context.Background(), nil, 4, 5); err != nil || len(q.calls) != 0 {
			e.failf("verify-gaps/reports-a-gap-without-a-previous-certificate", "got %v, queries %v", err, q.calls)
		}
	}
	c.Obs("%s %d..%d: %s", last.Status, last.FromBlock, last.ToBlock, obs.String())
	c.AddEvals(len(wellFormed))
	c.Witness("verify_gaps_executions")
}
