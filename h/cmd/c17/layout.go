package main

import (
	"bytes"
	"context"
	"fmt"
	"math/big"

	agglayertypes "github.com/agglayer/aggkit/agglayer/types"
	"github.com/agglayer/aggkit/aggsender/db"
	"github.com/agglayer/aggkit/aggsender/types"
	"github.com/agglayer/aggkit/bridgesync"
	"github.com/ethereum/go-ethereum/common"
)

// ---------------------------------------------------------------------------------------------
// Event layouts

// blockOpt is what one block of a layout holds: nb bridges, nc claims, all with metadata of length meta.
type blockOpt struct {
	nb, nc, meta int
}

// blockOpts is the per-block alphabet: {0,1,2 bridges} x {0,1 claims} x metadata length {0, 4 KiB}
// (the metadata length is irrelevant for the block without events): 1 + 5*2 = 11 options.
var blockOpts = func() []blockOpt {
	o := []blockOpt{{0, 0, 0}}
	for _, meta := range []int{0, 4096} {
		for _, bc := range [][2]int{{0, 1}, {1, 0}, {1, 1}, {2, 0}, {2, 1}} {
			o = append(o, blockOpt{bc[0], bc[1], meta})
		}
	}
	return o
}()

// layout is a concrete chain segment [from, from+n-1] with uniquely identifiable events.
type layout struct {
	from, to uint64
	opts     []int
	bridges  []bridgesync.Bridge // ordered by (block, position)
	claims   []bridgesync.Claim
	// bIdx[i] / cIdx[i] = number of bridges / claims in blocks before from+i (len n+1)
	bIdx, cIdx []int
}

// metaPool holds one distinct metadata buffer per event id so that events are distinguishable by
// content and the harness does not allocate 4 KiB per event per execution.
var metaPool = func() [][]byte {
	p := make([][]byte, 64)
	for i := range p {
		b := make([]byte, 4096)
		for j := range b {
			b[j] = byte(i*31 + j)
		}
		b[0] = byte(i)
		p[i] = b
	}
	return p
}()

func buildLayout(from uint64, opts []int) *layout {
	l := &layout{from: from, to: from + uint64(len(opts)) - 1, opts: opts}
	id := 0
	dep := uint32(100)
	for i, oi := range opts {
		o := blockOpts[oi]
		blk := from + uint64(i)
		l.bIdx = append(l.bIdx, len(l.bridges))
		l.cIdx = append(l.cIdx, len(l.claims))
		pos := uint64(0)
		// claims and bridges interleave inside a block (claim first), as log positions would
		for k := 0; k < o.nc; k++ {
			id++
			l.claims = append(l.claims, bridgesync.Claim{
				BlockNum: blk, BlockPos: pos,
				GlobalIndex:        big.NewInt(int64(1000 + id)),
				Amount:             big.NewInt(int64(7000 + id)),
				OriginNetwork:      uint32(id),
				DestinationNetwork: 9,
				OriginAddress:      common.BigToAddress(big.NewInt(int64(id))),
				Metadata:           metaPool[id][:o.meta],
				IsMessage:          id%2 == 0,
			})
			pos++
		}
		for k := 0; k < o.nb; k++ {
			id++
			l.bridges = append(l.bridges, bridgesync.Bridge{
				BlockNum: blk, BlockPos: pos,
				LeafType:           uint8(id % 2),
				OriginNetwork:      uint32(id),
				DestinationNetwork: 3,
				DestinationAddress: common.BigToAddress(big.NewInt(int64(500 + id))),
				Amount:             big.NewInt(int64(id)),
				Metadata:           metaPool[id][:o.meta],
				DepositCount:       dep,
			})
			dep++
			pos++
		}
	}
	l.bIdx = append(l.bIdx, len(l.bridges))
	l.cIdx = append(l.cIdx, len(l.claims))
	return l
}

// wantBridges / wantClaims: the events of blocks [a,b] (inside the layout), in original order.
func (l *layout) wantBridges(a, b uint64) []bridgesync.Bridge {
	return l.bridges[l.bIdx[a-l.from]:l.bIdx[b-l.from+1]]
}
func (l *layout) wantClaims(a, b uint64) []bridgesync.Claim {
	return l.claims[l.cIdx[a-l.from]:l.cIdx[b-l.from+1]]
}

func (l *layout) String() string {
	var sb bytes.Buffer
	fmt.Fprintf(&sb, "blocks %d..%d:", l.from, l.to)
	for i, oi := range l.opts {
		o := blockOpts[oi]
		fmt.Fprintf(&sb, " [%d: %db %dc meta=%d]", l.from+uint64(i), o.nb, o.nc, o.meta)
	}
	return sb.String()
}

// ---------------------------------------------------------------------------------------------
// Event identity

func eqBig(a, b *big.Int) bool {
	if a == nil || b == nil {
		return a == b
	}
	return a.Cmp(b) == 0
}

func eqBridge(a, b *bridgesync.Bridge) bool {
	return a.BlockNum == b.BlockNum && a.BlockPos == b.BlockPos && a.FromAddress == b.FromAddress &&
		a.TxHash == b.TxHash && bytes.Equal(a.Calldata, b.Calldata) && a.BlockTimestamp == b.BlockTimestamp &&
		a.LeafType == b.LeafType && a.OriginNetwork == b.OriginNetwork && a.OriginAddress == b.OriginAddress &&
		a.DestinationNetwork == b.DestinationNetwork && a.DestinationAddress == b.DestinationAddress &&
		eqBig(a.Amount, b.Amount) && bytes.Equal(a.Metadata, b.Metadata) && a.DepositCount == b.DepositCount &&
		a.IsNativeToken == b.IsNativeToken
}

func eqClaim(a, b *bridgesync.Claim) bool {
	return a.BlockNum == b.BlockNum && a.BlockPos == b.BlockPos && a.FromAddress == b.FromAddress &&
		a.TxHash == b.TxHash && eqBig(a.GlobalIndex, b.GlobalIndex) && a.OriginNetwork == b.OriginNetwork &&
		a.OriginAddress == b.OriginAddress && a.DestinationAddress == b.DestinationAddress &&
		eqBig(a.Amount, b.Amount) && a.ProofLocalExitRoot == b.ProofLocalExitRoot &&
		a.ProofRollupExitRoot == b.ProofRollupExitRoot && a.MainnetExitRoot == b.MainnetExitRoot &&
		a.RollupExitRoot == b.RollupExitRoot && a.GlobalExitRoot == b.GlobalExitRoot &&
		a.DestinationNetwork == b.DestinationNetwork && bytes.Equal(a.Metadata, b.Metadata) &&
		a.IsMessage == b.IsMessage && a.BlockTimestamp == b.BlockTimestamp
}

func eqBridges(got, want []bridgesync.Bridge) bool {
	if len(got) != len(want) {
		return false
	}
	for i := range got {
		if !eqBridge(&got[i], &want[i]) {
			return false
		}
	}
	return true
}

func eqClaims(got, want []bridgesync.Claim) bool {
	if len(got) != len(want) {
		return false
	}
	for i := range got {
		if !eqClaim(&got[i], &want[i]) {
			return false
		}
	}
	return true
}

// descr names events by (block.position), e.g. "b[7.0 7.1 9.0] c[8.0]", for messages.
func descr(bs []bridgesync.Bridge, cs []bridgesync.Claim) string {
	var sb bytes.Buffer
	sb.WriteString("bridges[")
	for i, b := range bs {
		if i > 0 {
			sb.WriteByte(' ')
		}
		fmt.Fprintf(&sb, "%d.%d#%d", b.BlockNum, b.BlockPos, b.DepositCount)
	}
	sb.WriteString("] claims[")
	for i, c := range cs {
		if i > 0 {
			sb.WriteByte(' ')
		}
		fmt.Fprintf(&sb, "%d.%d#%v", c.BlockNum, c.BlockPos, c.GlobalIndex)
	}
	sb.WriteString("]")
	return sb.String()
}

// ---------------------------------------------------------------------------------------------
// Fakes

// nopLog satisfies types.Logger.
type nopLog struct{}

func (nopLog) Panicf(f string, a ...interface{}) { panic(fmt.Sprintf(f, a...)) }
func (nopLog) Fatalf(f string, a ...interface{}) { panic(fmt.Sprintf(f, a...)) }
func (nopLog) Info(...interface{})               {}
func (nopLog) Infof(string, ...interface{})      {}
func (nopLog) Error(...interface{})              {}
func (nopLog) Errorf(string, ...interface{})     {}
func (nopLog) Warn(...interface{})               {}
func (nopLog) Warnf(string, ...interface{})      {}
func (nopLog) Debug(...interface{})              {}
func (nopLog) Debugf(string, ...interface{})     {}

var _ types.Logger = nopLog{}

// fakeQuerier is the L2 bridge syncer as the flow sees it: it serves the events of a layout
// (fresh slices on every call) and records what it was asked for.
type fakeQuerier struct {
	l             *layout
	lastProcessed uint64
	calls         [][2]uint64
	// gap mode (no layout): answer every query with gapBridges bridges
	gapBridges int
}

func (q *fakeQuerier) GetBridgesAndClaims(_ context.Context, from, to uint64) ([]bridgesync.Bridge, []bridgesync.Claim, error) {
	q.calls = append(q.calls, [2]uint64{from, to})
	if q.l == nil {
		var bs []bridgesync.Bridge
		for i := 0; i < q.gapBridges; i++ {
			bs = append(bs, bridgesync.Bridge{BlockNum: from, Amount: big.NewInt(1)})
		}
		return bs, nil, nil
	}
	if from <= q.l.from && to >= q.l.to { // everything: one fresh copy of each list
		return append([]bridgesync.Bridge(nil), q.l.bridges...), append([]bridgesync.Claim(nil), q.l.claims...), nil
	}
	var bs []bridgesync.Bridge
	var cs []bridgesync.Claim
	for _, b := range q.l.bridges {
		if b.BlockNum >= from && b.BlockNum <= to {
			bs = append(bs, b)
		}
	}
	for _, c := range q.l.claims {
		if c.BlockNum >= from && c.BlockNum <= to {
			cs = append(cs, c)
		}
	}
	return bs, cs, nil
}
func (q *fakeQuerier) GetExitRootByIndex(context.Context, uint32) (common.Hash, error) {
	return common.Hash{}, nil
}
func (q *fakeQuerier) GetLastProcessedBlock(context.Context) (uint64, error) {
	return q.lastProcessed, nil
}
func (q *fakeQuerier) OriginNetwork() uint32                                { return 1 }
func (q *fakeQuerier) WaitForSyncerToCatchUp(context.Context, uint64) error { return nil }

var _ types.BridgeQuerier = (*fakeQuerier)(nil)

// fakeStorage answers the single storage question the base flow asks here; any other call hits the
// embedded nil interface and panics (deterministically), which would be a harness error.
type fakeStorage struct {
	db.AggSenderStorage
	last *types.CertificateHeader
}

func (s *fakeStorage) GetLastSentCertificateHeader() (*types.CertificateHeader, error) {
	return s.last, nil
}

var _ = agglayertypes.Settled
