// C17 — cutting a certificate's block range never drops, duplicates or reorders events.
//
// SUT (all real): flows.NewBaseFlow(...).GetCertificateBuildParamsInternal (=> limitCertSize =>
// CertificateBuildParams.Range / EstimatedSize / NumberOfBlocks), flows.NewMaxL2BlockNumberLimiter(...)
// .AdaptCertificate configured as the PP and the aggchain-prover flows configure it,
// CertificateBuildParams.Range directly, BlockRange.Gap / CountBlocks / IsEmpty, and the gap check
// that uses them, baseFlow.VerifyBlockRangeGaps. The environment is a fake L2 bridge syncer serving a
// fully enumerated event layout and a fake storage holding the previous certificate.
//
// Space (exhaustive, no sampling): see Rule/Bounds in main(). Oracles are written from the property
// statement: same first block; last block = largest t whose prefix fits (the single first block if
// none does), resp. min(to, limit); events = exactly those of the kept blocks, element by element, in
// order; the estimate is monotone in t; Gap = the blocks strictly between, none when the ranges
// overlap or touch (big-integer arithmetic).
package main

import (
	"fmt"

	"verif/h/kit"
	"verif/h/mc"
)

func units(tier string) []mc.Unit {
	var us []mc.Unit
	// range arithmetic
	for i := range wellFormed {
		us = append(us, mc.Unit{Name: fmt.Sprintf("gap a=%v", wellFormed[i]), Params: gapParams{"gap", i}})
	}
	us = append(us, mc.Unit{Name: "count-blocks", Params: gapParams{"count", 0}})
	for i := range wellFormed {
		us = append(us, mc.Unit{Name: fmt.Sprintf("verify-gaps settled=%v", wellFormed[i]), Params: gapParams{"verify-settled", i}})
	}
	for i := range endpoints {
		if endpoints[i] == 0 {
			continue // a certificate in error that starts at block 0 has no settled block below it
		}
		us = append(us, mc.Unit{Name: fmt.Sprintf("verify-gaps inerror-from=%d", endpoints[i]), Params: gapParams{"verify-inerror", i}})
	}
	// cuts
	full := make([]int, len(blockOpts))
	for i := range full {
		full[i] = i
	}
	noMeta := []int{0, 1, 2, 3, 4, 5} // the options without metadata
	small := []int{0, 1, 4, 8}        // empty, one claim, two bridges, bridge+claim with 4 KiB metadata each
	for _, start := range []uint64{1, 7} {
		for n := 1; n <= 5; n++ {
			alpha, an := full, "full"
			if tier != "thorough" { // quick tier: the longest ranges over reduced per-block alphabets
				switch {
				case n == 5 && start == 1:
					alpha, an = small, "small"
				case n == 5:
					continue
				case n == 4 && start == 7:
					alpha, an = noMeta, "no-metadata"
				}
			}
			free := n
			if free > 2 {
				free = 2
			}
			prefix := make([]int, n-free)
			for {
				p := cutParams{Start: start, N: n, Prefix: append([]int{}, prefix...), Free: free, Alpha: alpha, Types: 3}
				if n == 5 && an == "full" {
					p.Types = 2 // the optimistic type (sized like pp, limited like fep) is explored up to 4 blocks
				}
				us = append(us, mc.Unit{Name: fmt.Sprintf("cut start=%d blocks=%d alphabet=%s prefix=%v", start, n, an, prefix), Params: p})
				// next prefix (odometer over the block alphabet)
				i := len(prefix) - 1
				for ; i >= 0; i-- {
					prefix[i]++
					if prefix[i] < len(alpha) {
						break
					}
					prefix[i] = 0
				}
				if i < 0 {
					break
				}
			}
		}
	}
	return us
}

func run(c *mc.Ctx, u mc.Unit) {
	switch p := u.Params.(type) {
	case cutParams:
		runCut(c, p)
	case gapParams:
		switch p.Kind {
		case "gap":
			runGap(c, p)
		case "count":
			runCount(c, p)
		default:
			runVerifyGaps(c, p)
		}
	}
}

func main() {
	mc.Main(mc.Spec{
		ID: "C17", Level: "exploration",
		Units: units,
		Batch: func(tier string) int {
			if tier == "thorough" {
				return 24
			}
			return 8
		},
		Run:   run,
		Setup: func(string) { kit.Quiet() },
		Rule: "cut unit = (first block, number of blocks, layout of the leading blocks); choice points = layout of the last two " +
			"blocks (11 options each: {0,1,2 bridges}x{0,1 claims}x metadata {0,4096} bytes; quick tier: 4 blocks from first block 7 use the 6 options without metadata, 5 blocks are explored from first block 1 only over 4 options), previous certificate " +
			"(none/settled/in error = retry), certificate type (pp/fep/optimistic; pp/fep only for 5 blocks over the full alphabet); inner loops (counted as evaluations) = every " +
			"MaxCertSize in {0,1,maxuint} U {size(prefix)-1,size,size+1 for every prefix} through the real base flow, then for every " +
			"distinct size-limited result every MaxL2BlockNumber in 0..from+6 through the real limiter in each configuration the " +
			"flow of that certificate type uses, plus (once per layout and type) Range(a,b) for all a,b in [from-1,to+1]; " +
			"gap unit = one well-formed range a over the endpoints {0..5, 2^64-3..2^64-1} against all 45 b; verify-gaps unit = " +
			"previous certificate (settled over a well-formed range / in error from an endpoint) against all 45 new ranges with " +
			"choice points events-in-gap and RequireNoFEPBlockGap; non-trivial = an execution in which something was cut / a pair " +
			"with a real gap; distinct = distinct (unit, choices, outcomes) observations",
		Assumptions: []string{
			"the size of a certificate is what the real EstimatedSize returns for harness-built parameters holding exactly the events of a prefix (the cut is judged against it, and it is checked to be monotone)",
			"the bridge syncer returns events ordered by (block, position), as the SQL query does",
			"limiter configurations are those the real flows construct: PP (resize retry allowed, forceOneBridgeExit off/on), aggchain prover (retry not resizable, empty certificates allowed)",
			"a refusal (nil, error) is the only acceptable answer when the first block is beyond MaxL2BlockNumber or a non-resizable retry exceeds it; with forceOneBridgeExit a cut that leaves no bridge may also be refused",
			"[0,0] doubles as the empty BlockRange and CountBlocks of [0,2^64-1] is not representable: both are reported, not judged",
		},
		Bounds: func(tier string) map[string]any {
			perBlock := "{0,1,2 bridges}x{0,1 claims}x metadata {0,4096} for 1..4 blocks from block 1 and 1..3 blocks from block 7; 4 blocks from block 7 without metadata; 5 blocks from block 1 over {empty, 1 claim, 2 bridges, bridge+claim with 4096-byte metadata}"
			if tier == "thorough" {
				perBlock = "{0,1,2 bridges}x{0,1 claims}x metadata {0,4096}"
			}
			return map[string]any{"first_block": []int{1, 7}, "blocks": "1..5",
				"per_block": perBlock, "max_cert_size": "0,1,maxuint and every prefix size -1/0/+1",
				"max_l2_block": "0..from+6", "previous_certificate": "none/settled/inError", "certificate_type": "pp/fep/optimistic (5 blocks over the full alphabet: pp/fep)",
				"range_endpoints": "0..5, 2^64-3..2^64-1 (all 45x45 pairs of well-formed ranges)"}
		},
	})
}
