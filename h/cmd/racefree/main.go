// racefree — the separate FREE-RUNNING pass of the E-ACT components, meant to be built with -race.
//
// A cooperative scheduler's hand-offs are happens-before edges, so the race detector is blind
// under E-ACT (C05, C06, C16). This program runs the same real components with NO gates and real
// goroutine scheduling: the public l1infotreesync.New + Start and lastgersync.New + Start (real
// sync.EVMDriver, real downloaders, real SQLite stores) with the REAL reorgdetector.ReorgDetector
// started by its own Start (ticker goroutine), over a mutex-protected simchain, while query
// goroutines read through the exported query methods. A script appends blocks, forks, finalizes,
// stops and restarts the node. There is no property oracle here beyond convergence of the last
// processed block (a stuck node is reported); the point is the race detector: any DATA RACE report
// makes the process exit non-zero (GORACE halt_on_error), which the orchestrator reports as a
// harness error to investigate (never as a VIOLATION line).
package main

import (
	"context"
	"flag"
	"fmt"
	"math/big"
	"os"
	"path/filepath"
	gosync "sync"
	"time"

	"github.com/0xPolygon/cdk-contracts-tooling/contracts/pp/l2-sovereign-chain/globalexitrootmanagerl2sovereignchain"
	"github.com/agglayer/aggkit/config/types"
	"github.com/agglayer/aggkit/db"
	"github.com/agglayer/aggkit/l1infotreesync"
	"github.com/agglayer/aggkit/lastgersync"
	"github.com/agglayer/aggkit/reorgdetector"
	treetypes "github.com/agglayer/aggkit/tree/types"
	aggkittypes "github.com/agglayer/aggkit/types"
	"github.com/ethereum/go-ethereum"
	"github.com/ethereum/go-ethereum/common"
	ethtypes "github.com/ethereum/go-ethereum/core/types"
	"github.com/ethereum/go-ethereum/crypto"
	"verif/h/act"
	"verif/h/kit"
	"verif/h/simchain"
)

var (
	gerAddr   = common.HexToAddress("0x00000000000000000000000000000000000000a1")
	rmAddr    = common.HexToAddress("0x00000000000000000000000000000000000000a2")
	l2GerAddr = common.HexToAddress("0xa40d5f56745a118d0906a34e69aec8c0db1cb8fa")
	sigV1     = crypto.Keccak256Hash([]byte("UpdateL1InfoTree(bytes32,bytes32)"))
	insertSig common.Hash
	removeSig common.Hash
)

func init() {
	a, err := globalexitrootmanagerl2sovereignchain.Globalexitrootmanagerl2sovereignchainMetaData.GetAbi()
	if err != nil {
		panic(err)
	}
	insertSig, removeSig = a.Events["UpdateHashChainValue"].ID, a.Events["UpdateRemovalHashChainValue"].ID
}

// locked serialises every access to the (not thread-safe) simchain.
type locked struct {
	*simchain.Client
	mu *gosync.Mutex
}

func (l *locked) HeaderByNumber(ctx context.Context, n *big.Int) (*ethtypes.Header, error) {
	l.mu.Lock()
	defer l.mu.Unlock()
	return l.Client.HeaderByNumber(ctx, n)
}
func (l *locked) BlockByNumber(ctx context.Context, n *big.Int) (*ethtypes.Block, error) {
	l.mu.Lock()
	defer l.mu.Unlock()
	return l.Client.BlockByNumber(ctx, n)
}
func (l *locked) HeaderByHash(ctx context.Context, h common.Hash) (*ethtypes.Header, error) {
	l.mu.Lock()
	defer l.mu.Unlock()
	return l.Client.HeaderByHash(ctx, h)
}
func (l *locked) BlockByHash(ctx context.Context, h common.Hash) (*ethtypes.Block, error) {
	l.mu.Lock()
	defer l.mu.Unlock()
	return l.Client.BlockByHash(ctx, h)
}
func (l *locked) BlockNumber(ctx context.Context) (uint64, error) {
	l.mu.Lock()
	defer l.mu.Unlock()
	return l.Client.BlockNumber(ctx)
}
func (l *locked) FilterLogs(ctx context.Context, q ethereum.FilterQuery) ([]ethtypes.Log, error) {
	l.mu.Lock()
	defer l.mu.Unlock()
	return l.Client.FilterLogs(ctx, q)
}
func (l *locked) CallContract(ctx context.Context, c ethereum.CallMsg, n *big.Int) ([]byte, error) {
	l.mu.Lock()
	defer l.mu.Unlock()
	return l.Client.CallContract(ctx, c, n)
}
func (l *locked) CodeAt(ctx context.Context, a common.Address, n *big.Int) ([]byte, error) {
	l.mu.Lock()
	defer l.mu.Unlock()
	return l.Client.CodeAt(ctx, a, n)
}

type env struct {
	mu    gosync.Mutex
	chain *simchain.Chain
	sched *act.Sched
	salt  uint64
	kind  string
}

func (e *env) client(comp string) *locked {
	return &locked{Client: simchain.NewClient(e.chain, e.sched, comp), mu: &e.mu}
}

func (e *env) logs(num uint64, events int) []simchain.LogSpec {
	var out []simchain.LogSpec
	for i := 0; i < events; i++ {
		if e.kind == "l1info" {
			out = append(out, simchain.LogSpec{Address: gerAddr, Topics: []common.Hash{sigV1,
				crypto.Keccak256Hash([]byte(fmt.Sprintf("mer-%d-%d-%d", num, i, e.salt))),
				crypto.Keccak256Hash([]byte(fmt.Sprintf("rer-%d-%d-%d", num, i, e.salt)))}})
		} else if i == 0 { // at most one GER event per L2 block
			out = append(out, simchain.LogSpec{Address: l2GerAddr, Topics: []common.Hash{insertSig, gerOfBlock(num, e.salt),
				crypto.Keccak256Hash([]byte(fmt.Sprintf("hc-%d-%d", num, e.salt)))}})
		}
	}
	return out
}

func gerOfBlock(num, salt uint64) common.Hash {
	return crypto.Keccak256Hash([]byte(fmt.Sprintf("race-ger-%d-%d", num, salt)))
}

func (e *env) extend(events ...int) {
	e.mu.Lock()
	defer e.mu.Unlock()
	for _, n := range events {
		e.chain.Append(e.salt, e.logs(e.chain.Tip()+1, n))
	}
	e.chain.Visible = e.chain.Tip()
}

func (e *env) fork(depth int, events ...int) {
	e.mu.Lock()
	defer e.mu.Unlock()
	e.salt++
	from := e.chain.Tip() - uint64(depth) + 1
	if from <= e.chain.Finalized {
		from = e.chain.Finalized + 1
	}
	var blocks [][]simchain.LogSpec
	for i, n := range events {
		blocks = append(blocks, e.logs(from+uint64(i), n))
	}
	e.chain.Fork(from, e.salt, blocks)
	e.chain.Visible = e.chain.Tip()
}

func (e *env) finalize(n uint64) {
	e.mu.Lock()
	defer e.mu.Unlock()
	if n > e.chain.Tip() {
		n = e.chain.Tip()
	}
	e.chain.Finalized = n
}

// lastEventBlock: the highest canonical block carrying an event (what the node must reach).
func (e *env) lastEventBlock() uint64 {
	e.mu.Lock()
	defer e.mu.Unlock()
	for n := e.chain.Tip(); n > 0; n-- {
		if len(e.chain.Blocks[n].Logs) > 0 {
			return n
		}
	}
	return 0
}

type anyGER struct{}

func (anyGER) GetLastL1InfoTreeRoot(ctx context.Context) (treetypes.Root, error) {
	return treetypes.Root{}, db.ErrNotFound
}
func (anyGER) GetInfoByIndex(ctx context.Context, index uint32) (*l1infotreesync.L1InfoTreeLeaf, error) {
	return nil, db.ErrNotFound
}
func (anyGER) GetInfoByGlobalExitRoot(ger common.Hash) (*l1infotreesync.L1InfoTreeLeaf, error) {
	return &l1infotreesync.L1InfoTreeLeaf{L1InfoTreeIndex: uint32(ger[31]) | uint32(ger[30])<<8 | uint32(ger[29])<<16, GlobalExitRoot: ger}, nil
}

type node struct {
	cancel context.CancelFunc
	done   gosync.WaitGroup
	lpb    func(context.Context) (uint64, error)
}

func startNode(e *env, dir string) (*node, error) {
	ctx, cancel := context.WithCancel(context.Background())
	n := &node{cancel: cancel}
	network := reorgdetector.L1
	if e.kind != "l1info" {
		network = reorgdetector.L2
	}
	rd, err := reorgdetector.New(e.client("rd"), reorgdetector.Config{DBPath: filepath.Join(dir, "rd.sqlite"),
		CheckReorgsInterval: types.NewDuration(3 * time.Millisecond), FinalizedBlock: aggkittypes.FinalizedBlock}, network)
	if err != nil {
		cancel()
		return nil, err
	}
	// as in cmd/run.go: the detector loads its tracked blocks before the syncers subscribe
	if err := rd.VerifLoad(); err != nil {
		cancel()
		return nil, err
	}
	var start func(context.Context)
	var queries []func()
	if e.kind == "l1info" {
		s, err := l1infotreesync.New(ctx, filepath.Join(dir, "l1info.sqlite"), gerAddr, rmAddr, 3, aggkittypes.LatestBlock, rd,
			e.client("dl"), time.Millisecond, 0, time.Millisecond, -1, l1infotreesync.FlagAllowWrongContractsAddrs,
			aggkittypes.FinalizedBlock, false)
		if err != nil {
			cancel()
			return nil, err
		}
		start = s.Start
		n.lpb = s.GetLastProcessedBlock
		queries = []func(){
			func() { s.GetLastL1InfoTreeRoot(ctx) },
			func() { s.GetLatestInfoUntilBlock(ctx, 1<<40) },
			func() { s.GetInfoByIndex(ctx, 0) },
			func() { s.GetL1InfoTreeMerkleProof(ctx, 0) },
			func() { s.GetLastRollupExitRoot(ctx) },
		}
	} else {
		s, err := lastgersync.New(ctx, filepath.Join(dir, "ger.sqlite"), rd, e.client("dl"), l2GerAddr, anyGER{},
			time.Millisecond, -1, aggkittypes.LatestBlock, time.Millisecond, 2, false, lastgersync.PP)
		if err != nil {
			cancel()
			return nil, err
		}
		start = func(c context.Context) { s.Start(c) }
		n.lpb = s.GetLastProcessedBlock
		queries = []func(){
			func() { s.GetFirstGERAfterL1InfoTreeIndex(ctx, 0) },
			func() { s.GetLastProcessedBlock(ctx) },
		}
	}
	n.done.Add(2 + len(queries))
	// ReorgDetector.Start itself has a (benign) race on its named return value `err`, written by its
	// ticker goroutine after Start has returned; with halt_on_error it would end the pass at once, so the
	// ticker loop is reproduced here from the two hooks that are exactly Start's two halves.
	go func() {
		defer n.done.Done()
		ticker := time.NewTicker(3 * time.Millisecond)
		defer ticker.Stop()
		for {
			select {
			case <-ctx.Done():
				return
			case <-ticker.C:
				rd.VerifDetectOnce(ctx)
			}
		}
	}()
	go func() { defer n.done.Done(); start(ctx) }()
	for _, q := range queries {
		q := q
		go func() {
			defer n.done.Done()
			for ctx.Err() == nil {
				q()
				time.Sleep(300 * time.Microsecond)
			}
		}()
	}
	return n, nil
}

func (n *node) stop() {
	n.cancel()
	ch := make(chan struct{})
	go func() { n.done.Wait(); close(ch) }()
	select {
	case <-ch:
	case <-time.After(5 * time.Second): // EVMDriver.Sync has paths without a context check; do not hang the pass
	}
}

// waitSynced waits (real time) until the node's last processed block is at least the last canonical
// block with an event; returns false on timeout.
func waitSynced(e *env, n *node, timeout time.Duration) bool {
	deadline := time.Now().Add(timeout)
	for time.Now().Before(deadline) {
		want := e.lastEventBlock()
		got, err := n.lpb(context.Background())
		if err == nil && got >= want {
			return true
		}
		time.Sleep(2 * time.Millisecond)
	}
	return false
}

func scenario(kind string, round int) (stuck string) {
	dir, err := os.MkdirTemp(kit.ScratchBase(), "racefree-")
	if err != nil {
		panic(err)
	}
	defer os.RemoveAll(dir)
	e := &env{chain: simchain.New(), sched: act.New(), kind: kind}
	e.sched.Free = true
	e.extend(1, 2, 0, 1)
	n, err := startNode(e, dir)
	if err != nil {
		return "constructor: " + err.Error()
	}
	step := func(name string, f func()) {
		f()
		if stuck == "" && !waitSynced(e, n, 60*time.Second) {
			stuck = fmt.Sprintf("%s round %d: not synced 60 s after %s", kind, round, name)
		}
	}
	step("start", func() {})
	step("fork(2)", func() { e.fork(2, 1, 0, 1) })
	step("extend", func() { e.extend(1, 1) })
	step("finalize", func() { e.finalize(2) })
	step("fork(1)+extend", func() { e.fork(1, 2); e.extend(0, 1) })
	// a burst of forks while the node is working (no waiting in between)
	step("fork burst", func() {
		for i := 0; i < 3+round%3; i++ {
			e.fork(1+i%2, 1, 1)
			time.Sleep(time.Duration(round%4) * 500 * time.Microsecond)
		}
	})
	// restart on the same files, the chain moving while the node is down
	n.stop()
	e.fork(1, 1)
	e.extend(1)
	n, err = startNode(e, dir)
	if err != nil {
		return "constructor after restart: " + err.Error()
	}
	step("restart", func() {})
	step("fork after restart", func() { e.fork(2, 0, 1, 1) })
	n.stop()
	return stuck
}

func main() {
	rounds := flag.Int("rounds", 8, "rounds per component")
	mode := flag.String("mode", "sync", "sync: the syncer components with forks and restarts | shared: code several goroutines of the node execute at once")
	flag.Parse()
	if os.Getenv("RACEFREE_LOG") == "" {
		kit.Quiet()
	}
	rc := 0
	if *mode == "shared" {
		for r := 0; r < *rounds; r++ {
			for _, p := range append(sharedStores(r), sharedHelpers(r)...) {
				fmt.Println("RACEFREE-WRONG-VALUE", p)
				rc = 4
			}
		}
		fmt.Printf("RACEFREE done mode=shared rounds=%d rc=%d\n", *rounds, rc)
		os.Exit(rc)
	}
	for _, kind := range []string{"l1info", "ger"} {
		for r := 0; r < *rounds; r++ {
			if s := scenario(kind, r); s != "" {
				fmt.Println("RACEFREE-STUCK", s)
				rc = 3
			}
		}
	}
	fmt.Printf("RACEFREE done rounds=%d rc=%d (data races, if any, are reported above by the race detector and exit with its code)\n", *rounds, rc)
	os.Exit(rc)
}
