package main

// "shared" mode — code that several of the node's goroutines execute at the same time.
//
// In a running node the L1 bridge syncer, the L2 bridge syncer and the L1 info tree syncer append to their
// own Merkle trees concurrently, while the aggsender and the RPC services hash leaves, exits and
// certificates. Nothing of that is meant to share mutable state. A change that hoists a scratch buffer
// or a hasher to package scope is invisible to every sequential (or cooperatively scheduled) run; it is a
// data race and a silent corruption only when two goroutines are inside the code at overlapping instants.
//
// This pass runs, free-running and under -race:
//   (a) three real stores (two bridge stores, one L1 info store) fed by one goroutine each, then every
//       recorded root is compared with the reference roots;
//   (b) the pure hash / codec helpers hammered by several goroutines, each comparing with the values it
//       computed for its own inputs before the others started.
// A DATA RACE report (GORACE halt_on_error) or a wrong value makes the process exit non-zero; the
// orchestrator reports either as a violation of the properties that rest on this code.

import (
	"context"
	"crypto/sha256"
	"encoding/json"
	"fmt"
	"math/big"
	"os"
	gosync "sync"
	"time"

	v1nodetypes "buf.build/gen/go/agglayer/agglayer/protocolbuffers/go/agglayer/node/types/v1"
	v1node "buf.build/gen/go/agglayer/agglayer/protocolbuffers/go/agglayer/node/v1"
	v1types "buf.build/gen/go/agglayer/interop/protocolbuffers/go/agglayer/interop/types/v1"
	proverv1grpc "buf.build/gen/go/agglayer/provers/grpc/go/aggkit/prover/v1/proverv1grpc"
	proverv1 "buf.build/gen/go/agglayer/provers/protocolbuffers/go/aggkit/prover/v1"
	agglayergrpc "github.com/agglayer/aggkit/agglayer/grpc"
	agglayertypes "github.com/agglayer/aggkit/agglayer/types"
	"github.com/agglayer/aggkit/aggsender/aggchainproofclient"
	"github.com/agglayer/aggkit/aggsender/optimistic/optimistichash"
	aggsendertypes "github.com/agglayer/aggkit/aggsender/types"
	"github.com/agglayer/aggkit/bridgesync"
	aggkitcommon "github.com/agglayer/aggkit/common"
	cfgtypes "github.com/agglayer/aggkit/config/types"
	aggkitgrpc "github.com/agglayer/aggkit/grpc"
	"github.com/agglayer/aggkit/l1infotreesync"
	"github.com/agglayer/aggkit/tree"
	treetypes "github.com/agglayer/aggkit/tree/types"
	"github.com/ethereum/go-ethereum/common"
	"google.golang.org/grpc"
	"google.golang.org/protobuf/proto"
	"verif/h/ref"
	sk "verif/h/storekit"
)

func sharedStores(round int) (problems []string) {
	dir := sk.ScratchDir()
	defer os.RemoveAll(dir)
	type job struct {
		kind  sk.Kind
		kinds []string
	}
	jobs := []job{
		{sk.Bridge, []string{"bridge2", "bridge", "bridge2", "claim", "bridge3", "bridge2"}},
		{sk.Bridge, []string{"bridge", "bridge3", "bridge2", "bridge2", "tokenmap", "bridge"}},
		{sk.L1Info, []string{"info2", "verify", "info", "info2", "verify+info", "info2"}},
	}
	var (
		wg gosync.WaitGroup
		mu gosync.Mutex
	)
	start := make(chan struct{})
	for ji, j := range jobs {
		wg.Add(1)
		go func(ji int, j job) {
			defer wg.Done()
			n := sk.Open(j.kind, dir)
			defer n.Close()
			chain := sk.NewChain(j.kind)
			<-start
			for rep := 0; rep < 4+round%3; rep++ {
				for _, k := range j.kinds {
					if err := n.Process(chain.Next(k, ji)); err != nil {
						mu.Lock()
						problems = append(problems, fmt.Sprintf("store %d (%s): ProcessBlock(%s): %v", ji, j.kind, k, err))
						mu.Unlock()
						return
					}
				}
			}
			roots := ref.AppendRoots(chain.Leaves())
			for i, want := range roots {
				var got common.Hash
				var err error
				if j.kind == sk.Bridge {
					r, e := n.B.GetExitRootByIndex(context.Background(), uint32(i))
					got, err = r.Hash, e
				} else {
					r, e := n.L.GetL1InfoTreeRootByIndex(context.Background(), uint32(i))
					got, err = r.Hash, e
				}
				if err != nil || got != want {
					mu.Lock()
					problems = append(problems, fmt.Sprintf("store %d (%s): root %d is %s (%v), reference %s", ji, j.kind, i, got.Hex(), err, want.Hex()))
					mu.Unlock()
					return
				}
			}
		}(ji, j)
	}
	close(start)
	wg.Wait()
	return problems
}

func hashInputs(g int) (bs []*bridgesync.Bridge, cert *agglayertypes.Certificate, claims []bridgesync.Claim, leaves []*l1infotreesync.L1InfoTreeLeaf, bigs []*big.Int) {
	for i := 0; i < 6; i++ {
		bs = append(bs, sk.MakeBridge(uint64(10+g), uint64(i), uint32(g*16+i), g))
	}
	mkProof := func(seed byte) *agglayertypes.MerkleProof {
		p := &agglayertypes.MerkleProof{Root: common.BytesToHash([]byte{seed, byte(g)})}
		for i := range p.Proof {
			p.Proof[i] = common.BytesToHash([]byte{seed, byte(i), byte(g)})
		}
		return p
	}
	cert = &agglayertypes.Certificate{NetworkID: uint32(g + 1), Height: uint64(100 + g), PrevLocalExitRoot: common.BytesToHash([]byte{1, byte(g)}),
		NewLocalExitRoot: common.BytesToHash([]byte{2, byte(g)}), Metadata: common.BytesToHash([]byte{3, byte(g)}),
		L1InfoTreeLeafCount: uint32(5 + g)}
	for i := 0; i < 3; i++ {
		be := &agglayertypes.BridgeExit{LeafType: agglayertypes.LeafTypeAsset, TokenInfo: &agglayertypes.TokenInfo{OriginNetwork: uint32(i), OriginTokenAddress: common.BytesToAddress([]byte{byte(g), byte(i)})},
			DestinationNetwork: uint32(g), DestinationAddress: common.BytesToAddress([]byte{9, byte(g), byte(i)}), Amount: big.NewInt(int64(1000*g + i)),
			Metadata: []byte{byte(g), byte(i)}}
		cert.BridgeExits = append(cert.BridgeExits, be)
		l1leaf := &agglayertypes.L1InfoTreeLeaf{L1InfoTreeIndex: uint32(i), RollupExitRoot: common.BytesToHash([]byte{4, byte(g), byte(i)}),
			MainnetExitRoot: common.BytesToHash([]byte{5, byte(g), byte(i)}),
			Inner:           &agglayertypes.L1InfoTreeLeafInner{GlobalExitRoot: common.BytesToHash([]byte{6, byte(g), byte(i)}), BlockHash: common.BytesToHash([]byte{7, byte(g)}), Timestamp: uint64(1000 + i)}}
		cert.ImportedBridgeExits = append(cert.ImportedBridgeExits, &agglayertypes.ImportedBridgeExit{BridgeExit: be,
			ClaimData:   &agglayertypes.ClaimFromMainnnet{ProofLeafMER: mkProof(10), ProofGERToL1Root: mkProof(11), L1Leaf: l1leaf},
			GlobalIndex: &agglayertypes.GlobalIndex{MainnetFlag: true, LeafIndex: uint32(g*8 + i)}})
		claims = append(claims, bridgesync.Claim{GlobalIndex: bridgesync.GenerateGlobalIndex(i%2 == 0, uint32(g+i), uint32(i)), OriginNetwork: uint32(i),
			OriginAddress: common.BytesToAddress([]byte{byte(g), 1, byte(i)}), DestinationAddress: common.BytesToAddress([]byte{byte(g), 2, byte(i)}),
			Amount: big.NewInt(int64(77*g + i)), Metadata: []byte{byte(i), byte(g)}, DestinationNetwork: uint32(g), IsMessage: i%2 == 1})
		leaves = append(leaves, &l1infotreesync.L1InfoTreeLeaf{L1InfoTreeIndex: uint32(i), PreviousBlockHash: common.BytesToHash([]byte{8, byte(g), byte(i)}),
			Timestamp: uint64(50 + i), MainnetExitRoot: common.BytesToHash([]byte{9, byte(g)}), RollupExitRoot: common.BytesToHash([]byte{10, byte(i)}),
			GlobalExitRoot: common.BytesToHash([]byte{11, byte(g), byte(i)})})
		bigs = append(bigs, new(big.Int).Lsh(big.NewInt(int64(3+g*5+i)), uint(17*i+g)))
	}
	cert.AggchainData = &agglayertypes.AggchainDataSignature{Signature: []byte{byte(g)}}
	return
}

func hashAll(g int) []string {
	bs, cert, claims, leaves, bigs := hashInputs(g)
	var out []string
	for _, b := range bs {
		out = append(out, b.Hash().Hex())
	}
	out = append(out, cert.Hash().Hex(), cert.PPHashToSign().Hex(), cert.FEPHashToSign().Hex())
	for _, be := range cert.BridgeExits {
		out = append(out, be.Hash().Hex())
	}
	for _, ib := range cert.ImportedBridgeExits {
		out = append(out, ib.Hash().Hex(), ib.GlobalIndex.Hash().Hex(), fmt.Sprintf("%x", ib.GlobalIndexToLittleEndianBytes()))
	}
	out = append(out, optimistichash.CalculateCommitImportedBrdigeExitsHashFromClaims(claims).Hex())
	for _, c := range claims {
		m, r, l, err := bridgesync.DecodeGlobalIndex(c.GlobalIndex)
		out = append(out, fmt.Sprint(m, r, l, err))
	}
	for _, l := range leaves {
		out = append(out, l.GetHash().Hex(), l.GetGlobalExitRoot().Hex())
	}
	for _, x := range bigs {
		out = append(out, fmt.Sprintf("%x", aggkitcommon.BigIntToLittleEndianBytes(x)))
	}
	var p treetypes.Proof
	for i := range p {
		p[i] = common.BytesToHash([]byte{byte(i), byte(g)})
	}
	for _, idx := range []uint32{0, 1, uint32(5 + g), 1<<31 + uint32(g)} {
		out = append(out, tree.CalculateRoot(leaves[0].GetHash(), p, idx).Hex())
	}
	md := aggsendertypes.NewCertificateMetadata(uint64(100+g), uint32(g), uint32(1000+g), uint8(g%3))
	out = append(out, md.ToHash().Hex())
	if back, err := aggsendertypes.NewCertificateMetadataFromHash(md.ToHash()); err == nil {
		out = append(out, fmt.Sprint(back.FromBlock, back.Offset, back.CreatedAt))
	}
	if raw, err := json.Marshal(cert); err == nil {
		out = append(out, fmt.Sprintf("%x", sha256.Sum256(raw)))
		var again agglayertypes.Certificate
		if json.Unmarshal(raw, &again) == nil {
			out = append(out, again.Hash().Hex())
		}
	}
	// the prover request the ONE aggchain-proof client of the process builds for this certificate's imported exits (tools and
	// the aggsender share a client between goroutines): the bytes the service receives, hashed on arrival
	req := &aggsendertypes.AggchainProofRequest{LastProvenBlock: uint64(g), RequestedEndBlock: uint64(g + 10)} //nolint:mnd
	for i, ib := range cert.ImportedBridgeExits {
		req.ImportedBridgeExitsWithBlockNumber = append(req.ImportedBridgeExitsWithBlockNumber,
			&agglayertypes.ImportedBridgeExitWithBlockNumber{BlockNumber: uint64(g*10 + i), ImportedBridgeExit: ib}) //nolint:mnd
	}
	if _, err := sharedProofClient().GenerateAggchainProof(context.Background(), req); err != nil {
		out = append(out, fmt.Sprintf("prover request error %v", err))
	} else {
		out = append(out, "prover request "+proverStub.digestOf(uint64(g)))
	}
	// the wire message the real gRPC client builds for this certificate
	sub := &captureSubmission{}
	cl := agglayergrpc.NewVerifAgglayerGRPCClient(&aggkitgrpc.ClientConfig{RequestTimeout: cfgtypes.NewDuration(time.Minute)}, nil, nil, sub)
	if _, err := cl.SendCertificate(context.Background(), cert); err == nil && sub.last != nil {
		if wire, err := proto.Marshal(sub.last); err == nil {
			out = append(out, fmt.Sprintf("%x", sha256.Sum256(wire)))
		}
	} else {
		out = append(out, fmt.Sprintf("send error %v", err))
	}
	return out
}

// hashingProver is the prover service behind the shared client: it serialises every request it receives (as the gRPC
// transport would) and keeps the digest per request (keyed by its last proven block)
type hashingProver struct {
	proverv1grpc.AggchainProofServiceClient
	mu      gosync.Mutex
	digests map[uint64]string
}

func (h *hashingProver) GenerateAggchainProof(_ context.Context, in *proverv1.GenerateAggchainProofRequest,
	_ ...grpc.CallOption) (*proverv1.GenerateAggchainProofResponse, error) {
	time.Sleep(50 * time.Microsecond) // the request waits in the transport for a moment before it is written
	raw, err := proto.Marshal(in)
	if err != nil {
		return nil, err
	}
	h.mu.Lock()
	h.digests[in.LastProvenBlock] = fmt.Sprintf("%x", sha256.Sum256(raw))
	h.mu.Unlock()
	return &proverv1.GenerateAggchainProofResponse{AggchainProof: &v1types.AggchainProof{
		AggchainParams: &v1types.FixedBytes32{Value: make([]byte, 32)}, Context: map[string][]byte{}, //nolint:mnd
		Proof: &v1types.AggchainProof_Sp1Stark{Sp1Stark: &v1types.SP1StarkProof{Version: "v", Proof: []byte{1}, Vkey: []byte{2}}}},
		LastProvenBlock: in.LastProvenBlock, EndBlock: in.RequestedEndBlock, LocalExitRootHash: &v1types.FixedBytes32{Value: make([]byte, 32)}}, nil //nolint:mnd
}

func (h *hashingProver) digestOf(k uint64) string {
	h.mu.Lock()
	defer h.mu.Unlock()
	return h.digests[k]
}

var (
	proverStub      = &hashingProver{digests: map[uint64]string{}}
	proofClientOnce gosync.Once
	proofClient     *aggchainproofclient.AggchainProofClient
)

func sharedProofClient() *aggchainproofclient.AggchainProofClient {
	proofClientOnce.Do(func() {
		proofClient = aggchainproofclient.NewVerifAggchainProofClient(&aggkitgrpc.ClientConfig{RequestTimeout: cfgtypes.NewDuration(time.Minute)}, proverStub)
	})
	return proofClient
}

type captureSubmission struct {
	last *v1node.SubmitCertificateRequest
}

func (s *captureSubmission) SubmitCertificate(_ context.Context, in *v1node.SubmitCertificateRequest,
	_ ...grpc.CallOption) (*v1node.SubmitCertificateResponse, error) {
	s.last = in
	return &v1node.SubmitCertificateResponse{CertificateId: &v1nodetypes.CertificateId{
		Value: &v1types.FixedBytes32{Value: make([]byte, 32)}}}, nil
}

func sharedHelpers(round int) (problems []string) {
	const G = 4
	want := make([][]string, G)
	for g := 0; g < G; g++ { // sequentially, before anything runs concurrently
		want[g] = hashAll(g)
		for _, v := range want[g] {
			if len(v) > 10 && v[:10] == "send error" {
				problems = append(problems, "helpers: the gRPC client refused the certificate: "+v)
				return problems
			}
		}
	}
	if os.Getenv("RACEFREE_DUMP") != "" && round == 0 {
		fmt.Println(len(want[0]), "values per goroutine, e.g.", want[0][len(want[0])-3:])
	}
	var (
		wg gosync.WaitGroup
		mu gosync.Mutex
	)
	start := make(chan struct{})
	for g := 0; g < G; g++ {
		wg.Add(1)
		go func(g int) {
			defer wg.Done()
			<-start
			for it := 0; it < 40+round; it++ {
				got := hashAll(g)
				for i := range got {
					if got[i] != want[g][i] {
						mu.Lock()
						problems = append(problems, fmt.Sprintf("helpers: goroutine %d value #%d is %s when computed next to other goroutines, %s when computed alone", g, i, got[i], want[g][i]))
						mu.Unlock()
						return
					}
				}
			}
		}(g)
	}
	close(start)
	wg.Wait()
	return problems
}
