// C13 — certificate bookkeeping survives crashes and a lost database.
//
// Same SUT and environment as C02 (package senderkit): the REAL aggsender loop iteration, status
// checker (incl. the start-up reconciliation of initial_state.go through VerifInit), flows and
// SQLite storage against the model Agglayer. The alphabet adds process stops at the three
// externally visible points of the send path (before submit, after submit before store, after
// store), a stop between iterations, loss of the certificate database, and a failing k-th write
// statement of SaveLastSentCertificate (SQLite triggers installed from a second connection).
// Engine: E-BFS (+ E-FLT triggers), one unit per configuration.
package main

import (
	"fmt"
	"os"
	"path/filepath"
	"strconv"

	"verif/h/kit"
	"verif/h/mc"
	"verif/h/senderkit"
)

func units(tier string) []mc.Unit {
	var us []mc.Unit
	for _, retry := range []bool{false, true} {
		for _, flow := range []string{"PP", "FEP"} {
			for h := range senderkit.HistoryNames {
				cfg := senderkit.Cfg{Flow: flow, Retry: retry, Hist: h, Faults: true}
				us = append(us, mc.Unit{Name: cfg.String(), Params: cfg})
			}
		}
	}
	// the previous local exit root is an optional field of the Agglayer's certificate header: the same exploration
	// against a service that omits it (what a node adopts from such a header has no previous LER)
	for _, flow := range []string{"PP", "FEP"} {
		cfg := senderkit.Cfg{Flow: flow, Retry: false, Hist: 0, Faults: true, NoPrevLER: true}
		us = append(us, mc.Unit{Name: cfg.String(), Params: cfg})
	}
	// MaxRetriesStoreCertificate = 0: the node retries the write of a submitted certificate until it succeeds
	for _, retry := range []bool{false, true} {
		for h := range senderkit.HistoryNames {
			if tier == "quick" && h > 0 {
				continue
			}
			cfg := senderkit.Cfg{Flow: "PP", Retry: retry, Hist: h, Faults: true, StoreRetriesForever: true}
			us = append(us, mc.Unit{Name: cfg.String(), Params: cfg})
		}
	}
	return us
}

func depth(tier string) int {
	if s := os.Getenv("VERIF_C13_DEPTH"); s != "" {
		if n, err := strconv.Atoi(s); err == nil {
			return n
		}
	}
	if tier == "thorough" {
		return 10
	}
	return 7
}

var opts = senderkit.Opts{Crashes: true, MaxCrashEvents: 2, NoAdvance: true, Contradictions: true, NoPlainFailNext: true}

func worldDir(u mc.Unit) string {
	return filepath.Join(senderkit.ScratchRoot(), fmt.Sprintf("c13-%d-%s", os.Getpid(), u.Name))
}

func runUnit(r *mc.Report, base *mc.Ctx, u mc.Unit) {
	cfg := u.Params.(senderkit.Cfg)
	w := senderkit.NewWorld(cfg.Hist, worldDir(u))
	defer w.Close()
	// determinism self-check: one fixed history twice on fresh objects, same key and same observation
	probe := []string{"L2Block", "EpochTick", "InError", "EpochTick/fault@2", "Settle", "L2Block", "EpochTick/crash@afterSubmitBeforeStore", "LoseDB"}
	c1, c2 := &mc.Ctx{UnitName: u.Name}, &mc.Ctx{UnitName: u.Name}
	k1, _ := senderkit.Run(c1, cfg, opts, w, probe)
	k2, _ := senderkit.Run(c2, cfg, opts, w, probe)
	if k1 != k2 || c1.Digest() != c2.Digest() {
		r.Errorf("unit %s: nondeterministic execution of %v", u.Name, probe)
		return
	}
	mc.BFS(r, base, mc.BFSModel{MaxDepth: depth(base.Tier), Build: func(c *mc.Ctx, history []string) (string, []string) {
		return senderkit.Run(c, cfg, opts, w, history)
	}})
}

func replay(c *mc.Ctx, u mc.Unit, v mc.Violation) {
	cfg := u.Params.(senderkit.Cfg)
	w := senderkit.NewWorld(cfg.Hist, worldDir(u)+"-replay")
	defer w.Close()
	o := opts
	o.Verbose = true
	senderkit.Run(c, cfg, o, w, v.History)
}

func main() {
	senderkit.SetDeadlineFromArgs(os.Args)
	mc.Main(mc.Spec{
		ID: "C13", Level: "model_checking",
		Units:   units,
		Batch:   func(string) int { return 1 },
		RunUnit: runUnit,
		Replay:  replay,
		Setup:   func(string) { kit.Quiet() },
		Rule: "unit = (RetryCertAfterInError, flow PP|FEP, L2 history); inside a unit ALL sequences up to the depth bound of the events " +
			"{L2Block, EpochTick, StatusTick, Settle, InError, FailNextAgglayerCall, ProverShort (FEP)} plus " +
			"{Tick/crash@beforeSubmit|afterSubmitBeforeStore|afterStore (the iteration runs with the stop armed; every object is dropped, a new node is built on the same files and the real start-up runs), " +
			"Restart (stop between iterations), LoseDB (certificate DB files deleted, restart), Tick/fault@k (the k-th write statement of the next SaveLastSentCertificate aborts), " +
			"AgglayerLosesLast (the Agglayer forgets its most recent certificate, restart)}, at most 2 such events per history, executed on fresh real objects; " +
			"states merged by the canonical key of C02 plus the crash budget used; non-trivial/distinct = a transition that reached a state not seen before in its unit",
		Assumptions: []string{
			"the model Agglayer follows DESIGN §5.5 (accepts everything, ids = keccak of the submitted JSON, headers carry previous LER and metadata); a call that takes effect and loses its answer is not explored",
			"Agglayer-side situations are nothing / pending / in error / settled (the single-step verdicts Proven and Candidate are explored in C02 only)",
			"'records contradict the Agglayer's' is defined from outside the node: a local certificate id the Agglayer does not know, or a local height above the Agglayer's highest; " +
				"the only event that produces it is AgglayerLosesLast, an addition to the alphabet of the DESIGN made so that 'refuses to proceed' is exercised at all",
			"'never completes' = the start-up reconciliation still fails after 3 retries with an unchanged Agglayer; a node whose flow start-up check returns an error (Start panics on it) counts as not started",
			"bounded progress after a restart is probed on the objects of the execution: the Agglayer settles what is open, then at most two epoch ticks must submit if unsent L2 bridge exits or claims exist",
			"crash points are the call boundaries of the send path (SQLite's own atomic commit is trusted); crash points and storage faults are placed on iterations in states where nothing is undecided and something is unsent " +
				"(elsewhere an iteration does not reach the send path; a stop there is the Restart event); storage faults are one-shot, so the node's own retry (MaxRetriesStoreCertificate=2) follows the failed write",
			"time is the deterministic fake clock of a synctest bubble; every event happens 100 s after the previous one",
			"nothing is claimed beyond the depth bound",
		},
		Bounds: func(tier string) map[string]any {
			return map[string]any{"depth": depth(tier), "max_crash_or_fault_events_per_history": 2, "configurations": "16 + 2 with Agglayer headers that omit the previous LER",
				"l2_histories": senderkit.HistoryNames, "fault_positions": "1..3 (a save has 1 or 3 write statements)", "MaxRetriesStoreCertificate": 2}
		},
	})
}
