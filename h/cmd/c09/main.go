// C09 — claim proofs inside a certificate verify against the L1 info root it names.
//
// SUT: the same real certificate builder executions as C03 (package certworld): flows.NewPPFlow
// over real bridgesync / l1infotreesync stores, the real L1InfoTreeDataQuerier over a hand-written
// L1 node fake that reports the finalized block. Space: scenarios with claims of both origins
// (mainnet, rollup B), several L1 info updates per L1 block, claims against older GERs, × every
// position of the finalized pointer. Oracle: the Agglayer's verification steps re-implemented on
// package ref (certworld.OracleC09).
package main

import (
	"verif/h/certworld"
	"verif/h/kit"
	"verif/h/mc"
)

func main() {
	mc.Main(mc.Spec{
		ID: "C09", Level: "exploration",
		Units: func(tier string) []mc.Unit { return certworld.UnitsOf(certworld.FamiliesC09(tier)) },
		Batch: certworld.BatchSize,
		Run: func(c *mc.Ctx, u mc.Unit) {
			certworld.Run(c, u, certworld.OptionsC09(c.Tier), certworld.OracleC09)
		},
		Setup:       func(string) { kit.Quiet() },
		Rule:        certworld.RuleC09,
		Assumptions: certworld.Assumptions,
		Bounds:      certworld.BoundsC09,
	})
}
