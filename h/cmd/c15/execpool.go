package main

import (
	"bufio"
	"encoding/json"
	"fmt"
	"io"
	"os"
	"os/exec"
	gosync "sync"
)

// Executions are carried out by child processes of this binary (argument childFlag): a child reads
// one JSON request per line (unit parameters + history), runs execute on fresh real objects, and
// answers one JSON line with everything the execution observed. A child is retired after
// childMaxExecs executions, which bounds the descriptors leaked by the store constructor.

const (
	childFlag     = "--c15-exec-child"
	childMaxExecs = 1500
)

type request struct {
	P params
	H []string
}

type result struct {
	Key     string
	Enabled []string
	Obs     []string
	Fails   [][2]string
	Wit     []string
	Err     string
}

// recorder is the sink of a child execution.
type recorder struct{ res result }

func (r *recorder) Obs(format string, args ...any) {
	r.res.Obs = append(r.res.Obs, fmt.Sprintf(format, args...))
}
func (r *recorder) Failf(key string, format string, args ...any) {
	r.res.Fails = append(r.res.Fails, [2]string{key, fmt.Sprintf(format, args...)})
}
func (r *recorder) Witness(name string) { r.res.Wit = append(r.res.Wit, name) }

func childMain() {
	in := bufio.NewReaderSize(os.Stdin, 1<<20)
	out := bufio.NewWriter(os.Stdout)
	enc := json.NewEncoder(out)
	for {
		line, err := in.ReadBytes('\n')
		if len(line) > 0 {
			var req request
			rec := &recorder{}
			if e := json.Unmarshal(line, &req); e != nil {
				rec.res.Err = "child: bad request: " + e.Error()
			} else {
				func() {
					defer func() {
						if x := recover(); x != nil {
							rec.res.Err = fmt.Sprintf("child: panic during history %v: %v", req.H, x)
						}
					}()
					key, en, e := execute(rec, req.P, req.H)
					if e != nil {
						rec.res.Err = e.Error()
					}
					rec.res.Key, rec.res.Enabled = key, en
				}()
			}
			enc.Encode(rec.res)
			out.Flush()
		}
		if err != nil {
			return
		}
	}
}

type child struct {
	cmd   *exec.Cmd
	in    io.WriteCloser
	out   *bufio.Reader
	execs int
}

type execPool struct {
	mu   gosync.Mutex
	idle []*child
}

var pool = &execPool{}

func (p *execPool) get() (*child, error) {
	p.mu.Lock()
	if n := len(p.idle); n > 0 {
		c := p.idle[n-1]
		p.idle = p.idle[:n-1]
		p.mu.Unlock()
		return c, nil
	}
	p.mu.Unlock()
	exe, err := os.Executable()
	if err != nil {
		return nil, err
	}
	cmd := exec.Command(exe, childFlag)
	cmd.Stderr = os.Stderr
	in, err := cmd.StdinPipe()
	if err != nil {
		return nil, err
	}
	outp, err := cmd.StdoutPipe()
	if err != nil {
		return nil, err
	}
	if err := cmd.Start(); err != nil {
		return nil, err
	}
	return &child{cmd: cmd, in: in, out: bufio.NewReaderSize(outp, 1<<20)}, nil
}

func (c *child) stop() {
	c.in.Close()
	c.cmd.Wait()
}

// do runs one execution in a child process.
func (p *execPool) do(req request) result {
	c, err := p.get()
	if err != nil {
		return result{Err: "cannot start an execution child: " + err.Error()}
	}
	line, _ := json.Marshal(req)
	if _, err := c.in.Write(append(line, '\n')); err != nil {
		c.stop()
		return result{Err: "execution child: write: " + err.Error()}
	}
	ans, err := c.out.ReadBytes('\n')
	if err != nil {
		c.stop()
		return result{Err: fmt.Sprintf("execution child died during history %v: %v", req.H, err)}
	}
	var res result
	if err := json.Unmarshal(ans, &res); err != nil {
		c.stop()
		return result{Err: "execution child: bad answer: " + err.Error()}
	}
	c.execs++
	if c.execs >= childMaxExecs {
		c.stop()
	} else {
		p.mu.Lock()
		p.idle = append(p.idle, c)
		p.mu.Unlock()
	}
	return res
}
