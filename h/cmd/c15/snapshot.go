package main

// Snapshot family: the oracle's read (L1InfoTreeSync.GetLatestInfoUntilBlock, several statements) against ONE transaction of
// the syncer (the next block, or a reorg from any block) that lands between two of its statements — every history, every
// sampled block, every writer, every statement position. The answer must be the one the same call gives on the store before
// the writer or on the store after it: a mixture (the "is the block processed" answer of one store and the leaf of the other)
// is a root that is the most recent one at or below the sampled block in no view of L1 the syncer ever held.

import (
	"context"
	"errors"
	"fmt"
	"strings"

	"github.com/agglayer/aggkit/l1infotreesync"
	"verif/h/kit"
	"verif/h/mc"
	sk "verif/h/storekit"
)

type snapParams struct {
	History []string
}

var snapKinds = []string{"empty", "info", "info2"}

func snapshotUnits(tier string) []mc.Unit {
	maxLen := 3
	if tier == "thorough" {
		maxLen = 4
	}
	var us []mc.Unit
	var rec func(h []string)
	rec = func(h []string) {
		if len(h) > 0 {
			us = append(us, mc.Unit{Name: "snapshot:" + strings.Join(h, ","), Params: snapParams{History: append([]string{}, h...)}})
		}
		if len(h) == maxLen {
			return
		}
		for _, k := range snapKinds {
			rec(append(h, k))
		}
	}
	rec(nil)
	return us
}

func answer(leaf *l1infotreesync.L1InfoTreeLeaf, err error) string {
	switch {
	case err == nil && leaf != nil:
		return fmt.Sprintf("leaf %d (block %d, ger %s)", leaf.L1InfoTreeIndex, leaf.BlockNumber, leaf.GlobalExitRoot.Hex()[:10])
	case errors.Is(err, l1infotreesync.ErrBlockNotProcessed):
		return "block-not-processed"
	case errors.Is(err, l1infotreesync.ErrNotFound):
		return "not-found"
	default:
		return fmt.Sprintf("error(%v)", err)
	}
}

func runSnapshot(c *mc.Ctx, u mc.Unit) {
	p := u.Params.(snapParams)
	ctx := context.Background()
	dir := sk.ScratchDir()
	defer kit.RemoveScratch(dir)
	n := sk.Open(sk.L1Info, dir)
	defer n.Close()
	chain := sk.NewChain(sk.L1Info)
	for _, k := range p.History {
		if err := n.Process(chain.Next(k, 0)); err != nil {
			c.Failf("snapshot/ProcessBlock-error", "history %v: %v", p.History, err)
			return
		}
	}
	tip := chain.Tip()
	// the block the oracle sampled: any processed block, or the one after the tip
	x := uint64(1 + c.Choose(int(tip)+1, "sampled-block"))
	// the syncer's transaction: a reorg from block b (1..tip), or the next block of each kind
	wi := c.Choose(int(tip)+len(snapKinds), "syncer-transaction")
	var wname string
	var writer func()
	if wi < int(tip) {
		b := uint64(wi + 1)
		wname = fmt.Sprintf("Reorg(%d)", b)
		writer = func() {
			if err := n.Reorg(b); err != nil {
				panic(fmt.Sprintf("c15 snapshot: %s: %v", wname, err))
			}
		}
	} else {
		kind := snapKinds[wi-int(tip)]
		wname = fmt.Sprintf("ProcessBlock(%d:%s)", tip+1, kind)
		blk := chain.Next(kind, 1)
		writer = func() {
			if err := n.Process(blk); err != nil {
				panic(fmt.Sprintf("c15 snapshot: %s: %v", wname, err))
			}
		}
	}
	read := func() string { return answer(n.L.GetLatestInfoUntilBlock(ctx, x)) }
	// positions of the read, and its answer on the store before the writer
	var before string
	positions, _, _ := n.ReadWithWriterAt(0, nil, func() { before = read() })
	if positions == 0 {
		c.Failf("snapshot/harness", "the read compiled no SELECT statement: the statement gate does not see this store's connections")
		return
	}
	at := 1 + c.Choose(positions, "statement-before-which-the-transaction-lands")
	var during string
	_, landed, closed := n.ReadWithWriterAt(at, writer, func() { during = read() })
	where := fmt.Sprintf("history %v, oracle samples block %d, %s lands before statement %d of %d of GetLatestInfoUntilBlock", p.History, x, wname, at, positions)
	switch {
	case closed:
		c.Witness("positions_closed_by_the_readers_transaction")
		if during != before {
			c.Failf("snapshot/answer-changed-without-a-writer", "%s: no transaction could land (the read holds the write lock), yet the answer is %s instead of %s", where, during, before)
		}
		c.Obs("%s: closed -> %s", where, during)
		c.NonTrivial()
		return
	case !landed:
		// the read needed fewer statements this time (e.g. it returned early): nothing landed
		c.Witness("positions_not_reached")
		c.Obs("%s: not reached -> %s", where, during)
		return
	}
	c.Witness("transactions_landed_inside_a_read")
	after := read()
	c.NonTrivial()
	c.Obs("%s: before=%s during=%s after=%s", where, before, during, after)
	if during != before && during != after {
		c.Failf("snapshot/answer-of-no-single-store-state", "%s: the call answered %s; on the store before the transaction it answers %s, on the store after it %s", where, during, before, after)
	}
	if before != after {
		c.Witness("reads_whose_answer_the_transaction_changes")
	}
}
