package main

import (
	"context"
	"errors"
	"fmt"
	"math/big"
	"os"
	"sort"
	"strings"
	"time"

	"github.com/agglayer/aggkit/aggoracle"
	"github.com/agglayer/aggkit/l1infotreesync"
	"github.com/agglayer/aggkit/sync"
	aggkittypes "github.com/agglayer/aggkit/types"
	"github.com/ethereum/go-ethereum"
	"github.com/ethereum/go-ethereum/common"
	"github.com/ethereum/go-ethereum/core/types"
	"verif/h/kit"
	"verif/h/ref"
)

// ---------------------------------------------------------------------------------------------
// events

const (
	evBlockInfo  = "L1Block+info"
	evBlockEmpty = "L1Block"
	evFinalize   = "Finalize"
	evSync       = "SyncerProcess"
	evTick       = "Tick"
	evTickHdr    = "Tick+failing:header"     // the finality header fetch fails once
	evTickHdrNF  = "Tick+failing:header-notfound" // ... with the node's "not found" answer (ethereum.NotFound)
	evTickQuery  = "Tick+failing:infoquery"  // GetLatestInfoUntilBlock fails once with a non-sentinel error
	evTickCheck  = "Tick+failing:isinjected" // IsGERInjected fails once
	evTickInject = "Tick+failing:inject"     // InjectGER fails once (nothing reaches L2)
	evForeign    = "ForeignInject"           // somebody else injects the latest root at or below the finalized block
	evForeignOld = "ForeignInject(retry-target)"
	// an L1 reorg replaces every block from R on (R above the finalized block and above the start state's blocks);
	// the syncer, if it holds such blocks, is rewound to R-1 at once (its driver's Reorg); the unit's block pattern
	// is replayed from there with different content. At most one per history.
	evReorgTip  = "L1Reorg(tip)"
	evReorgDeep = "L1Reorg(first-unfinalized)"
	// ... the latest root at or below the OLDEST finalized block sampled since the last decision
	// (what an oracle that is retrying its first target would pick), when that is another root.
)

var errInjected = errors.New("verif: injected transient failure")

// ---------------------------------------------------------------------------------------------
// reference side: the L1 chain as the harness built it, and the leaves it contains

type refLeaf struct {
	idx   int
	block uint64
	pos   uint64
	ger   common.Hash
}

func (l *refLeaf) String() string { return fmt.Sprintf("g%d@b%d", l.idx, l.block) }

type l1block struct {
	num    uint64
	hash   common.Hash
	events []any
}

func tagRank(n int64) int {
	switch n {
	case int64(aggkittypes.Finalized):
		return 0
	case int64(aggkittypes.Safe):
		return 1
	case int64(aggkittypes.Latest):
		return 2
	case int64(aggkittypes.Pending):
		return 3
	}
	return -1
}

// sink receives what an execution observes; *mc.Ctx is one, the child-process recorder another.
type sink interface {
	Obs(format string, args ...any)
	Failf(key string, format string, args ...any)
	Witness(name string)
}

// world = the model environment + the real objects of ONE execution.
type world struct {
	c    sink
	p    params
	hist []string // the history being executed (for messages)
	live bool     // oracles are evaluated (last event of the history, and the probe)
	note string
	mute bool   // diagnostic continuation: no observations
	p1   string // a P1 violation found by the last event; reported at the end of the execution

	// model
	blocks  []l1block // blocks[i] has number i+1
	nInit   int       // blocks of the start state (never reorged)
	forks   int       // L1 reorgs so far (salt of the content of blocks appended afterwards)
	rewound int       // blocks the syncer's store had processed and a reorg removed from it (part of the state key: the
	// store object lived through a rewind, which a fresh store that never held those blocks did not)
	nPat    int       // blocks appended from the unit's pattern
	fin     uint64    // block currently reported for the configured finality tag
	pos     uint64    // last block the syncer has processed
	leaves  []*refLeaf
	byGER   map[common.Hash]*refLeaf
	l2      map[common.Hash]bool
	l2Other []string // roots on L2 that are no reference leaf (only a broken oracle puts them there)
	btf     uint64   // the oracle loop's local variable blockNumToFetch

	// oracle bookkeeping
	samples []uint64 // finalized blocks the client returned since the last decision (in order)
	behind  []uint64 // sampled blocks on which a fault-free tick gave up because the syncer had not reached them

	// real objects
	dir    string
	syncer *l1infotreesync.L1InfoTreeSync
	oracle *aggoracle.AggOracle
	cfgTag int64

	// current tick
	arm      string
	fired    bool
	decided  bool
	calls    []string
	lastSend string
}

func newWorld(c sink, p params) (*world, error) {
	w := &world{c: c, p: p, byGER: map[common.Hash]*refLeaf{}, l2: map[common.Hash]bool{}}
	parent := os.Getenv("VERIF_SCRATCH")
	if parent == "" {
		parent = "/dev/shm"
	}
	dir, err := os.MkdirTemp(parent, "c15-")
	if err != nil {
		return nil, err
	}
	w.dir = dir
	w.syncer, err = l1infotreesync.NewVerifL1InfoTreeSync(dir + "/l1info.sqlite")
	if err != nil {
		os.RemoveAll(dir)
		return nil, err
	}
	fin := aggkittypes.NewBlockNumberFinality(p.Tag)
	n, err := fin.ToBlockNum()
	if err != nil {
		w.close()
		return nil, err
	}
	w.cfgTag = n.Int64()
	w.oracle, err = aggoracle.New(kit.Logger(), (*sender)(w), (*l1client)(w), (*infoFacade)(w), fin, time.Hour)
	if err != nil {
		w.close()
		return nil, err
	}
	return w, nil
}

func (w *world) close() {
	if w.syncer != nil {
		w.syncer.VerifDB().Close()
	}
	os.RemoveAll(w.dir)
}

func (w *world) tip() uint64 { return uint64(len(w.blocks)) }

// reorgFloor: the lowest block an L1 reorg may replace (above the finalized block, above the start state's
// blocks, and — so that the pattern can be rewound — a block that came from the unit's pattern).
func (w *world) reorgFloor() uint64 {
	lo := w.fin + 1
	if n := uint64(w.nInit) + 1; n > lo {
		lo = n
	}
	if first := w.tip() - uint64(w.nPat) + 1; first > lo {
		lo = first
	}
	return lo
}

// latestLeaf is the reference answer to "most recent leaf at or below block b".
func (w *world) latestLeaf(b uint64) *refLeaf {
	var best *refLeaf
	for _, l := range w.leaves {
		if l.block <= b && (best == nil || l.block > best.block || (l.block == best.block && l.pos > best.pos)) {
			best = l
		}
	}
	return best
}

func (w *world) gerName(g common.Hash) string {
	if l := w.byGER[g]; l != nil {
		return l.String()
	}
	return "unknown:" + g.Hex()[:10]
}

func (w *world) obs(format string, args ...any) {
	if !w.mute {
		w.c.Obs(format, args...)
	}
}

func (w *world) witness(name string) {
	if w.live && !w.mute {
		w.c.Witness(name)
	}
}

func (w *world) failf(key, format string, args ...any) {
	if !w.live {
		return
	}
	w.c.Failf(key, "[tag=%s updates/block=%d start=%q history=%v%s] %s", w.p.Tag, w.p.Upd, preambles[w.p.Init],
		w.hist, w.note, fmt.Sprintf(format, args...))
}

// ---------------------------------------------------------------------------------------------
// fake / recording dependencies (all are views of *world)

type l1client world

func (f *l1client) HeaderByNumber(_ context.Context, number *big.Int) (*types.Header, error) {
	w := (*world)(f)
	if w.arm == evTickHdr {
		w.arm, w.fired = "", true
		w.calls = append(w.calls, "header→ERR")
		return nil, errInjected
	}
	if w.arm == evTickHdrNF {
		w.arm, w.fired = "", true
		w.calls = append(w.calls, "header→NOTFOUND")
		return nil, fmt.Errorf("%w: %w", errInjected, ethereum.NotFound)
	}
	var n uint64
	what := ""
	switch {
	case number == nil:
		n, what = w.tip(), "nil"
	case number.Sign() >= 0:
		n, what = number.Uint64(), number.String()
		if n > w.tip() {
			w.calls = append(w.calls, fmt.Sprintf("header(%s)→notfound", what))
			return nil, ethereum.NotFound
		}
	default:
		r, cfg := tagRank(number.Int64()), tagRank(w.cfgTag)
		what = fmt.Sprintf("tag%d", number.Int64())
		switch {
		case number.Int64() == w.cfgTag:
			n, what = w.fin, "configured-tag"
		case r < 0:
			n = 0 // earliest / unknown tag
		case r > cfg:
			n = w.tip() // a less final tag: the chain tip
		default:
			n = w.fin / 2 // a more final tag: some earlier block
		}
	}
	if n == w.fin {
		// this block has the configured finality now and is the most recent such block
		if !containsU(w.samples, n) {
			w.samples = append(w.samples, n)
		}
	}
	w.calls = append(w.calls, fmt.Sprintf("header(%s)→%d", what, n))
	return &types.Header{Number: new(big.Int).SetUint64(n)}, nil
}

var errUnsupported = errors.New("verif: call not provided by the model L1 client")

func (f *l1client) unsupported(name string) error {
	w := (*world)(f)
	w.calls = append(w.calls, name+"→unsupported")
	return errUnsupported
}
func (f *l1client) BlockByHash(context.Context, common.Hash) (*types.Block, error) {
	return nil, f.unsupported("BlockByHash")
}
func (f *l1client) BlockByNumber(context.Context, *big.Int) (*types.Block, error) {
	return nil, f.unsupported("BlockByNumber")
}
func (f *l1client) HeaderByHash(context.Context, common.Hash) (*types.Header, error) {
	return nil, f.unsupported("HeaderByHash")
}
func (f *l1client) TransactionCount(context.Context, common.Hash) (uint, error) {
	return 0, f.unsupported("TransactionCount")
}
func (f *l1client) TransactionInBlock(context.Context, common.Hash, uint) (*types.Transaction, error) {
	return nil, f.unsupported("TransactionInBlock")
}
func (f *l1client) SubscribeNewHead(context.Context, chan<- *types.Header) (ethereum.Subscription, error) {
	return nil, f.unsupported("SubscribeNewHead")
}

// infoFacade forwards to the REAL l1infotreesync facade; it can fail once.
type infoFacade world

func (f *infoFacade) GetLatestInfoUntilBlock(ctx context.Context, b uint64) (*l1infotreesync.L1InfoTreeLeaf, error) {
	w := (*world)(f)
	if w.arm == evTickQuery {
		w.arm, w.fired = "", true
		w.calls = append(w.calls, fmt.Sprintf("info(≤%d)→ERR", b))
		return nil, errInjected
	}
	leaf, err := w.syncer.GetLatestInfoUntilBlock(ctx, b)
	switch {
	case err == nil:
		w.calls = append(w.calls, fmt.Sprintf("info(≤%d)→%s", b, w.gerName(leaf.GlobalExitRoot)))
	case errors.Is(err, l1infotreesync.ErrBlockNotProcessed):
		w.calls = append(w.calls, fmt.Sprintf("info(≤%d)→not-processed", b))
	case errors.Is(err, l1infotreesync.ErrNotFound):
		w.calls = append(w.calls, fmt.Sprintf("info(≤%d)→not-found", b))
	default:
		w.calls = append(w.calls, fmt.Sprintf("info(≤%d)→error(%v)", b, err))
	}
	return leaf, err
}

// sender is the recording L2 side; the safety clauses are evaluated at the moment of the call.
type sender world

func (s *sender) IsGERInjected(g common.Hash) (bool, error) {
	w := (*world)(s)
	if w.arm == evTickCheck {
		w.arm, w.fired = "", true
		w.calls = append(w.calls, fmt.Sprintf("isInjected(%s)→ERR", w.gerName(g)))
		w.lastSend = "isInjected-error"
		return false, errInjected
	}
	is := w.l2[g]
	w.calls = append(w.calls, fmt.Sprintf("isInjected(%s)→%v", w.gerName(g), is))
	w.lastSend = fmt.Sprintf("isInjected %s %v", g.Hex(), is)
	if is {
		w.decided = true
	}
	return is, nil
}

func (s *sender) InjectGER(_ context.Context, g common.Hash) error {
	w := (*world)(s)
	name := w.gerName(g)
	// (1) the root is the most recent leaf at or below a block sampled as finalized
	ok := false
	for _, sm := range w.samples {
		if l := w.latestLeaf(sm); l != nil && l.ger == g {
			ok = true
		}
	}
	if !ok {
		var want []string
		for _, sm := range w.samples {
			if l := w.latestLeaf(sm); l != nil {
				want = append(want, fmt.Sprintf("%s(≤%d)", l, sm))
			} else {
				want = append(want, fmt.Sprintf("nothing(≤%d)", sm))
			}
		}
		leaf := w.byGER[g]
		switch {
		case leaf == nil:
			w.failf("inject/unknown-root", "InjectGER(%s): the L1 info tree holds no such root; calls of the tick: %v", g.Hex(), w.calls)
		case leaf.block > w.fin:
			w.failf("inject/not-finalized", "InjectGER(%s): its leaf is in block %d but the block with the configured finality is %d "+
				"(sampled since the last decision: %v); calls of the tick: %v", name, leaf.block, w.fin, w.samples, w.calls)
		default:
			w.failf("inject/not-most-recent", "InjectGER(%s): not the most recent root at or below a block sampled as finalized "+
				"since the last decision (samples %v allow %v; finalized now %d); calls of the tick: %v", name, w.samples, want, w.fin, w.calls)
		}
	}
	// (2) asked and answered "not injected" immediately before
	if w.lastSend != fmt.Sprintf("isInjected %s false", g.Hex()) {
		w.failf("inject/without-presence-check", "InjectGER(%s) was not immediately preceded by IsGERInjected of the same root answering false "+
			"(previous sender call: %q); calls of the tick: %v", name, w.lastSend, w.calls)
	}
	// (3) not on L2 already
	if w.l2[g] {
		w.failf("inject/already-present", "InjectGER(%s): L2 already has this root; calls of the tick: %v", name, w.calls)
	}
	if w.arm == evTickInject {
		w.arm, w.fired = "", true
		w.calls = append(w.calls, fmt.Sprintf("inject(%s)→ERR", name))
		w.lastSend = "inject-error"
		return errInjected
	}
	w.calls = append(w.calls, fmt.Sprintf("inject(%s)→ok", name))
	w.lastSend = "inject " + g.Hex()
	if !w.l2[g] && w.byGER[g] == nil {
		w.l2Other = append(w.l2Other, g.Hex())
	}
	w.l2[g] = true
	w.decided = true
	w.witness("injections")
	return nil
}

// ---------------------------------------------------------------------------------------------
// transitions

func keccakTag(tag string, a, b uint64) common.Hash {
	return ref.Keccak([]byte(tag), new(big.Int).SetUint64(a).Bytes(), []byte{'/'}, new(big.Int).SetUint64(b).Bytes())
}

func (w *world) addBlock(withInfo bool) {
	num := w.tip() + 1
	salt := uint64(w.forks)
	b := l1block{num: num, hash: keccakTag("block", num, salt)}
	if withInfo {
		parent := keccakTag("block", num-1, 0)
		if num >= 2 {
			parent = w.blocks[num-2].hash
		}
		for k := 0; k < w.p.Upd; k++ {
			pos := uint64(2 + 3*k) // increasing log positions inside the block
			mer, rer := keccakTag("mer", num, pos+1000*salt), keccakTag("rer", num, pos+1000*salt)
			b.events = append(b.events, l1infotreesync.Event{UpdateL1InfoTree: &l1infotreesync.UpdateL1InfoTree{
				BlockPosition: pos, MainnetExitRoot: mer, RollupExitRoot: rer, ParentHash: parent, Timestamp: 1_700_000_000 + 12*num}})
			l := &refLeaf{idx: len(w.leaves), block: num, pos: pos, ger: ref.GER(mer, rer)}
			w.leaves = append(w.leaves, l)
			w.byGER[l.ger] = l
		}
	}
	w.blocks = append(w.blocks, b)
}

func (w *world) foreignTargets() (cur, old *refLeaf) {
	cur = w.latestLeaf(w.fin)
	if cur != nil && w.l2[cur.ger] {
		cur = nil
	}
	if len(w.samples) > 0 {
		old = w.latestLeaf(w.samples[0])
		if old != nil && (w.l2[old.ger] || old == w.latestLeaf(w.fin)) {
			old = nil
		}
	}
	return
}

// enabled lists the events of Σ enabled in the current state, in canonical order.
func (w *world) enabled() []string {
	var en []string
	if w.nPat < len(w.p.Pattern) {
		if w.p.Pattern[w.nPat] {
			en = append(en, evBlockInfo)
		} else {
			en = append(en, evBlockEmpty)
		}
	}
	if w.fin < w.tip() {
		en = append(en, evFinalize)
	}
	if w.pos < w.tip() {
		en = append(en, evSync)
	}
	if w.p.Reorg && w.forks == 0 {
		if lo := w.reorgFloor(); lo <= w.tip() {
			en = append(en, evReorgTip)
			if lo < w.tip() {
				en = append(en, evReorgDeep)
			}
		}
	}
	en = append(en, evTick, evTickHdr, evTickHdrNF, evTickQuery, evTickCheck, evTickInject)
	cur, old := w.foreignTargets()
	if cur != nil {
		en = append(en, evForeign)
	}
	if old != nil {
		en = append(en, evForeignOld)
	}
	return en
}

// step executes one event on the real objects and the model. fromPattern: the block counts
// against the unit's pattern (false inside the start preamble).
func (w *world) step(ev string, fromPattern bool) error {
	switch ev {
	case evBlockInfo, evBlockEmpty:
		if fromPattern {
			if w.nPat >= len(w.p.Pattern) || w.p.Pattern[w.nPat] != (ev == evBlockInfo) {
				return fmt.Errorf("event %s does not follow the unit's block pattern", ev)
			}
			w.nPat++
		}
		w.addBlock(ev == evBlockInfo)
		w.obs("%s → tip %d", ev, w.tip())
	case evFinalize:
		if w.fin >= w.tip() {
			return fmt.Errorf("Finalize not enabled")
		}
		w.fin++
		w.obs("Finalize → %d", w.fin)
	case evSync:
		if w.pos >= w.tip() {
			return fmt.Errorf("SyncerProcess not enabled")
		}
		b := w.blocks[w.pos]
		if err := w.syncer.VerifStore().ProcessBlock(context.Background(), sync.Block{Num: b.num, Hash: b.hash, Events: b.events}); err != nil {
			return fmt.Errorf("real store ProcessBlock(%d): %w", b.num, err)
		}
		w.pos++
		w.obs("SyncerProcess → %d", w.pos)
	case evReorgTip, evReorgDeep:
		lo := w.reorgFloor()
		if !w.p.Reorg || w.forks > 0 || lo > w.tip() || (ev == evReorgDeep && lo == w.tip()) {
			return fmt.Errorf("%s not enabled", ev)
		}
		r := w.tip()
		if ev == evReorgDeep {
			r = lo
		}
		dropped := int(w.tip() - r + 1)
		w.blocks = w.blocks[:r-1]
		w.nPat -= dropped
		w.forks++
		var kept []*refLeaf
		for _, l := range w.leaves {
			if l.block < r {
				kept = append(kept, l)
			} else {
				delete(w.byGER, l.ger)
			}
		}
		w.leaves = kept
		if w.pos >= r {
			if err := w.syncer.VerifStore().Reorg(context.Background(), r); err != nil {
				return fmt.Errorf("real store Reorg(%d): %w", r, err)
			}
			w.rewound += int(w.pos - (r - 1))
			w.pos = r - 1
			w.witness("syncer_rewound_by_l1_reorg")
		}
		w.obs("%s: blocks from %d on replaced → tip %d, syncer at %d", ev, r, w.tip(), w.pos)
	case evTick:
		w.tick("")
	case evTickHdr, evTickHdrNF, evTickQuery, evTickCheck, evTickInject:
		w.tick(ev)
	case evForeign, evForeignOld:
		cur, old := w.foreignTargets()
		t := cur
		if ev == evForeignOld {
			t = old
		}
		if t == nil {
			return fmt.Errorf("%s not enabled", ev)
		}
		w.l2[t.ger] = true
		w.obs("%s %s", ev, t)
	default:
		return fmt.Errorf("unknown event %q", ev)
	}
	return nil
}

func errClass(err error) string {
	switch {
	case err == nil:
		return "nil"
	case errors.Is(err, l1infotreesync.ErrBlockNotProcessed):
		return "ErrBlockNotProcessed"
	case errors.Is(err, l1infotreesync.ErrNotFound):
		return "ErrNotFound"
	case errors.Is(err, l1infotreesync.ErrNoBlock0):
		return "ErrNoBlock0"
	case errors.Is(err, errInjected):
		return "transient(" + strings.SplitN(err.Error(), ":", 2)[0] + ")"
	}
	return "error(" + err.Error() + ")"
}

// tick runs ONE body of the oracle's loop through the hook and evaluates the progress clause P1.
func (w *world) tick(fail string) {
	w.arm, w.fired, w.decided, w.calls, w.lastSend = fail, false, false, nil, ""
	btfBefore := w.btf
	err := w.oracle.VerifTick(context.Background(), &w.btf)
	w.arm = ""
	name := evTick
	if fail != "" {
		name = fail
		if !w.fired {
			name += "(not reached)"
		}
	}
	w.obs("%s: calls %v, returns %s, blockNumToFetch %d→%d", name, w.calls, errClass(err), btfBefore, w.btf)
	faultFree := !w.fired

	// P1: a fault-free tick at which the syncer has processed a block S on which an earlier
	// fault-free tick had given up (syncer behind S), while the most recent root ≤ S is still not on
	// L2, must reach a decision (inject, or find a root already injected).
	if faultFree && !w.decided {
		var due, keep []uint64
		for _, s := range w.behind {
			switch {
			case w.pos < s:
				keep = append(keep, s)
			case !w.l2[w.latestLeaf(s).ger]:
				due = append(due, s)
			}
			// (syncer caught up but the root ≤ s reached L2 by other means: nothing is owed any more)
		}
		// a tick whose armed failure was never reached IS the plain Tick; that history reports it
		if len(due) > 0 && w.live && fail == "" {
			s := due[0]
			w.p1 = fmt.Sprintf("an earlier fault-free tick sampled finalized block %d and gave up because the syncer was behind it; now the syncer has "+
				"processed %d ≥ %d, no dependency failed, %s is the most recent root ≤ %d and is not on L2 — but the tick reached no decision: "+
				"calls %v, returned %s, blockNumToFetch %d→%d (finalized now %d)",
				s, w.pos, s, w.latestLeaf(s), s, w.calls, errClass(err), btfBefore, w.btf, w.fin)
		}
		w.behind = keep
	}
	if !faultFree {
		// A transient failure may cost the oracle its progress (it may start over with a fresh
		// sample): obligations are only carried across fault-free ticks. The samples stay admissible.
		w.behind = nil
	}
	if w.decided {
		if len(w.behind) > 0 {
			w.witness("decisions_after_waiting_for_syncer")
		}
		w.samples, w.behind = nil, nil
		return
	}
	if faultFree {
		for _, s := range w.samples {
			if w.pos < s && w.latestLeaf(s) != nil && !containsU(w.behind, s) {
				w.behind = append(w.behind, s)
				w.witness("ticks_giving_up_syncer_behind")
			}
		}
		sort.Slice(w.behind, func(i, j int) bool { return w.behind[i] < w.behind[j] })
	}
}

func containsU(l []uint64, x uint64) bool {
	for _, y := range l {
		if y == x {
			return true
		}
	}
	return false
}

// starvation continues (on the same objects, only to enrich the report of a P1 violation) the
// schedule in which finality stays one block ahead of the syncer at every tick: per round one new
// block with an info update, Finalize, Tick, SyncerProcess. It reports how many rounds pass
// without any injection although each round adds a finalized root that the syncer then holds.
func (w *world) starvation() string {
	w.live, w.mute = false, true
	const rounds = 12
	before := len(w.l2)
	// bring the syncer to one block below the finalized block first
	for w.pos+1 < w.fin {
		if err := w.step(evSync, false); err != nil {
			return ""
		}
	}
	n := 0
	for r := 0; r < rounds; r++ {
		w.addBlock(true)
		for w.fin < w.tip() {
			w.fin++
		}
		for w.pos+1 < w.fin {
			if err := w.step(evSync, false); err != nil {
				return ""
			}
		}
		w.arm, w.fired, w.decided, w.calls, w.lastSend = "", false, false, nil, ""
		_ = w.oracle.VerifTick(context.Background(), &w.btf)
		if w.decided {
			w.samples, w.behind = nil, nil
		}
		n++
		if len(w.l2) > before {
			return fmt.Sprintf("; continuing with rounds of (new block with info update, finalize up to the tip, syncer up to finalized-1, Tick): first injection after %d rounds", n)
		}
	}
	synced := 0
	for _, l := range w.leaves {
		if l.block <= w.pos && l.block <= w.fin && !w.l2[l.ger] {
			synced++
		}
	}
	return fmt.Sprintf("; continuing with %d rounds of (new block with info update, finalize up to the tip, syncer up to finalized-1, fault-free Tick): "+
		"0 injections in %d ticks although %d finalized roots held by the syncer are not on L2 (starvation while finality stays ahead of the syncer)",
		rounds, n, synced)
}

// probe evaluates P2 on the reached state: with the environment frozen, if the syncer is at or
// ahead of the finalized block and the most recent finalized root is not on L2, a bounded number
// of fault-free ticks must put it there.
const probeTicks = 3

func (w *world) probe() {
	if w.pos < w.fin {
		return
	}
	g := w.latestLeaf(w.fin)
	if g == nil || w.l2[g.ger] {
		return
	}
	w.live = true
	var trace []string
	for k := 1; k <= probeTicks && !w.l2[g.ger]; k++ {
		w.note = fmt.Sprintf(" +frozen-environment probe tick %d", k)
		w.arm, w.fired, w.decided, w.calls, w.lastSend = "", false, false, nil, ""
		b := w.btf
		err := w.oracle.VerifTick(context.Background(), &w.btf)
		trace = append(trace, fmt.Sprintf("tick%d: calls %v returns %s blockNumToFetch %d→%d", k, w.calls, errClass(err), b, w.btf))
		if w.decided {
			w.samples, w.behind = nil, nil
		}
	}
	w.note = ""
	w.obs("probe: %v", trace)
	if !w.l2[g.ger] {
		w.failf("progress/finalized-synced-root-never-injected",
			"state: tip %d, finalized %d, syncer at %d (not behind), most recent finalized root %s not on L2 (L2 has %s), blockNumToFetch before the probe as in the log; "+
				"%d fault-free ticks with the environment frozen did not inject it: %v", w.tip(), w.fin, w.pos, g, w.l2String(), probeTicks, trace)
	} else {
		w.witness("probe_injected_pending_root")
	}
}

func (w *world) l2String() string {
	var s []string
	for _, l := range w.leaves {
		if w.l2[l.ger] {
			s = append(s, l.String())
		}
	}
	o := append([]string{}, w.l2Other...)
	sort.Strings(o)
	return "{" + strings.Join(append(s, o...), ",") + "}"
}

// key is the canonical state: chain shape (start preamble and pattern are fixed by the unit, so
// the number of blocks determines it), finalized pointer, syncer position, L2 root set, the
// oracle's loop variable, and the bookkeeping the property's oracle carries between ticks.
func (w *world) key() string {
	forks := ""
	if w.forks > 0 {
		// after a reorg the content of the replayed blocks differs: which blocks are old ones
		forks = fmt.Sprintf(" forks=%d@%s rewound=%d", w.forks, w.contentSig(), w.rewound)
	}
	return fmt.Sprintf("tip=%d fin=%d pos=%d l2=%s btf=%d samples=%v behind=%v%s", w.tip(), w.fin, w.pos, w.l2String(), w.btf,
		dedupSorted(w.samples), w.behind, forks)
}

// contentSig: a digest of the block hashes (identifies which blocks belong to which fork).
func (w *world) contentSig() string {
	var bs []byte
	for _, b := range w.blocks {
		bs = append(bs, b.hash[:4]...)
	}
	return ref.Keccak(bs).Hex()[:10]
}

func dedupSorted(l []uint64) []uint64 {
	m := append([]uint64{}, l...)
	sort.Slice(m, func(i, j int) bool { return m[i] < m[j] })
	var out []uint64
	for i, x := range m {
		if i == 0 || x != m[i-1] {
			out = append(out, x)
		}
	}
	return out
}
