// C15 — the GER oracle injects only finalized, current, not-yet-present roots.
//
// SUT: the real aggoracle.AggOracle driven one loop body at a time (VerifTick = processLatestGER +
// its error handling; the loop variable blockNumToFetch is kept by the harness exactly as Start
// keeps it), the REAL l1infotreesync store behind the real facade (blocks are fed through
// ProcessBlock), a hand-written L1 client that answers HeaderByNumber(tag) from the model chain,
// and a recording ChainSender that is the model L2 contract.
//
// Engine E-BFS: the model environment (L1 chain, finalized pointer, syncer position, L2 root set)
// plus the oracle's loop variable form the state; every transition re-executes the whole history
// on fresh real objects. The reference (list of leaves of the model chain, "latest leaf at or
// below b") is computed by the harness, never by asking the store.
//
// Every store construction leaks ≈3.7 descriptors (RunMigrations keeps a *sql.DB open) and the
// sandbox caps a process at 20000, so the executions of a unit are carried out by short-lived
// child processes of this same binary (execpool.go); the search itself is mc.BFS in the worker.
package main

import (
	"fmt"
	"os"
	gosync "sync"

	"verif/h/kit"
	"verif/h/mc"
	sk "verif/h/storekit"
)

type params struct {
	Tag     string // configured finality
	Upd     int    // info-tree updates inside a block that has any
	Init    int    // index into preambles: the start state
	Pattern []bool // kind of the k-th block appended during the search (true: with info update)
	Depth   int
	Reorg   bool // one L1 reorg of unfinalized pattern blocks may happen (event L1Reorg)
}

// preambles are executed (through the same real transition function) before the search starts;
// they are not counted in the depth.
var preambles = [][]string{
	{},
	// one root finalized, synced and injected; one more empty block on top
	{evBlockInfo, evBlockEmpty, evFinalize, evFinalize, evSync, evSync, evTick},
	// finality two blocks ahead of the syncer, nothing injected yet
	{evBlockInfo, evBlockInfo, evBlockEmpty, evFinalize, evFinalize, evFinalize, evSync},
}

func patternName(p []bool) string {
	s := ""
	for _, b := range p {
		if b {
			s += "i"
		} else {
			s += "e"
		}
	}
	return s
}

// family: all 2^Blocks sequences of block kinds, searched to Depth.
type family struct{ Blocks, Depth int }

func families(tier string) ([]family, []int) {
	if tier == "thorough" {
		return []family{{2, 12}, {3, 11}, {4, 9}}, []int{0, 1, 2}
	}
	return []family{{2, 9}, {3, 8}, {4, 6}}, []int{0, 1}
}

// depthFor: the third start state (finality two blocks ahead of the syncer) has a much larger
// neighbourhood; it is searched one level less so that units stay comparable in cost.
func depthFor(f family, init int) int {
	if init == 2 {
		return f.Depth - 1
	}
	return f.Depth
}

func units(tier string) []mc.Unit {
	tags := []string{"FinalizedBlock", "SafeBlock", "LatestBlock"}
	fams, inits := families(tier)
	var us []mc.Unit
	n := 0
	for _, f := range fams {
		for _, init := range inits {
			if tier != "thorough" && f.Blocks == 4 && init != 0 {
				continue // quick: the 4-block family only from the empty start state
			}
			for pat := 0; pat < 1<<f.Blocks; pat++ {
				bits := make([]bool, f.Blocks)
				for k := range bits {
					bits[k] = pat>>(f.Blocks-1-k)&1 == 1
				}
				// the configuration (finality tag, updates per info block) rotates over the units
				p := params{Tag: tags[n%3], Upd: 1 + (n/3)%2, Init: init, Pattern: bits, Depth: depthFor(f, init), Reorg: f.Blocks <= 3}
				n++
				us = append(us, mc.Unit{Name: fmt.Sprintf("start=%d,blocks=%s,depth=%d,upd=%d,tag=%s", init, patternName(bits), p.Depth, p.Upd, p.Tag), Params: p})
			}
		}
	}
	return us
}

// execute is ONE execution: fresh real objects, start preamble, the history, then the state key,
// the enabled events, and the frozen-environment probe (P2).
func execute(c sink, p params, history []string) (string, []string, error) {
	w, err := newWorld(c, p)
	if err != nil {
		return "", nil, fmt.Errorf("cannot build the world: %w", err)
	}
	defer w.close()
	w.hist = history
	pre := preambles[p.Init]
	for i, ev := range pre {
		w.live = len(history) == 0 && i == len(pre)-1
		if err := w.step(ev, false); err != nil {
			return "", nil, fmt.Errorf("preamble event %d %s: %w", i, ev, err)
		}
	}
	w.nInit = len(w.blocks)
	for i, ev := range history {
		w.live = i == len(history)-1
		if err := w.step(ev, true); err != nil {
			return "", nil, fmt.Errorf("history %v event %d: %w", history, i, err)
		}
	}
	w.live = false
	key := w.key()
	en := w.enabled()
	c.Obs("state %s", key)
	if len(w.behind) > 0 {
		c.Witness("executions_ending_with_oracle_waiting_for_syncer")
	}
	if w.pos < w.fin {
		c.Witness("executions_ending_syncer_behind_finalized")
	}
	if w.pos > w.fin {
		c.Witness("executions_ending_syncer_ahead_of_finalized")
	}
	w.probe()
	if w.p1 != "" {
		msg := w.p1
		msg += w.starvation()
		w.live, w.mute = true, false
		w.failf("progress/gives-up-again-after-syncer-caught-up", "%s", msg)
	}
	return key, en, nil
}

var errMu gosync.Mutex

func harnessError(r *mc.Report, format string, args ...any) {
	errMu.Lock()
	defer errMu.Unlock()
	r.Errorf(format, args...)
}

func runUnit(r *mc.Report, base *mc.Ctx, u mc.Unit) {
	if _, ok := u.Params.(snapParams); ok {
		mc.Explore(r, base, -1, func(c *mc.Ctx) { runSnapshot(c, u) })
		return
	}
	p := u.Params.(params)
	mc.BFS(r, base, mc.BFSModel{MaxDepth: p.Depth, Build: func(c *mc.Ctx, h []string) (string, []string) {
		res := pool.do(request{P: p, H: h})
		if res.Err != "" {
			harnessError(r, "unit %s: %s", base.UnitName, res.Err)
			return "error", nil
		}
		for _, o := range res.Obs {
			c.Obs("%s", o)
		}
		for _, f := range res.Fails {
			c.Failf(f[0], "%s", f[1])
		}
		for _, w := range res.Wit {
			c.Witness(w)
		}
		return res.Key, res.Enabled
	}})
}

// replay executes the recorded history in this process (one execution).
func replay(c *mc.Ctx, u mc.Unit, v mc.Violation) {
	if _, ok := u.Params.(snapParams); ok {
		runSnapshot(c, u)
		return
	}
	if _, _, err := execute(c, u.Params.(params), v.History); err != nil {
		c.Obs("HARNESS ERROR %v", err)
	}
}

func main() {
	if len(os.Args) > 1 && os.Args[1] == childFlag {
		kit.Quiet()
		childMain()
		return
	}
	mc.Main(mc.Spec{
		ID: "C15", Level: "model_checking",
		Units:   func(tier string) []mc.Unit { return append(units(tier), snapshotUnits(tier)...) },
		Batch:   func(tier string) int { return 1 },
		RunUnit: runUnit,
		Replay:  replay,
		Setup:   func(string) { kit.Quiet(); sk.InstallStatementGate() },
		Rule: "unit = (start state, kinds of the blocks appended during the search, depth; finality tag and info updates per block rotate " +
			"over the units); inside a unit E-BFS over all histories of the events {L1Block, Finalize, SyncerProcess, Tick, Tick with one " +
			"failing dependency (4 kinds), ForeignInject (2 targets), L1Reorg(tip | first unfinalized pattern block; at most one; units with <= 3 pattern blocks)} up to the depth bound, each transition re-executed from scratch on a " +
			"fresh real store and a fresh real oracle; states merged by (chain, finalized, syncer position, L2 roots, blockNumToFetch, " +
			"oracle bookkeeping, after a reorg: fork content and how many blocks the store was rewound); non-trivial/distinct = executions reaching a state not seen before in the unit",
		Assumptions: []string{
			"an L1 reorg replaces unfinalized blocks only, and the syncer's store is rewound at once when it holds replaced blocks (detection delays of the reorg detector are C06); the replaced blocks are produced again by the unit's block pattern with different content",
			"GERs are unique per leaf (exit roots come from append-only trees)",
			"a failing dependency fails the next call of that kind once within the tick; failures of the store inside a transaction are C07",
			"one oracle process; a second injector appears only as ForeignInject",
			"the model L1 client answers the configured tag with the model's finalized pointer, a less final tag with the chain tip, a more final tag with an earlier block",
			"progress is decided as bounded response: (P1) after a fault-free tick gave up on sampled block S because the syncer was behind, the first fault-free tick with the syncer at or past S and the root ≤ S still missing on L2 must decide (a failing dependency in between restarts the obligation); (P2) with the environment frozen, the syncer not behind the finalized block and the newest finalized root missing on L2, 3 fault-free ticks must inject it",
		},
		Bounds: func(tier string) map[string]any {
			fams, inits := families(tier)
			var fs []string
			for _, f := range fams {
				fs = append(fs, fmt.Sprintf("all 2^%d block-kind sequences to depth %d (start state 2: %d)", f.Blocks, f.Depth, f.Depth-1))
			}
			if tier != "thorough" {
				fs = append(fs, "the 4-block family only from the empty start state")
			}
			return map[string]any{"families": fs, "start_states": len(inits), "updates_per_info_block": "1..2 (rotating)",
				"tags": "FinalizedBlock, SafeBlock, LatestBlock (rotating)", "probe_ticks": probeTicks}
		},
	})
}
