// C14 — a syncer that detects an inconsistency fails stop.
//
// SUT: the real *bridgesync.BridgeSync and *l1infotreesync.L1InfoTreeSync facades over real SQLite
// stores (storekit). Blocks are handed to the store's real ProcessBlock / Reorg (the write side the
// EVM driver uses); queries go through the facade, and EVERY exported facade method is found and
// invoked by reflection (reflectq.go), with arguments generated from the parameter types.
//
// Engine E-BFS. The reference model is (list of good blocks believed stored, halted flag, the
// refused block, "a reorg has removed blocks before"). Its state graph is tiny and is computed
// first (pure Go, no code under test); ONE UNIT = ONE REFERENCE STATE at depth < D, reached on
// fresh real objects through its shortest event history; the unit executes every enabled event
// from it (mc.BFS with depth 1 from that root), so the union of the units is exactly the set of
// transitions a global breadth-first search with state merging executes, and it shards.
//
// Oracle, evaluated in the state reached by every executed transition:
//   - the last processed block (un-guarded write-side interface) equals the reference tip after
//     EVERY event: a refused block or a reorg that removes nothing moves nothing;
//   - reference halted  ⇒ every data query, for every generated argument tuple, returns an error
//     that errors.Is(sync.ErrInconsistentState); ProcessBlock returns it too (good or bad block);
//   - reference not halted ⇒ no exported method returns ErrInconsistentState, good blocks are
//     accepted, the facade's last processed block and all tree roots equal the reference;
//   - a reorg un-halts iff it removed at least one stored block.
package main

import (
	"errors"
	"fmt"
	"reflect"
	"sort"
	"strconv"
	"strings"
	gosync "sync"

	"github.com/agglayer/aggkit/bridgesync"
	"github.com/agglayer/aggkit/l1infotreesync"
	aggsync "github.com/agglayer/aggkit/sync"
	"verif/h/kit"
	"verif/h/mc"
	"verif/h/ref"
	sk "verif/h/storekit"
)

var stores = []sk.Kind{sk.Bridge, sk.L1Info}

// goodKinds: block contents the store must accept ("v2" is a CONSISTENT root announcement).
func goodKinds(store sk.Kind, tier string) []string {
	if store == sk.Bridge {
		return []string{"bridge", "bridge2", "claim", "empty"}
	}
	// "empty": a block without events (the driver hands such blocks over too: range markers, buffered blocks)
	return []string{"info", "v2", "verify", "empty"}
}

func depth(tier string) int {
	if tier == "thorough" {
		return 7
	}
	return 5
}

var leavesOf = map[string]int{"bridge": 1, "bridge2": 2, "bridge+claim": 1, "info": 1, "info2": 2, "v2": 1, "verify+info": 1}

// ---------------------------------------------------------------------------------------------
// reference model

type mstate struct {
	Kinds   []string // good blocks believed stored (numbers 1..len)
	Halted  bool
	GapKind string // the block that halted the store
	Refused uint64 // its number
	Reorged bool   // some reorg has removed stored blocks before (sticky)
	// Recovered: the store was halted before and a reorg un-halted it (sticky). The reference behaves the same afterwards,
	// but the node is a long-lived object that has been through a halt: merging it with a node that never halted would
	// assume what the property is about (a second halt must work like the first).
	Recovered bool
}

func (s mstate) tip() uint64 { return uint64(len(s.Kinds)) }
func (s mstate) leaves() int {
	n := 0
	for _, k := range s.Kinds {
		n += leavesOf[k]
	}
	return n
}
func (s mstate) key() string {
	return fmt.Sprintf("%s|halted=%v:%s@%d|reorged=%v|recovered=%v", strings.Join(s.Kinds, ","), s.Halted, s.GapKind, s.Refused, s.Reorged, s.Recovered)
}

func enabled(store sk.Kind, tier string, s mstate) []string {
	var en []string
	for _, k := range goodKinds(store, tier) {
		en = append(en, "g:"+k)
	}
	gaps := sk.GapKinds[store]
	if s.Halted {
		en = append(en, "x:"+gaps[0]) // a halted store does not look at the block
	} else {
		for _, g := range gaps {
			if sk.GapApplicable(g, s.leaves()) {
				en = append(en, "x:"+g)
			}
		}
		en = append(en, "x:"+gaps[0]+"@2") // the same, one block number further (syncers skip blocks without events)
	}
	pts := map[uint64]bool{1: true, (s.tip() + 1) / 2: true, s.tip(): true, s.tip() + 1: true}
	if s.Halted {
		pts[s.Refused] = true
	}
	delete(pts, 0)
	var ps []uint64
	for p := range pts {
		ps = append(ps, p)
	}
	sort.Slice(ps, func(i, j int) bool { return ps[i] < ps[j] })
	for _, p := range ps {
		en = append(en, fmt.Sprintf("r:%d", p))
	}
	if s.Halted {
		// the same reorgs, each preceded by failed attempts: a storage fault at every row write of the reorg's
		// transaction (a failed reorg removes nothing, so it must not clear the halt)
		for _, p := range ps {
			if p <= s.tip() {
				en = append(en, fmt.Sprintf("f:%d", p))
			}
		}
	}
	return en
}

type event struct {
	Op   byte // g, x, r
	Kind string
	Far  bool
	At   uint64
}

func parseEvent(ev string) (event, error) {
	if len(ev) < 3 || ev[1] != ':' {
		return event{}, fmt.Errorf("bad event %q", ev)
	}
	e := event{Op: ev[0], Kind: ev[2:]}
	switch e.Op {
	case 'g':
	case 'x':
		if strings.HasSuffix(e.Kind, "@2") {
			e.Far, e.Kind = true, strings.TrimSuffix(e.Kind, "@2")
		}
	case 'r', 'f':
		n, err := strconv.ParseUint(e.Kind, 10, 64)
		if err != nil {
			return event{}, fmt.Errorf("bad event %q", ev)
		}
		e.At = n
	default:
		return event{}, fmt.Errorf("bad event %q", ev)
	}
	return e, nil
}

// apply is the reference transition. removed: blocks a reorg removed.
func apply(s mstate, e event) (t mstate, removed int) {
	t = s
	t.Kinds = append([]string{}, s.Kinds...)
	switch e.Op {
	case 'g':
		if !s.Halted {
			t.Kinds = append(t.Kinds, e.Kind)
		}
	case 'x':
		if !s.Halted {
			t.Halted, t.GapKind, t.Refused = true, e.Kind, s.tip()+1
			if e.Far {
				t.Refused++
			}
		}
	case 'r', 'f':
		if e.At <= s.tip() {
			removed = int(s.tip() - e.At + 1)
			t.Kinds = t.Kinds[:e.At-1]
			t.Reorged = true
			if s.Halted {
				t.Halted, t.GapKind, t.Refused = false, "", 0
				t.Recovered = true
			}
		}
	}
	return t, removed
}

// modelNode is one reachable reference state with its shortest history.
type modelNode struct {
	Store   sk.Kind
	History []string
	Depth   int
}

var (
	modelMu    gosync.Mutex
	modelCache = map[string][]modelNode{}
	modelSize  = map[string]map[string]int{}
)

// explore computes the reference state graph by BFS up to depth D and returns the states with
// depth < D (the ones that get expanded) in BFS order.
func explore(tier string) []modelNode {
	modelMu.Lock()
	defer modelMu.Unlock()
	if m, ok := modelCache[tier]; ok {
		return m
	}
	var out []modelNode
	sizes := map[string]int{}
	D := depth(tier)
	for _, store := range stores {
		type qn struct {
			s mstate
			h []string
		}
		seen := map[string]bool{mstate{}.key(): true}
		frontier := []qn{{mstate{}, nil}}
		total, trans := 1, 0
		for d := 0; d < D; d++ {
			var next []qn
			for _, n := range frontier {
				out = append(out, modelNode{Store: store, History: n.h, Depth: d})
				for _, ev := range enabled(store, tier, n.s) {
					e, _ := parseEvent(ev)
					t, _ := apply(n.s, e)
					trans++
					if !seen[t.key()] {
						seen[t.key()] = true
						total++
						next = append(next, qn{t, append(append([]string{}, n.h...), ev)})
					}
				}
			}
			frontier = next
		}
		sizes[string(store)+"_reference_states"] = total
		sizes[string(store)+"_transitions"] = trans
	}
	modelCache[tier] = out
	modelSize[tier] = sizes
	return out
}

type params struct {
	Store   sk.Kind
	History []string
}

func units(tier string) []mc.Unit {
	var us []mc.Unit
	for _, n := range explore(tier) {
		us = append(us, mc.Unit{Name: fmt.Sprintf("%s:[%s]", n.Store, strings.Join(n.History, " ")),
			Params: params{Store: n.Store, History: n.History}})
	}
	return us
}

// ---------------------------------------------------------------------------------------------
// classification (once per process and store)

var (
	classMu  gosync.Mutex
	classes  = map[sk.Kind]*classification{}
	classErr = map[sk.Kind]error{}
)

func classOf(store sk.Kind) (*classification, error) {
	classMu.Lock()
	defer classMu.Unlock()
	if c, ok := classes[store]; ok {
		return c, classErr[store]
	}
	dir := sk.ScratchDir()
	defer kit.RemoveScratch(dir)
	c, err := classify(store, dir)
	classes[store], classErr[store] = c, err
	return c, err
}

// ---------------------------------------------------------------------------------------------
// one execution

var errMu gosync.Mutex

func harnessError(r *mc.Report, format string, args ...any) {
	errMu.Lock()
	defer errMu.Unlock()
	r.Errorf(format, args...)
}

type herr struct{ msg string }

func isInc(err error) bool { return errors.Is(err, aggsync.ErrInconsistentState) }

// execute runs history on fresh real objects, checking every step, and evaluates the full oracle
// in the final state when fullOracle is set. It returns the state key (reference + what the real
// store shows) and the events enabled there.
func execute(c *mc.Ctx, tier string, store sk.Kind, history []string, fullOracle bool) (key string, en []string, he *herr) {
	cl, err := classOf(store)
	if err != nil {
		return "", nil, &herr{err.Error()}
	}
	dir := sk.ScratchDir()
	defer kit.RemoveScratch(dir)
	n := sk.Open(store, dir)
	defer n.Close()
	chain := sk.NewChain(store)
	m := mstate{}
	S := string(store)
	cause := "initial-state"
	lastUnhalted := false
	// frontier: the number of leaves the store's IN-MEMORY append frontier stands at, followed only to
	// NAME one known defect precisely (a reorg does not reset it); -1: not initialised / rebuilt from the database.
	frontier := -1
	faultsInstalled := false
	for i, ev := range history {
		e, perr := parseEvent(ev)
		if perr != nil {
			return "", nil, &herr{perr.Error()}
		}
		next, removed := apply(m, e)
		lastUnhalted = false
		switch e.Op {
		case 'g':
			if m.Halted {
				blk := chain.Clone().Next(e.Kind, 0)
				err := n.Process(blk)
				c.Obs("#%d %s: block %d offered while halted -> %v", i, ev, blk.Num, err)
				switch {
				case err == nil:
					c.Failf(S+"/ProcessBlock/accepts-block-while-halted", "history %v: ProcessBlock(%d, kind %s) returned nil although the store halted on block %d (%s) and no reorg removed a block since",
						history[:i+1], blk.Num, e.Kind, m.Refused, m.GapKind)
					return "failed", nil, nil
				case !isInc(err):
					c.Failf(S+"/ProcessBlock/wrong-error-while-halted", "history %v: ProcessBlock(%d) returned %q, want sync.ErrInconsistentState", history[:i+1], blk.Num, err)
				default:
					c.Witness("block_refused_while_halted")
				}
				cause = "after-block-offered-to-halted-store"
			} else {
				blk := chain.Next(e.Kind, 0)
				err := n.Process(blk)
				c.Obs("#%d %s: good block %d -> %v", i, ev, blk.Num, err)
				if err != nil {
					key := S + "/ProcessBlock/good-block-refused"
					if m.Reorged {
						key = S + "/ProcessBlock/good-block-refused-after-reorg"
					}
					c.Failf(key, "history %v: ProcessBlock(%d, kind %s) on a store that is not halted (reference) failed: %v", history[:i+1], blk.Num, e.Kind, err)
					return "failed", nil, nil
				}
				if m.Reorged {
					c.Witness("good_block_accepted_after_reorg")
				}
				if leavesOf[e.Kind] > 0 {
					frontier = len(chain.Leaves())
				}
				cause = "after-good-block"
			}
		case 'x':
			if !m.Halted && fullOracle {
				// the API has been serving queries before the store halts: every data query is invoked on the same
				// objects right before the inconsistent block arrives (answers cached then must not outlive the halt)
				if he := warmUp(c, cl, n, chain, m); he != nil {
					return "", nil, he
				}
			}
			num := chain.Tip() + 1
			if e.Far {
				num++
			}
			blk := chain.GapBlock(num, e.Kind)
			err := n.Process(blk)
			c.Obs("#%d %s: inconsistent block %d -> %v", i, ev, blk.Num, err)
			switch {
			case err == nil:
				key := S + "/ProcessBlock/inconsistent-block-accepted"
				if m.Reorged && !m.Halted {
					key = S + "/ProcessBlock/inconsistent-block-accepted-after-reorg"
					if dc, ok := firstDeposit(blk); ok && frontier >= 0 && frontier != len(chain.Leaves()) && int(dc) == frontier {
						// the skipped-to index is exactly where the frontier stood before the reorg
						key = S + "/ProcessBlock/gap-matching-pre-reorg-frontier-accepted"
					}
				}
				lpb, _ := n.W.GetLastProcessedBlock(nil)
				c.Failf(key, "history %v: ProcessBlock(%d, %s: %s) returned nil and the last processed block is now %d; the reference tree has %d leaves",
					history[:i+1], blk.Num, e.Kind, describe(blk), lpb, len(chain.Leaves()))
				return "failed", nil, nil // the store has left the reference: nothing further can be said
			case !isInc(err):
				c.Failf(S+"/ProcessBlock/inconsistent-block-wrong-error", "history %v: ProcessBlock(%d, %s) returned %q, want sync.ErrInconsistentState", history[:i+1], blk.Num, e.Kind, err)
			case !m.Halted:
				frontier = -1 // the failed append rebuilt the frontier from the database
				c.Witness("halted_by_" + e.Kind)
				if m.Reorged {
					c.Witness("halted_again_after_reorg")
				}
			}
			cause = "after-inconsistent-block"
			if m.Halted {
				cause = "after-block-offered-to-halted-store"
			}
		case 'r', 'f':
			var err error
			if e.Op == 'f' {
				// failed attempts first: a storage fault at row write 1, 2, ... of the reorg's transaction, until the
				// armed position lies beyond its last write and the reorg goes through un-faulted
				if !faultsInstalled {
					n.InstallFaultTriggers()
					faultsInstalled = true
				}
				done := false
				// first a failed attempt whose every statement succeeds and whose COMMIT fails (k = 0)
				for k := 0; k <= 400 && !done; k++ {
					if k == 0 {
						n.ArmCommit(true)
					} else {
						n.Arm(k)
					}
					ferr := n.Reorg(e.At)
					n.Arm(-1)
					if ferr == nil {
						done = true
						break
					}
					c.Witness("failed_reorg_attempts_while_halted")
					c.Obs("#%d %s: reorg attempt with a fault at write %d -> %v", i, ev, k, ferr)
					lpbNow, lerr := n.W.GetLastProcessedBlock(nil)
					if lerr != nil || lpbNow != chain.Tip() {
						c.Failf(S+"/Reorg/failed-reorg-removed-blocks", "history %v: Reorg(%d) failed (fault at write %d: %v) but the last processed block is %d (err %v), was %d",
							history[:i+1], e.At, k, ferr, lpbNow, lerr, chain.Tip())
						return "failed", nil, nil
					}
					if m.Halted && !n.Halted() {
						c.Failf(S+"/Reorg/failed-reorg-clears-halt", "history %v: Reorg(%d) FAILED (storage fault at row write %d of its transaction: %v) and removed nothing, "+
							"but the store is no longer halted (it halted on block %d, %s)", history[:i+1], e.At, k, ferr, m.Refused, m.GapKind)
						return "failed", nil, nil
					}
				}
				if !done {
					return "", nil, &herr{"reorg fault loop did not end"}
				}
			} else {
				err = n.Reorg(e.At)
			}
			c.Obs("#%d %s: reorg -> %v (reference: removes %d blocks)", i, ev, err, removed)
			if err != nil {
				c.Failf(S+"/Reorg/error", "history %v: Reorg(%d) failed: %v", history[:i+1], e.At, err)
				return "failed", nil, nil
			}
			if got := chain.Truncate(e.At); got != removed {
				return "", nil, &herr{fmt.Sprintf("reference chain removed %d blocks, model %d", got, removed)}
			}
			switch {
			case m.Halted && removed == 0:
				c.Witness("reorg_removing_nothing_while_halted")
				cause = "after-reorg-that-removed-nothing"
			case m.Halted:
				c.Witness("unhalting_reorg")
				cause = "after-reorg-that-removed-blocks"
				lastUnhalted = true
			case removed == 0:
				cause = "after-reorg-that-removed-nothing"
			default:
				cause = "after-reorg-that-removed-blocks"
			}
		}
		m = next
		if m.tip() != chain.Tip() || m.leaves() != len(chain.Leaves()) {
			return "", nil, &herr{fmt.Sprintf("model and reference chain disagree: tip %d/%d leaves %d/%d", m.tip(), chain.Tip(), m.leaves(), len(chain.Leaves()))}
		}
		// stops advancing / nothing moves that should not: un-guarded write-side view
		lpb, err := n.W.GetLastProcessedBlock(nil)
		if err != nil || lpb != chain.Tip() {
			key := S + "/last-processed-block-not-reference"
			if m.Halted {
				key = S + "/last-processed-block-moves-while-halted"
			}
			c.Failf(key, "history %v: store's last processed block is %d (err %v), reference tip %d (halted=%v)", history[:i+1], lpb, err, chain.Tip(), m.Halted)
			return "failed", nil, nil
		}
	}
	realHalted := n.Halted()
	lpb, _ := n.W.GetLastProcessedBlock(nil)
	key = fmt.Sprintf("%s || real: halted=%v lpb=%d", m.key(), realHalted, lpb)
	c.Obs("state %s", key)
	if fullOracle {
		if he := oracle(c, cl, n, chain, m, history, cause); he != nil {
			return "", nil, he
		}
		if lastUnhalted && !c.Failed() {
			probeContinuation(c, tier, n, chain, history)
		}
	}
	return key, enabled(store, tier, m), nil
}

func firstDeposit(b aggsync.Block) (uint32, bool) {
	for _, e := range b.Events {
		if ev, ok := e.(bridgesync.Event); ok && ev.Bridge != nil {
			return ev.Bridge.DepositCount, true
		}
	}
	return 0, false
}

// describe renders the tree-relevant content of a block.
func describe(b aggsync.Block) string {
	var parts []string
	for _, e := range b.Events {
		switch ev := e.(type) {
		case bridgesync.Event:
			if ev.Bridge != nil {
				parts = append(parts, fmt.Sprintf("deposit#%d", ev.Bridge.DepositCount))
			} else {
				parts = append(parts, "other")
			}
		case l1infotreesync.Event:
			switch {
			case ev.UpdateL1InfoTree != nil:
				parts = append(parts, "leaf")
			case ev.UpdateL1InfoTreeV2 != nil:
				parts = append(parts, fmt.Sprintf("announce(count=%d,root=%s)", ev.UpdateL1InfoTreeV2.LeafCount, ev.UpdateL1InfoTreeV2.CurrentL1InfoRoot.Hex()[:10]))
			default:
				parts = append(parts, "other")
			}
		}
	}
	return strings.Join(parts, ",")
}

// oracle invokes every exported method of the facade with every generated argument tuple.
// warmUp invokes every data query with the first generated argument tuples (the same ones the oracle starts with
// afterwards), ignoring the answers.
const warmTuples = 8

func warmUp(c *mc.Ctx, cl *classification, n *sk.Node, chain *sk.Chain, m mstate) *herr {
	p := statePools(chain, []uint64{m.Refused})
	fac := reflect.ValueOf(facadeOf(n))
	for _, q := range cl.Methods {
		tl, err := tuples(q, p, warmTuples)
		if err != nil {
			return &herr{err.Error()}
		}
		for _, args := range tl {
			if a := invoke(fac, q, args, false); a.Panic != "" {
				return &herr{fmt.Sprintf("method %s panicked (%s): %s", q.Name, a.Call, a.Panic)}
			}
		}
	}
	c.Witness("queries_served_right_before_the_halting_block")
	return nil
}

func oracle(c *mc.Ctx, cl *classification, n *sk.Node, chain *sk.Chain, m mstate, history []string, cause string) *herr {
	S := string(n.Kind)
	p := statePools(chain, []uint64{m.Refused})
	fac := reflect.ValueOf(facadeOf(n))
	tallies := map[string]*tally{}
	calls := 0
	for _, q := range cl.Methods {
		tl, err := tuples(q, p, maxTuples)
		if err != nil {
			return &herr{err.Error()}
		}
		t := &tally{}
		tallies[q.Name] = t
		for _, args := range tl {
			a := invoke(fac, q, args, false)
			if a.Panic != "" {
				return &herr{fmt.Sprintf("method %s panicked (%s): %s", q.Name, a.Call, a.Panic)}
			}
			t.calls++
			switch {
			case a.Inconsistent:
				t.inc++
				if !m.Halted && t.firstBad == "" {
					t.firstBad = a.Call
				}
			case a.Err != nil:
				t.otherErr++
				if m.Halted && t.firstBad == "" {
					t.firstBad = a.Call + " = " + resText(a.Out)
				}
			default:
				t.data++
				if m.Halted && t.firstBad == "" {
					t.firstBad = a.Call + " = " + resText(a.Out)
				}
			}
		}
		calls += t.calls
	}
	c.AddEvals(calls)
	var sum []string
	for _, q := range cl.Methods {
		t := tallies[q.Name]
		sum = append(sum, fmt.Sprintf("%s:%d/%d/%d", q.Name, t.inc, t.otherErr, t.data))
	}
	c.Obs("queries (inconsistent/other-error/answered): %s", strings.Join(sum, " "))
	if m.Halted {
		c.Witness("states_checked_while_halted")
		bad, total := 0, 0
		for _, q := range cl.Methods {
			if !q.Data {
				continue
			}
			total++
			if tallies[q.Name].inc == 0 {
				bad++
			}
		}
		if bad == total {
			// the store as a whole does not behave as halted
			name := S + "/not-halted/" + cause
			c.Failf(name, "history %v: the reference is halted (block %d, %s, refused; no reorg removed a block since) but %s NO data query returns sync.ErrInconsistentState, e.g. %s",
				history, m.Refused, m.GapKind, cause, firstBad(cl, tallies))
			return nil
		}
		for _, q := range cl.Methods {
			t := tallies[q.Name]
			if !q.Data || t.inc == t.calls {
				continue
			}
			kind := "serves-data-while-halted"
			if t.data == 0 {
				kind = "wrong-error-while-halted"
			}
			c.Failf(fmt.Sprintf("%s/%s/%s", S, q.Name, kind),
				"history %v: store halted on block %d (%s), %s: %d of %d calls of %s did not return sync.ErrInconsistentState (%d answered, %d other errors), e.g. %s",
				history, m.Refused, m.GapKind, cause, t.calls-t.inc, t.calls, q.Name, t.data, t.otherErr, t.firstBad)
		}
		return nil
	}
	c.Witness("states_checked_while_not_halted")
	bad, total := 0, 0
	for _, q := range cl.Methods {
		if !q.Data {
			continue
		}
		total++
		if tallies[q.Name].inc == tallies[q.Name].calls {
			bad++
		}
	}
	if bad == total {
		name := S + "/halted-without-cause/" + cause
		c.Failf(name, "history %v: the reference is NOT halted but %s every data query returns sync.ErrInconsistentState", history, cause)
		return nil
	}
	for _, q := range cl.Methods {
		t := tallies[q.Name]
		if t.inc > 0 {
			c.Failf(fmt.Sprintf("%s/%s/inconsistency-error-while-not-halted", S, q.Name),
				"history %v: store not halted (reference), %s: %d of %d calls returned sync.ErrInconsistentState, e.g. %s", history, cause, t.inc, t.calls, t.firstBad)
		}
	}
	// answers again, and answers the reference: last processed block and every tree root
	switch n.Kind {
	case sk.Bridge:
		if v, err := n.B.GetLastProcessedBlock(nil); err != nil || v != chain.Tip() {
			c.Failf("bridge/GetLastProcessedBlock/not-reference", "history %v: got %d,%v want %d", history, v, err, chain.Tip())
		}
	case sk.L1Info:
		if v, err := n.L.GetLastProcessedBlock(nil); err != nil || v != chain.Tip() {
			c.Failf("l1info/GetLastProcessedBlock/not-reference", "history %v: got %d,%v want %d", history, v, err, chain.Tip())
		}
	}
	roots := ref.AppendRoots(chain.Leaves())
	for i, want := range roots {
		switch n.Kind {
		case sk.Bridge:
			if r, err := n.B.GetExitRootByIndex(nil, uint32(i)); err != nil || r.Hash != want {
				c.Failf("bridge/GetExitRootByIndex/not-reference-root", "history %v index %d: got %s,%v want %s", history, i, r.Hash.Hex(), err, want.Hex())
			}
		case sk.L1Info:
			if r, err := n.L.GetL1InfoTreeRootByIndex(nil, uint32(i)); err != nil || r.Hash != want {
				c.Failf("l1info/GetL1InfoTreeRootByIndex/not-reference-root", "history %v index %d: got %s,%v want %s", history, i, r.Hash.Hex(), err, want.Hex())
			}
		}
	}
	// one index further there must be nothing (a refused block left no leaf behind)
	switch n.Kind {
	case sk.Bridge:
		if r, err := n.B.GetExitRootByIndex(nil, uint32(len(roots))); err == nil {
			c.Failf("bridge/GetExitRootByIndex/leaf-beyond-reference", "history %v: index %d exists (%s), the reference has %d leaves", history, len(roots), r.Hash.Hex(), len(roots))
		}
	case sk.L1Info:
		if r, err := n.L.GetL1InfoTreeRootByIndex(nil, uint32(len(roots))); err == nil {
			c.Failf("l1info/GetL1InfoTreeRootByIndex/leaf-beyond-reference", "history %v: index %d exists (%s), the reference has %d leaves", history, len(roots), r.Hash.Hex(), len(roots))
		}
	}
	return nil
}

type tally struct {
	calls, inc, data, otherErr int
	firstBad                   string
}

func firstBad(cl *classification, tallies map[string]*tally) string {
	for _, q := range cl.Methods {
		if q.Data && tallies[q.Name].firstBad != "" {
			return tallies[q.Name].firstBad
		}
	}
	return "?"
}

// probeContinuation: right after an un-halting reorg the store must accept the correct
// continuation (the execution's objects are thrown away afterwards, so this disturbs nothing).
func probeContinuation(c *mc.Ctx, tier string, n *sk.Node, chain *sk.Chain, history []string) {
	S := string(n.Kind)
	cc := chain.Clone()
	for _, k := range goodKinds(n.Kind, tier)[:2] {
		blk := cc.Next(k, 1)
		if err := n.Process(blk); err != nil {
			c.Failf(S+"/ProcessBlock/good-block-refused-after-unhalting-reorg", "history %v then block %d (kind %s, new fork): %v", history, blk.Num, k, err)
			return
		}
	}
	lpb, err := n.W.GetLastProcessedBlock(nil)
	if err != nil || lpb != cc.Tip() {
		c.Failf(S+"/last-processed-block-not-reference", "history %v then 2 good blocks: last processed block %d (err %v), want %d", history, lpb, err, cc.Tip())
	}
	roots := ref.AppendRoots(cc.Leaves())
	if len(roots) > 0 {
		i := len(roots) - 1
		var got ref.Hash
		var gerr error
		if n.Kind == sk.Bridge {
			r, err := n.B.GetExitRootByIndex(nil, uint32(i))
			got, gerr = r.Hash, err
		} else {
			r, err := n.L.GetL1InfoTreeRootByIndex(nil, uint32(i))
			got, gerr = r.Hash, err
		}
		if gerr != nil || got != roots[i] {
			c.Failf(S+"/root-after-unhalting-reorg-not-reference", "history %v then 2 good blocks: root %d is %s (err %v), want %s", history, i, got.Hex(), gerr, roots[i].Hex())
		}
	}
	c.Witness("continuation_probed_after_unhalting_reorg")
}

// ---------------------------------------------------------------------------------------------

func runUnit(r *mc.Report, base *mc.Ctx, u mc.Unit) {
	p := u.Params.(params)
	mc.BFS(r, base, mc.BFSModel{MaxDepth: 1, Build: func(c *mc.Ctx, h []string) (string, []string) {
		full := append(append([]string{}, p.History...), h...)
		// the root state was checked as a successor of its parent unit; only the initial state has none
		key, en, he := execute(c, base.Tier, p.Store, full, len(h) > 0 || len(p.History) == 0)
		if he != nil {
			harnessError(r, "unit %s + %v: %s", base.UnitName, h, he.msg)
			return "harness-error", nil
		}
		return key, en
	}})
	delete(r.Notes, "bfs_unexpanded_at_bound") // successors are the roots of other units
}

func replay(c *mc.Ctx, u mc.Unit, v mc.Violation) {
	p := u.Params.(params)
	full := append(append([]string{}, p.History...), v.History...)
	if _, _, he := execute(c, v.Tier, p.Store, full, true); he != nil {
		c.Obs("HARNESS ERROR %s", he.msg)
		panic("c14 replay: " + he.msg)
	}
}

func bounds(tier string) map[string]any {
	explore(tier)
	b := map[string]any{"history_depth": depth(tier), "stores": stores, "gap_kinds": sk.GapKinds,
		"good_kinds":      map[string]any{"bridge": goodKinds(sk.Bridge, tier), "l1info": goodKinds(sk.L1Info, tier)},
		"reorg_points":    "1, (tip+1)/2, tip, tip+1 and (while halted) the refused block's number",
		"reference_graph": modelSize[tier], "max_argument_tuples_per_method_and_state": maxTuples,
		"methods_not_invoked": skipped}
	kit.Quiet()
	for _, s := range stores {
		cl, err := classOf(s)
		if err != nil {
			b[string(s)+"_classification_error"] = err.Error()
			continue
		}
		b[string(s)+"_data_queries"] = cl.Data
		b[string(s)+"_invoked_not_data_queries"] = cl.Other
		b[string(s)+"_not_invoked"] = cl.Skipped
	}
	return b
}

func main() {
	mc.Main(mc.Spec{
		ID: "C14", Level: "model_checking",
		Units:              units,
		Batch:              func(tier string) int { return 24 },
		MaxEvalsPerProcess: 600000, // ≈1700 executions: every store construction leaks ~3 descriptors
		RunUnit:            runUnit,
		Replay:             replay,
		Setup:              func(string) { kit.Quiet() },
		Rule: "E-BFS over the event alphabet {good block of each kind, inconsistent block of each kind (also one block number further), " +
			"Reorg(b) for b in {1, middle, tip, tip+1, refused block}, and while halted FaultedReorg(b) = the same reorg preceded by one failed attempt per row write of its transaction (storage fault at write 1, 2, ... K; every failed attempt must leave the blocks and the halt in place)}. The reference state graph (stored good blocks, halted flag + halting block, " +
			"a-reorg-removed-blocks-before flag) is computed first; unit = one reference state of depth < D reached on fresh real objects by its shortest history; " +
			"the unit executes every enabled event from it (the union of units = the transitions of a global BFS with state merging). " +
			"evaluations = executions + facade invocations made by the reflective oracle (every method x every argument tuple, in the state each execution ends in); states are counted per unit (root + successors), the number of distinct reference states is in bounds.reference_graph; " +
			"non-trivial = execution reaching a state not seen before in its unit",
		Assumptions: []string{
			"a method is a data query iff its answers differ between two un-halted stores of different content for some generated argument tuple (decided at start-up by reflection; lists in bounds)",
			"Start, the Verif* hooks, GetContractDepositCount and GetLastReorgEvent are not invoked (driver / contract / reorg detector are absent from the hook-built facade)",
			"the property speaks about the running syncer: restarts (which clear the in-memory flag) are not part of the alphabet",
			"real states reached by different histories with the same reference state are treated as one state; the oracle compares last processed block and all tree roots with the reference in every state",
			"an L1 info V2 announcement on an EMPTY tree is not in the alphabet (the store cannot compare anything and returns a plain error)",
		},
		Bounds: bounds,
	})
}
