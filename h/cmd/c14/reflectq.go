package main

// Reflection over the real facades: enumeration of the exported methods, argument generation by
// parameter type, invocation, and the automatic classification "data query / not a data query".

import (
	"context"
	"encoding/json"
	"errors"
	"fmt"
	"math/big"
	"reflect"
	"sort"
	"strings"

	"github.com/agglayer/aggkit/l1infotreesync"
	aggsync "github.com/agglayer/aggkit/sync"
	"github.com/ethereum/go-ethereum/common"
	"verif/h/ref"
	sk "verif/h/storekit"
)

var (
	ctxType   = reflect.TypeOf((*context.Context)(nil)).Elem()
	errType   = reflect.TypeOf((*error)(nil)).Elem()
	hashType  = reflect.TypeOf(common.Hash{})
	addrType  = reflect.TypeOf(common.Address{})
	bigIntPtr = reflect.TypeOf((*big.Int)(nil))
)

// Methods that are not invoked, by name, and why. Everything else that is exported is invoked.
var skipped = map[string]string{
	"Start":                   "runs the driver loop (the facade built by the hook has no driver)",
	"GetContractDepositCount": "asks the bridge CONTRACT (external service the hook-built facade does not have)",
	"GetLastReorgEvent":       "asks the reorg detector (external service the hook-built facade does not have)",
}

func skipReason(name string) string {
	if strings.HasPrefix(name, "Verif") {
		return "verification hook"
	}
	return skipped[name]
}

func facadeOf(n *sk.Node) any {
	switch n.Kind {
	case sk.Bridge:
		return n.B
	case sk.L1Info:
		return n.L
	}
	panic("c14: store kind without halting")
}

// pools are the values arguments are drawn from.
type pools struct {
	nums   []uint64
	hashes []common.Hash
	addrs  []common.Address
}

func (p *pools) addNum(x uint64) {
	for _, y := range p.nums {
		if y == x {
			return
		}
	}
	p.nums = append(p.nums, x)
}
func (p *pools) addHash(x common.Hash) {
	for _, y := range p.hashes {
		if y == x {
			return
		}
	}
	p.hashes = append(p.hashes, x)
}
func (p *pools) addAddr(x common.Address) {
	for _, y := range p.addrs {
		if y == x {
			return
		}
	}
	p.addrs = append(p.addrs, x)
}

// harvest collects every common.Hash / common.Address reachable from v (Merkle proofs excepted:
// their siblings are inner nodes nobody can ask for).
func harvest(v reflect.Value, p *pools, depth int) {
	if !v.IsValid() || depth > 6 {
		return
	}
	switch v.Type() {
	case hashType:
		if h := v.Interface().(common.Hash); h != (common.Hash{}) {
			p.addHash(h)
		}
		return
	case addrType:
		p.addAddr(v.Interface().(common.Address))
		return
	case bigIntPtr:
		return
	}
	switch v.Kind() {
	case reflect.Ptr, reflect.Interface:
		if !v.IsNil() {
			harvest(v.Elem(), p, depth+1)
		}
	case reflect.Struct:
		for i := 0; i < v.NumField(); i++ {
			if v.Type().Field(i).IsExported() {
				harvest(v.Field(i), p, depth+1)
			}
		}
	case reflect.Slice:
		if v.Type().Elem().Kind() == reflect.Uint8 {
			return
		}
		for i := 0; i < v.Len(); i++ {
			harvest(v.Index(i), p, depth+1)
		}
	case reflect.Array:
		// [32]common.Hash is a Merkle proof
	}
}

// statePools builds the argument pools of one state from the reference chain only.
func statePools(chain *sk.Chain, extra []uint64) *pools {
	p := &pools{}
	leaves := chain.Leaves()
	for _, x := range []uint64{0, 1, 2} {
		p.addNum(x)
	}
	p.addNum(chain.Tip())
	if len(leaves) > 0 {
		p.addNum(uint64(len(leaves) - 1))
	}
	for _, x := range extra {
		p.addNum(x)
	}
	roots := ref.AppendRoots(leaves)
	if len(roots) > 0 {
		p.addHash(roots[0])
		p.addHash(roots[len(roots)-1])
	}
	if len(leaves) > 0 {
		p.addHash(leaves[0])
		p.addHash(leaves[len(leaves)-1])
	}
	ev := &pools{}
	var gers []common.Hash
	for _, b := range chain.Blocks {
		for _, e := range b.Block.Events {
			harvest(reflect.ValueOf(e), ev, 0)
			if le, ok := e.(l1infotreesync.Event); ok && le.UpdateL1InfoTree != nil {
				gers = append(gers, ref.GER(le.UpdateL1InfoTree.MainnetExitRoot, le.UpdateL1InfoTree.RollupExitRoot))
			}
		}
	}
	// reference-derived: the global exit roots of the first and the last leaf
	if n := len(gers); n > 0 {
		p.addHash(gers[0])
		p.addHash(gers[n-1])
	}
	// the first and the last value named by the chain's events
	if n := len(ev.hashes); n > 0 {
		p.addHash(ev.hashes[0])
		p.addHash(ev.hashes[n-1])
	}
	p.addHash(ref.Keccak([]byte("unknown-hash")))
	if n := len(ev.addrs); n > 0 {
		p.addAddr(ev.addrs[0])
	} else {
		p.addAddr(common.HexToAddress("0x01"))
	}
	return p
}

// gen returns the candidate values of one parameter type. An error means the harness cannot build
// a value of that type: the caller must fail loudly.
func gen(t reflect.Type, p *pools) ([]reflect.Value, error) {
	switch {
	case t == ctxType:
		return []reflect.Value{reflect.ValueOf(context.Background())}, nil
	case t == hashType:
		out := make([]reflect.Value, len(p.hashes))
		for i, h := range p.hashes {
			out[i] = reflect.ValueOf(h)
		}
		return out, nil
	case t == addrType:
		out := make([]reflect.Value, len(p.addrs))
		for i, a := range p.addrs {
			out[i] = reflect.ValueOf(a)
		}
		return out, nil
	case t == bigIntPtr:
		return []reflect.Value{reflect.Zero(t), reflect.ValueOf(big.NewInt(0)), reflect.ValueOf(big.NewInt(1))}, nil
	}
	switch t.Kind() {
	case reflect.Uint, reflect.Uint8, reflect.Uint16, reflect.Uint32, reflect.Uint64:
		var out []reflect.Value
		for _, x := range p.nums {
			v := reflect.New(t).Elem()
			v.SetUint(x)
			if v.Uint() == x {
				out = append(out, v)
			}
		}
		return out, nil
	case reflect.Int, reflect.Int8, reflect.Int16, reflect.Int32, reflect.Int64:
		var out []reflect.Value
		for _, x := range p.nums {
			v := reflect.New(t).Elem()
			v.SetInt(int64(x))
			if v.Int() == int64(x) {
				out = append(out, v)
			}
		}
		return out, nil
	case reflect.Bool:
		return []reflect.Value{reflect.ValueOf(false), reflect.ValueOf(true)}, nil
	case reflect.String:
		// the only free-text parameters of the facades are hex addresses
		out := []reflect.Value{reflect.ValueOf("").Convert(t)}
		for _, a := range p.addrs {
			out = append(out, reflect.ValueOf(a.Hex()).Convert(t))
		}
		return out, nil
	case reflect.Ptr:
		elems, err := gen(t.Elem(), p)
		if err != nil {
			return nil, err
		}
		out := []reflect.Value{reflect.Zero(t)}
		for i, e := range elems {
			if i >= 2 {
				break
			}
			ptr := reflect.New(t.Elem())
			ptr.Elem().Set(e)
			out = append(out, ptr)
		}
		return out, nil
	case reflect.Slice:
		elems, err := gen(t.Elem(), p)
		if err != nil {
			return nil, err
		}
		out := []reflect.Value{reflect.Zero(t)}
		if len(elems) > 0 {
			one := reflect.MakeSlice(t, 0, 1)
			out = append(out, reflect.Append(one, elems[0]))
		}
		if len(elems) > 2 {
			two := reflect.MakeSlice(t, 0, 2)
			out = append(out, reflect.Append(two, elems[0], elems[2]))
		}
		return out, nil
	}
	return nil, fmt.Errorf("no argument generator for parameter type %s", t)
}

// qmethod is one exported facade method.
type qmethod struct {
	Name   string
	Index  int
	In     []reflect.Type // without the receiver
	ErrOut int            // index of the error result, -1 if the method cannot report an error
	Data   bool           // classified as a data query
}

// enumerate lists the invocable exported methods of the facade type (pointer receiver set).
func enumerate(facade any) (ms []*qmethod, skippedNames []string) {
	t := reflect.TypeOf(facade)
	for i := 0; i < t.NumMethod(); i++ {
		m := t.Method(i)
		if skipReason(m.Name) != "" {
			skippedNames = append(skippedNames, m.Name)
			continue
		}
		q := &qmethod{Name: m.Name, Index: i, ErrOut: -1}
		for j := 1; j < m.Type.NumIn(); j++ {
			q.In = append(q.In, m.Type.In(j))
		}
		for j := 0; j < m.Type.NumOut(); j++ {
			if m.Type.Out(j) == errType {
				q.ErrOut = j
			}
		}
		ms = append(ms, q)
	}
	return ms, skippedNames
}

// maxTuples bounds the argument tuples per method and state; below it the full cross product of
// the per-type candidates is used, above it a deterministic stride through the cross product
// (classification uses the full product).
const maxTuples = 160

// tuples enumerates argument tuples for q.
func tuples(q *qmethod, p *pools, limit int) ([][]reflect.Value, error) {
	cands := make([][]reflect.Value, len(q.In))
	total := 1
	for i, t := range q.In {
		c, err := gen(t, p)
		if err != nil {
			return nil, fmt.Errorf("method %s parameter %d: %w", q.Name, i, err)
		}
		if len(c) == 0 {
			return nil, fmt.Errorf("method %s parameter %d (%s): empty candidate pool", q.Name, i, t)
		}
		cands[i] = c
		total *= len(c)
	}
	stride := 1
	if limit > 0 && total > limit {
		stride = total/limit + 1
		for gcd(stride, total) != 1 {
			stride++
		}
	}
	var out [][]reflect.Value
	count := total
	if stride > 1 {
		count = limit
	}
	for k := 0; k < count; k++ {
		idx := (k * stride) % total
		tup := make([]reflect.Value, len(cands))
		for i := len(cands) - 1; i >= 0; i-- {
			tup[i] = cands[i][idx%len(cands[i])]
			idx /= len(cands[i])
		}
		out = append(out, tup)
	}
	return out, nil
}

func gcd(a, b int) int {
	for b != 0 {
		a, b = b, a%b
	}
	return a
}

// answer is the outcome of one invocation.
type answer struct {
	Call         string
	Res          string // canonical text of all results
	Err          error  // the error result (nil if none / no error result)
	Inconsistent bool   // errors.Is(Err, sync.ErrInconsistentState)
	Panic        string
	Out          []reflect.Value
}

func argText(v reflect.Value) string {
	if v.Type() == ctxType || v.Type().Implements(ctxType) {
		return "ctx"
	}
	switch v.Type() {
	case hashType:
		return v.Interface().(common.Hash).Hex()[:10]
	case addrType:
		return v.Interface().(common.Address).Hex()[:10]
	}
	switch v.Kind() {
	case reflect.Ptr:
		if v.IsNil() {
			return "nil"
		}
		return "&" + argText(v.Elem())
	case reflect.String:
		s := v.String()
		if len(s) > 10 {
			s = s[:10]
		}
		return fmt.Sprintf("%q", s)
	}
	return fmt.Sprintf("%v", v.Interface())
}

func resText(out []reflect.Value) string {
	parts := make([]string, len(out))
	for i, o := range out {
		if o.Type() == errType {
			if o.IsNil() {
				parts[i] = "ok"
			} else {
				parts[i] = "ERR(" + o.Interface().(error).Error() + ")"
			}
			continue
		}
		b, err := json.Marshal(o.Interface())
		if err != nil {
			parts[i] = fmt.Sprintf("%+v", o.Interface())
		} else {
			parts[i] = string(b)
		}
	}
	return strings.Join(parts, " | ")
}

// invoke calls q on the facade with one argument tuple. wantText: also render the results.
func invoke(facade reflect.Value, q *qmethod, args []reflect.Value, wantText bool) (a answer) {
	var sb strings.Builder
	sb.WriteString(q.Name)
	sb.WriteString("(")
	for i, v := range args {
		if i > 0 {
			sb.WriteString(",")
		}
		sb.WriteString(argText(v))
	}
	sb.WriteString(")")
	a.Call = sb.String()
	defer func() {
		if x := recover(); x != nil {
			a.Panic = fmt.Sprint(x)
		}
	}()
	out := facade.Method(q.Index).Call(args)
	a.Out = out
	if q.ErrOut >= 0 && !out[q.ErrOut].IsNil() {
		a.Err = out[q.ErrOut].Interface().(error)
		a.Inconsistent = errors.Is(a.Err, aggsync.ErrInconsistentState)
	}
	if wantText {
		a.Res = resText(out)
	}
	return a
}

// ---------------------------------------------------------------------------------------------
// classification

type classification struct {
	Methods []*qmethod
	Skipped []string
	Data    []string // data queries
	Other   []string // invoked, but not data queries (answers do not depend on the store's content)
}

// classFill are the two differently filled un-halted stores used for the classification.
var classFill = map[sk.Kind][2][]string{
	sk.Bridge: {
		{"bridge", "claim", "tokenmap", "migrate", "bridge2", "migrate", "rmlegacy", "bridge+claim", "empty"},
		{"bridge"},
	},
	sk.L1Info: {
		{"info", "verify", "v2", "init", "info2", "verify+info", "verify", "empty"},
		{"info"},
	},
}

// classify decides, for every invocable exported method of the facade of the given store kind,
// whether it is a data query: it is one iff, for some generated argument tuple, its answers differ
// between two un-halted stores of different content. A method that cannot be given arguments, that
// panics, or that never succeeds on either store cannot be classified: error (the harness fails).
func classify(kind sk.Kind, dir string) (*classification, error) {
	var nodes [2]*sk.Node
	var chains [2]*sk.Chain
	for i := 0; i < 2; i++ {
		nodes[i] = sk.Open(kind, dir)
		defer nodes[i].Close()
		chains[i] = sk.NewChain(kind)
		for _, k := range classFill[kind][i] {
			if err := nodes[i].Process(chains[i].Next(k, i)); err != nil {
				return nil, fmt.Errorf("classification store %d: ProcessBlock(%s): %v", i, k, err)
			}
		}
	}
	ms, skippedNames := enumerate(facadeOf(nodes[0]))
	cl := &classification{Methods: ms, Skipped: skippedNames}
	// argument pool: union of both chains' pools, enlarged twice by what the answers name
	p := statePools(chains[0], []uint64{3, 5})
	for _, c := range chains {
		q := statePools(c, nil)
		for _, x := range q.nums {
			p.addNum(x)
		}
		for _, x := range q.hashes {
			p.addHash(x)
		}
		for _, x := range q.addrs {
			p.addAddr(x)
		}
		for _, r := range ref.AppendRoots(c.Leaves()) {
			p.addHash(r)
		}
	}
	fac := [2]reflect.Value{reflect.ValueOf(facadeOf(nodes[0])), reflect.ValueOf(facadeOf(nodes[1]))}
	differs := map[string]bool{}
	succeeded := map[string]bool{}
	for round := 0; round < 3; round++ {
		found := &pools{}
		for _, q := range ms {
			if round > 0 && differs[q.Name] {
				continue // already known to be a data query
			}
			tl, err := tuples(q, p, 600)
			if err != nil {
				return nil, err
			}
			for _, args := range tl {
				var ans [2]answer
				for i := 0; i < 2; i++ {
					ans[i] = invoke(fac[i], q, args, true)
					if ans[i].Panic != "" {
						return nil, fmt.Errorf("method %s panicked on an un-halted store (%s): %s — classify it by hand (skip list) if it needs an external service",
							q.Name, ans[i].Call, ans[i].Panic)
					}
					if ans[i].Inconsistent {
						return nil, fmt.Errorf("method %s reports an inconsistent state on a store that was only fed consistent blocks (%s)", q.Name, ans[i].Call)
					}
					if ans[i].Err == nil {
						succeeded[q.Name] = true
					}
					for _, o := range ans[i].Out {
						harvest(o, found, 0)
					}
				}
				if ans[0].Res != ans[1].Res {
					differs[q.Name] = true
				}
			}
		}
		before := len(p.hashes) + len(p.addrs)
		for _, x := range found.hashes {
			if len(p.hashes) < 40 {
				p.addHash(x)
			}
		}
		for _, x := range found.addrs {
			if len(p.addrs) < 3 {
				p.addAddr(x)
			}
		}
		if len(p.hashes)+len(p.addrs) == before {
			break
		}
	}
	for _, q := range ms {
		if !succeeded[q.Name] {
			return nil, fmt.Errorf("method %s of the %s facade cannot be classified: no generated argument tuple makes it succeed on either classification store",
				q.Name, kind)
		}
		q.Data = differs[q.Name]
		if q.Data {
			cl.Data = append(cl.Data, q.Name)
		} else {
			cl.Other = append(cl.Other, q.Name)
		}
	}
	sort.Strings(cl.Data)
	sort.Strings(cl.Other)
	sort.Strings(cl.Skipped)
	if len(cl.Data) == 0 {
		return nil, fmt.Errorf("%s facade: no data query found", kind)
	}
	return cl, nil
}
