package main

// The environment of one execution: hand-written fakes for everything AROUND the code under test
// (L2 bridge syncer, L1 info tree data, aggchain prover, epoch notifier, status checker, the
// Agglayer's submission service, the signer) and the REAL objects under test (base flow + PP /
// aggchain-prover flow, gRPC client, AggSender send loop, SQLite certificate storage).

import (
	"context"
	"crypto/ecdsa"
	"fmt"
	"math/big"
	"os"
	"sync/atomic"
	"time"

	v1nodetypes "buf.build/gen/go/agglayer/agglayer/protocolbuffers/go/agglayer/node/types/v1"
	v1 "buf.build/gen/go/agglayer/agglayer/protocolbuffers/go/agglayer/node/v1"
	v1types "buf.build/gen/go/agglayer/interop/protocolbuffers/go/agglayer/interop/types/v1"
	agglayergrpc "github.com/agglayer/aggkit/agglayer/grpc"
	agglayertypes "github.com/agglayer/aggkit/agglayer/types"
	"github.com/agglayer/aggkit/aggsender"
	"github.com/agglayer/aggkit/aggsender/config"
	"github.com/agglayer/aggkit/aggsender/db"
	"github.com/agglayer/aggkit/aggsender/flows"
	"github.com/agglayer/aggkit/aggsender/query"
	"github.com/agglayer/aggkit/aggsender/types"
	"github.com/agglayer/aggkit/bridgesync"
	cfgtypes "github.com/agglayer/aggkit/config/types"
	aggkitgrpc "github.com/agglayer/aggkit/grpc"
	"github.com/agglayer/aggkit/l1infotreesync"
	treetypes "github.com/agglayer/aggkit/tree/types"
	aggkittypes "github.com/agglayer/aggkit/types"
	"github.com/ethereum/go-ethereum/common"
	ethtypes "github.com/ethereum/go-ethereum/core/types"
	"github.com/ethereum/go-ethereum/crypto"
	"google.golang.org/grpc"
	"google.golang.org/protobuf/proto"
	"verif/h/kit"
)

// ---- the certificate alphabet ------------------------------------------------------------------

const (
	schemePP = iota
	schemeFEP
	schemeFEPOpt // optimistic mode, minimal aggchain data (no custom chain data, nil context, empty proof)
)

var schemeNames = []string{"pp", "fep", "fepopt"}

// exitV: amount {0: nil, 1: zero, 2: 2^256-1} x metadata {0: empty, 1: non-empty} x leaf {0: asset, 1: message}
type exitV struct{ Amt, Meta, Leaf int }

// impV: kind {0: mainnet, 1: rollup}; Rollup / LeafIdx index the boundary set; Inner is the claimed exit.
type impV struct {
	Kind, Rollup, LeafIdx int
	Inner                 exitV
	Leaf                  uint32 // the leaf index itself when LeafIdx < 0 (large certificates: many distinct global indices)
}

func (m impV) leaf() uint32 {
	if m.LeafIdx < 0 {
		return m.Leaf
	}
	return giBoundary[m.LeafIdx]
}

type spec struct {
	Scheme  int
	Exits   []exitV
	Imps    []impV
	Perturb int // 0: pipeline only; 1: also every single-field perturbation of the built certificate (height-0 execution); 2: in both executions
}

var giBoundary = []uint32{0, 1, 255, 256, 0xFFFFFFFF}

func (e exitV) String() string { return fmt.Sprintf("a%dm%dl%d", e.Amt, e.Meta, e.Leaf) }
func (m impV) String() string {
	if m.Kind == 0 {
		return fmt.Sprintf("M(%d;%s)", m.leaf(), m.Inner)
	}
	if m.Kind == 2 {
		return fmt.Sprintf("M+rollupbits(%d,%d;%s)", giBoundary[m.Rollup], m.leaf(), m.Inner)
	}
	return fmt.Sprintf("R(%d,%d;%s)", giBoundary[m.Rollup], m.leaf(), m.Inner)
}
func (s spec) String() string {
	if len(s.Exits) > 8 || len(s.Imps) > 8 {
		return fmt.Sprintf("%s large certificate: %d exits, %d imported exits", schemeNames[s.Scheme], len(s.Exits), len(s.Imps))
	}
	return fmt.Sprintf("%s exits=%v imported=%v", schemeNames[s.Scheme], s.Exits, s.Imps)
}

// ---- deterministic material --------------------------------------------------------------------

func h(label string, n ...int) common.Hash {
	return common.BytesToHash(keccak([]byte(fmt.Sprintf("c10/%s/%v", label, n))))
}
func addr(label string, n ...int) common.Address {
	return common.BytesToAddress(keccak([]byte(fmt.Sprintf("c10/addr/%s/%v", label, n)))[:20])
}
func proofOf(label string, n int) treetypes.Proof {
	var p treetypes.Proof
	for i := range p {
		p[i] = h(label, n, i)
	}
	return p
}
func amountOf(v int) *big.Int {
	switch v {
	case 0:
		return nil
	case 1:
		return new(big.Int)
	default:
		return new(big.Int).Set(max256)
	}
}
func metaOf(v int, label string, i int) []byte {
	if v == 0 {
		return nil
	}
	return []byte(fmt.Sprintf("bridge metadata %s %d \x00\xff", label, i))
}

const (
	l2NetworkID   = 0x0A0B0C0D
	prevHeight    = 0x0102030405060707 // a settled certificate at this height makes the next one 0x…08
	l1RootIndex   = 0x0708090A
	seedFromBlock = 1
	seedToBlock   = 10
)

// ---- fakes -----------------------------------------------------------------------------------

type fakeSyncer struct {
	bridges []bridgesync.Bridge
	claims  []bridgesync.Claim
	last    uint64
	fork    int // how many times a reorg replaced L2 data of the range
}

func (f *fakeSyncer) GetBlockByLER(context.Context, common.Hash) (uint64, error) { return 0, nil }
func (f *fakeSyncer) GetExitRootByIndex(_ context.Context, index uint32) (treetypes.Root, error) {
	return treetypes.Root{Hash: h("ler", int(index), f.fork), Index: index}, nil // a replaced bridge changes every exit root from its index on
}
func (f *fakeSyncer) GetBridges(_ context.Context, from, to uint64) ([]bridgesync.Bridge, error) {
	var out []bridgesync.Bridge
	for _, b := range f.bridges {
		if b.BlockNum >= from && b.BlockNum <= to {
			out = append(out, b)
		}
	}
	return out, nil
}
func (f *fakeSyncer) GetClaims(_ context.Context, from, to uint64) ([]bridgesync.Claim, error) {
	var out []bridgesync.Claim
	for _, c := range f.claims {
		if c.BlockNum >= from && c.BlockNum <= to {
			out = append(out, c)
		}
	}
	return out, nil
}
func (f *fakeSyncer) OriginNetwork() uint32 { return l2NetworkID }
func (f *fakeSyncer) BlockFinality() aggkittypes.BlockNumberFinality {
	return aggkittypes.NewBlockNumberFinality("LatestBlock")
}
func (f *fakeSyncer) GetLastProcessedBlock(context.Context) (uint64, error) { return f.last, nil }

type fakeL1Info struct{}

func (fakeL1Info) root() *treetypes.Root {
	return &treetypes.Root{Hash: h("l1root"), Index: l1RootIndex, BlockNum: 77, BlockPosition: 1}
}
func (f fakeL1Info) leafFor(ger common.Hash) *l1infotreesync.L1InfoTreeLeaf {
	k := int(ger[31])
	return &l1infotreesync.L1InfoTreeLeaf{BlockNumber: 70, L1InfoTreeIndex: 0x00C0FFEE + uint32(k),
		PreviousBlockHash: h("pbh", k), Timestamp: 0x1112131415161718 + uint64(k), GlobalExitRoot: ger, Hash: h("leafhash", k)}
}
func (f fakeL1Info) GetLatestFinalizedL1InfoRoot(context.Context) (*treetypes.Root, *l1infotreesync.L1InfoTreeLeaf, error) {
	return f.root(), f.leafFor(h("latestger")), nil
}
func (f fakeL1Info) GetFinalizedL1InfoTreeData(context.Context) (treetypes.Proof, *l1infotreesync.L1InfoTreeLeaf, *treetypes.Root, error) {
	return proofOf("l1proof", 0), f.leafFor(h("latestger")), f.root(), nil
}
func (f fakeL1Info) GetProofForGER(_ context.Context, ger, _ common.Hash) (*l1infotreesync.L1InfoTreeLeaf, treetypes.Proof, error) {
	return f.leafFor(ger), proofOf("gerproof", int(ger[31])), nil
}
func (fakeL1Info) CheckIfClaimsArePartOfFinalizedL1InfoTree(*treetypes.Root, []bridgesync.Claim) error {
	return nil
}

type fakeLER struct{}

func (fakeLER) GetLastLocalExitRoot() (common.Hash, error) { return h("startLER"), nil }

type fakeGER struct{}

func (fakeGER) GetInjectedGERsProofs(context.Context, *treetypes.Root, uint64, uint64) (
	map[common.Hash]*agglayertypes.ProvenInsertedGERWithBlockNumber, error) {
	return map[common.Hash]*agglayertypes.ProvenInsertedGERWithBlockNumber{}, nil
}

type fakeProver struct {
	minimal bool
	calls   int
}

func (p *fakeProver) proof(req *types.AggchainProofRequest) *types.AggchainProof {
	p.calls++
	ap := &types.AggchainProof{LastProvenBlock: req.LastProvenBlock, EndBlock: req.RequestedEndBlock,
		LocalExitRoot: h("proverLER"), AggchainParams: h("aggchainparams"),
		SP1StarkProof: &types.SP1StarkProof{Version: "v4.0.0-rc.3"}}
	if !p.minimal {
		ap.CustomChainData = []byte("\x00custom chain data\xff")
		ap.Context = map[string][]byte{"alpha": {0, 1, 2, 0xff}, "beta": {}}
		ap.SP1StarkProof.Proof = keccak([]byte("sp1 proof"))
		ap.SP1StarkProof.Vkey = keccak([]byte("sp1 vkey"))
	}
	return ap
}
func (p *fakeProver) GenerateAggchainProof(_ context.Context, req *types.AggchainProofRequest) (*types.AggchainProof, error) {
	return p.proof(req), nil
}
func (p *fakeProver) GenerateOptimisticAggchainProof(req *types.AggchainProofRequest, _ []byte) (*types.AggchainProof, error) {
	return p.proof(req), nil
}

type fakeOptimisticMode struct{ on bool }

func (f fakeOptimisticMode) IsOptimisticModeOn() (bool, error) { return f.on, nil }

type fakeOptimisticSigner struct{}

func (fakeOptimisticSigner) Sign(context.Context, types.AggchainProofRequest, common.Hash, []bridgesync.Claim) ([]byte, string, error) {
	return keccak([]byte("optimistic signature")), "optimistic-extra-data", nil
}

// recSigner is the configured signer: a known ECDSA key; it records every hash it is asked to sign.
type sigRecord struct {
	Hash common.Hash
	Sig  []byte
}
type recSigner struct {
	key  *ecdsa.PrivateKey
	recs []sigRecord
	// slowOnce: the next signing request is answered only after this long (a remote signer under load); fake clock
	slowOnce time.Duration
}

func (s *recSigner) Initialize(context.Context) error { return nil }
func (s *recSigner) PublicAddress() common.Address    { return crypto.PubkeyToAddress(s.key.PublicKey) }
func (s *recSigner) String() string                   { return "recording signer" }
func (s *recSigner) SignHash(_ context.Context, hash common.Hash) ([]byte, error) {
	if d := s.slowOnce; d > 0 {
		s.slowOnce = 0
		time.Sleep(d)
	}
	sig, err := crypto.Sign(hash.Bytes(), s.key)
	if err != nil {
		return nil, err
	}
	s.recs = append(s.recs, sigRecord{hash, append([]byte{}, sig...)})
	return sig, nil
}
func (s *recSigner) SignTx(context.Context, *ethtypes.Transaction) (*ethtypes.Transaction, error) {
	return nil, fmt.Errorf("not a transaction signer")
}

var signerKey = func() *ecdsa.PrivateKey {
	k, err := crypto.ToECDSA(keccak([]byte("c10 configured signer key")))
	if err != nil {
		panic(err)
	}
	return k
}()

// fakeSubmission is the Agglayer end of the wire: it keeps the exact bytes of every request and
// answers with the reference certificate id computed from those bytes.
type fakeSubmission struct{ requests [][]byte }

func (f *fakeSubmission) SubmitCertificate(_ context.Context, in *v1.SubmitCertificateRequest, _ ...grpc.CallOption) (
	*v1.SubmitCertificateResponse, error) {
	raw, err := proto.Marshal(in)
	if err != nil {
		return nil, err
	}
	f.requests = append(f.requests, raw)
	id := make([]byte, 32)
	if c, err := fromWire(raw); err == nil {
		id = refCertID(c)
	}
	return &v1.SubmitCertificateResponse{CertificateId: &v1nodetypes.CertificateId{Value: &v1types.FixedBytes32{Value: id}}}, nil
}

type fakeEpochs struct{ ch chan types.EpochEvent }

func (f *fakeEpochs) Subscribe(string) <-chan types.EpochEvent { return f.ch }
func (f *fakeEpochs) Start(context.Context)                    {}
func (f *fakeEpochs) GetEpochStatus() types.EpochStatus {
	return types.EpochStatus{Epoch: 1, PercentEpoch: 0.5}
}
func (f *fakeEpochs) String() string { return "fake epochs" }

type fakeChecker struct{}

func (fakeChecker) CheckPendingCertificatesStatus(context.Context) types.CertStatus {
	return types.CertStatus{}
}
func (fakeChecker) CheckInitialStatus(context.Context, time.Duration, *types.AggsenderStatus) {
}

// recFlow wraps the real flow only to remember the object BuildCertificate returned.
type recFlow struct {
	types.AggsenderFlow
	built []*agglayertypes.Certificate
}

func (r *recFlow) BuildCertificate(ctx context.Context, p *types.CertificateBuildParams) (*agglayertypes.Certificate, error) {
	c, err := r.AggsenderFlow.BuildCertificate(ctx, p)
	if err == nil {
		r.built = append(r.built, c)
	}
	return c, err
}

// ---- assembling ------------------------------------------------------------------------------

type world struct {
	sp         spec
	wire       func() // builds flows, client and sender (called inside the bubble)
	dir        string
	storage    *db.AggSenderSQLStorage
	signer     *recSigner
	submission *fakeSubmission
	client     *agglayergrpc.AgglayerGRPCClient
	flow       *recFlow
	sender     *aggsender.AggSender
	prover     *fakeProver
	wantHeight uint64
	syncer     *fakeSyncer
	epochs     *fakeEpochs
}

// mutateRange changes the L2 data of the certificate's block range the way a reorg that replaces a transaction
// does: the first bridge gets another amount and destination, the first claim another amount and metadata.
func (w *world) mutateRange() {
	if len(w.syncer.bridges) > 0 {
		w.syncer.fork++
		b := &w.syncer.bridges[0]
		b.Amount = otherAmount(b.Amount, 0x0BADC0DE)
		b.DestinationAddress = addr("dest-after-reorg")
		b.TxHash = h("tx-after-reorg")
	}
	if len(w.syncer.claims) > 0 {
		cl := &w.syncer.claims[0]
		cl.Amount = otherAmount(cl.Amount, 0x0C0FFEE0)
		cl.Metadata = append([]byte("after-reorg"), cl.Metadata...)
		cl.TxHash = h("claimtx-after-reorg")
	}
}

// otherAmount returns v, or v+1 when the amount already is v.
func otherAmount(a *big.Int, v int64) *big.Int {
	if a != nil && a.Cmp(big.NewInt(v)) == 0 {
		return big.NewInt(v + 1)
	}
	return big.NewInt(v)
}

var worldSeq atomic.Int64

func globalIndexBig(m impV) *big.Int {
	if m.Kind == 0 {
		return globalIndex(true, 0, m.leaf())
	}
	if m.Kind == 2 {
		return globalIndex(true, giBoundary[m.Rollup], m.leaf()) // as emitted on chain: unused rollup bits set
	}
	return globalIndex(false, giBoundary[m.Rollup], m.leaf())
}

// newWorld builds fresh objects. withPrev: the storage already holds a settled certificate at
// height prevHeight covering L2 blocks 1..10, so the new certificate gets height prevHeight+1.
func newWorld(sp spec, withPrev bool) (*world, error) {
	w := &world{sp: sp}
	w.dir = fmt.Sprintf("/dev/shm/verif-c10-%d-%d", os.Getpid(), worldSeq.Add(1))
	if err := os.MkdirAll(w.dir, 0o755); err != nil {
		return nil, err
	}
	logger := kit.Logger()
	st, err := db.NewAggSenderSQLStorage(logger, db.AggSenderSQLStorageConfig{DBPath: w.dir + "/aggsender.sqlite"})
	if err != nil {
		return nil, err
	}
	w.storage = st
	firstBlock := uint64(1)
	certType := types.CertificateTypePP
	if sp.Scheme == schemeFEP {
		certType = types.CertificateTypeFEP
	} else if sp.Scheme == schemeFEPOpt {
		certType = types.CertificateTypeOptimistic
	}
	if withPrev {
		prevLER := h("prevLER0")
		root := h("l1root-prev")
		empty := "{}"
		err := st.SaveLastSentCertificate(context.Background(), types.Certificate{
			Header: &types.CertificateHeader{Height: prevHeight, CertificateID: h("prev-cert-id"), PreviousLocalExitRoot: &prevLER,
				NewLocalExitRoot: h("prevLER1"), FromBlock: seedFromBlock, ToBlock: seedToBlock, Status: agglayertypes.Settled,
				CreatedAt: 1, UpdatedAt: 1, FinalizedL1InfoTreeRoot: &root, L1InfoTreeLeafCount: 5, CertType: certType,
				CertSource: types.CertificateSourceLocal},
			SignedCertificate: &empty,
		})
		if err != nil {
			return nil, fmt.Errorf("seeding the previous certificate: %w", err)
		}
		firstBlock = seedToBlock + 1
		w.wantHeight = prevHeight + 1
	}

	syncer := &fakeSyncer{}
	w.syncer = syncer
	blk := firstBlock
	for i, e := range sp.Exits {
		syncer.bridges = append(syncer.bridges, bridgesync.Bridge{
			BlockNum: blk, BlockPos: uint64(i), FromAddress: addr("from", i), TxHash: h("tx", i), BlockTimestamp: 1000 + uint64(i),
			LeafType: uint8(e.Leaf), OriginNetwork: 0x11223344 + uint32(i), OriginAddress: addr("otoken", i),
			DestinationNetwork: 0x55667788 + uint32(i), DestinationAddress: addr("dest", i),
			Amount: amountOf(e.Amt), Metadata: metaOf(e.Meta, "exit", i), DepositCount: 0x01000000 + uint32(i),
		})
		blk++
	}
	for j, m := range sp.Imps {
		mer, rer := h("mer", j), h("rer", j)
		syncer.claims = append(syncer.claims, bridgesync.Claim{
			BlockNum: blk, BlockPos: uint64(j), FromAddress: addr("claimer", j), TxHash: h("claimtx", j),
			GlobalIndex: globalIndexBig(m), OriginNetwork: 0x21222324 + uint32(j), OriginAddress: addr("claim-otoken", j),
			DestinationAddress: addr("claim-dest", j), Amount: amountOf(m.Inner.Amt),
			ProofLocalExitRoot: proofOf("ple", j), ProofRollupExitRoot: proofOf("pre", j),
			MainnetExitRoot: mer, RollupExitRoot: rer, GlobalExitRoot: common.BytesToHash(keccak(mer[:], rer[:])),
			DestinationNetwork: l2NetworkID, Metadata: metaOf(m.Inner.Meta, "claim", j), IsMessage: m.Inner.Leaf == 1,
			BlockTimestamp: 2000 + uint64(j),
		})
		blk++
	}
	syncer.last = blk + 3

	// The flows, the gRPC client and the sender are built INSIDE the synctest bubble (first thing runSteps does): a channel
	// or timer one of them creates in its constructor then belongs to the bubble (waiting on it is durably blocking, so the
	// fake clock can advance past a time-out). The SQLite storage above stays outside (database/sql's goroutines).
	w.wire = func() {
		bridgeQ := query.NewBridgeDataQuerier(logger, syncer, time.Second)
		l1q := fakeL1Info{}
		base := flows.NewBaseFlow(logger, bridgeQ, st, l1q, fakeLER{}, flows.NewBaseFlowConfigDefault())
		w.signer = &recSigner{key: signerKey}
		var real types.AggsenderFlow
		if sp.Scheme == schemePP {
			real = flows.NewPPFlow(logger, base, st, l1q, bridgeQ, w.signer, false, 0)
		} else {
			w.prover = &fakeProver{minimal: sp.Scheme == schemeFEPOpt}
			real = flows.NewAggchainProverFlow(logger, flows.NewAggchainProverFlowConfigDefault(), base, w.prover, st, l1q, bridgeQ,
				fakeGER{}, nil, w.signer, fakeOptimisticMode{on: sp.Scheme == schemeFEPOpt}, fakeOptimisticSigner{})
		}
		w.flow = &recFlow{AggsenderFlow: real}
		w.submission = &fakeSubmission{}
		w.client = agglayergrpc.NewVerifAgglayerGRPCClient(
			&aggkitgrpc.ClientConfig{RequestTimeout: cfgtypes.NewDuration(time.Minute)}, nil, nil, w.submission)
		ep := &fakeEpochs{ch: make(chan types.EpochEvent, 1)}
		w.epochs = ep
		ep.ch <- types.EpochEvent{Epoch: 1}
		cfg := config.Config{MaxRetriesStoreCertificate: 1}
		w.sender = aggsender.NewVerifAggSender(logger, cfg, st, w.client, ep, w.flow, fakeChecker{}, l2NetworkID)
	}
	return w, nil
}

func (w *world) close() {
	if w.storage != nil {
		w.storage.VerifDB().Close()
	}
	os.RemoveAll(w.dir)
}

// sendRaw pushes a certificate object through the REAL gRPC client and returns the bytes that left.
func (w *world) sendRaw(c *agglayertypes.Certificate) ([]byte, error) {
	n := len(w.submission.requests)
	if _, err := w.client.SendCertificate(context.Background(), c); err != nil {
		return nil, err
	}
	if len(w.submission.requests) != n+1 {
		return nil, fmt.Errorf("the client made %d submissions", len(w.submission.requests)-n)
	}
	raw := w.submission.requests[n]
	w.submission.requests = w.submission.requests[:n]
	return raw, nil
}

// templates for the "append an element" perturbation: valid elements unrelated to the certificate.
func templateExit() *agglayertypes.BridgeExit {
	return &agglayertypes.BridgeExit{LeafType: agglayertypes.LeafTypeMessage,
		TokenInfo:          &agglayertypes.TokenInfo{OriginNetwork: 0x31323334, OriginTokenAddress: addr("tmpl-otoken")},
		DestinationNetwork: 0x41424344, DestinationAddress: addr("tmpl-dest"), Amount: big.NewInt(0x0102030405), Metadata: h("tmpl-meta").Bytes()}
}
func templateImported() *agglayertypes.ImportedBridgeExit {
	mp := func(l string) *agglayertypes.MerkleProof {
		return &agglayertypes.MerkleProof{Root: h("tmpl-root-" + l), Proof: proofOf("tmpl-"+l, 0)}
	}
	return &agglayertypes.ImportedBridgeExit{BridgeExit: templateExit(),
		GlobalIndex: &agglayertypes.GlobalIndex{MainnetFlag: false, RollupIndex: 0x00020003, LeafIndex: 0x00040005},
		ClaimData: &agglayertypes.ClaimFromRollup{ProofLeafLER: mp("ler"), ProofLERToRER: mp("rer"), ProofGERToL1Root: mp("ger"),
			L1Leaf: &agglayertypes.L1InfoTreeLeaf{L1InfoTreeIndex: 0x0A0A0B0B, RollupExitRoot: h("tmpl-rer"), MainnetExitRoot: h("tmpl-mer"),
				Inner: &agglayertypes.L1InfoTreeLeafInner{GlobalExitRoot: h("tmpl-ger"), BlockHash: h("tmpl-bh"), Timestamp: 0x2122232425262728}}}}
}
