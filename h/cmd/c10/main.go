// C10 — the signature commits to exactly what is sent and stored.
//
// SUT (real code): flows.NewBaseFlow + flows.NewPPFlow / flows.NewAggchainProverFlow (BuildCertificate,
// signCertificate), agglayer/grpc AgglayerGRPCClient.SendCertificate + convertTo*, AggSender.sendCertificate
// (JSON marshalling, storage row), db.AggSenderSQLStorage (SQLite) and agglayer/types (the commitment
// functions and JSON codecs). Fakes: L2 bridge syncer, L1 info tree data, prover, the Agglayer's
// submission service (keeps the exact protobuf bytes), the signer (known key, records what it signs).
//
// One execution = one certificate shape pushed through the whole pipeline, then every single-field
// perturbation of the certificate object that BuildCertificate returned pushed through the real
// gRPC client, the real JSON codecs and the real commitment functions. Oracles: ref.go.
package main

import (
	"context"
	"encoding/json"
	"fmt"
	"reflect"
	"strings"
	"testing/synctest"
	"time"

	agglayertypes "github.com/agglayer/aggkit/agglayer/types"
	"github.com/agglayer/aggkit/aggsender/types"
	"github.com/ethereum/go-ethereum/crypto"
	"verif/h/kit"
	"verif/h/mc"
)

// ---- units -------------------------------------------------------------------------------------

func allExitV() []exitV {
	var out []exitV
	for a := 0; a < 3; a++ {
		for m := 0; m < 2; m++ {
			for l := 0; l < 2; l++ {
				out = append(out, exitV{a, m, l})
			}
		}
	}
	return out
}

// seqs returns all sequences over alphabet with length in [0,maxLen].
func seqs[T any](alphabet []T, maxLen int) [][]T {
	out := [][]T{nil}
	prev := [][]T{nil}
	for l := 1; l <= maxLen; l++ {
		var next [][]T
		for _, p := range prev {
			for _, a := range alphabet {
				next = append(next, append(append([]T{}, p...), a))
			}
		}
		out = append(out, next...)
		prev = next
	}
	return out
}

func allGlobalIndices() []impV {
	var out []impV
	for l := range giBoundary {
		out = append(out, impV{Kind: 0, LeafIdx: l})
	}
	for r := range giBoundary {
		for l := range giBoundary {
			out = append(out, impV{Kind: 1, Rollup: r, LeafIdx: l})
		}
	}
	// mainnet claims whose on-chain global index carries non-zero bits in the (unused) rollup part: the bridge contract
	// ignores them for a mainnet claim, DecodeGlobalIndex hands them on. (Appended last: indices into this list are used below.)
	for _, r := range []int{1, 4} {
		for _, l := range []int{0, 2, 4} {
			out = append(out, impV{Kind: 2, Rollup: r, LeafIdx: l})
		}
	}
	return out
}

func withInner(g impV, in exitV) impV { g.Inner = in; return g }

// units: the PIPELINE set (every shape: real flow + signer + client + send loop + storage, oracles 1 and 2,
// transport and commitment conformance of the built certificate) and, flagged inside it, the
// PERTURBATION set (shapes that additionally get every single-field perturbation, oracle 3).
func units(tier string) []mc.Unit {
	exits := allExitV()
	gis := allGlobalIndices()
	thorough := tier == "thorough"
	// the small imported alphabet used where the imported side is not the subject
	m0 := impV{Kind: 0, LeafIdx: 1, Inner: exitV{2, 1, 0}}
	r0 := impV{Kind: 1, Rollup: 1, LeafIdx: 3, Inner: exitV{1, 0, 1}}
	r1 := impV{Kind: 1, Rollup: 4, LeafIdx: 0, Inner: exitV{0, 1, 0}}
	m1 := impV{Kind: 0, LeafIdx: 4, Inner: exitV{0, 0, 1}}
	pairG := []impV{gis[0], gis[4], gis[2], gis[5], gis[9], gis[11], gis[25], gis[29]} // 3 mainnet, 5 rollup

	type shape struct {
		Exits   []exitV
		Imps    []impV
		Perturb int
	}
	var light, heavy []shape
	pipeline := func(es []exitV, is []impV) { light = append(light, shape{es, is, 0}) }
	// perturbations in the height-0 execution; thorough: in both executions, except for the 360 single imported exits
	both := 1
	if thorough {
		both = 2
	}
	perturb := func(es []exitV, is []impV) { heavy = append(heavy, shape{es, is, both}) }
	perturbOnce := func(es []exitV, is []impV) { heavy = append(heavy, shape{es, is, 1}) }

	// ---- pipeline set
	// family A: every exit sequence (0..2 exits over the full 12-variant alphabet) x small imported sides
	impSides := [][]impV{nil, {m0}, {r0}}
	if thorough {
		impSides = seqs([]impV{m0, r0, r1, m1}, 2)
	}
	for _, es := range seqs(exits, 2) {
		for _, is := range impSides {
			pipeline(es, is)
		}
	}
	// family B: one imported exit over the FULL alphabet (30 global indices x 12 claimed exits)
	exitSides := [][]exitV{nil}
	if thorough {
		exitSides = [][]exitV{nil, {{2, 1, 1}}, {{0, 0, 0}, {1, 1, 0}}}
	}
	for _, g := range gis {
		for _, in := range exits {
			for _, es := range exitSides {
				pipeline(es, []impV{withInner(g, in)})
			}
		}
	}
	// family C: two imported exits: ordered pairs of global indices, claimed exits rotating through the 12 variants
	pg := pairG
	if thorough {
		pg = gis
	}
	n := 0
	for _, g1 := range pg {
		for _, g2 := range pg {
			in1, in2 := exits[n%12], exits[(n/12+n*5+7)%12]
			n++
			if thorough && n%2 == 0 {
				pipeline([]exitV{exits[(n*7)%12]}, []impV{withInner(g1, in1), withInner(g2, in2)})
			} else {
				pipeline(nil, []impV{withInner(g1, in1), withInner(g2, in2)})
			}
		}
	}

	// family D: large certificates (sizes around the powers of two a batching or windowed conversion would pick)
	sizes := []int{127, 129, 257}
	if thorough {
		sizes = []int{63, 64, 65, 100, 127, 128, 129, 200, 255, 256, 257, 300, 511, 513, 1000}
	}
	for _, n := range sizes {
		var es []exitV
		var is []impV
		for i := 0; i < n; i++ {
			es = append(es, exits[i%12])
			is = append(is, impV{Kind: i % 2, Rollup: i % 2 * (1 + i/2%4), LeafIdx: -1, Leaf: uint32(i / 2), Inner: exits[(i*5+7)%12]})
		}
		pipeline(nil, is)
		pipeline(es, nil)
		pipeline(es[:n/2+1], is[:n/2+1])
	}

	// ---- perturbation set
	if thorough {
		for _, es := range seqs(exits, 2) { // every exit sequence
			perturb(es, nil)
		}
		for _, g := range gis { // every single imported exit
			for _, in := range exits {
				perturbOnce(nil, []impV{withInner(g, in)})
			}
		}
		n = 0
		for _, g1 := range pairG { // 8x8 pairs
			for _, g2 := range pairG {
				perturb(nil, []impV{withInner(g1, exits[n%12]), withInner(g2, exits[(n*5+7)%12])})
				n++
			}
		}
	} else {
		perturb(nil, nil)
		for i, e := range exits { // every exit variant at position 0 of a 1-sequence and at both positions of a 2-sequence
			perturb([]exitV{e}, nil)
			perturb([]exitV{e, exits[(i+5)%12]}, nil)
		}
		for i, g := range gis { // every global index; the claimed exit rotates through all 12 variants
			perturb(nil, []impV{withInner(g, exits[i%12])})
		}
		perturb(nil, []impV{withInner(gis[0], exits[3]), withInner(gis[4], exits[8])})    // mainnet, mainnet
		perturb(nil, []impV{withInner(gis[2], exits[0]), withInner(gis[29], exits[11])})  // mainnet, rollup
		perturb(nil, []impV{withInner(gis[5], exits[6]), withInner(gis[1], exits[1])})    // rollup, mainnet
		perturb(nil, []impV{withInner(gis[11], exits[10]), withInner(gis[25], exits[5])}) // rollup, rollup
	}
	// mixed shapes
	perturb([]exitV{{2, 1, 0}}, []impV{m0})
	perturb([]exitV{{0, 0, 1}}, []impV{r0})
	perturb([]exitV{{1, 1, 1}, {0, 0, 0}}, []impV{m0, r0})
	perturb([]exitV{{2, 0, 0}, {2, 1, 1}}, []impV{r1, m1})

	// ---- merge (a shape of the perturbation set is also a pipeline shape), spread the heavy units evenly
	var us []mc.Unit
	seen := map[string]int{}
	emit := func(sc int, sh shape, heavyUnit bool) {
		if sc == schemePP && len(sh.Exits) == 0 && len(sh.Imps) == 0 {
			return // the PP flow sends no certificate for an empty range
		}
		s := spec{Scheme: sc, Exits: sh.Exits, Imps: sh.Imps, Perturb: sh.Perturb}
		if i, dup := seen[s.String()]; dup {
			if sh.Perturb > us[i].Params.(spec).Perturb {
				us[i] = mc.Unit{Name: s.String() + " +perturbations", Params: s}
			}
			return
		}
		seen[s.String()] = len(us)
		name := s.String()
		if heavyUnit {
			name += " +perturbations"
		}
		us = append(us, mc.Unit{Name: name, Params: s})
	}
	for _, sc := range []int{schemePP, schemeFEP, schemeFEPOpt} {
		every := 1
		if len(heavy) > 0 {
			every = len(light)/len(heavy) + 1
		}
		hi := 0
		for i, sh := range light {
			emit(sc, sh, false)
			if i%every == every-1 && hi < len(heavy) {
				emit(sc, heavy[hi], true)
				hi++
			}
		}
		for ; hi < len(heavy); hi++ {
			emit(sc, heavy[hi], true)
		}
	}
	return us
}

// ---- one certificate through codecs and commitments ---------------------------------------------

type certView struct {
	flat        []kv
	pp, fep, id []byte
}

// fieldKey makes a short canonical key from the first differing flat key.
func fieldKey(d []fdiff) string { return classOf(d[0].K) }

func showDiff(d []fdiff) string { return showDiffAs(d, "built", "seen") }

func showDiffAs(d []fdiff, la, lb string) string {
	s := ""
	for i, x := range d {
		if i == 3 {
			s += fmt.Sprintf(" …(%d more)", len(d)-3)
			break
		}
		if classOf(x.K) == "metadata" {
			s += fmt.Sprintf(" %s differs;", x.K) // wall-clock dependent value: not printed
			continue
		}
		s += fmt.Sprintf(" %s: %s=%s %s=%s;", x.K, la, x.A, lb, x.B)
	}
	return s
}

// checkCert pushes cert through the real gRPC client, the real JSON codecs and the real commitment
// functions, and compares with the reference decoders / commitments. what names the input.
func checkCert(c *mc.Ctx, w *world, cert *agglayertypes.Certificate, what string) (*certView, bool) {
	ns := fromStruct(cert)
	fs := flat(ns)
	ok := true

	// wire
	raw, err := w.sendRaw(cert)
	if err != nil {
		c.Failf("transport/wire/send-failed", "%s: the gRPC client refused the certificate: %v", what, err)
		return nil, false
	}
	nw, err := fromWire(raw)
	if err != nil {
		c.Failf("transport/wire/unreadable", "%s: %v", what, err)
		return nil, false
	}
	if d := diffFlat(fs, flat(nw)); len(d) > 0 {
		c.Failf("transport/wire/"+fieldKey(d), "%s: the protobuf message differs from the certificate object:%s", what, showDiff(d))
		ok = false
	}

	// JSON: the text, read generically; and the node's own decoder (round trip)
	txt, err := json.Marshal(cert)
	if err != nil {
		c.Failf("transport/json/marshal-failed", "%s: %v", what, err)
		return nil, false
	}
	nj, err := fromJSON(string(txt))
	if err != nil {
		c.Failf("transport/json/unreadable", "%s: the stored JSON does not show a covered field: %v", what, err)
		return nil, false
	}
	if d := diffFlat(fs, flat(nj)); len(d) > 0 {
		c.Failf("transport/json/"+fieldKey(d), "%s: the JSON text differs from the certificate object:%s", what, showDiff(d))
		ok = false
	}
	var back agglayertypes.Certificate
	if err := json.Unmarshal(txt, &back); err != nil {
		c.Failf("transport/json-roundtrip/unmarshal-failed", "%s: %v", what, err)
		return nil, false
	}
	if d := diffFlat(fs, flat(fromStruct(&back))); len(d) > 0 {
		c.Failf("transport/json-roundtrip/"+fieldKey(d), "%s: marshal→unmarshal changes the certificate:%s", what, showDiff(d))
		ok = false
	}

	// commitments: real functions on the object vs reference on what was sent / stored
	hc := deepCopyCert(cert) // the real hash functions write into the object (nil amount → 0)
	v := &certView{flat: fs}
	func() {
		defer func() {
			if x := recover(); x != nil {
				c.Failf("commit/panics", "%s: a commitment function panics: %v", what, x)
				v = nil
			}
		}()
		v.pp, v.fep, v.id = hc.PPHashToSign().Bytes(), hc.FEPHashToSign().Bytes(), hc.Hash().Bytes()
	}()
	if v == nil {
		return nil, false
	}
	for _, x := range []struct {
		name string
		real []byte
		ref  func(*nCert) []byte
	}{{"pp", v.pp, refPPCommit}, {"fep", v.fep, refFEPCommit}, {"id", v.id, refCertID}} {
		if r := x.ref(nw); !eq(x.real, r) {
			c.Failf("commit/"+x.name+"/real-ne-reference-from-wire", "%s: node computes %x, the wire message commits to %x", what, x.real, r)
			ok = false
		}
		if r := x.ref(nj); !eq(x.real, r) {
			c.Failf("commit/"+x.name+"/real-ne-reference-from-json", "%s: node computes %x, the stored JSON commits to %x", what, x.real, r)
			ok = false
		}
	}
	return v, ok
}

// ---- one execution -----------------------------------------------------------------------------

var listTemplates = map[reflect.Type]func() reflect.Value{
	reflect.TypeOf((*agglayertypes.BridgeExit)(nil)):         func() reflect.Value { return reflect.ValueOf(templateExit()) },
	reflect.TypeOf((*agglayertypes.ImportedBridgeExit)(nil)): func() reflect.Value { return reflect.ValueOf(templateImported()) },
}

func run(c *mc.Ctx, u mc.Unit) {
	sp := u.Params.(spec)
	withPrev := c.Choose(2, "previous-certificate") == 1
	w, err := newWorld(sp, withPrev)
	if err != nil {
		panic(fmt.Sprintf("c10 harness: cannot build the world for %s: %v", sp, err))
	}
	defer w.close()
	// The send steps run in a synctest bubble: the certificate's creation time (part of its metadata, hence of its
	// identity) comes from a deterministic clock, and the retry below happens two (fake) seconds after the first send.
	synctest.Run(func() { runSteps(c, sp, withPrev, w) })
}

func runSteps(c *mc.Ctx, sp spec, withPrev bool, w *world) {
	w.wire()
	// ---- the real pipeline: one epoch tick of the send loop. The signer may answer the first request late (90 fake
	// seconds). A node that does not wait that long sends nothing in this iteration; its next iteration, after the L2 data
	// of the range changed, must then send a certificate that carries a signature over ITS OWN commitment.
	slowSigner := sp.Perturb == 0 && (len(sp.Exits) > 0 || len(sp.Imps) > 0) && len(sp.Exits) <= 8 && len(sp.Imps) <= 8 &&
		c.Bool("first-signing-request-is-answered-after-90s")
	if slowSigner {
		w.signer.slowOnce = 90 * time.Second //nolint:mnd
		c.Witness("executions_with_a_slow_signer")
	}
	w.sender.VerifEpochTick(context.Background())
	if slowSigner && len(w.submission.requests) == 0 {
		c.Witness("iterations_given_up_on_the_slow_signer")
		w.mutateRange()
		time.Sleep(3 * time.Minute) // fake clock: the late answer of the signer has arrived meanwhile
		w.flow.built, w.submission.requests = nil, nil
		w.epochs.ch <- types.EpochEvent{Epoch: 2} //nolint:mnd
		w.sender.VerifEpochTick(context.Background())
	}
	if len(w.flow.built) != 1 || len(w.submission.requests) != 1 {
		c.Failf("pipeline/no-certificate-sent", "%s prev=%v: built %d certificates, submitted %d; last error: %q", sp, withPrev,
			len(w.flow.built), len(w.submission.requests), w.sender.Info().AggsenderStatus.LastError)
		return
	}
	// verify checks one submission end to end: built certificate = wire = stored copy, and the signature is the
	// configured signer's over the commitment recomputed from the wire and from the stored copy
	verify := func(built *agglayertypes.Certificate, raw []byte, in string) (nwOut *nCert, commitOut []byte, kindOut string, ok bool) {
		nw, err := fromWire(raw)
		if err != nil {
			c.Failf("transport/wire/unreadable", "%s: %v", in, err)
			return nil, nil, "", false
		}
		row, err := w.storage.GetCertificateByHeight(nw.Height)
		if err != nil || row == nil || row.SignedCertificate == nil {
			c.Failf("pipeline/certificate-not-stored", "%s: no stored copy at the submitted height %d: %v (last error %q)", in,
				nw.Height, err, w.sender.Info().AggsenderStatus.LastError)
			return nil, nil, "", false
		}
		stored := *row.SignedCertificate
		nj, err := fromJSON(stored)
		if err != nil {
			c.Failf("transport/json/unreadable", "%s: the stored JSON does not show a covered field: %v", in, err)
			return nil, nil, "", false
		}
		fb := flat(fromStruct(built))
		if d := diffFlat(fb, flat(nw)); len(d) > 0 {
			c.Failf("transport/wire/"+fieldKey(d), "%s: the submitted message differs from the built certificate:%s", in, showDiff(d))
		}
		if d := diffFlat(fb, flat(nj)); len(d) > 0 {
			c.Failf("transport/json/"+fieldKey(d), "%s: the stored copy differs from the built certificate:%s", in, showDiff(d))
		}
		if d := diffFlat(flat(nw), flat(nj)); len(d) > 0 {
			c.Failf("stored-ne-sent/"+fieldKey(d), "%s: the stored copy differs from the submitted message:%s", in, showDiffAs(d, "sent", "stored"))
		}

		// ---- oracle 1+2: what was signed, by whom
		commitW, kindW := refSigningCommit(nw)
		commitJ, _ := refSigningCommit(nj)
		wantKind := "pp"
		if sp.Scheme != schemePP {
			wantKind = "fep"
		}
		if kindW != wantKind {
			c.Failf("signing/wrong-scheme", "%s: the message carries aggchain data of kind %q", in, nw.Agg.Kind)
		}
		var rec *sigRecord
		for i := range w.signer.recs {
			if eq(w.signer.recs[i].Sig, nw.Agg.Signature) {
				rec = &w.signer.recs[i]
			}
		}
		switch {
		case rec == nil:
			c.Failf("signature/not-produced-by-signer", "%s: the submitted signature %x is none of the %d the signer produced", in,
				nw.Agg.Signature, len(w.signer.recs))
		default:
			if !eq(rec.Hash.Bytes(), commitW) {
				c.Failf("signer/hash-ne-commitment-of-sent", "%s: signer was asked to sign %x, the submitted message commits (%s) to %x", in,
					rec.Hash, kindW, commitW)
			}
			if !eq(rec.Hash.Bytes(), commitJ) {
				c.Failf("signer/hash-ne-commitment-of-stored", "%s: signer was asked to sign %x, the stored copy commits to %x", in, rec.Hash, commitJ)
			}
		}
		if !eq(nw.Agg.Signature, nj.Agg.Signature) {
			c.Failf("signature/sent-ne-stored", "%s: sent %x stored %x", in, nw.Agg.Signature, nj.Agg.Signature)
		}
		for _, x := range []struct {
			where  string
			commit []byte
			sig    []byte
		}{{"sent", commitW, nw.Agg.Signature}, {"stored", commitJ, nj.Agg.Signature}} {
			good := false
			if len(x.sig) == 65 {
				s := append([]byte{}, x.sig...)
				if s[64] >= 27 {
					s[64] -= 27
				}
				if pub, err := crypto.SigToPub(x.commit, s); err == nil && crypto.PubkeyToAddress(*pub) == w.signer.PublicAddress() {
					good = true
				}
			}
			if !good {
				c.Failf("signature/does-not-recover-to-signer/"+x.where, "%s: signature %x over the %s commitment %x does not recover to %s", in,
					x.sig, x.where, x.commit, w.signer.PublicAddress())
			}
		}
		// identity: the id the (model) Agglayer derived from the wire is the one recorded, and the stored copy reproduces it
		if idW := refCertID(nw); !eq(row.Header.CertificateID.Bytes(), idW) || !eq(refCertID(nj), idW) {
			c.Failf("identity/stored-ne-sent", "%s: id from wire %x, recorded %x, from stored copy %x", in, idW, row.Header.CertificateID, refCertID(nj))
		}

		return nw, commitW, kindW, true
	}
	built := w.flow.built[0]
	in := fmt.Sprintf("%s prev=%v", sp, withPrev)
	nw, commitW, kindW, ok := verify(built, w.submission.requests[0], in)
	if !ok {
		return
	}
	// ---- the certificate ends in error and is sent again after the L2 data of its range changed (a reorg
	// replaced a bridge / a claim): the retry is a new certificate and needs its own signature
	if sp.Perturb == 0 && (len(sp.Exits) > 0 || len(sp.Imps) > 0) && c.Bool("in-error-then-retry-after-the-range-changed") {
		row, err := w.storage.GetCertificateByHeight(nw.Height)
		if err != nil || row == nil {
			c.Failf("pipeline/certificate-not-stored", "%s: %v", in, err)
			return
		}
		if err := w.storage.UpdateCertificateStatus(context.Background(), row.Header.CertificateID, agglayertypes.InError, row.Header.CreatedAt+1); err != nil {
			c.Failf("harness/cannot-mark-in-error", "%v", err)
			return
		}
		w.mutateRange()
		time.Sleep(2 * time.Second) // fake clock
		w.flow.built, w.submission.requests = nil, nil
		w.epochs.ch <- types.EpochEvent{Epoch: 2}
		w.sender.VerifEpochTick(context.Background())
		if len(w.flow.built) != 1 || len(w.submission.requests) != 1 {
			c.Failf("pipeline/no-retry-sent", "%s: after InError: built %d certificates, submitted %d; last error: %q", in,
				len(w.flow.built), len(w.submission.requests), w.sender.Info().AggsenderStatus.LastError)
			return
		}
		c.Witness("retries_after_the_range_changed")
		if _, _, _, ok := verify(w.flow.built[0], w.submission.requests[0], in+" retry-after-InError"); !ok {
			return
		}
		c.NonTrivial()
		return
	}
	if nw.Height != w.wantHeight {
		c.Obs("%s: note: submitted height %d, the harness expected %d (not part of this property)", in, nw.Height, w.wantHeight)
	}

	base, _ := checkCert(c, w, built, in+" (built certificate)")
	if base == nil {
		return
	}
	c.NonTrivial()
	c.Witness("signed_" + schemeNames[sp.Scheme])
	if withPrev {
		c.Witness("height_above_2^53")
	} else {
		c.Witness("height_zero")
	}
	for _, e := range nw.Exits {
		witnessExit(c, "exit", &e)
	}
	for _, m := range nw.Imps {
		witnessExit(c, "claimed", &m.BE)
		c.Witness("imported_" + m.Claim.Kind)
	}

	// ---- oracle 3: every single-field perturbation of the built certificate
	if sp.Perturb == 0 || (withPrev && sp.Perturb < 2) {
		c.Obs("%s: signed %s commitment %x id %x; pipeline only", in, kindW, commitW, refCertID(nw))
		return
	}
	c.Witness("executions_with_perturbations")
	work := deepCopyCert(built)
	sites := sitesOf(work, listTemplates)
	nSites := len(sites)
	nPert, nCovered, nTransportOnly := 0, 0, 0
	for _, s := range sites {
		for _, mu := range s.muts {
			saved := saveSite(s.v)
			mu.apply(s.v)
			what := fmt.Sprintf("%s perturbed %s %s", in, s.path, mu.name)
			nPert++
			c.AddEvals(1)
			c.Distinct(fmt.Sprintf("%v|%s|%s", withPrev, s.path, mu.name))
			v, _ := checkCert(c, w, work, what)
			s.v.Set(saved)
			if v == nil {
				continue
			}
			changed := diffFlat(base.flat, v.flat)
			if mu.noop {
				if len(changed) != 1 || !strings.HasSuffix(changed[0].K, ".amount") {
					panic("c10 harness: absent<->zero amount perturbation must change exactly one amount entry: " + what)
				}
				nTransportOnly++
				continue
			}
			if len(changed) == 0 {
				panic("c10 harness: perturbation is invisible in the neutral view (unmapped field?): " + what)
			}
			cov := 0
			for _, d := range changed {
				cv, known := coverage[classOf(d.K)]
				if !known {
					panic("c10 harness: no coverage entry for " + classOf(d.K))
				}
				cov |= cv
			}
			if cov == 0 {
				nTransportOnly++
			} else {
				nCovered++
			}
			pc := pathClass(s.path)
			if cov&covPP != 0 && eq(v.pp, base.pp) {
				c.Failf("insensitive/pp/"+pc, "%s: the PP commitment stays %x", what, v.pp)
			}
			if cov&covFEP != 0 && eq(v.fep, base.fep) {
				c.Failf("insensitive/fep/"+pc, "%s: the aggchain-proof commitment stays %x", what, v.fep)
			}
			if cov&covID != 0 && eq(v.id, base.id) {
				c.Failf("insensitive/id/"+pc, "%s: the certificate id stays %x", what, v.id)
			}
		}
	}
	// the working copy must be back to the built certificate (the undo above is exact)
	if d := diffFlat(base.flat, flat(fromStruct(work))); len(d) > 0 {
		panic("c10 harness: working copy not restored: " + showDiff(d))
	}
	if nCovered > 0 {
		c.Witness("executions_with_covered_perturbations")
	}
	c.Obs("%s: signed %s commitment %x id %x; %d sites, %d perturbations (%d covered, %d transport-only)", in, kindW, commitW,
		refCertID(nw), nSites, nPert, nCovered, nTransportOnly)
}

func witnessExit(c *mc.Ctx, kind string, e *nBE) {
	switch {
	case e.Amount.Sign() == 0:
		c.Witness(kind + "_amount_zero_or_absent")
	case e.Amount.Cmp(max256) == 0:
		c.Witness(kind + "_amount_max")
	}
	if len(e.Metadata) == 0 {
		c.Witness(kind + "_metadata_absent")
	} else {
		c.Witness(kind + "_metadata_hashed")
	}
}

func main() {
	mc.Main(mc.Spec{
		ID: "C10", Level: "exploration",
		Units: units,
		Batch: func(string) int { return 24 },
		Run:   run,
		Setup: func(string) { kit.Quiet() },
		Rule: "unit = one certificate shape (scheme, exit sequence, imported-exit sequence); a choice point selects first certificate " +
			"(height 0) vs successor of a settled certificate (height 0x0102030405060708); every execution runs the real flow + signer + " +
			"gRPC client + send loop + SQLite storage once (oracles 1, 2, transport and commitment conformance of the built certificate); " +
			"units marked +perturbations then push every single-field perturbation of the built certificate (one evaluation each) through " +
			"the real gRPC client, JSON codecs and commitment functions (oracle 3; in the height-0 execution, thorough: in both except for single imported exits); " +
			"non-trivial = a certificate was signed, sent and stored; distinct = distinct (unit, height variant, perturbed path, new value)",
		Assumptions: []string{
			"coverage sets, read from the commitment code and fixed in ref.go: PP commitment = {new_local_exit_root, number of imported exits, " +
				"every imported exit's global index}; aggchain-proof (FEP) commitment = PP's set + {height, aggchain_params, all 7 fields of every " +
				"imported exit's claimed bridge exit}; certificate id = {network_id, height, prev/new local exit root, number and all 7 fields of " +
				"every bridge exit, every imported exit's claimed exit, global index, claim kind, all Merkle proofs (root + 32 siblings) and the " +
				"L1 leaf's inner part (global exit root, block hash, timestamp)}",
			"outside every commitment and the id (checked for faithful transport only): certificate metadata, custom_chain_data, " +
				"l1_info_tree_leaf_count, the aggchain proof/version/vkey/context, the signature itself, the L1 leaf's index / rer / mer",
			"an absent (nil) amount is committed to as 0 (the commitment code says so); absent and present-zero are nevertheless different " +
				"representations and each must be transported as it is: absent = field omitted on the wire and the spelling \"<nil>\" in the " +
				"node's JSON (accepted by the reference JSON reader as absent); nil<->0 is a perturbation that must be visible on the wire and " +
				"in the JSON but need not change a commitment",
			"fixed-size protobuf fields (FixedBytes32/20) must carry exactly that many bytes; FixedBytes65 (signature) is not length-checked " +
				"because the signature is perturbed in length too",
			"a bridge exit's metadata is the 32-byte keccak of the bridge metadata or absent (what the flows build); other lengths are outside " +
				"the domain; absent metadata is committed to as keccak of the empty string",
			"a global index is one 256-bit value; for a mainnet index the rollup part carries no information (the bridge contract ignores it): " +
				"the shapes include mainnet claims whose on-chain index has non-zero bits there, the value every carrier must denote is flag<<64 | leaf, " +
				"rollup_index of a mainnet index is not perturbed and switching the flag on clears it",
			"leaf type is perturbed inside {transfer, message}; amounts stay below 2^256; pointers are not set to nil and the claim kind / " +
				"aggchain-data kind of an element is not switched by a perturbation (both kinds occur in the shapes)",
			"in the stored JSON a field covered by a commitment or by the id must be present as a key; uncovered fields may be omitted when zero/empty",
			"certificate metadata contains the wall-clock creation time; it is compared between object, wire and stored copy but never printed",
		},
		Bounds: func(tier string) map[string]any {
			b := map[string]any{
				"schemes":                    "pp, fep (full aggchain data), fepopt (optimistic mode, minimal aggchain data)",
				"exit_alphabet":              "amount {nil,0,2^256-1} x metadata {empty,non-empty} x leaf {asset,message}",
				"global_index_boundary":      giBoundary,
				"height":                     []string{"0", "0x0102030405060708"},
				"perturbation_scalar_values": map[string]any{"uint32": u32Boundary, "uint64": u64Boundary},
				"pipeline_family_A":          "all exit sequences of length 0..2 (157) x imported sides {[], [mainnet], [rollup]}",
				"pipeline_family_B":          "one imported exit over all 30 global indices x 12 claimed exits, no exits",
				"pipeline_family_C":          "two imported exits: 8x8 ordered pairs of global indices (all kind combinations), claimed exits rotating",
				"perturbation_set": "empty certificate; every exit variant alone and at both positions of a pair (24 sequences); every global " +
					"index as a single imported exit (30, claimed exits rotating through all 12); 4 imported pairs (mm, mr, rm, rr); 4 mixed " +
					"shapes up to 2 exits + 2 imported; height-0 execution only",
				"perturbations": "every scalar -> every other boundary value; every byte array: first and last byte flipped (all 32 siblings " +
					"of every Merkle proof); every byte string also shortened / extended; every list: drop last, drop first, append; amounts " +
					"-> {nil, 0, 1, 2^255, 2^256-1, 0x0102..20}; exit metadata absent <-> present; context map: add / remove / change entry",
			}
			if tier == "thorough" {
				b["pipeline_family_A"] = "all exit sequences of length 0..2 (157) x all imported sequences of length 0..2 over 4 variants (21)"
				b["pipeline_family_B"] = "one imported exit over all 30 global indices x 12 claimed exits x exit sides {[], [1], [2]}"
				b["pipeline_family_C"] = "two imported exits: all 30x30 ordered pairs of global indices, claimed exits rotating, every second one with an exit"
				b["perturbation_set"] = "all 157 exit sequences, 8x8 imported pairs, 4 mixed shapes: in both height variants; all 360 single imported exits: height-0 execution"
			}
			return b
		},
	})
}
