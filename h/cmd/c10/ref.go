package main

// Reference side of C10. Nothing in this file touches aggkit's certificate structs: the two decoders
// read (a) the protobuf bytes that left the real gRPC client and (b) the stored JSON as a generic
// map[string]any, into a neutral view (nCert). The reference commitments are computed on that view.
//
// Byte layouts (re-implemented from the documented agglayer formats, cross-read against
// agglayer/types/types.go):
//
//	beHash(e)    = keccak( leaf(1: 0 transfer | 1 message) ‖ BE32(origin_network) ‖ origin_token(20) ‖
//	                       BE32(dest_network) ‖ dest_address(20) ‖ BE256(amount) ‖ (metadata(32) | keccak("") if absent) )
//	giHash(g)    = keccak( LE256(global_index) )                 global_index = flag<<64 | rollup<<32 | leaf
//	mpHash(p)    = keccak( root ‖ sibling_0 ‖ … ‖ sibling_31 )
//	innerHash(l) = keccak( global_exit_root ‖ block_hash ‖ BE64(timestamp) )
//	claimHash    = keccak( mpHash(leaf_mer) ‖ mpHash(ger_l1root) ‖ innerHash )                      (mainnet)
//	             = keccak( mpHash(leaf_ler) ‖ mpHash(ler_rer) ‖ mpHash(ger_l1root) ‖ innerHash )    (rollup)
//	ibeHash(i)   = keccak( beHash(i.bridge_exit) ‖ claimHash(i) ‖ giHash(i.global_index) )
//	CertID       = keccak( BE32(network_id) ‖ BE64(height) ‖ prev_ler ‖ new_ler ‖ keccak(beHash…) ‖ keccak(ibeHash…) )
//	PPCommit     = keccak( new_ler ‖ keccak( giHash_0 ‖ giHash_1 ‖ … ) )
//	FEPCommit    = keccak( new_ler ‖ keccak( (LE256(gi_0) ‖ beHash(ibe_0.bridge_exit)) ‖ … ) ‖ LE64(height) ‖
//	                       (aggchain_params(32) if aggchain_data is a proof | keccak("") otherwise) )

import (
	"bytes"
	"encoding/base64"
	"encoding/binary"
	"encoding/hex"
	"encoding/json"
	"fmt"
	"math/big"
	"sort"
	"strconv"
	"strings"

	v1 "buf.build/gen/go/agglayer/agglayer/protocolbuffers/go/agglayer/node/v1"
	v1types "buf.build/gen/go/agglayer/interop/protocolbuffers/go/agglayer/interop/types/v1"
	"golang.org/x/crypto/sha3"
	"google.golang.org/protobuf/proto"
)

// ---- neutral view ----------------------------------------------------------------------------

type nBE struct {
	LeafType      int // 0 transfer, 1 message, <0 anything else
	OriginNetwork uint32
	OriginToken   []byte
	DestNetwork   uint32
	DestAddress   []byte
	Amount        *big.Int // an absent amount counts as 0 in every commitment
	AmountAbsent  bool     // … but absent vs present-and-zero is part of what is transported
	Metadata      []byte   // absent metadata is empty
}

type nMP struct {
	Name     string
	Root     []byte
	Siblings [][]byte
}

type nClaim struct {
	Kind      string // mainnet | rollup
	Proofs    []nMP
	L1Index   uint32
	RER, MER  []byte
	GER       []byte
	BlockHash []byte
	Timestamp uint64
}

type nIBE struct {
	BE          nBE
	GlobalIndex *big.Int
	Claim       nClaim
}

type nAgg struct {
	Kind      string // signature | proof | none
	Signature []byte
	Proof     []byte
	Version   string
	Vkey      []byte
	Params    []byte
	Context   map[string][]byte
}

type nCert struct {
	NetworkID uint32
	Height    uint64
	PrevLER   []byte
	NewLER    []byte
	Metadata  []byte
	Exits     []nBE
	Imps      []nIBE
	Custom    []byte
	Agg       nAgg
	L1Count   uint32
}

// ---- flattening -------------------------------------------------------------------------------

type kv struct{ K, V string }

func hx(b []byte) string { return hex.EncodeToString(b) }

func flatBE(out []kv, p string, e *nBE) []kv {
	lt := "invalid(" + strconv.Itoa(e.LeafType) + ")"
	switch e.LeafType {
	case 0:
		lt = "transfer"
	case 1:
		lt = "message"
	}
	amt := "absent"
	if !e.AmountAbsent && e.Amount != nil {
		amt = e.Amount.String()
	}
	return append(out,
		kv{p + ".leaf_type", lt},
		kv{p + ".origin_network", strconv.FormatUint(uint64(e.OriginNetwork), 10)},
		kv{p + ".origin_token_address", hx(e.OriginToken)},
		kv{p + ".dest_network", strconv.FormatUint(uint64(e.DestNetwork), 10)},
		kv{p + ".dest_address", hx(e.DestAddress)},
		kv{p + ".amount", amt},
		kv{p + ".metadata", hx(e.Metadata)},
	)
}

// flat lists every transported value of the view, in a fixed order.
func flat(c *nCert) []kv {
	out := make([]kv, 0, 64+len(c.Exits)*8+len(c.Imps)*120)
	out = append(out,
		kv{"network_id", strconv.FormatUint(uint64(c.NetworkID), 10)},
		kv{"height", strconv.FormatUint(c.Height, 10)},
		kv{"prev_local_exit_root", hx(c.PrevLER)},
		kv{"new_local_exit_root", hx(c.NewLER)},
		kv{"metadata", hx(c.Metadata)},
		kv{"custom_chain_data", hx(c.Custom)},
		kv{"l1_info_tree_leaf_count", strconv.FormatUint(uint64(c.L1Count), 10)},
		kv{"aggchain_data.kind", c.Agg.Kind},
		kv{"aggchain_data.signature", hx(c.Agg.Signature)},
		kv{"aggchain_data.proof", hx(c.Agg.Proof)},
		kv{"aggchain_data.version", c.Agg.Version},
		kv{"aggchain_data.vkey", hx(c.Agg.Vkey)},
		kv{"aggchain_data.aggchain_params", hx(c.Agg.Params)},
		kv{"aggchain_data.context.len", strconv.Itoa(len(c.Agg.Context))},
	)
	keys := make([]string, 0, len(c.Agg.Context))
	for k := range c.Agg.Context {
		keys = append(keys, k)
	}
	sort.Strings(keys)
	for _, k := range keys {
		out = append(out, kv{"aggchain_data.context[" + k + "]", hx(c.Agg.Context[k])})
	}
	out = append(out, kv{"bridge_exits.len", strconv.Itoa(len(c.Exits))})
	for i := range c.Exits {
		out = flatBE(out, "bridge_exits["+strconv.Itoa(i)+"]", &c.Exits[i])
	}
	out = append(out, kv{"imported_bridge_exits.len", strconv.Itoa(len(c.Imps))})
	for i := range c.Imps {
		p := "imported_bridge_exits[" + strconv.Itoa(i) + "]"
		m := &c.Imps[i]
		out = flatBE(out, p+".bridge_exit", &m.BE)
		gi := "absent"
		if m.GlobalIndex != nil {
			gi = m.GlobalIndex.Text(16)
		}
		out = append(out, kv{p + ".global_index", gi}, kv{p + ".claim.kind", m.Claim.Kind})
		for _, mp := range m.Claim.Proofs {
			q := p + ".claim." + mp.Name
			out = append(out, kv{q + ".root", hx(mp.Root)}, kv{q + ".siblings.len", strconv.Itoa(len(mp.Siblings))})
			for s, sib := range mp.Siblings {
				out = append(out, kv{q + ".siblings[" + strconv.Itoa(s) + "]", hx(sib)})
			}
		}
		out = append(out,
			kv{p + ".claim.l1_leaf.l1_info_tree_index", strconv.FormatUint(uint64(m.Claim.L1Index), 10)},
			kv{p + ".claim.l1_leaf.rer", hx(m.Claim.RER)},
			kv{p + ".claim.l1_leaf.mer", hx(m.Claim.MER)},
			kv{p + ".claim.l1_leaf.inner.global_exit_root", hx(m.Claim.GER)},
			kv{p + ".claim.l1_leaf.inner.block_hash", hx(m.Claim.BlockHash)},
			kv{p + ".claim.l1_leaf.inner.timestamp", strconv.FormatUint(m.Claim.Timestamp, 10)},
		)
	}
	return out
}

// classOf strips list indices and map keys from a flat key: bridge_exits[1].amount -> bridge_exits[].amount
func classOf(k string) string {
	var b strings.Builder
	in := false
	for _, r := range k {
		switch {
		case r == '[':
			in = true
			b.WriteString("[]")
		case r == ']':
			in = false
		case !in:
			b.WriteRune(r)
		}
	}
	return b.String()
}

type fdiff struct{ K, A, B string }

// diffFlat returns the keys whose values differ (a key missing on one side shows as "<absent>").
func diffFlat(a, b []kv) []fdiff {
	if len(a) == len(b) {
		same := true
		var d []fdiff
		for i := range a {
			if a[i].K != b[i].K {
				same = false
				break
			}
			if a[i].V != b[i].V {
				d = append(d, fdiff{a[i].K, a[i].V, b[i].V})
			}
		}
		if same {
			return d
		}
	}
	ma := map[string]string{}
	for _, x := range a {
		ma[x.K] = x.V
	}
	mb := map[string]string{}
	for _, x := range b {
		mb[x.K] = x.V
	}
	var d []fdiff
	for _, x := range a {
		if v, ok := mb[x.K]; !ok {
			d = append(d, fdiff{x.K, x.V, "<absent>"})
		} else if v != x.V {
			d = append(d, fdiff{x.K, x.V, v})
		}
	}
	for _, x := range b {
		if _, ok := ma[x.K]; !ok {
			d = append(d, fdiff{x.K, "<absent>", x.V})
		}
	}
	return d
}

// ---- decoder 1: the protobuf bytes ------------------------------------------------------------

// wr decodes fixed-size byte fields strictly (a receiver rejects a FixedBytes32 that is not 32 bytes).
type wr struct{ err error }

func (r *wr) fixed(b []byte, present bool, n int, what string) []byte {
	if present && len(b) != n && r.err == nil {
		r.err = fmt.Errorf("%s: fixed-size field of %d bytes carries %d bytes", what, n, len(b))
	}
	return b
}
func (r *wr) fb32(x *v1types.FixedBytes32, what string) []byte {
	return r.fixed(x.GetValue(), x != nil, 32, what)
}
func (r *wr) fb20(x *v1types.FixedBytes20, what string) []byte {
	return r.fixed(x.GetValue(), x != nil, 20, what)
}

func (r *wr) wireBE(e *v1types.BridgeExit) nBE {
	n := nBE{LeafType: -1, Amount: new(big.Int), AmountAbsent: true}
	if e == nil {
		return n
	}
	switch e.GetLeafType() {
	case v1types.LeafType_LEAF_TYPE_TRANSFER:
		n.LeafType = 0
	case v1types.LeafType_LEAF_TYPE_MESSAGE:
		n.LeafType = 1
	default:
		n.LeafType = -1 - int(e.GetLeafType())
	}
	n.OriginNetwork = e.GetTokenInfo().GetOriginNetwork()
	n.OriginToken = r.fb20(e.GetTokenInfo().GetOriginTokenAddress(), "origin_token_address")
	n.DestNetwork = e.GetDestNetwork()
	n.DestAddress = r.fb20(e.GetDestAddress(), "dest_address")
	if a := e.GetAmount(); a != nil {
		n.Amount = new(big.Int).SetBytes(r.fb32(a, "amount")) // "stored big-endian"
		n.AmountAbsent = false
	}
	if m := e.GetMetadata(); m != nil {
		n.Metadata = r.fb32(m, "bridge exit metadata")
	}
	return n
}

func (r *wr) wireMP(name string, p *v1types.MerkleProof) nMP {
	m := nMP{Name: name, Root: r.fb32(p.GetRoot(), name+".root")}
	for _, s := range p.GetSiblings() {
		m.Siblings = append(m.Siblings, r.fb32(s, name+".sibling"))
	}
	return m
}

func (r *wr) wireLeaf(c *nClaim, l *v1types.L1InfoTreeLeafWithContext) {
	c.L1Index = l.GetL1InfoTreeIndex()
	c.RER = r.fb32(l.GetRer(), "rer")
	c.MER = r.fb32(l.GetMer(), "mer")
	c.GER = r.fb32(l.GetInner().GetGlobalExitRoot(), "global_exit_root")
	c.BlockHash = r.fb32(l.GetInner().GetBlockHash(), "block_hash")
	c.Timestamp = l.GetInner().GetTimestamp()
}

// fromWire decodes the serialized SubmitCertificateRequest the way a receiver would.
func fromWire(raw []byte) (*nCert, error) {
	var req v1.SubmitCertificateRequest
	if err := proto.Unmarshal(raw, &req); err != nil {
		return nil, err
	}
	pc := req.GetCertificate()
	if pc == nil {
		return nil, fmt.Errorf("request carries no certificate")
	}
	r := &wr{}
	c := &nCert{
		NetworkID: pc.GetNetworkId(), Height: pc.GetHeight(),
		PrevLER: r.fb32(pc.GetPrevLocalExitRoot(), "prev_local_exit_root"), NewLER: r.fb32(pc.GetNewLocalExitRoot(), "new_local_exit_root"),
		Metadata: r.fb32(pc.GetMetadata(), "metadata"), Custom: pc.GetCustomChainData(), L1Count: pc.GetL1InfoTreeLeafCount(),
	}
	c.Agg.Kind = "none"
	if ad := pc.GetAggchainData(); ad != nil {
		if ad.HasSignature() {
			c.Agg.Kind = "signature"
			c.Agg.Signature = ad.GetSignature().GetValue()
		} else if ad.HasGeneric() {
			g := ad.GetGeneric()
			c.Agg.Kind = "proof"
			c.Agg.Signature = g.GetSignature().GetValue()
			c.Agg.Params = r.fb32(g.GetAggchainParams(), "aggchain_params")
			c.Agg.Context = g.GetContext()
			c.Agg.Proof = g.GetSp1Stark().GetProof()
			c.Agg.Version = g.GetSp1Stark().GetVersion()
			c.Agg.Vkey = g.GetSp1Stark().GetVkey()
		}
	}
	for _, e := range pc.GetBridgeExits() {
		c.Exits = append(c.Exits, r.wireBE(e))
	}
	for _, ib := range pc.GetImportedBridgeExits() {
		n := nIBE{BE: r.wireBE(ib.GetBridgeExit())}
		if g := ib.GetGlobalIndex(); g != nil {
			n.GlobalIndex = new(big.Int).SetBytes(r.fb32(g, "global_index"))
		}
		switch {
		case ib.HasMainnet():
			m := ib.GetMainnet()
			n.Claim.Kind = "mainnet"
			n.Claim.Proofs = []nMP{r.wireMP("proof_leaf_mer", m.GetProofLeafMer()), r.wireMP("proof_ger_l1root", m.GetProofGerL1Root())}
			r.wireLeaf(&n.Claim, m.GetL1Leaf())
		case ib.HasRollup():
			rl := ib.GetRollup()
			n.Claim.Kind = "rollup"
			n.Claim.Proofs = []nMP{r.wireMP("proof_leaf_ler", rl.GetProofLeafLer()), r.wireMP("proof_ler_rer", rl.GetProofLerRer()),
				r.wireMP("proof_ger_l1root", rl.GetProofGerL1Root())}
			r.wireLeaf(&n.Claim, rl.GetL1Leaf())
		default:
			n.Claim.Kind = "none"
		}
		c.Imps = append(c.Imps, n)
	}
	return c, r.err
}

// ---- decoder 2: the stored JSON, as a generic document ---------------------------------------

// jr is a strict reader over map[string]any that remembers the first problem.
type jr struct{ err error }

func (r *jr) fail(format string, a ...any) {
	if r.err == nil {
		r.err = fmt.Errorf(format, a...)
	}
}

func (r *jr) obj(v any, where string) map[string]any {
	m, ok := v.(map[string]any)
	if !ok {
		r.fail("%s: expected an object, got %T", where, v)
		return map[string]any{}
	}
	return m
}

// req fetches a key that must be present (fields covered by a commitment or the identity).
func (r *jr) req(m map[string]any, key, where string) any {
	v, ok := m[key]
	if !ok {
		r.fail("%s: key %q is missing", where, key)
	}
	return v
}

func (r *jr) u64(v any, where string, bits int) uint64 {
	n, ok := v.(json.Number)
	if !ok {
		r.fail("%s: expected a number, got %T", where, v)
		return 0
	}
	x, err := strconv.ParseUint(n.String(), 10, bits)
	if err != nil {
		r.fail("%s: %v", where, err)
	}
	return x
}

// hex0x reads "0x…" hex of exactly n bytes.
func (r *jr) hex0x(v any, where string, n int) []byte {
	s, ok := v.(string)
	if !ok || !strings.HasPrefix(s, "0x") {
		r.fail("%s: expected a 0x-hex string, got %v", where, v)
		return nil
	}
	b, err := hex.DecodeString(s[2:])
	if err != nil || len(b) != n {
		r.fail("%s: not %d hex bytes: %q", where, n, s)
	}
	return b
}

// hexPlain reads bare hex (no prefix); null / absent is empty.
func (r *jr) hexPlain(v any, where string) []byte {
	if v == nil {
		return nil
	}
	s, ok := v.(string)
	if !ok {
		r.fail("%s: expected a hex string, got %T", where, v)
		return nil
	}
	b, err := hex.DecodeString(s)
	if err != nil {
		r.fail("%s: bad hex %q", where, s)
	}
	return b
}

func (r *jr) b64(v any, where string) []byte {
	if v == nil {
		return nil
	}
	s, ok := v.(string)
	if !ok {
		r.fail("%s: expected a base64 string, got %T", where, v)
		return nil
	}
	b, err := base64.StdEncoding.DecodeString(s)
	if err != nil {
		r.fail("%s: bad base64 %q", where, s)
	}
	return b
}

func (r *jr) be(v any, where string) nBE {
	m := r.obj(v, where)
	n := nBE{LeafType: -1, Amount: new(big.Int)}
	switch lt := r.req(m, "leaf_type", where); lt {
	case "Transfer":
		n.LeafType = 0
	case "Message":
		n.LeafType = 1
	default:
		r.fail("%s.leaf_type: unknown %v", where, lt)
	}
	ti := r.obj(r.req(m, "token_info", where), where+".token_info")
	n.OriginNetwork = uint32(r.u64(r.req(ti, "origin_network", where), where+".origin_network", 32))
	n.OriginToken = r.hex0x(r.req(ti, "origin_token_address", where), where+".origin_token_address", 20)
	n.DestNetwork = uint32(r.u64(r.req(m, "dest_network", where), where+".dest_network", 32))
	n.DestAddress = r.hex0x(r.req(m, "dest_address", where), where+".dest_address", 20)
	switch a := r.req(m, "amount", where).(type) {
	case string:
		if a == "<nil>" { // the node's spelling of an absent amount (see Assumptions)
			n.AmountAbsent = true
			break
		}
		x, ok := new(big.Int).SetString(a, 10)
		if !ok || x.Sign() < 0 {
			r.fail("%s.amount: not a decimal number: %q", where, a)
		} else {
			n.Amount = x
		}
	default:
		r.fail("%s.amount: expected a decimal string, got %T", where, a)
	}
	n.Metadata = r.hexPlain(r.req(m, "metadata", where), where+".metadata")
	return n
}

func (r *jr) mp(name string, v any, where string) nMP {
	m := r.obj(v, where)
	p := nMP{Name: name, Root: r.hex0x(r.req(m, "root", where), where+".root", 32)}
	pr := r.obj(r.req(m, "proof", where), where+".proof")
	sib, ok := r.req(pr, "siblings", where).([]any)
	if !ok {
		r.fail("%s.proof.siblings: expected an array", where)
	}
	for i, s := range sib {
		p.Siblings = append(p.Siblings, r.hex0x(s, fmt.Sprintf("%s.siblings[%d]", where, i), 32))
	}
	return p
}

func (r *jr) leaf(c *nClaim, v any, where string) {
	m := r.obj(v, where)
	// index, rer, mer are outside every commitment: absent reads as zero
	if x, ok := m["l1_info_tree_index"]; ok {
		c.L1Index = uint32(r.u64(x, where+".l1_info_tree_index", 32))
	}
	if x, ok := m["rer"]; ok {
		c.RER = r.hex0x(x, where+".rer", 32)
	}
	if x, ok := m["mer"]; ok {
		c.MER = r.hex0x(x, where+".mer", 32)
	}
	in := r.obj(r.req(m, "inner", where), where+".inner")
	c.GER = r.hex0x(r.req(in, "global_exit_root", where), where+".inner.global_exit_root", 32)
	c.BlockHash = r.hex0x(r.req(in, "block_hash", where), where+".inner.block_hash", 32)
	c.Timestamp = r.u64(r.req(in, "timestamp", where), where+".inner.timestamp", 64)
}

// fromJSON decodes the stored certificate text as a generic JSON document.
func fromJSON(raw string) (*nCert, error) {
	dec := json.NewDecoder(strings.NewReader(raw))
	dec.UseNumber()
	var doc any
	if err := dec.Decode(&doc); err != nil {
		return nil, err
	}
	r := &jr{}
	m := r.obj(doc, "certificate")
	c := &nCert{}
	c.NetworkID = uint32(r.u64(r.req(m, "network_id", "certificate"), "network_id", 32))
	c.Height = r.u64(r.req(m, "height", "certificate"), "height", 64)
	c.PrevLER = r.hex0x(r.req(m, "prev_local_exit_root", "certificate"), "prev_local_exit_root", 32)
	c.NewLER = r.hex0x(r.req(m, "new_local_exit_root", "certificate"), "new_local_exit_root", 32)
	// not covered by any commitment: absent reads as empty / zero
	if x, ok := m["metadata"]; ok {
		c.Metadata = r.hex0x(x, "metadata", 32)
	}
	if x, ok := m["custom_chain_data"]; ok {
		c.Custom = r.b64(x, "custom_chain_data")
	}
	if x, ok := m["l1_info_tree_leaf_count"]; ok {
		c.L1Count = uint32(r.u64(x, "l1_info_tree_leaf_count", 32))
	}
	c.Agg.Kind = "none"
	if x, ok := m["aggchain_data"]; ok && x != nil {
		ad := r.obj(x, "aggchain_data")
		if _, isProof := ad["proof"]; isProof {
			c.Agg.Kind = "proof"
			c.Agg.Proof = r.hexPlain(ad["proof"], "aggchain_data.proof")
			c.Agg.Vkey = r.hexPlain(ad["vkey"], "aggchain_data.vkey")
			if s, ok := ad["version"].(string); ok {
				c.Agg.Version = s
			}
			c.Agg.Params = r.hex0x(r.req(ad, "aggchain_params", "aggchain_data"), "aggchain_data.aggchain_params", 32)
			c.Agg.Signature = r.hexPlain(r.req(ad, "signature", "aggchain_data"), "aggchain_data.signature")
			if cx, ok := ad["context"]; ok && cx != nil {
				c.Agg.Context = map[string][]byte{}
				for k, v := range r.obj(cx, "aggchain_data.context") {
					c.Agg.Context[k] = r.b64(v, "aggchain_data.context["+k+"]")
				}
			}
		} else {
			c.Agg.Kind = "signature"
			c.Agg.Signature = r.hexPlain(r.req(ad, "signature", "aggchain_data"), "aggchain_data.signature")
		}
	}
	if x := r.req(m, "bridge_exits", "certificate"); x != nil {
		l, ok := x.([]any)
		if !ok {
			r.fail("bridge_exits: expected an array")
		}
		for i, e := range l {
			c.Exits = append(c.Exits, r.be(e, fmt.Sprintf("bridge_exits[%d]", i)))
		}
	}
	if x := r.req(m, "imported_bridge_exits", "certificate"); x != nil {
		l, ok := x.([]any)
		if !ok {
			r.fail("imported_bridge_exits: expected an array")
		}
		for i, e := range l {
			w := fmt.Sprintf("imported_bridge_exits[%d]", i)
			em := r.obj(e, w)
			n := nIBE{BE: r.be(r.req(em, "bridge_exit", w), w+".bridge_exit")}
			gi := r.obj(r.req(em, "global_index", w), w+".global_index")
			flag, ok := r.req(gi, "mainnet_flag", w).(bool)
			if !ok {
				r.fail("%s.global_index.mainnet_flag: expected a boolean", w)
			}
			ru := r.u64(r.req(gi, "rollup_index", w), w+".rollup_index", 32)
			lf := r.u64(r.req(gi, "leaf_index", w), w+".leaf_index", 32)
			n.GlobalIndex = canonGlobalIndex(flag, uint32(ru), uint32(lf))
			cd := r.obj(r.req(em, "claim_data", w), w+".claim_data")
			if mv, ok := cd["Mainnet"]; ok {
				mm := r.obj(mv, w+".Mainnet")
				n.Claim.Kind = "mainnet"
				n.Claim.Proofs = []nMP{
					r.mp("proof_leaf_mer", r.req(mm, "proof_leaf_mer", w), w+".proof_leaf_mer"),
					r.mp("proof_ger_l1root", r.req(mm, "proof_ger_l1root", w), w+".proof_ger_l1root")}
				r.leaf(&n.Claim, r.req(mm, "l1_leaf", w), w+".l1_leaf")
			} else if rv, ok := cd["Rollup"]; ok {
				rm := r.obj(rv, w+".Rollup")
				n.Claim.Kind = "rollup"
				n.Claim.Proofs = []nMP{
					r.mp("proof_leaf_ler", r.req(rm, "proof_leaf_ler", w), w+".proof_leaf_ler"),
					r.mp("proof_ler_rer", r.req(rm, "proof_ler_rer", w), w+".proof_ler_rer"),
					r.mp("proof_ger_l1root", r.req(rm, "proof_ger_l1root", w), w+".proof_ger_l1root")}
				r.leaf(&n.Claim, r.req(rm, "l1_leaf", w), w+".l1_leaf")
			} else {
				r.fail("%s.claim_data: neither Mainnet nor Rollup", w)
			}
			c.Imps = append(c.Imps, n)
		}
	}
	return c, r.err
}

// globalIndex is the bridge's 256-bit global index: bit 64 = mainnet flag, bits 32..63 = rollup
// index, bits 0..31 = leaf index.
// canonGlobalIndex is the value a (flag, rollup, leaf) triple denotes: the rollup part of a mainnet index carries no
// information (the bridge contract ignores it), so it is zero in the denoted value.
func canonGlobalIndex(mainnet bool, rollup, leaf uint32) *big.Int {
	if mainnet {
		rollup = 0
	}
	return globalIndex(mainnet, rollup, leaf)
}

func globalIndex(mainnet bool, rollup, leaf uint32) *big.Int {
	x := new(big.Int)
	if mainnet {
		x.SetBit(x, 64, 1)
	}
	x.Or(x, new(big.Int).Lsh(new(big.Int).SetUint64(uint64(rollup)), 32))
	x.Or(x, new(big.Int).SetUint64(uint64(leaf)))
	return x
}

// ---- reference commitments --------------------------------------------------------------------

func keccak(parts ...[]byte) []byte {
	h := sha3.NewLegacyKeccak256()
	for _, p := range parts {
		h.Write(p)
	}
	return h.Sum(nil)
}

var keccakEmpty = keccak()

func be32(x uint32) []byte { b := make([]byte, 4); binary.BigEndian.PutUint32(b, x); return b }
func be64(x uint64) []byte { b := make([]byte, 8); binary.BigEndian.PutUint64(b, x); return b }
func le64(x uint64) []byte { b := make([]byte, 8); binary.LittleEndian.PutUint64(b, x); return b }

// be256 / le256: 32-byte encodings of a non-negative integer below 2^256.
func be256(x *big.Int) []byte {
	b := make([]byte, 32)
	if x != nil {
		x.FillBytes(b)
	}
	return b
}
func le256(x *big.Int) []byte {
	b := be256(x)
	for i, j := 0, len(b)-1; i < j; i, j = i+1, j-1 {
		b[i], b[j] = b[j], b[i]
	}
	return b
}

func refBEHash(e *nBE) []byte {
	md := e.Metadata
	if len(md) == 0 {
		md = keccakEmpty
	}
	return keccak([]byte{byte(e.LeafType)}, be32(e.OriginNetwork), e.OriginToken, be32(e.DestNetwork), e.DestAddress,
		be256(e.Amount), md)
}

func refGIHash(g *big.Int) []byte { return keccak(le256(g)) }

func refMPHash(p *nMP) []byte {
	parts := [][]byte{p.Root}
	parts = append(parts, p.Siblings...)
	return keccak(parts...)
}

func refClaimHash(c *nClaim) []byte {
	var parts [][]byte
	for i := range c.Proofs {
		parts = append(parts, refMPHash(&c.Proofs[i]))
	}
	parts = append(parts, keccak(c.GER, c.BlockHash, be64(c.Timestamp)))
	return keccak(parts...)
}

func refIBEHash(m *nIBE) []byte {
	return keccak(refBEHash(&m.BE), refClaimHash(&m.Claim), refGIHash(m.GlobalIndex))
}

func refCertID(c *nCert) []byte {
	var bes, ibes [][]byte
	for i := range c.Exits {
		bes = append(bes, refBEHash(&c.Exits[i]))
	}
	for i := range c.Imps {
		ibes = append(ibes, refIBEHash(&c.Imps[i]))
	}
	return keccak(be32(c.NetworkID), be64(c.Height), c.PrevLER, c.NewLER, keccak(bes...), keccak(ibes...))
}

func refPPCommit(c *nCert) []byte {
	var gis [][]byte
	for i := range c.Imps {
		gis = append(gis, refGIHash(c.Imps[i].GlobalIndex))
	}
	return keccak(c.NewLER, keccak(gis...))
}

func refFEPCommit(c *nCert) []byte {
	var chunks [][]byte
	for i := range c.Imps {
		chunks = append(chunks, le256(c.Imps[i].GlobalIndex), refBEHash(&c.Imps[i].BE))
	}
	params := keccakEmpty
	if c.Agg.Kind == "proof" {
		params = c.Agg.Params
	}
	return keccak(c.NewLER, keccak(chunks...), le64(c.Height), params)
}

// refSigningCommit is the commitment the attached signature must be over: the pessimistic-proof
// one when the certificate carries a bare signature, the aggchain-proof one when it carries a proof.
func refSigningCommit(c *nCert) ([]byte, string) {
	if c.Agg.Kind == "proof" {
		return refFEPCommit(c), "fep"
	}
	return refPPCommit(c), "pp"
}

// ---- coverage sets (flat key classes) --------------------------------------------------------

const (
	covID = 1 << iota
	covPP
	covFEP
)

var beFields = []string{"leaf_type", "origin_network", "origin_token_address", "dest_network", "dest_address", "amount", "metadata"}

// coverage says which commitments a flat key class is covered by (from the layouts above).
var coverage = func() map[string]int {
	m := map[string]int{
		"network_id":                           covID,
		"height":                               covID | covFEP,
		"prev_local_exit_root":                 covID,
		"new_local_exit_root":                  covID | covPP | covFEP,
		"aggchain_data.aggchain_params":        covFEP,
		"bridge_exits.len":                     covID,
		"imported_bridge_exits.len":            covID | covPP | covFEP,
		"imported_bridge_exits[].global_index": covID | covPP | covFEP,
		"imported_bridge_exits[].claim.kind":   covID,
		"imported_bridge_exits[].claim.l1_leaf.inner.global_exit_root": covID,
		"imported_bridge_exits[].claim.l1_leaf.inner.block_hash":       covID,
		"imported_bridge_exits[].claim.l1_leaf.inner.timestamp":        covID,
		// transported but outside every commitment and the identity
		"metadata": 0, "custom_chain_data": 0, "l1_info_tree_leaf_count": 0,
		"aggchain_data.kind": 0, "aggchain_data.signature": 0, "aggchain_data.proof": 0, "aggchain_data.version": 0,
		"aggchain_data.vkey": 0, "aggchain_data.context.len": 0, "aggchain_data.context[]": 0,
		"imported_bridge_exits[].claim.l1_leaf.l1_info_tree_index": 0,
		"imported_bridge_exits[].claim.l1_leaf.rer":                0,
		"imported_bridge_exits[].claim.l1_leaf.mer":                0,
	}
	for _, f := range beFields {
		m["bridge_exits[]."+f] = covID
		m["imported_bridge_exits[].bridge_exit."+f] = covID | covFEP
	}
	for _, p := range []string{"proof_leaf_mer", "proof_ger_l1root", "proof_leaf_ler", "proof_ler_rer"} {
		m["imported_bridge_exits[].claim."+p+".root"] = covID
		m["imported_bridge_exits[].claim."+p+".siblings[]"] = covID
		m["imported_bridge_exits[].claim."+p+".siblings.len"] = covID
	}
	return m
}()

func eq(a, b []byte) bool { return bytes.Equal(a, b) }
