package main

// Input side of C10: reading aggkit's certificate struct into the neutral view (what SHOULD be
// transported), a reflective deep copy, and the reflective single-field perturbation walker.

import (
	"fmt"
	"math/big"
	"reflect"
	"sort"
	"strings"

	agglayertypes "github.com/agglayer/aggkit/agglayer/types"
	treetypes "github.com/agglayer/aggkit/tree/types"
)

// ---- struct -> neutral view -------------------------------------------------------------------

func structBE(e *agglayertypes.BridgeExit) nBE {
	n := nBE{LeafType: int(e.LeafType), Amount: new(big.Int)}
	if e.LeafType > 1 {
		n.LeafType = -1 - int(e.LeafType)
	}
	if e.TokenInfo != nil {
		n.OriginNetwork = e.TokenInfo.OriginNetwork
		n.OriginToken = append([]byte{}, e.TokenInfo.OriginTokenAddress[:]...)
	}
	n.DestNetwork = e.DestinationNetwork
	n.DestAddress = append([]byte{}, e.DestinationAddress[:]...)
	if e.Amount != nil {
		n.Amount = new(big.Int).Set(e.Amount)
	} else {
		n.AmountAbsent = true
	}
	n.Metadata = append([]byte(nil), e.Metadata...)
	return n
}

func structMP(name string, p *agglayertypes.MerkleProof) nMP {
	m := nMP{Name: name}
	if p == nil {
		return m
	}
	m.Root = append([]byte{}, p.Root[:]...)
	for i := range p.Proof {
		m.Siblings = append(m.Siblings, append([]byte{}, p.Proof[i][:]...))
	}
	return m
}

func structLeaf(c *nClaim, l *agglayertypes.L1InfoTreeLeaf) {
	if l == nil {
		return
	}
	c.L1Index = l.L1InfoTreeIndex
	c.RER = append([]byte{}, l.RollupExitRoot[:]...)
	c.MER = append([]byte{}, l.MainnetExitRoot[:]...)
	if l.Inner != nil {
		c.GER = append([]byte{}, l.Inner.GlobalExitRoot[:]...)
		c.BlockHash = append([]byte{}, l.Inner.BlockHash[:]...)
		c.Timestamp = l.Inner.Timestamp
	}
}

// fromStruct reads the certificate object the node built: the values that must be transported.
func fromStruct(s *agglayertypes.Certificate) *nCert {
	c := &nCert{NetworkID: s.NetworkID, Height: s.Height,
		PrevLER: append([]byte{}, s.PrevLocalExitRoot[:]...), NewLER: append([]byte{}, s.NewLocalExitRoot[:]...),
		Metadata: append([]byte{}, s.Metadata[:]...), Custom: append([]byte(nil), s.CustomChainData...),
		L1Count: s.L1InfoTreeLeafCount}
	c.Agg.Kind = "none"
	switch ad := s.AggchainData.(type) {
	case *agglayertypes.AggchainDataSignature:
		c.Agg.Kind = "signature"
		c.Agg.Signature = append([]byte(nil), ad.Signature...)
	case *agglayertypes.AggchainDataProof:
		c.Agg.Kind = "proof"
		c.Agg.Signature = append([]byte(nil), ad.Signature...)
		c.Agg.Proof = append([]byte(nil), ad.Proof...)
		c.Agg.Version = ad.Version
		c.Agg.Vkey = append([]byte(nil), ad.Vkey...)
		c.Agg.Params = append([]byte{}, ad.AggchainParams[:]...)
		if ad.Context != nil {
			c.Agg.Context = map[string][]byte{}
			for k, v := range ad.Context {
				c.Agg.Context[k] = append([]byte(nil), v...)
			}
		}
	}
	for _, e := range s.BridgeExits {
		c.Exits = append(c.Exits, structBE(e))
	}
	for _, ib := range s.ImportedBridgeExits {
		n := nIBE{BE: structBE(ib.BridgeExit)}
		if ib.GlobalIndex != nil {
			n.GlobalIndex = canonGlobalIndex(ib.GlobalIndex.MainnetFlag, ib.GlobalIndex.RollupIndex, ib.GlobalIndex.LeafIndex)
		}
		switch cd := ib.ClaimData.(type) {
		case *agglayertypes.ClaimFromMainnnet:
			n.Claim.Kind = "mainnet"
			n.Claim.Proofs = []nMP{structMP("proof_leaf_mer", cd.ProofLeafMER), structMP("proof_ger_l1root", cd.ProofGERToL1Root)}
			structLeaf(&n.Claim, cd.L1Leaf)
		case *agglayertypes.ClaimFromRollup:
			n.Claim.Kind = "rollup"
			n.Claim.Proofs = []nMP{structMP("proof_leaf_ler", cd.ProofLeafLER), structMP("proof_ler_rer", cd.ProofLERToRER),
				structMP("proof_ger_l1root", cd.ProofGERToL1Root)}
			structLeaf(&n.Claim, cd.L1Leaf)
		default:
			n.Claim.Kind = "none"
		}
		c.Imps = append(c.Imps, n)
	}
	return c
}

// ---- reflective deep copy ---------------------------------------------------------------------

var bigIntPtrType = reflect.TypeOf((*big.Int)(nil))

func deepCopyValue(v reflect.Value) reflect.Value {
	switch v.Kind() {
	case reflect.Ptr:
		if v.IsNil() {
			return reflect.Zero(v.Type())
		}
		if v.Type() == bigIntPtrType {
			return reflect.ValueOf(new(big.Int).Set(v.Interface().(*big.Int)))
		}
		n := reflect.New(v.Type().Elem())
		n.Elem().Set(deepCopyValue(v.Elem()))
		return n
	case reflect.Interface:
		if v.IsNil() {
			return reflect.Zero(v.Type())
		}
		n := reflect.New(v.Type()).Elem()
		n.Set(deepCopyValue(v.Elem()))
		return n
	case reflect.Struct:
		n := reflect.New(v.Type()).Elem()
		for i := 0; i < v.NumField(); i++ {
			if !v.Type().Field(i).IsExported() {
				panic("deepCopy: unexported field in " + v.Type().String())
			}
			n.Field(i).Set(deepCopyValue(v.Field(i)))
		}
		return n
	case reflect.Slice:
		if v.IsNil() {
			return reflect.Zero(v.Type())
		}
		n := reflect.MakeSlice(v.Type(), v.Len(), v.Len())
		for i := 0; i < v.Len(); i++ {
			n.Index(i).Set(deepCopyValue(v.Index(i)))
		}
		return n
	case reflect.Array:
		n := reflect.New(v.Type()).Elem()
		for i := 0; i < v.Len(); i++ {
			n.Index(i).Set(deepCopyValue(v.Index(i)))
		}
		return n
	case reflect.Map:
		if v.IsNil() {
			return reflect.Zero(v.Type())
		}
		n := reflect.MakeMapWithSize(v.Type(), v.Len())
		it := v.MapRange()
		for it.Next() {
			n.SetMapIndex(deepCopyValue(it.Key()), deepCopyValue(it.Value()))
		}
		return n
	default:
		return v
	}
}

func deepCopyCert(c *agglayertypes.Certificate) *agglayertypes.Certificate {
	return deepCopyValue(reflect.ValueOf(c)).Interface().(*agglayertypes.Certificate)
}

// ---- perturbation walker ----------------------------------------------------------------------

// mutation is one single-field change. noop marks changes of representation that do not change
// the committed value (absent amount <-> zero amount): the commitments need not change, but the
// representation must still be transported as it is.
type mutation struct {
	name  string
	noop  bool
	apply func(v reflect.Value)
}

// site is one perturbable location of the certificate (v is settable, inside the walked object).
type site struct {
	path string
	v    reflect.Value
	muts []mutation
}

var (
	u32Boundary = []uint64{0, 1, 255, 256, 0xFFFFFFFF, 0x01020304}
	u64Boundary = []uint64{0, 1, 255, 256, 0xFFFFFFFF, 0x100000000, 1<<63 - 1, 1<<64 - 1, 0x0102030405060708}
	max256      = new(big.Int).Sub(new(big.Int).Lsh(big.NewInt(1), 256), big.NewInt(1))
	mixed256    = func() *big.Int {
		b := make([]byte, 32)
		for i := range b {
			b[i] = byte(i + 1)
		}
		return new(big.Int).SetBytes(b)
	}()
	top256 = new(big.Int).Lsh(big.NewInt(1), 255)
)

type walker struct {
	sites     []site
	templates map[reflect.Type]func() reflect.Value // fresh valid element for extending a list
}

func (w *walker) add(path string, v reflect.Value, muts []mutation) {
	if len(muts) > 0 {
		w.sites = append(w.sites, site{path, v, muts})
	}
}

func uintMuts(cur uint64, set []uint64) []mutation {
	var ms []mutation
	for _, x := range set {
		if x == cur {
			continue
		}
		x := x
		ms = append(ms, mutation{name: fmt.Sprintf("=%d", x), apply: func(v reflect.Value) { v.SetUint(x) }})
	}
	return ms
}

func flipMuts(n int, at func(v reflect.Value, i int) reflect.Value) []mutation {
	if n == 0 {
		return nil
	}
	ms := []mutation{{name: "flip-first", apply: func(v reflect.Value) { e := at(v, 0); e.SetUint(e.Uint() ^ 0x80) }}}
	ms = append(ms, mutation{name: "flip-last", apply: func(v reflect.Value) {
		e := at(v, n-1)
		e.SetUint(e.Uint() ^ 0x01)
	}})
	return ms
}

func idx(v reflect.Value, i int) reflect.Value { return v.Index(i) }

func (w *walker) bytesSite(path string, v reflect.Value) {
	n := v.Len()
	ms := flipMuts(n, idx)
	if n > 0 {
		ms = append(ms, mutation{name: "shorten", apply: func(v reflect.Value) { v.Set(v.Slice(0, v.Len()-1)) }})
	}
	ms = append(ms, mutation{name: "extend", apply: func(v reflect.Value) {
		v.Set(reflect.AppendSlice(v.Slice(0, v.Len()), reflect.ValueOf([]byte{0x5a}).Convert(v.Type())))
	}})
	w.add(path, v, ms)
}

// exitMetadataSite: a bridge exit's metadata is the 32-byte hash of the bridge's metadata, or absent.
func (w *walker) exitMetadataSite(path string, v reflect.Value) {
	n := v.Len()
	ms := flipMuts(n, idx)
	if n > 0 {
		ms = append(ms, mutation{name: "=absent", apply: func(v reflect.Value) { v.Set(reflect.Zero(v.Type())) }})
	} else {
		ms = append(ms, mutation{name: "=hash", apply: func(v reflect.Value) { v.SetBytes(mixed256.Bytes()) }})
	}
	w.add(path, v, ms)
}

func (w *walker) amountSite(path string, v reflect.Value) {
	cur, _ := v.Interface().(*big.Int)
	val := func(x *big.Int) *big.Int {
		if x == nil {
			return new(big.Int)
		}
		return x
	}
	var ms []mutation
	for _, cand := range []*big.Int{nil, new(big.Int), big.NewInt(1), top256, max256, mixed256} {
		if (cand == nil) == (cur == nil) && val(cand).Cmp(val(cur)) == 0 {
			continue
		}
		cand := cand
		name := "=nil"
		if cand != nil {
			name = "=0x" + cand.Text(16)
		}
		ms = append(ms, mutation{name: name, noop: val(cand).Cmp(val(cur)) == 0, apply: func(v reflect.Value) {
			if cand == nil {
				v.Set(reflect.Zero(v.Type()))
			} else {
				v.Set(reflect.ValueOf(new(big.Int).Set(cand)))
			}
		}})
	}
	w.add(path, v, ms)
}

// globalIndexSites: the three components denote ONE 256-bit value in which the rollup index of a
// mainnet index is zero by definition; perturbations stay inside that domain.
func (w *walker) globalIndexSites(path string, v reflect.Value) {
	flag := v.FieldByName("MainnetFlag")
	rollup := v.FieldByName("RollupIndex")
	leaf := v.FieldByName("LeafIndex")
	w.add(path+".MainnetFlag", v, []mutation{{name: "toggle", apply: func(g reflect.Value) {
		f := g.FieldByName("MainnetFlag")
		f.SetBool(!f.Bool())
		if f.Bool() {
			g.FieldByName("RollupIndex").SetUint(0)
		}
	}}})
	if !flag.Bool() {
		w.add(path+".RollupIndex", rollup, uintMuts(rollup.Uint(), u32Boundary))
	}
	w.add(path+".LeafIndex", leaf, uintMuts(leaf.Uint(), u32Boundary))
}

var (
	globalIndexType = reflect.TypeOf(agglayertypes.GlobalIndex{})
	bridgeExitType  = reflect.TypeOf(agglayertypes.BridgeExit{})
	leafTypeType    = reflect.TypeOf(agglayertypes.LeafType(0))
	proofArrayType  = reflect.TypeOf(treetypes.Proof{})
)

func (w *walker) walk(path string, v reflect.Value, parent reflect.Type) {
	t := v.Type()
	switch {
	case t == bigIntPtrType:
		w.amountSite(path, v)
		return
	case t == leafTypeType:
		w.add(path, v, []mutation{{name: "toggle", apply: func(v reflect.Value) { v.SetUint(1 - v.Uint()) }}})
		return
	case t == globalIndexType:
		w.globalIndexSites(path, v)
		return
	}
	switch v.Kind() {
	case reflect.Ptr:
		if !v.IsNil() {
			w.walk(path, v.Elem(), parent)
		}
	case reflect.Interface:
		if !v.IsNil() {
			// the dynamic value is a pointer to a struct: walk the pointee in place
			e := v.Elem()
			name := e.Type().String()
			if e.Kind() == reflect.Ptr {
				name = e.Type().Elem().Name()
				w.walk(path+".("+name+")", e.Elem(), parent)
			} else {
				panic("walker: non-pointer dynamic value at " + path)
			}
		}
	case reflect.Struct:
		for i := 0; i < v.NumField(); i++ {
			f := t.Field(i)
			if !f.IsExported() {
				panic("walker: unexported field " + path + "." + f.Name)
			}
			w.walk(path+"."+f.Name, v.Field(i), t)
		}
	case reflect.Array:
		if t.Elem().Kind() == reflect.Uint8 {
			w.add(path, v, flipMuts(v.Len(), idx))
			return
		}
		for i := 0; i < v.Len(); i++ {
			w.walk(fmt.Sprintf("%s[%d]", path, i), v.Index(i), parent)
		}
	case reflect.Slice:
		if t.Elem().Kind() == reflect.Uint8 {
			if parent == bridgeExitType && strings.HasSuffix(path, ".Metadata") {
				w.exitMetadataSite(path, v)
			} else {
				w.bytesSite(path, v)
			}
			return
		}
		var ms []mutation
		if v.Len() > 0 {
			ms = append(ms, mutation{name: "drop-last", apply: func(v reflect.Value) { v.Set(v.Slice(0, v.Len()-1)) }})
		}
		if v.Len() > 1 {
			ms = append(ms, mutation{name: "drop-first", apply: func(v reflect.Value) { v.Set(v.Slice(1, v.Len())) }})
		}
		if mk, ok := w.templates[t.Elem()]; ok {
			ms = append(ms, mutation{name: "append", apply: func(v reflect.Value) { v.Set(reflect.Append(v.Slice(0, v.Len()), mk())) }})
		} else {
			panic("walker: no template element for list " + path + " of " + t.String())
		}
		w.add(path, v, ms)
		for i := 0; i < v.Len(); i++ {
			w.walk(fmt.Sprintf("%s[%d]", path, i), v.Index(i), parent)
		}
	case reflect.Map:
		// map[string][]byte
		if t.Key().Kind() != reflect.String || t.Elem().Kind() != reflect.Slice || t.Elem().Elem().Kind() != reflect.Uint8 {
			panic("walker: unsupported map at " + path)
		}
		ms := []mutation{{name: "add-entry", apply: func(v reflect.Value) {
			if v.IsNil() {
				v.Set(reflect.MakeMap(v.Type()))
			}
			v.SetMapIndex(reflect.ValueOf("verif-added"), reflect.ValueOf([]byte{1, 2, 3}))
		}}}
		var keys []string
		for _, k := range v.MapKeys() {
			keys = append(keys, k.String())
		}
		sort.Strings(keys)
		for _, k := range keys {
			k := k
			ms = append(ms, mutation{name: "remove[" + k + "]", apply: func(v reflect.Value) {
				v.SetMapIndex(reflect.ValueOf(k), reflect.Value{})
			}})
			cur := v.MapIndex(reflect.ValueOf(k)).Bytes()
			if len(cur) > 0 {
				ms = append(ms, mutation{name: "flip-first[" + k + "]", apply: func(v reflect.Value) {
					b := append([]byte{}, v.MapIndex(reflect.ValueOf(k)).Bytes()...)
					b[0] ^= 0x80
					v.SetMapIndex(reflect.ValueOf(k), reflect.ValueOf(b))
				}}, mutation{name: "flip-last[" + k + "]", apply: func(v reflect.Value) {
					b := append([]byte{}, v.MapIndex(reflect.ValueOf(k)).Bytes()...)
					b[len(b)-1] ^= 0x01
					v.SetMapIndex(reflect.ValueOf(k), reflect.ValueOf(b))
				}})
			}
			ms = append(ms, mutation{name: "extend[" + k + "]", apply: func(v reflect.Value) {
				b := append(append([]byte{}, v.MapIndex(reflect.ValueOf(k)).Bytes()...), 0x5a)
				v.SetMapIndex(reflect.ValueOf(k), reflect.ValueOf(b))
			}})
		}
		w.add(path, v, ms)
	case reflect.Bool:
		w.add(path, v, []mutation{{name: "toggle", apply: func(v reflect.Value) { v.SetBool(!v.Bool()) }}})
	case reflect.Uint32:
		w.add(path, v, uintMuts(v.Uint(), u32Boundary))
	case reflect.Uint64:
		w.add(path, v, uintMuts(v.Uint(), u64Boundary))
	case reflect.String:
		var ms []mutation
		for _, s := range []string{"", "v-other", v.String() + "x"} {
			if s != v.String() {
				s := s
				ms = append(ms, mutation{name: fmt.Sprintf("=%q", s), apply: func(v reflect.Value) { v.SetString(s) }})
			}
		}
		w.add(path, v, ms)
	default:
		panic(fmt.Sprintf("walker: unsupported kind %s at %s", v.Kind(), path))
	}
}

// saveSite remembers a site's value so that a mutation can be undone exactly. Lists of elements are
// saved by header (the list mutations never write into existing elements, and the element sites
// must keep pointing into the live object); everything else is saved by deep copy.
func saveSite(v reflect.Value) reflect.Value {
	saved := reflect.New(v.Type()).Elem()
	if v.Kind() == reflect.Slice && v.Type().Elem().Kind() != reflect.Uint8 {
		saved.Set(v)
		// full slice expression: an append after restoring must not write into the shared array
		if !v.IsNil() {
			saved.Set(v.Slice3(0, v.Len(), v.Len()))
		}
		return saved
	}
	saved.Set(deepCopyValue(v))
	return saved
}

// sitesOf lists the perturbation sites of c (the reflect.Values point INTO c).
func sitesOf(c *agglayertypes.Certificate, templates map[reflect.Type]func() reflect.Value) []site {
	w := &walker{templates: templates}
	w.walk("Certificate", reflect.ValueOf(c).Elem(), nil)
	return w.sites
}

// pathClass strips indices: Certificate.BridgeExits[1].Amount -> Certificate.BridgeExits[].Amount
func pathClass(p string) string { return classOf(p) }
