package main

// The real BridgeEvent log parser (bridgesync.buildAppender through VerifBuildAppender), fed with
// logs that are ABI-packed with the binding's own ABI, behind a hand-written fake node.

import (
	"context"
	"encoding/json"
	"fmt"
	"math/big"

	"github.com/0xPolygon/cdk-contracts-tooling/contracts/pp/l2-sovereign-chain/polygonzkevmbridgev2"
	"github.com/agglayer/aggkit/bridgesync"
	aggsync "github.com/agglayer/aggkit/sync"
	aggkittypes "github.com/agglayer/aggkit/types"
	"github.com/ethereum/go-ethereum"
	"github.com/ethereum/go-ethereum/accounts/abi"
	"github.com/ethereum/go-ethereum/common"
	"github.com/ethereum/go-ethereum/common/hexutil"
	"github.com/ethereum/go-ethereum/core/types"
)

var bridgeAddr = common.HexToAddress("0x00000000000000000000000000000000b21d9e00")

// fakeNode answers exactly what the appender needs: gasTokenAddress() at construction and
// debug_traceTransaction for the transaction that carries a deposit. Every other method of the
// client interface is a nil embedded interface (calling one panics = harness error).
type fakeNode struct {
	aggkittypes.EthClienter
	gasTokenSelector []byte
	traces           map[common.Hash][]byte
}

func (f *fakeNode) CallContract(_ context.Context, msg ethereum.CallMsg, _ *big.Int) ([]byte, error) {
	if msg.To == nil || *msg.To != bridgeAddr || len(msg.Data) != 4 || string(msg.Data) != string(f.gasTokenSelector) {
		return nil, fmt.Errorf("fake node: unexpected eth_call %x", msg.Data)
	}
	return make([]byte, 32), nil // abi.encode(address(0)): the chain's gas token is ether
}

func (f *fakeNode) Call(result any, method string, args ...any) error {
	if method != "debug_traceTransaction" || len(args) != 2 {
		return fmt.Errorf("fake node: unknown RPC %s/%d", method, len(args))
	}
	txh, ok := args[0].(common.Hash)
	if !ok {
		return fmt.Errorf("fake node: bad transaction argument %T", args[0])
	}
	tr, ok := f.traces[txh]
	if !ok {
		return fmt.Errorf("fake node: transaction %s not found", txh.Hex())
	}
	return json.Unmarshal(tr, result)
}

type logPath struct {
	node     *fakeNode
	abi      *abi.ABI
	appender aggsync.LogAppenderMap
}

func newLogPath() *logPath {
	a, err := polygonzkevmbridgev2.Polygonzkevmbridgev2MetaData.GetAbi()
	if err != nil {
		panic(err)
	}
	n := &fakeNode{gasTokenSelector: a.Methods["gasTokenAddress"].ID, traces: map[common.Hash][]byte{}}
	app, err := bridgesync.VerifBuildAppender(n, bridgeAddr, false)
	if err != nil {
		panic(fmt.Sprintf("VerifBuildAppender: %v", err))
	}
	return &logPath{node: n, abi: a, appender: app}
}

// deposit is what the bridge contract was asked to record (the input of the reference leaf).
type deposit struct {
	LeafType   uint8
	OriginNet  uint32
	OriginAddr common.Address
	DestNet    uint32
	DestAddr   common.Address
	Amount     *big.Int
	Metadata   []byte
	Count      uint32
}

// parse packs the deposit as the BridgeEvent log the contract emits and runs the real handler on
// it; it returns the events the handler appended to the block.
func (lp *logPath) parse(blk *aggsync.EVMBlock, logIndex uint, d deposit) ([]any, error) {
	ev := lp.abi.Events["BridgeEvent"]
	data, err := ev.Inputs.Pack(d.LeafType, d.OriginNet, d.OriginAddr, d.DestNet, d.DestAddr, d.Amount, d.Metadata, d.Count)
	if err != nil {
		panic(fmt.Sprintf("packing BridgeEvent: %v", err))
	}
	txh := common.BytesToHash(append([]byte("tx"), byte(blk.Num>>8), byte(blk.Num), byte(logIndex)))
	from := common.HexToAddress("0x00000000000000000000000000000000005e4de2")
	trace, _ := json.Marshal(map[string]any{"from": from, "to": bridgeAddr, "value": "0x0",
		"input": hexutil.Encode([]byte{0xcd, 0x58, 0x65, 0x79, byte(d.Count)})})
	lp.node.traces = map[common.Hash][]byte{txh: trace}
	l := types.Log{Address: bridgeAddr, Topics: []common.Hash{ev.ID}, Data: data, BlockNumber: blk.Num, TxHash: txh,
		BlockHash: blk.Hash, Index: logIndex}
	h, ok := lp.appender[ev.ID]
	if !ok {
		return nil, fmt.Errorf("the appender has no handler for the BridgeEvent topic of the binding's ABI")
	}
	before := len(blk.Events)
	if err := h(blk, l); err != nil {
		return nil, err
	}
	return blk.Events[before:], nil
}
