// C01 — the synced exit-tree root equals the bridge contract's root at every deposit, and the leaf
// used for every deposit equals the contract's leaf value.
//
// SUT: the real bridge store behind its real facade (bridgesync.BridgeSync over the real processor
// and tree.AppendOnlyTree on a real SQLite file, via storekit), the real BridgeEvent log handler
// (bridgesync.VerifBuildAppender), restarts = closing the facade and re-opening the same file with
// the real constructor. Three sub-spaces whose union is the property's quantifier:
//
//	leaf   — the product of the field boundary sets, every deposit driven log → handler → store
//	struct — every composition of a deposit sequence into blocks × empty blocks × restart points
//	synth  — every leaf-index bit pattern of the stated set via synthetic pre-states written with SQL
//
// Oracle: ref.BridgeLeaf (getLeafValue), ref.Merkle and ref.DepositTree (DepositContractBase),
// which share no code with aggkit.
package main

import (
	"bytes"
	"context"
	"fmt"
	"math/big"
	"strings"

	"github.com/agglayer/aggkit/bridgesync"
	aggsync "github.com/agglayer/aggkit/sync"
	"github.com/ethereum/go-ethereum/common"
	"verif/h/kit"
	"verif/h/mc"
	"verif/h/ref"
	sk "verif/h/storekit"
)

type params struct {
	Space string
	// leaf
	LeafType     uint8
	ONet, DNet   uint32
	OAddr, DAddr common.Address
	// struct
	N       int
	Comp    []int
	Shape   int // 0: field values cycled by deposit count; 1: all deposits identical
	Empties int // 0: none; 1: an empty block before the first, between every two and after the last
	// synth
	C uint64
}

// ---------------------------------------------------------------------------------------------
// boundary sets

var (
	leafTypes = []uint8{0, 1}
	networks  = []uint32{0, 1, 0xffffffff}
	addresses = []common.Address{
		{},
		common.HexToAddress("0xffffffffffffffffffffffffffffffffffffffff"),
		common.HexToAddress("0x00a1b2c3d4e5f60718293a4b5c6d7e8f90ab00ff"),
	}
	two256m1 = new(big.Int).Sub(new(big.Int).Lsh(big.NewInt(1), 256), big.NewInt(1))
	amounts  = []*big.Int{nil, big.NewInt(0), big.NewInt(1), new(big.Int).Lsh(big.NewInt(1), 64), two256m1}
	metas    = [][]byte{{}, {0x7f}, bytes.Repeat([]byte{0xa5}, 32), bytes.Repeat([]byte{0x5a}, 33), kib()}
)

func kib() []byte {
	b := make([]byte, 1024)
	for i := range b {
		b[i] = byte(i*7 + 1)
	}
	return b
}

func maxN(tier string) int {
	if tier == "thorough" {
		return 10
	}
	return 7
}

// synthCounts: all 256 low-byte patterns, both sides of every 2^k carry boundary, and the top of
// the index range. The contract refuses a deposit once depositCount == 2^32-1, so the last append
// it can make has index 2^32-2.
func synthCounts() []uint64 {
	seen := map[uint64]bool{}
	var out []uint64
	add := func(c uint64) {
		if !seen[c] && c <= 1<<32-2 {
			seen[c] = true
			out = append(out, c)
		}
	}
	for c := uint64(0); c < 256; c++ {
		add(c)
	}
	for k := uint(1); k <= 31; k++ {
		for _, d := range []int64{-2, -1, 0, 1} {
			add(uint64(int64(1)<<k + d))
		}
	}
	for _, c := range []uint64{1<<32 - 5, 1<<32 - 4, 1<<32 - 3, 1<<32 - 2} {
		add(c)
	}
	// a few mixed high patterns (alternating bits, high bit with low carry)
	for _, c := range []uint64{0xaaaaaaaa, 0x55555555, 0x80000001, 0xfffeffff, 0x7fffffff + 0x10000} {
		add(c)
	}
	return out
}

func units(tier string) []mc.Unit {
	var us []mc.Unit
	for _, lt := range leafTypes {
		for _, on := range networks {
			for _, oa := range addresses {
				for _, dn := range networks {
					for _, da := range addresses {
						us = append(us, mc.Unit{Name: fmt.Sprintf("leaf:type=%d,onet=%d,oaddr=%s,dnet=%d,daddr=%s", lt, on, oa.Hex()[:6], dn, da.Hex()[:6]),
							Params: params{Space: "leaf", LeafType: lt, ONet: on, DNet: dn, OAddr: oa, DAddr: da}})
					}
				}
			}
		}
	}
	for n := 1; n <= maxN(tier); n++ {
		for _, comp := range sk.Compositions(n) {
			for shape := 0; shape < 2; shape++ {
				for emp := 0; emp < 2; emp++ {
					us = append(us, mc.Unit{Name: fmt.Sprintf("struct:n=%d,blocks=%s,shape=%d,empties=%d", n, compStr(comp), shape, emp),
						Params: params{Space: "struct", N: n, Comp: comp, Shape: shape, Empties: emp}})
				}
			}
		}
	}
	for _, c := range synthCounts() {
		us = append(us, mc.Unit{Name: fmt.Sprintf("synth:count=%d", c), Params: params{Space: "synth", C: c}})
	}
	return us
}

func compStr(comp []int) string {
	s := make([]string, len(comp))
	for i, x := range comp {
		s[i] = fmt.Sprint(x)
	}
	return strings.Join(s, "+")
}

// ---------------------------------------------------------------------------------------------

var lp *logPath

var bg = context.Background()

// memoised reference roots (pure function of the leaf list)
var rootMemo = map[ref.Hash][]ref.Hash{}

func refRoots(leaves []ref.Hash) []ref.Hash {
	var buf []byte
	for _, l := range leaves {
		buf = append(buf, l[:]...)
	}
	k := ref.Keccak(buf)
	if r, ok := rootMemo[k]; ok {
		return r
	}
	if len(rootMemo) > 20000 {
		rootMemo = map[ref.Hash][]ref.Hash{}
	}
	r := ref.AppendRoots(leaves)
	rootMemo[k] = r
	return r
}

func run(c *mc.Ctx, u mc.Unit) {
	p := u.Params.(params)
	dir := sk.ScratchDir()
	defer kit.RemoveScratch(dir)
	node := sk.Open(sk.Bridge, dir)
	defer func() { node.Close() }()
	// a panic of the code under test while it handles a valid deposit is reported as a violation
	// (the engine's own control-flow panics are passed on)
	defer func() {
		if x := recover(); x != nil {
			if strings.HasPrefix(fmt.Sprintf("%T", x), "mc.") {
				panic(x)
			}
			c.Failf("store/panic-on-valid-input", "unit %s choices %v: panic: %v", u.Name, c.Choices, x)
		}
	}()
	switch p.Space {
	case "leaf":
		runLeaf(c, p, node)
	case "struct":
		runStruct(c, p, node)
	case "synth":
		runSynth(c, p, node)
	}
}

// ---- sub-space 1: leaf values ----------------------------------------------------------------

func (d deposit) String() string {
	amt := "nil"
	if d.Amount != nil {
		amt = "0x" + d.Amount.Text(16)
	}
	return fmt.Sprintf("{leafType=%d originNet=%d originAddr=%s destNet=%d destAddr=%s amount=%s metadata=%dB count=%d}",
		d.LeafType, d.OriginNet, d.OriginAddr.Hex(), d.DestNet, d.DestAddr.Hex(), amt, len(d.Metadata), d.Count)
}

func (d deposit) leaf() ref.Hash {
	return ref.BridgeLeaf(d.LeafType, d.OriginNet, d.OriginAddr, d.DestNet, d.DestAddr, d.Amount, d.Metadata)
}

func runLeaf(c *mc.Ctx, p params, node *sk.Node) {
	var deps []deposit
	var leaves []ref.Hash
	for _, amt := range amounts {
		for _, meta := range metas {
			d := deposit{LeafType: p.LeafType, OriginNet: p.ONet, OriginAddr: p.OAddr, DestNet: p.DNet, DestAddr: p.DAddr,
				Metadata: meta, Count: uint32(len(deps))}
			if amt != nil {
				d.Amount = new(big.Int).Set(amt)
			}
			deps = append(deps, d)
			leaves = append(leaves, d.leaf())
		}
	}
	roots := refRoots(leaves)
	c.AddEvals(len(deps) - 1)
	c.NonTrivial()
	for i, d := range deps {
		num := uint64(i + 1)
		blk := &aggsync.EVMBlock{EVMBlockHeader: aggsync.EVMBlockHeader{Num: num, Hash: sk.H("leafblk", num), Timestamp: 1000 + num}}
		c.Distinct(fmt.Sprintf("leaf|%x", leaves[i]))
		if d.Amount == nil {
			// a nil amount cannot come out of the log decoder; it is handed to the store directly
			c.Witness("leaf_nil_amount_direct")
			blk.Events = []any{bridgesync.Event{Bridge: &bridgesync.Bridge{BlockNum: num, BlockPos: 0, LeafType: d.LeafType,
				OriginNetwork: d.OriginNet, OriginAddress: d.OriginAddr, DestinationNetwork: d.DestNet, DestinationAddress: d.DestAddr,
				Amount: nil, Metadata: d.Metadata, DepositCount: d.Count, TxHash: sk.H("tx", num), BlockTimestamp: 1000 + num}}}
		} else {
			evs, err := lp.parse(blk, 3, d)
			if err != nil {
				c.Failf("log/handler-error-on-valid-BridgeEvent", "deposit %v: handler error: %v", d, err)
				return
			}
			if len(evs) != 1 {
				c.Failf("log/handler-did-not-produce-one-event", "deposit %v: %d events", d, len(evs))
				return
			}
			ev, ok := evs[0].(bridgesync.Event)
			if !ok || ev.Bridge == nil {
				c.Failf("log/handler-did-not-produce-a-bridge", "deposit %v: got %T %+v", d, evs[0], evs[0])
				return
			}
			c.Witness("leaf_through_log_handler")
			b := ev.Bridge
			if got := b.Hash(); got != leaves[i] {
				c.Failf("leaf/parsed-log-leaf-differs-from-contract", "deposit %v: leaf of the parsed event %s, contract leaf %s; parsed {leafType=%d originNet=%d originAddr=%s destNet=%d destAddr=%s amount=%v metadata=%dB}",
					d, got.Hex(), leaves[i].Hex(), b.LeafType, b.OriginNetwork, b.OriginAddress.Hex(), b.DestinationNetwork, b.DestinationAddress.Hex(), b.Amount, len(b.Metadata))
			}
			if b.DepositCount != d.Count {
				c.Failf("leaf/parsed-log-deposit-count-differs", "deposit %v: parsed deposit count %d", d, b.DepositCount)
			}
		}
		if err := node.Process(aggsync.Block{Num: blk.Num, Hash: blk.Hash, Events: blk.Events}); err != nil {
			c.Failf("store/ProcessBlock-error-on-valid-block", "deposit %v: %v", d, err)
			return
		}
		bs, err := node.B.GetBridges(bg, num, num)
		if err != nil || len(bs) != 1 {
			c.Failf("leaf/GetBridges-does-not-return-the-deposit", "deposit %v: GetBridges(%d,%d) = %d bridges, err %v", d, num, num, len(bs), err)
			return
		}
		if got := bs[0].Hash(); got != leaves[i] {
			c.Failf("leaf/stored-leaf-differs-from-contract", "deposit %v: stored bridge hashes to %s, contract leaf %s (stored amount %v, metadata %dB)",
				d, got.Hex(), leaves[i].Hex(), bs[0].Amount, len(bs[0].Metadata))
		}
		if bs[0].DepositCount != d.Count {
			c.Failf("leaf/stored-deposit-count-differs", "deposit %v: stored deposit count %d", d, bs[0].DepositCount)
		}
		r, err := node.B.GetExitRootByIndex(bg, d.Count)
		if err != nil || r.Hash != roots[i] {
			c.Failf("root/GetExitRootByIndex-differs-from-contract", "after deposit %v: GetExitRootByIndex(%d) = %s, %v; contract root %s",
				d, d.Count, r.Hash.Hex(), err, roots[i].Hex())
		}
		if c.Failed() {
			return
		}
	}
	c.Obs("leaf unit %d deposits, last root %s", len(deps), roots[len(roots)-1].Hex())
}

// ---- sub-space 2: structure --------------------------------------------------------------------

func mkBridge(shape int, num, pos uint64, dc uint32) *bridgesync.Bridge {
	if shape == 1 {
		b := sk.MakeBridge(num, pos, 0, 0)
		b.DepositCount = dc
		return b
	}
	return sk.MakeBridge(num, pos, dc, 0)
}

// checkAll: every root so far, the inverse lookup, and the deposits in order.
func checkAll(c *mc.Ctx, node *sk.Node, chain *sk.Chain, when string) {
	leaves := chain.Leaves()
	roots := refRoots(leaves)
	for i, want := range roots {
		r, err := node.B.GetExitRootByIndex(bg, uint32(i))
		if err != nil || r.Hash != want {
			c.Failf("root/GetExitRootByIndex-differs-from-contract", "%s: GetExitRootByIndex(%d) = %s, %v; contract root after %d deposits %s",
				when, i, r.Hash.Hex(), err, i+1, want.Hex())
			continue
		}
		lr, err := node.B.GetRootByLER(bg, want)
		if err != nil || lr == nil || lr.Index != uint32(i) {
			c.Failf("root/GetRootByLER-wrong-index", "%s: GetRootByLER(root after %d deposits) = %v, %v; want index %d", when, i+1, lr, err, i)
		}
	}
	tip := chain.Tip()
	if tip == 0 {
		return
	}
	ranges := [][2]uint64{{0, tip}, {tip, tip}}
	for _, rg := range ranges {
		var want []ref.Hash
		first := 0
		for _, b := range chain.Blocks {
			if b.Num >= rg[0] && b.Num <= rg[1] {
				want = append(want, b.Leaves...)
			} else if b.Num < rg[0] {
				first += len(b.Leaves)
			}
		}
		bs, err := node.B.GetBridges(bg, rg[0], rg[1])
		if err != nil || len(bs) != len(want) {
			c.Failf("leaf/GetBridges-does-not-return-the-deposits", "%s: GetBridges(%d,%d) = %d bridges, err %v; want %d", when, rg[0], rg[1], len(bs), err, len(want))
			continue
		}
		for i := range bs {
			if bs[i].DepositCount != uint32(first+i) || bs[i].Hash() != want[i] {
				c.Failf("leaf/GetBridges-out-of-order-or-wrong-leaf", "%s: GetBridges(%d,%d)[%d]: deposit count %d leaf %s; want count %d leaf %s",
					when, rg[0], rg[1], i, bs[i].DepositCount, bs[i].Hash().Hex(), first+i, want[i].Hex())
				break
			}
		}
	}
}

func runStruct(c *mc.Ctx, p params, node *sk.Node) {
	sizes := p.Comp
	if p.Empties == 1 {
		sizes = []int{0}
		for _, s := range p.Comp {
			sizes = append(sizes, s, 0)
		}
	}
	// restart points: a set of <= 2 block boundaries (boundary b = before block b; len(sizes) = after the last)
	nb := len(sizes) + 1
	restart := map[int]bool{}
	if r1 := c.Choose(nb+1, "first-restart-point"); r1 > 0 {
		restart[r1-1] = true
		if rest := nb - r1; rest > 0 {
			if r2 := c.Choose(rest+1, "second-restart-point"); r2 > 0 {
				restart[r1-1+r2] = true
			}
		}
	}
	chain := sk.NewChain(sk.Bridge)
	dc := uint32(0)
	doRestart := func(b int) {
		if !restart[b] {
			return
		}
		node.Restart()
		c.Witness("restart")
		if dc > 0 && int(dc) < p.N {
			c.Witness("restart_between_deposits")
		}
		checkAll(c, node, chain, fmt.Sprintf("after restart at boundary %d", b))
	}
	doRestart(0)
	for bi, sz := range sizes {
		num := chain.Tip() + 1
		var bs []*bridgesync.Bridge
		for pos := 0; pos < sz; pos++ {
			bs = append(bs, mkBridge(p.Shape, num, uint64(pos), dc))
			dc++
		}
		blk := chain.NextBridges(num, 0, bs)
		if err := node.Process(blk); err != nil {
			c.Failf("store/ProcessBlock-error-on-valid-block", "blocks %v restarts %v: block %d with %d deposits: %v", sizes, keys(restart), num, sz, err)
			return
		}
		if sz > 1 {
			c.Witness("several_deposits_in_one_block")
		}
		checkAll(c, node, chain, fmt.Sprintf("blocks %v restarts %v, after block %d", sizes, keys(restart), num))
		if c.Failed() {
			return
		}
		doRestart(bi + 1)
		if c.Failed() {
			return
		}
	}
	c.NonTrivial()
	c.Obs("blocks=%v shape=%d restarts=%v lastroot=%s", sizes, p.Shape, keys(restart), lastRoot(chain))
}

func lastRoot(chain *sk.Chain) string {
	r := refRoots(chain.Leaves())
	if len(r) == 0 {
		return "-"
	}
	return r[len(r)-1].Hex()[:18]
}

func keys(m map[int]bool) []int {
	var out []int
	for i := 0; i < 64; i++ {
		if m[i] {
			out = append(out, i)
		}
	}
	return out
}

// ---- sub-space 3: index bit patterns ------------------------------------------------------------

const maxCount = 1<<32 - 1 // DepositContractBase._MAX_DEPOSIT_COUNT

func runSynth(c *mc.Ctx, p params, node *sk.Node) {
	s := sk.NewSynth(p.C)
	node.InstallSynth(s)
	d := s.Tree // the contract's accumulator, continued from the same branch array
	maxM := 3
	if left := maxCount - p.C; left < 3 {
		maxM = int(left)
	}
	m := 1 + c.Choose(maxM, "deposits")
	comps := sk.Compositions(m)
	comp := comps[c.Choose(len(comps), "composition")]
	mask := 0
	if len(comp) > 1 {
		mask = c.Choose(1<<(len(comp)-1), "restarts-between-blocks")
	}
	if p.C > 0 {
		r, err := node.B.GetExitRootByIndex(bg, uint32(p.C-1))
		if err != nil || r.Hash != s.Root {
			c.Failf("root/pre-state-root-not-reported", "pre-state count %d: GetExitRootByIndex(%d) = %s, %v; the root row written is %s", p.C, p.C-1, r.Hash.Hex(), err, s.Root.Hex())
			return
		}
	}
	num := uint64(0)
	if p.C > 0 {
		num = sk.SynthBlock
	}
	dc := p.C
	type exp struct {
		idx  uint32
		root ref.Hash
		leaf ref.Hash
	}
	var exps []exp
	for bi, sz := range comp {
		num++
		var evs []any
		var blockLeaves []ref.Hash
		for pos := 0; pos < sz; pos++ {
			b := sk.MakeBridge(num, uint64(pos), uint32(dc), 0)
			leaf := ref.BridgeLeaf(b.LeafType, b.OriginNetwork, b.OriginAddress, b.DestinationNetwork, b.DestinationAddress, b.Amount, b.Metadata)
			d.AddLeaf(leaf)
			exps = append(exps, exp{uint32(dc), d.Root(), leaf})
			blockLeaves = append(blockLeaves, leaf)
			evs = append(evs, bridgesync.Event{Bridge: b})
			if dc&(dc+1) == 0 || (dc+1)&(dc+2) == 0 {
				c.Witness("synth_append_next_to_power_of_two")
			}
			dc++
		}
		ctxs := fmt.Sprintf("pre-state count %d, blocks %v restarts-mask %d, block %d", p.C, comp, mask, num)
		if err := node.Process(aggsync.Block{Num: num, Hash: sk.H("synthblk", num, p.C), Events: evs}); err != nil {
			c.Failf("store/ProcessBlock-error-on-valid-block", "%s: %v", ctxs, err)
			return
		}
		if p.C > 0 {
			if r, err := node.B.GetExitRootByIndex(bg, uint32(p.C-1)); err != nil || r.Hash != s.Root {
				c.Failf("root/earlier-root-changed", "%s: GetExitRootByIndex(%d) = %s, %v; was %s", ctxs, p.C-1, r.Hash.Hex(), err, s.Root.Hex())
			}
		}
		for _, e := range exps {
			r, err := node.B.GetExitRootByIndex(bg, e.idx)
			if err != nil || r.Hash != e.root {
				c.Failf("root/GetExitRootByIndex-differs-from-contract", "%s: GetExitRootByIndex(%d) = %s, %v; contract root %s",
					ctxs, e.idx, r.Hash.Hex(), err, e.root.Hex())
				continue
			}
			lr, err := node.B.GetRootByLER(bg, e.root)
			if err != nil || lr == nil || lr.Index != e.idx {
				c.Failf("root/GetRootByLER-wrong-index", "%s: GetRootByLER(root of deposit count %d) = %v, %v", ctxs, e.idx, lr, err)
			}
		}
		bs, err := node.B.GetBridges(bg, num, num)
		if err != nil || len(bs) != len(blockLeaves) {
			c.Failf("leaf/GetBridges-does-not-return-the-deposits", "%s: GetBridges(%d,%d) = %d bridges, err %v", ctxs, num, num, len(bs), err)
		} else {
			for i := range bs {
				if bs[i].Hash() != blockLeaves[i] || uint64(bs[i].DepositCount) != dc-uint64(len(bs))+uint64(i) {
					c.Failf("leaf/GetBridges-out-of-order-or-wrong-leaf", "%s: GetBridges(%d,%d)[%d] count %d", ctxs, num, num, i, bs[i].DepositCount)
				}
			}
		}
		if c.Failed() {
			return
		}
		if bi < len(comp)-1 && mask&(1<<bi) != 0 {
			node.Restart()
			c.Witness("restart")
		}
	}
	c.NonTrivial()
	c.Obs("synth count=%d blocks=%v restarts=%d lastroot=%s", p.C, comp, mask, exps[len(exps)-1].root.Hex()[:18])
}

func main() {
	mc.Main(mc.Spec{
		ID: "C01", Level: "exploration",
		Units:              units,
		Batch:              func(string) int { return 12 },
		MaxEvalsPerProcess: 1500, // every store construction leaks ~3 descriptors (RunMigrations keeps a handle)
		Run:                run,
		Setup: func(string) {
			kit.Quiet()
			lp = newLogPath()
		},
		Rule: "three unit families. leaf: unit = (leaf type, origin network, origin address, destination network, destination address); one execution drives the 25 (amount x metadata) deposits " +
			"of the unit one per block through the real log handler (nil amount: directly) into one real store (evaluations = deposits; distinct = distinct reference leaves). " +
			"struct: unit = (n, composition of n into blocks, leaf shape, empty-block pattern); choice points: first and second restart point among all block boundaries " +
			"(every set of <= 2 boundaries incl. before the first and after the last block); full check after every block and every restart. " +
			"synth: unit = pre-state deposit count c; choice points: number of appended deposits 1..3, their composition into blocks, restart or not at every inner boundary. " +
			"All choice trees explored completely (unbounded DFS). non-trivial = every execution; distinct = distinct (unit, choices, observation)",
		Assumptions: []string{
			"leaf sub-space: the field boundary sets are leaf type {0,1}; networks {0,1,2^32-1}; addresses {0x0, 0xff..ff, one mixed}; amount {nil, 0, 1, 2^64, 2^256-1}; metadata {empty, 1 B, 32 B, 33 B, 1 KiB}; a nil amount cannot be produced by the log decoder and is handed to the store directly",
			"logs are ABI-packed with the binding's own ABI (polygonzkevmbridgev2) and the handler's debug_traceTransaction request is answered by a fake node with a one-frame call trace to the bridge",
			"empty blocks are a fixed pattern per composition (none, or one before the first, between every two and after the last deposit block), not arbitrary positions",
			"synthetic pre-states: the complete subtrees left of the path of position c-1 are opaque hashes written into the rht/root tables with plain SQL; the oracle for them is the transliterated DepositContractBase continued from the same _branch array (ref.Merkle cannot represent opaque subtrees); index patterns = 0..255, {2^k-2..2^k+1} for k=1..31, 2^32-5..2^32-2 and five mixed patterns; the contract's last possible append is index 2^32-2 (depositCount < 2^32-1), so index 2^32-1 is outside the property",
			"the contract side of the oracle (ref.BridgeLeaf, ref.DepositTree) is bound to the bytecode by the evmconf conformance run (DESIGN 5.4), not here",
			"SQLite (modernc) is trusted",
		},
		Bounds: func(tier string) map[string]any {
			return map[string]any{"leaf_units": 162, "leaves": 162 * 25, "struct_max_deposits": maxN(tier), "struct_leaf_shapes": 2, "struct_empty_patterns": 2,
				"struct_restart_points": "every set of <= 2 block boundaries", "synth_counts": len(synthCounts()), "synth_appends": "1..3, every composition, every restart subset"}
		},
	})
}
