// C06 — reorgs of processed blocks are detected; the node converges to the canonical chain.
//
// SUT (all real): sync.EVMDriver.Sync, sync.EVMDownloader, reorgdetector.ReorgDetector (SQLite
// backed; VerifLoad + VerifDetectOnce = Start's body), the l1infotreesync store and log appender.
// They run as goroutines in one synctest bubble; every RPC, every store call, AddBlockToTrack,
// every block hand-over and every reorg notification/acknowledgement is a gate (act.Sched).
// The harness releases one gate at a time; the choice points are: WHICH parked goroutine runs
// next, whether the next scripted chain mutation happens before this RPC, whether the node is
// stopped and restarted here. Default schedule: downloader → driver → hand-over → notification →
// detector check at quiescence → next chain mutation at quiescence. Deviation-bounded DFS.
package main

import (
	"context"
	"errors"
	"fmt"
	"os"
	"path/filepath"
	"runtime"
	"sort"
	"strings"
	"testing/synctest"
	"time"

	cfgtypes "github.com/agglayer/aggkit/config/types"
	"github.com/agglayer/aggkit/db/compatibility"
	"github.com/agglayer/aggkit/l1infotreesync"
	"github.com/agglayer/aggkit/reorgdetector"
	aggsync "github.com/agglayer/aggkit/sync"
	aggkittypes "github.com/agglayer/aggkit/types"
	"github.com/ethereum/go-ethereum"
	"github.com/ethereum/go-ethereum/common"
	"github.com/ethereum/go-ethereum/crypto"
	"verif/h/act"
	"verif/h/kit"
	"verif/h/mc"
	"verif/h/ref"
	"verif/h/simchain"
	sk "verif/h/storekit"
)

const syncerID = "l1InfoTreeSyncer"

// stallFor: how long (fake time) the subscriber takes no notification in the stall deviation: 100 check intervals of the
// detector (configured to 100 ms here). Not longer: the downloader's 1 ms poll ticker fires once per fake millisecond.
const stallFor = 10 * time.Second

// coTenantID sorts BEFORE the syncer's id, as "bridgel1sync" does next to "l1infotreesync" in a real node
const coTenantID = "bridgeSyncerNextDoor"

var (
	gerAddr  = common.HexToAddress("0x00000000000000000000000000000000000000a1")
	rmAddr   = common.HexToAddress("0x00000000000000000000000000000000000000a2")
	sigV1    = crypto.Keccak256Hash([]byte("UpdateL1InfoTree(bytes32,bytes32)"))
	otherSig = crypto.Keccak256Hash([]byte("SomethingElse(uint256)"))
)

// block content kinds: number of info updates in the block (identity depends on block number and variant)
func logsOf(kind string, num uint64, variant uint64) []simchain.LogSpec {
	mk := func(i uint64) simchain.LogSpec {
		return simchain.LogSpec{Address: gerAddr, Topics: []common.Hash{sigV1,
			crypto.Keccak256Hash([]byte(fmt.Sprintf("mer-%d-%d-%d", num, i, variant))),
			crypto.Keccak256Hash([]byte(fmt.Sprintf("rer-%d-%d-%d", num, i, variant)))}}
	}
	switch kind {
	case "-":
		return nil
	case "e":
		return []simchain.LogSpec{mk(0)}
	case "E":
		return []simchain.LogSpec{mk(0), mk(1)}
	case "x":
		return []simchain.LogSpec{{Address: gerAddr, Topics: []common.Hash{otherSig}, Data: make([]byte, 32)}}
	}
	panic("kind " + kind)
}

// Mutation is one scripted change of the chain.
type Mutation struct {
	Op      string   // "fork" | "extend" | "finalize"
	Depth   int      // fork: number of tip blocks replaced
	Content []string // fork: kinds of the new blocks (len >= Depth: may be longer than the old fork) ; extend: kinds appended
}

func (m Mutation) String() string {
	switch m.Op {
	case "fork":
		return fmt.Sprintf("fork(depth=%d,new=%s)", m.Depth, strings.Join(m.Content, ""))
	case "extend":
		return fmt.Sprintf("extend(%s)", strings.Join(m.Content, ""))
	}
	return "finalize(+1)"
}

type params struct {
	Initial   []string
	Finalized uint64
	Script    []Mutation
	Chunk     uint64
	Restarts  int
	Bound     int
	// CoTenant: a second subscriber of the same reorg detector tracks every block right after the syncer does (as the L1
	// bridge syncer does next to the L1 info tree syncer), so the two subscribers' rows interleave in the detector's table.
	// The detector checks its subscribers concurrently under a mutex that it holds across its RPCs; a goroutine waiting for
	// a mutex is not a quiescent goroutine for the bubble, so in these units the detector's RPCs are answered at once
	// (they are not scheduling points; everything else is).
	CoTenant bool
}

func (p params) String() string {
	var ms []string
	for _, m := range p.Script {
		ms = append(ms, m.String())
	}
	ct := ""
	if p.CoTenant {
		ct = " +second-subscriber"
	}
	return fmt.Sprintf("chain=%s finalized=%d chunk=%d script=[%s] restarts=%d%s", strings.Join(p.Initial, ""), p.Finalized, p.Chunk, strings.Join(ms, " "), p.Restarts, ct)
}

func units(tier string) []mc.Unit {
	var us []mc.Unit
	slices := 1
	if tier == "thorough" {
		slices = 24 // one unit's tree has ~10^4 executions at bound 2; every execution opens 4+ databases
	}
	add := func(p params) {
		n := 1
		if p.Bound >= 2 {
			n = slices
		}
		us = append(us, mc.Sliced(mc.Unit{Name: p.String(), Params: p}, n)...)
	}
	// the last chain ends in a run of event-less blocks: above its last event block nothing is tracked (bound 1 only)
	initials := [][]string{{"e", "e", "e"}, {"e", "-", "E"}, {"e", "e", "-", "e"}, {"e", "-", "-"}}
	forks := func(n int) []Mutation {
		var out []Mutation
		for d := 1; d <= 2 && d < n; d++ {
			same := make([]string, d)
			for i := range same {
				same[i] = "e"
			}
			out = append(out, Mutation{"fork", d, same})                                     // same events, new hashes
			out = append(out, Mutation{"fork", d, append(make0(d, "-"), "e")})               // events removed / moved later, longer fork
			out = append(out, Mutation{"fork", d, append(append([]string{}, same...), "E")}) // events added, longer fork
		}
		return out
	}
	bound := 1
	if tier == "thorough" {
		bound = 2
	}
	for ii, ini := range initials {
		n := len(ini)
		for _, fin := range []uint64{0, 1} {
			for _, f1 := range forks(n) {
				for _, chunk := range []uint64{1, 10} {
					if tier == "quick" && (chunk == 1) != (ii == 0) {
						continue
					}
					if chunk == 1 && ii >= 2 { //nolint:mnd
						continue // block-by-block download of the 4-block chain: dropped for the budget (the 3-block chains keep it)
					}
					// one reorg
					if ii == 3 { //nolint:mnd
						// the fork is followed by one more block: a node learns about the chain through the block NUMBER it polls,
						// so a replacement of untracked event-less blocks by a fork of the same length is visible to it only once
						// the chain grows again (a chain that never produces another block is not part of the quantifier)
						add(params{ini, fin, []Mutation{f1, {"extend", 0, []string{"-"}}}, chunk, 1, 1, false})
						continue
					}
					add(params{ini, fin, []Mutation{f1}, chunk, 1, bound, false})
					if chunk == 10 && (tier == "thorough" || ii == 1) {
						add(params{ini, fin, []Mutation{f1}, chunk, 1, 1, true}) // the same next to a second subscriber
					}
					if chunk == 10 && (tier == "thorough" || ii == 1) {
						// the reorg, then finality moving past every replaced block, then growth - with one restart: the node may
						// be down for all of it (restart-after-the-chain-moved-on) or any part of it
						fz := Mutation{"finalize", 0, nil}
						add(params{ini, fin, []Mutation{f1, fz, fz, fz, fz, {"extend", 0, []string{"e"}}}, chunk, 1, 1, false})
					}
					if tier == "quick" && (ii != 1 || fin != 0) {
						continue
					}
					// successive reorgs, reorg then growth, finality moving in between
					add(params{ini, fin, []Mutation{f1, {"fork", 1, []string{"e", "e"}}}, chunk, 0, 1, false})
					add(params{ini, fin, []Mutation{f1, {"finalize", 0, nil}, {"extend", 0, []string{"e"}}, {"fork", 1, []string{"E"}}}, chunk, 0, 1, false})
				}
			}
			if tier == "quick" && ii == 1 && fin == 1 {
				// two deviations (e.g. a stop at one point AND the fork at another) on two single-fork scripts, sliced
				for _, f1 := range []Mutation{{"fork", 1, []string{"-", "e"}}, {"fork", 2, []string{"e", "e"}}} {
					us = append(us, mc.Sliced(mc.Unit{Name: params{ini, fin, []Mutation{f1}, 10, 1, 2, false}.String() + " bound=2", Params: params{ini, fin, []Mutation{f1}, 10, 1, 2, false}}, 16)...)
				}
			}
			// nothing processed is replaced: growth and finality only (no rewind allowed)
			add(params{ini, fin, []Mutation{{"extend", 0, []string{"e"}}, {"finalize", 0, nil}, {"extend", 0, []string{"-", "e"}}}, 10, 1, 1, false})
		}
	}
	return us
}

func make0(n int, k string) []string {
	out := make([]string, n)
	for i := range out {
		out[i] = k
	}
	return out
}

// ---------------------------------------------------------------------------------------------
// wrappers: every interaction of the driver with its environment is a gate

type world struct {
	c     *mc.Ctx
	p     params
	sched *act.Sched
	chain *simchain.Chain
	inc   *incarnation
	// observations
	reorgCalls   []uint64
	notifs       []uint64
	waitAnswer   int64 // last answer given to a WaitForNewBlocks poll of the current download session
	session      int
	lastDetect   int // Steps value when the last detector check that ended silently began; -1 if none
	activity     int // counter of released non-detector gates and mutations
	detectBusy   bool
	detectStart  int
	detectNotif  bool
	endAll       chan struct{}
	variant      uint64
	trackingGaps int
	everReplaced bool // some processed block was not canonical at some moment of this execution
	zombieNotify map[*act.Gate]bool
	inflight     int // detector check goroutines that have not returned yet
	rpcErrors    int // transient RPC errors injected so far (budget 1)
	stalled      bool          // the subscriber does not take notifications (its driver is busy elsewhere)
	poke         chan struct{} // makes the relay re-read stalled
	stalls       int
	// blocks handed to the reorg detector (AddBlockToTrack succeeded) whose ProcessBlock never succeeded: the node was
	// stopped between the two calls of EVMDriver.handleNewBlock. The tracker then holds a block the store never held.
	trackedUnprocessed map[uint64]common.Hash
	// orphanTracked: what trackedUnprocessed held when an incarnation was stopped (never shrinks): blocks the tracker got
	// from a node that was stopped before it processed them
	orphanTracked map[uint64]common.Hash
}

type incarnation struct {
	id     int
	store  *sk.Node
	rd     *reorgdetector.ReorgDetector
	ctx    context.Context
	cancel context.CancelFunc
	dead   bool
	// graceful: the node was stopped by cancelling its context (a shutdown), not killed: its store refuses every call with
	// context.Canceled, but what its goroutines still do until they exit DOES happen — in particular an acknowledgement the
	// driver sends reaches the detector, which then forgets the tracked range
	graceful bool
	done     chan struct{} // closed when driver.Sync returned
}

var errStopped = errors.New("verif: node stopped")

type storeWrap struct {
	w   *world
	inc *incarnation
	compatibility.CompatibilityDataStorager[aggsync.RuntimeData]
}

func (s *storeWrap) GetLastProcessedBlock(ctx context.Context) (uint64, error) {
	if d := s.w.sched.EnterCtx(ctx, "2drv", "GetLastProcessedBlock", "", nil); d.Err != nil || s.inc.dead {
		return 0, nil // stopped node: the driver's start-up loop has no context check, let it reach its select
	}
	return s.inc.store.W.GetLastProcessedBlock(ctx)
}

func (s *storeWrap) ProcessBlock(ctx context.Context, b aggsync.Block) error {
	if d := s.w.sched.EnterCtx(ctx, "2drv", "ProcessBlock", fmt.Sprint(b.Num), b); d.Err != nil || s.inc.dead {
		return errStopped
	}
	err := s.inc.store.W.ProcessBlock(ctx, b)
	if err == nil {
		delete(s.w.trackedUnprocessed, b.Num)
	}
	return err
}

func (s *storeWrap) Reorg(ctx context.Context, first uint64) error {
	if d := s.w.sched.EnterCtx(ctx, "2drv", "Reorg", fmt.Sprint(first), first); d.Err != nil || s.inc.dead {
		// stopped node: its store cannot begin a transaction on a cancelled context. handleReorg retries without a context
		// check until the retry handler gives up (process exit = end of the goroutine, see LogFatalf in start)
		return context.Canceled
	}
	s.w.onReorg(first)
	return s.inc.store.W.Reorg(ctx, first)
}

type rdWrap struct {
	w   *world
	inc *incarnation
}

func (r *rdWrap) Subscribe(id string) (*reorgdetector.Subscription, error) {
	real, err := r.inc.rd.Subscribe(id)
	if err != nil {
		return nil, err
	}
	mine := &reorgdetector.Subscription{ReorgedBlock: make(chan uint64), ReorgProcessed: make(chan bool)}
	w, inc := r.w, r.inc
	go func() { // relay between the detector's subscription and the driver's
		for {
			src := real.ReorgedBlock
			if w.stalled {
				src = nil // the driver is not in its select: nobody takes the detector's notification for now
			}
			select {
			case <-w.endAll:
				return
			case <-w.poke:
				continue
			case n := <-src:
				w.detectNotif = true
				if d := w.sched.Enter("4ntf", "notify", fmt.Sprint(n), n); d.Err != nil || inc.dead {
					// the node was stopped while its detector was about to notify: that check died with the
					// process. Its goroutine is kept parked until the end of the execution (nothing is acknowledged).
					<-w.endAll
					real.ReorgProcessed <- true
					return
				}
				w.notifs = append(w.notifs, n)
				select {
				case mine.ReorgedBlock <- n:
				case <-inc.ctx.Done():
					<-w.endAll
					real.ReorgProcessed <- true
					return
				}
				select {
				case <-mine.ReorgProcessed:
				case <-inc.done:
					// the driver is gone without acknowledging (it was stopped while handling the reorg)
					<-w.endAll
					real.ReorgProcessed <- true
					return
				}
				if inc.dead && inc.graceful {
					// a shutdown, not a kill: the acknowledgement the driver sent does reach the detector
					w.c.Witness("acknowledgements_sent_during_a_shutdown")
					real.ReorgProcessed <- true
					continue
				}
				if inc.dead {
					// the node was KILLED before it had handled the reorg: this acknowledgement never happened
					<-w.endAll
					real.ReorgProcessed <- true
					return
				}
				if d := w.sched.Enter("4ntf", "ack", fmt.Sprint(n), n); d.Err != nil || inc.dead {
					<-w.endAll
					real.ReorgProcessed <- true
					return
				}
				real.ReorgProcessed <- true
			}
		}
	}()
	return mine, nil
}

func (r *rdWrap) AddBlockToTrack(ctx context.Context, id string, num uint64, hash common.Hash) error {
	if d := r.w.sched.EnterCtx(ctx, "2drv", "AddBlockToTrack", fmt.Sprint(num), num); d.Err != nil || r.inc.dead {
		return errStopped
	}
	err := r.inc.rd.AddBlockToTrack(ctx, id, num, hash)
	if err == nil {
		r.w.trackedUnprocessed[num] = hash
		if r.w.p.CoTenant {
			if e2 := r.inc.rd.AddBlockToTrack(ctx, coTenantID, num, hash); e2 != nil {
				r.w.c.Failf("harness/second-subscriber", "AddBlockToTrack: %v", e2)
			}
		}
	}
	return err
}
func (r *rdWrap) GetFinalizedBlockType() aggkittypes.BlockNumberFinality {
	return r.inc.rd.GetFinalizedBlockType()
}
func (r *rdWrap) String() string { return "rdWrap" }

type dlWrap struct {
	w    *world
	inc  *incarnation
	real *aggsync.EVMDownloader
}

func (d *dlWrap) RuntimeData(ctx context.Context) (aggsync.RuntimeData, error) {
	return aggsync.RuntimeData{ChainID: 1337, Addresses: []common.Address{gerAddr, rmAddr}}, nil
}

func (d *dlWrap) Download(ctx context.Context, from uint64, out chan aggsync.EVMBlock) {
	d.w.session++
	d.w.waitAnswer = -1
	priv := make(chan aggsync.EVMBlock)
	go d.real.Download(ctx, from, priv)
	for b := range priv {
		if ctx.Err() != nil {
			continue // drain: the driver has abandoned this channel
		}
		if dir := d.w.sched.EnterCtx(ctx, "3dlv", "deliver", fmt.Sprint(b.Num), b.Num); dir.Err != nil {
			continue
		}
		select {
		case out <- b:
		case <-ctx.Done():
		}
	}
	close(out)
}

// ---------------------------------------------------------------------------------------------

func (w *world) onReorg(first uint64) {
	w.reorgCalls = append(w.reorgCalls, first)
	// the rewind bound, judged against the store's own block table at this moment
	rows := w.processedBlocks()
	firstBad := uint64(0)
	deletes := false
	for _, r := range rows {
		if r.num >= first {
			deletes = true
		}
		if firstBad == 0 && (r.num > w.chain.Tip() || w.chain.Hash(r.num) != r.hash) {
			firstBad = r.num
		}
	}
	if firstBad != 0 {
		w.everReplaced = true
	}
	switch {
	case !w.everReplaced && deletes:
		key := "rewound-although-nothing-processed-was-replaced"
		why := ""
		h, ok := w.trackedUnprocessed[first]
		if !ok {
			h, ok = w.orphanTracked[first]
		}
		if ok && (first > w.chain.Tip() || w.chain.Hash(first) != h) {
			// the one history that is recorded as a known finding: the node was stopped between AddBlockToTrack(b) and
			// ProcessBlock(b), b was replaced, and the new fork's b is not delivered again (no watched event): the detector
			// still holds the old b and reports it, the driver rewinds canonical blocks >= b that it has to fetch again
			key += "/block-tracked-before-a-stop-but-never-processed-was-replaced"
			why = fmt.Sprintf("; block %d was handed to the reorg detector by an earlier incarnation that was stopped before it processed it", first)
		}
		w.c.Failf(key, "%s: Reorg(%d) deletes processed blocks but no processed block was ever replaced (processed %v are canonical)%s", w.p, first, nums(rows), why)
	case firstBad == 0 && deletes:
		// a redundant rewind after a crash between handling a reorg and acknowledging it: the antecedent
		// of the clause (nothing processed was replaced) does not hold in this execution
		w.c.Witness("redundant_rewinds_after_a_replacement")
	case firstBad != 0 && first > firstBad:
		// not a violation by itself: the detector may have read the earlier header before the fork
		// happened; the property requires that the node IS rewound to the first replaced block, which
		// the final-state oracle decides (a later rewind must repair it)
		w.c.Witness("rewinds_above_first_replaced_block_needing_a_second_rewind")
	}
	if firstBad != 0 {
		w.c.Witness("rewinds_of_replaced_blocks")
	}
}

type blkRow struct {
	num  uint64
	hash common.Hash
}

func nums(r []blkRow) []uint64 {
	var o []uint64
	for _, x := range r {
		o = append(o, x.num)
	}
	return o
}

func (w *world) processedBlocks() []blkRow {
	rows, err := w.inc.store.DB.Query(`SELECT num, hash FROM block ORDER BY num`)
	if err != nil {
		panic(err)
	}
	defer rows.Close()
	var out []blkRow
	for rows.Next() {
		var n uint64
		var hs string
		rows.Scan(&n, &hs)
		out = append(out, blkRow{n, common.HexToHash(hs)})
	}
	return out
}

func (w *world) noteReplaced() {
	if w.everReplaced {
		return
	}
	for _, r := range w.processedBlocks() {
		if r.num > w.chain.Tip() || w.chain.Hash(r.num) != r.hash {
			w.everReplaced = true
			return
		}
	}
}

func (w *world) mutate(m Mutation) {
	defer w.noteReplaced()
	w.variant++
	switch m.Op {
	case "fork":
		from := w.chain.Tip() - uint64(m.Depth) + 1
		if from <= w.chain.Finalized {
			from = w.chain.Finalized + 1
		}
		if from > w.chain.Tip() {
			return
		}
		var blocks [][]simchain.LogSpec
		for i, k := range m.Content {
			blocks = append(blocks, logsOf(k, from+uint64(i), w.variant))
		}
		w.chain.Fork(from, w.variant, blocks)
		w.chain.Visible = w.chain.Tip()
		w.c.Witness("forks")
	case "extend":
		for _, k := range m.Content {
			w.chain.Append(w.variant, logsOf(k, w.chain.Tip()+1, w.variant))
		}
		w.chain.Visible = w.chain.Tip()
	case "finalize":
		if w.chain.Finalized < w.chain.Tip() {
			w.chain.Finalized++
		}
	}
	w.activity++
}

func run(c *mc.Ctx, u mc.Unit) {
	p := u.Params.(params)
	dir := sk.ScratchDir()
	bubbleEnded := false
	defer func() {
		if bubbleEnded { // every goroutine of the execution has ended and every handle of the harness is closed
			kit.RemoveScratch(dir)
		} else {
			os.RemoveAll(dir)
		}
	}()
	sched := act.New()
	chain := simchain.New()
	for i, k := range p.Initial {
		chain.Append(0, logsOf(k, uint64(i+1), 0))
	}
	chain.Visible = chain.Tip()
	chain.Finalized = p.Finalized
	w := &world{c: c, p: p, sched: sched, chain: chain, lastDetect: -1, trackedUnprocessed: map[uint64]common.Hash{}, orphanTracked: map[uint64]common.Hash{}}
	// every object that opens a database is constructed BEFORE the bubble (one set per incarnation)
	storePath := filepath.Join(dir, "l1info.sqlite")
	rdPath := filepath.Join(dir, "rd.sqlite")
	var incs []*incarnation
	for i := 0; i <= p.Restarts; i++ {
		rdClient := simchain.NewClient(chain, sched, fmt.Sprintf("5rd#%d", i))
		if p.CoTenant {
			rdClient.S = nil
		}
		rd, err := reorgdetector.New(rdClient,
			reorgdetector.Config{DBPath: rdPath, FinalizedBlock: aggkittypes.FinalizedBlock, CheckReorgsInterval: cfgtypes.NewDuration(100 * time.Millisecond)}, reorgdetector.L1)
		if err != nil {
			panic(err)
		}
		incs = append(incs, &incarnation{id: i, store: sk.OpenAt(sk.L1Info, storePath), rd: rd})
	}
	defer func() {
		for _, inc := range incs {
			inc.store.DB.Close()
			inc.rd.VerifDB().Close()
		}
	}()
	savedFatal := aggsync.LogFatalf
	aggsync.LogFatalf = func(string, ...any) { runtime.Goexit() } // the process would exit here
	defer func() { aggsync.LogFatalf = savedFatal }()
	synctest.Run(func() { w.explore(incs) })
	bubbleEnded = true
}

func (w *world) start(inc *incarnation) bool {
	w.inc = inc
	inc.ctx, inc.cancel = context.WithCancel(context.Background())
	inc.done = make(chan struct{})
	if err := inc.rd.VerifLoad(); err != nil {
		w.c.Failf("harness/detector-load", "%v", err)
		return false
	}
	if w.p.CoTenant {
		sub, err := inc.rd.Subscribe(coTenantID)
		if err != nil {
			w.c.Failf("harness/second-subscriber", "%v", err)
			return false
		}
		go func() { // the second subscriber acknowledges every notification at once (its own store is not under test)
			for {
				select {
				case <-w.endAll:
					return
				case <-sub.ReorgedBlock:
					w.c.Witness("second_subscriber_notified")
					select {
					case sub.ReorgProcessed <- true:
					case <-w.endAll:
						return
					}
				}
			}
		}()
	}
	appender, err := l1infotreesync.VerifBuildAppender(simchain.NewClient(w.chain, w.sched, "0cfg"), gerAddr, rmAddr)
	if err != nil {
		w.c.Failf("harness/appender", "%v", err)
		return false
	}
	// the retry handler gives up after 5 consecutive failures of one call (only a stopped node's store fails that often:
	// at most one transient RPC failure is injected per execution); giving up is a process exit in aggkit (sync.LogFatalf),
	// here the end of the goroutine
	rh := &aggsync.RetryHandler{RetryAfterErrorPeriod: time.Millisecond, MaxRetryAttemptsAfterError: 5}
	dl, err := aggsync.NewEVMDownloader("c06", simchain.NewClient(w.chain, w.sched, "1dl"), w.p.Chunk, aggkittypes.LatestBlock,
		time.Millisecond, appender, []common.Address{gerAddr, rmAddr}, rh, aggkittypes.FinalizedBlock)
	if err != nil {
		w.c.Failf("harness/downloader", "%v", err)
		return false
	}
	st := &storeWrap{w: w, inc: inc}
	st.CompatibilityDataStorager = inc.store.W.(compatibility.CompatibilityDataStorager[aggsync.RuntimeData])
	drv, err := aggsync.NewEVMDriver(&rdWrap{w, inc}, st, &dlWrap{w, inc, dl}, syncerID, 0, rh, false)
	if err != nil {
		w.c.Failf("harness/driver", "%v", err)
		return false
	}
	go func() { defer close(inc.done); drv.Sync(inc.ctx) }()
	return true
}

func (w *world) stop(inc *incarnation) {
	inc.dead = true
	inc.cancel()
	for i := 0; i < 200; i++ {
		gs := w.sched.Settle(3)
		progressed := false
		for _, g := range gs {
			if strings.HasPrefix(g.Comp, "5rd") {
				continue // an in-flight detector check of a stopped node stays where it is (killed)
			}
			w.sched.Release(g, act.Directive{Err: context.Canceled})
			progressed = true
		}
		if !progressed {
			break
		}
	}
	<-inc.done
}

// enabled gates in priority order; blocked wait polls are left out
func (w *world) enabled(gs []*act.Gate) []*act.Gate {
	var out []*act.Gate
	for _, g := range gs {
		if strings.HasPrefix(g.Comp, "5rd") && g.Comp != fmt.Sprintf("5rd#%d", w.inc.id) {
			continue // detector check of a stopped incarnation: dead
		}
		if g.Comp == "4ntf" && g.Op == "notify" && w.zombieNotify[g] {
			continue
		}
		if g.Comp == "1dl" && g.Op == "HeaderByNumber" && g.Arg == "latest" && strings.Contains(g.Stack, "WaitForNewBlocks") &&
			int64(w.chain.Visible) <= w.waitAnswer {
			continue // would see nothing new: the downloader is waiting
		}
		out = append(out, g)
	}
	sort.SliceStable(out, func(i, j int) bool { return out[i].Comp < out[j].Comp })
	return out
}

func (w *world) explore(incs []*incarnation) {
	c, p := w.c, w.p
	if os.Getenv("C06_TRACE") != "" {
		w.sched.Trace = func(g *act.Gate, d act.Directive) { fmt.Fprintf(os.Stderr, "  release %s err=%v\n", g, d.Err) }
	}
	w.endAll = make(chan struct{})
	w.poke = make(chan struct{})
	w.zombieNotify = map[*act.Gate]bool{}
	if !w.start(incs[0]) {
		return
	}
	next := 1
	script := append([]Mutation{}, p.Script...)
	horizon := 600
	detectCtx, detectCancel := context.WithCancel(context.Background())
	defer detectCancel()
	detectDone := make(chan int, 8)
	startDetect := func() {
		// a check runs when the detector's ticker fires: checks are at least one interval apart
		// (the reorg_event table's key contains the detection time in seconds)
		time.Sleep(2 * time.Second)
		synctest.Wait()
		w.detectBusy, w.detectStart, w.detectNotif = true, w.activity, false
		rd, id := w.inc.rd, w.inc.id
		w.inflight++
		go func() {
			_ = rd.VerifDetectOnce(detectCtx)
			detectDone <- id
		}()
	}
	for step := 0; ; step++ {
		gs := w.sched.SettleIf(3, func(g *act.Gate) bool { return g.Cancelled() || len(w.enabled([]*act.Gate{g})) > 0 })
		select {
		case id := <-detectDone:
			w.inflight--
			if id == w.inc.id {
				w.detectBusy = false
				if !w.detectNotif && w.detectStart == w.activity {
					w.lastDetect = w.activity // a silent check with nothing happening meanwhile
				}
			}
		default:
		}
		if step >= horizon {
			c.HorizonHit()
			c.Failf("harness/horizon", "%s: no quiescence after %d steps", p, horizon)
			break
		}
		// callers whose context is already cancelled just need to run to their exit: no choice
		released := false
		for _, g := range gs {
			if g.Cancelled() {
				w.sched.Release(g, act.Directive{Err: context.Canceled})
				released = true
				break
			}
		}
		if released {
			continue
		}
		en := w.enabled(gs)
		// alternatives: gates in priority order; for an RPC gate the variant "next chain mutation happens first";
		// at quiescence the next mutation; a stop/restart
		type alt struct {
			g      *act.Gate
			mutate bool
			kind   string
		}
		var alts []alt
		for _, g := range en {
			alts = append(alts, alt{g: g, kind: "gate"})
		}
		for _, g := range en {
			if len(script) > 0 && (g.Comp == "1dl" || strings.HasPrefix(g.Comp, "5rd")) {
				alts = append(alts, alt{g: g, mutate: true, kind: "mutate-then-gate"})
			}
		}
		if w.rpcErrors < 1 {
			// deviation: this RPC of the downloader / the detector fails once (an opaque transport error; for a header
			// asked by number also "not found", which the downloader treats as "the block disappeared in a reorg, wait")
			for _, g := range en {
				if g.Comp == "1dl" || strings.HasPrefix(g.Comp, "5rd") {
					alts = append(alts, alt{g: g, kind: "gate-fails"})
					if g.Op == "HeaderByNumber" && g.Arg != "latest" && g.Arg != "finalized" && g.Arg != "safe" && g.Arg != "pending" {
						alts = append(alts, alt{g: g, kind: "gate-not-found"})
					}
				}
			}
		}
		canDetect := !w.detectBusy
		if len(en) == 0 && canDetect && w.lastDetect != w.activity {
			alts = append(alts, alt{kind: "detect"}) // default at quiescence: a detector check (its ticker fires)
			canDetect = false
		}
		if len(en) == 0 && len(script) > 0 {
			alts = append(alts, alt{kind: "mutate"})
		}
		if canDetect && len(en) > 0 {
			alts = append(alts, alt{kind: "detect"}) // deviation: the detector's ticker fires now
		}
		if !w.detectBusy && w.stalls < 1 && !w.p.CoTenant && (len(en) > 0 || w.lastDetect != w.activity) {
			// deviation: the detector's ticker fires while the driver is busy elsewhere for a long time (ten seconds of fake
			// time = 100 check intervals): nobody takes a notification meanwhile
			alts = append(alts, alt{kind: "detect-while-subscriber-stalled"})
		}
		if next < len(incs) {
			alts = append(alts, alt{kind: "restart"}, alt{kind: "restart-after-shutdown"})
			if len(script) > 0 {
				// a long downtime: the node is stopped here and comes back only after the rest of the script happened
				// (forks, finality moving on, new blocks)
				alts = append(alts, alt{kind: "restart-after-the-chain-moved-on"})
			}
		}
		if len(en) == 0 && len(script) == 0 && !w.detectBusy && w.lastDetect == w.activity {
			// quiescent, script exhausted, detector silent: END is the default
			alts = append([]alt{{kind: "end"}}, alts...)
		}
		if len(alts) == 0 {
			break
		}
		a := alts[c.Choose(len(alts), "schedule")]
		switch a.kind {
		case "end":
			goto end
		case "restart", "restart-after-shutdown", "restart-after-the-chain-moved-on":
			if a.kind == "restart-after-shutdown" {
				w.inc.graceful = true
				c.Witness("restarts_after_a_shutdown")
			}
			w.stop(w.inc)
			for k, v := range w.trackedUnprocessed {
				w.orphanTracked[k] = v
			}
			c.Witness("restarts")
			if a.kind == "restart-after-the-chain-moved-on" {
				for len(script) > 0 {
					w.mutate(script[0])
					script = script[1:]
				}
				c.Witness("restarts_after_a_long_downtime")
			}
			w.detectBusy = false // a check in flight died with the process (its goroutine stays parked until the end)
			w.lastDetect = -1
			w.activity++
			if !w.start(incs[next]) {
				goto end
			}
			next++
		case "detect":
			startDetect()
		case "detect-while-subscriber-stalled":
			w.stalls++
			c.Witness("detector_checks_while_the_subscriber_is_stalled")
			pokeRelay := func() {
				select {
				case w.poke <- struct{}{}:
				default:
				}
				synctest.Wait()
			}
			w.stalled = true
			pokeRelay()
			startDetect()
			// the check runs its RPCs under the scheduler as usual; here only time passes while nothing is released
			for i := 0; i < 60; i++ {
				gs := w.sched.Settle(3)
				rel := false
				for _, g := range gs {
					if strings.HasPrefix(g.Comp, "5rd") && g.Comp == fmt.Sprintf("5rd#%d", w.inc.id) {
						w.sched.Release(g, act.Directive{})
						rel = true
						break
					}
				}
				if !rel {
					break
				}
			}
			time.Sleep(stallFor)
			synctest.Wait()
			w.stalled = false
			pokeRelay()
		case "mutate":
			w.mutate(script[0])
			script = script[1:]
		case "gate-fails", "gate-not-found":
			w.rpcErrors++
			w.activity++
			c.Witness("rpc_errors_injected")
			err := errors.New("verif: transient rpc error")
			if a.kind == "gate-not-found" {
				err = fmt.Errorf("verif: %w", ethereum.NotFound)
				c.Witness("rpc_not_found_injected")
			}
			c.Transition(1)
			w.sched.Release(a.g, act.Directive{Err: err})
		default:
			if a.mutate {
				w.mutate(script[0])
				script = script[1:]
				c.Witness("mutations_scheduled_before_an_rpc")
			}
			g := a.g
			if !strings.HasPrefix(g.Comp, "5rd") {
				w.activity++
			}
			if g.Comp == "1dl" && g.Op == "HeaderByNumber" && g.Arg == "latest" && strings.Contains(g.Stack, "WaitForNewBlocks") {
				w.waitAnswer = int64(w.chain.Visible)
			}
			c.Transition(1)
			w.sched.Release(g, act.Directive{})
			if g.Op == "ProcessBlock" {
				w.noteReplaced() // a block of the old fork may have been handed over after the fork happened
			}
		}
	}
end:
	w.finalChecks()
	// let every goroutine exit so that the bubble can end
	w.stop(w.inc)
	detectCancel()
	ended := false
	for i := 0; w.inflight > 0 && i < 500; i++ {
		for _, g := range w.sched.Settle(3) {
			w.sched.Release(g, act.Directive{Err: context.Canceled})
		}
		if !ended {
			ended = true
			close(w.endAll) // parked notifications of stopped nodes are let go now
		}
		for more := true; more; {
			select {
			case <-detectDone:
				w.inflight--
			default:
				more = false
			}
		}
	}
	if !ended {
		close(w.endAll)
	}
	w.sched.Drain(context.Canceled, 20)
}

// finalChecks: the stored state equals that of the final canonical chain.
func (w *world) finalChecks() {
	c, p := w.c, w.p
	st := w.inc.store
	// reference: the info leaves of the canonical chain
	type leaf struct {
		num      uint64
		pos      uint64
		mer, rer common.Hash
		parent   common.Hash
		ts       uint64
	}
	var leaves []leaf
	var hashes []common.Hash
	for n := uint64(1); n <= w.chain.Tip(); n++ {
		for i, l := range w.chain.Blocks[n].Logs {
			if l.Topics[0] != sigV1 {
				continue
			}
			lf := leaf{n, uint64(i), l.Topics[1], l.Topics[2], w.chain.Hash(n - 1), w.chain.Header(n).Time}
			leaves = append(leaves, lf)
			hashes = append(hashes, ref.L1InfoLeaf(ref.GER(lf.mer, lf.rer), lf.parent, lf.ts))
		}
	}
	roots := ref.AppendRoots(hashes)
	ctx := context.Background()
	var got []string
	for i := 0; ; i++ {
		l, err := st.L.GetInfoByIndex(ctx, uint32(i))
		if err != nil {
			break
		}
		got = append(got, fmt.Sprintf("%d@%d.%d", i, l.BlockNumber, l.BlockPosition))
		if i >= len(leaves) {
			c.Failf("final-state-has-extra-leaf", "%s: store has leaf %d (block %d) but the canonical chain has only %d info updates", p, i, l.BlockNumber, len(leaves))
			break
		}
		want := leaves[i]
		if l.BlockNumber != want.num || l.MainnetExitRoot != want.mer || l.RollupExitRoot != want.rer || l.PreviousBlockHash != want.parent ||
			l.Timestamp != want.ts || l.Hash != hashes[i] {
			c.Failf("final-state-leaf-not-canonical", "%s: leaf %d is from block %d (mer %s parent %s), canonical chain has block %d (mer %s parent %s); reorg calls %v",
				p, i, l.BlockNumber, l.MainnetExitRoot.Hex()[:10], l.PreviousBlockHash.Hex()[:10], want.num, want.mer.Hex()[:10], want.parent.Hex()[:10], w.reorgCalls)
			break
		}
		r, err := st.L.GetL1InfoTreeRootByIndex(ctx, uint32(i))
		if err != nil || r.Hash != roots[i] {
			c.Failf("final-state-root-not-canonical", "%s: root %d = %s,%v want %s", p, i, r.Hash.Hex(), err, roots[i].Hex())
			break
		}
	}
	if len(got) < len(leaves) && !c.Failed() {
		c.Failf("final-state-misses-leaf", "%s: store has %d leaves %v, canonical chain (tip %d) has %d; processed blocks %v; reorg calls %v",
			p, len(got), got, w.chain.Tip(), len(leaves), nums(w.processedBlocks()), w.reorgCalls)
	}
	for _, r := range w.processedBlocks() {
		if r.num > w.chain.Tip() || w.chain.Hash(r.num) != r.hash {
			c.Failf("final-state-block-not-canonical", "%s: processed block %d has hash %s, canonical %v", p, r.num, r.hash.Hex()[:10], r.num <= w.chain.Tip())
			break
		}
	}
	// statistic only (not a property clause): processed, non-finalized blocks that are not tracked
	tracked := w.inc.rd.VerifTracked(syncerID)
	for _, r := range w.processedBlocks() {
		if r.num > w.chain.Finalized {
			if h, ok := tracked[r.num]; !ok || common.HexToHash(h) != r.hash {
				w.trackingGaps++
			}
		}
	}
	if w.trackingGaps > 0 {
		c.Witness("executions_ending_with_untracked_processed_blocks")
	}
	c.State(fmt.Sprintf("%v|%v|%v", got, w.reorgCalls, w.chain.Tip()))
	c.Obs("%s leaves=%v reorgs=%v notifs=%v tip=%d fin=%d", p, got, w.reorgCalls, w.notifs, w.chain.Tip(), w.chain.Finalized)
	if len(w.reorgCalls) > 0 {
		c.Witness("executions_with_rewind")
		c.NonTrivial()
	}
}

func main() {
	mc.Main(mc.Spec{
		ID: "C06", Level: "model_checking",
		Units:              units,
		Batch:              func(string) int { return 1 },
		MaxEvalsPerProcess: 600,
		Bound:              func(tier string, u mc.Unit) int { return u.Params.(params).Bound },
		Run:                run,
		Setup:              func(string) { kit.Quiet() },
		Rule: "unit = (initial chain, finalized pointer, script of chain mutations, chunk size, restart budget); choice points at every step: which parked goroutine " +
			"(downloader RPC, driver store call / AddBlockToTrack, block hand-over, reorg notification / acknowledgement, detector RPC) runs next, whether the next scripted chain " +
			"mutation happens before this RPC, whether the node is stopped and restarted here; explored by DFS with a bound on deviations from the default schedule. " +
			"non-trivial = executions in which the store was rewound; distinct = distinct (unit, choices, final leaves, rewind points)",
		Assumptions: []string{
			"deviation bound: 1 deviation from the default schedule, thorough: 2 deviations for the single-fork scripts (downloader, driver, hand-over, notification, detector check at quiescence, mutation at quiescence)",
			"a stop = contexts cancelled and every further store/tracker call of that incarnation refused; a detector check in flight finishes its own database writes (a kill in the middle of those is not modelled)",
			"forks never go below the finalized block; watched events are UpdateL1InfoTree logs parsed by the real l1infotreesync appender",
			"the property's convergence clause is judged at quiescence after the script is exhausted and a detector check ended silently",
		},
		Bounds: func(tier string) map[string]any {
			return map[string]any{"initial_chains": "3 shapes of 3-4 blocks", "finalized": []int{0, 1}, "fork_depth": "1..2", "fork_content": "same events / removed+moved later (longer) / added (longer)",
				"scripts": "one fork; fork+fork; fork, finalize, extend, fork; growth only", "deviation_bound": map[string]string{"quick": "1 (2 for two single-fork scripts on the chain e-E with finalized=1)", "thorough": "2 for single-fork scripts (with a restart budget of 1), 1 for the multi-mutation scripts"}[tier], "horizon_steps": 600}
		},
	})
}
