// C07 — block processing is all-or-nothing under faults and crashes; retry is clean.
//
// SUT: the three real stores behind their real facades. Faults are injected INSIDE SQLite
// (BEFORE triggers + counter, storekit/fault.go): position k = the k-th row write of the block's
// transaction fails. For every prefix history (every frontier carry position), every faulted block
// kind, EVERY fault position 1..K (K measured on a fault-free dry run), both recoveries (retry on
// the same objects as the driver does / process restart then retry), an optional second fault at
// every position of the retry, an optional restart before the following blocks:
//   - after each failed attempt the complete observation equals the one before the attempt;
//   - after the successful retry and the following blocks it equals that of a node on which the
//     failure never happened (fresh fault-free node, same history), including roots and proofs.
package main

import (
	"database/sql"
	"errors"
	"fmt"
	"strings"

	"verif/h/kit"
	"verif/h/mc"
	"verif/h/ref"
	sk "verif/h/storekit"
)

type params struct {
	Store       sk.Kind
	Prefix      []string
	Block       string
	Tail        []string
	Double      bool // explore a second fault during the retry
	Slice       int  // this unit explores first-fault positions k with k % Slices == Slice
	Slices      int
	TailRestart bool // explore a restart before the following blocks
	// ReadFault: instead of a row-write fault at every position, one attempt fails on the READ path: the tree's node
	// table is unreadable while the frontier is being rebuilt (after a restart, after a rolled-back attempt, after a reorg)
	ReadFault bool
	// Cancel: instead of a failing row write, the block's context is cancelled while the k-th row write executes
	// (storekit.ProcessCancelledAt): database/sql rolls the transaction back from its watcher goroutine, the later
	// statements and aggkit's own deferred Rollback see sql.ErrTxDone, so aggkit's rollback callbacks do not run
	Cancel bool
}

var prefixes = map[sk.Kind][][]string{
	// deposit counts 0..7 (every carry position of a depth-3 frontier) + rows for the deletions
	sk.Bridge: {{}, {"bridge"}, {"bridge2"}, {"bridge2", "bridge"}, {"bridge2", "bridge2"}, {"bridge2", "bridge2", "bridge"},
		{"bridge2", "bridge2", "bridge2"}, {"bridge2", "bridge2", "bridge2", "bridge"}, {"migrate", "bridge", "migrate"}, {"claim", "tokenmap", "bridge"}},
	sk.L1Info: {{}, {"info"}, {"info2"}, {"info2", "info"}, {"info2", "info2"}, {"verify", "info2", "info2", "info"},
		{"verify", "verify", "info"}, {"init", "info2", "verify+info"}},
	sk.GER: {{}, {"insert"}, {"insert", "insertinfo"}, {"insert", "remove", "insert"}},
}
var faulted = map[sk.Kind][]string{
	sk.Bridge: {"bridge", "bridge2", "bridge+claim", "claim", "tokenmap", "migrate", "rmlegacy", "empty", "bridge3"},
	sk.L1Info: {"info", "info2", "v2", "verify", "verify+info", "init", "empty", "info3"},
	sk.GER:    {"insert", "insertinfo", "remove", "empty", "again"},
}
var tails = map[sk.Kind][][]string{
	sk.Bridge: {{"bridge2"}, {"bridge", "bridge2"}},
	sk.L1Info: {{"info2"}, {"verify+info", "info"}},
	sk.GER:    {{"insert"}, {"remove", "insert"}},
}

func units(tier string) []mc.Unit {
	var us []mc.Unit
	for _, store := range sk.Kinds {
		for pi, pre := range prefixes[store] {
			for _, blk := range faulted[store] {
				for ti, tail := range tails[store] {
					if tier == "quick" && ti > 0 {
						continue
					}
					// three leaves in one block: the first leaf at an even and at an odd index (quick), every carry position (thorough)
					if (blk == "bridge3" || blk == "info3") && tier == "quick" && pi > 2 {
						continue
					}
					name := fmt.Sprintf("%s:[%s]+%s+[%s]", store, strings.Join(pre, ","), blk, strings.Join(tail, ","))
					us = append(us, mc.Unit{Name: name, Params: params{Store: store, Prefix: pre, Block: blk, Tail: tail, Slices: 1,
						TailRestart: tier == "thorough" || store == sk.GER}})
					// double faults: every (first, second) position pair, sharded by first position
					twoLeaf := blk == "bridge2" || blk == "info2" || blk == "v2"
					double := ti == 0 && (store == sk.GER || (twoLeaf && (pi == 1 || (tier == "thorough" && pi <= 5))) ||
						(tier == "thorough" && pi <= 1))
					if blk == "bridge3" || blk == "info3" {
						double = false
					}
					if tier == "quick" && store == sk.L1Info {
						double = false // quick: double faults on the bridge and GER stores only
					}
					if !double {
						continue
					}
					slices := 16
					if store == sk.GER {
						slices = 1
					}
					for s := 0; s < slices; s++ {
						us = append(us, mc.Unit{Name: fmt.Sprintf("%s/double%d.%d", name, s, slices),
							Params: params{Store: store, Prefix: pre, Block: blk, Tail: tail, Double: true, Slice: s, Slices: slices}})
					}
				}
			}
		}
	}
	// read faults while the Merkle frontier is rebuilt from the node table
	for _, store := range []sk.Kind{sk.Bridge, sk.L1Info} {
		for pi, pre := range prefixes[store] {
			if tier == "quick" && pi > 4 {
				continue
			}
			for _, blk := range faulted[store] {
				if store == sk.Bridge && !strings.HasPrefix(blk, "bridge") || store == sk.L1Info && !strings.HasPrefix(blk, "info") && blk != "v2" {
					continue
				}
				name := fmt.Sprintf("%s:[%s]+%s+[%s]/readfault", store, strings.Join(pre, ","), blk, strings.Join(tails[store][0], ","))
				us = append(us, mc.Unit{Name: name, Params: params{Store: store, Prefix: pre, Block: blk, Tail: tails[store][0], Slices: 1, ReadFault: true, TailRestart: true}})
			}
		}
	}
	// context cancelled in the middle of the block's transaction, at every row write
	for _, store := range sk.Kinds {
		for pi, pre := range prefixes[store] {
			for _, blk := range faulted[store] {
				if tier == "quick" && (pi > 2 || blk == "bridge3" || blk == "info3") {
					continue
				}
				name := fmt.Sprintf("%s:[%s]+%s+[%s]/cancel", store, strings.Join(pre, ","), blk, strings.Join(tails[store][0], ","))
				us = append(us, mc.Unit{Name: name, Params: params{Store: store, Prefix: pre, Block: blk, Tail: tails[store][0], Slices: 1, Cancel: true, TailRestart: tier == "thorough"}})
			}
		}
	}
	return append(us, driverUnits(tier)...)
}

// fault-free runs are pure functions of the chain: cached per process
var ffObs = map[string][]sk.Obs{}
var ffWrites = map[string]int{}

func faultFree(dir string, chain *sk.Chain) []sk.Obs {
	sig := chain.Signature()
	if o, ok := ffObs[sig]; ok {
		return o
	}
	n := sk.Open(chain.Kind, dir)
	defer n.Close()
	for _, rb := range chain.Blocks {
		if err := n.Process(rb.Block); err != nil {
			panic(fmt.Sprintf("fault-free run failed at block %d kind %s: %v", rb.Num, rb.Kind, err))
		}
	}
	o := n.Observe(chain)
	if len(ffObs) > 4000 {
		ffObs = map[string][]sk.Obs{}
	}
	ffObs[sig] = o
	return o
}

func compare(c *mc.Ctx, p params, what string, got, want []sk.Obs, ctxt string) {
	seen := map[string]bool{}
	for i := 0; i < len(got) && i < len(want); i++ {
		if got[i].Call != want[i].Call || got[i].Res == want[i].Res {
			continue
		}
		m := sk.MethodOf(got[i].Call)
		if seen[m] {
			continue
		}
		seen[m] = true
		c.Failf(fmt.Sprintf("%s/%s/%s", p.Store, what, m), "%s: %s\n   got : %.300s\n   want: %.300s", ctxt, got[i].Call, got[i].Res, want[i].Res)
	}
	if len(got) != len(want) {
		c.Failf(fmt.Sprintf("%s/%s/observation-shape", p.Store, what), "%s: %d vs %d lines", ctxt, len(got), len(want))
	}
}

func run(c *mc.Ctx, u mc.Unit) {
	if dp, ok := u.Params.(drvParams); ok {
		runDriver(c, dp)
		return
	}
	p := u.Params.(params)
	dir := sk.ScratchDir()
	defer kit.RemoveScratch(dir)
	a := sk.Open(p.Store, dir)
	defer func() { a.Close() }()
	a.InstallFaultTriggers()
	chain := sk.NewChain(p.Store)
	for _, k := range p.Prefix {
		if err := a.Process(chain.Next(k, 0)); err != nil {
			c.Failf(fmt.Sprintf("%s/ProcessBlock/error-on-valid-block", p.Store), "prefix block kind %s: %v", k, err)
			return
		}
	}
	// K = row writes of the block's transaction, measured on a fault-free dry run (cached)
	full := chain.Clone()
	blk := full.Next(p.Block, 0)
	ksig := full.Signature()
	K, ok := ffWrites[ksig]
	if !ok {
		dry := sk.Open(p.Store, dir)
		dry.InstallFaultTriggers()
		for _, rb := range chain.Blocks {
			dry.Process(rb.Block)
		}
		dry.Arm(-1)
		if err := dry.Process(blk); err != nil {
			dry.Close()
			c.Failf(fmt.Sprintf("%s/ProcessBlock/error-on-valid-block", p.Store), "dry run of block kind %s: %v", p.Block, err)
			return
		}
		K = dry.Writes()
		dry.Close()
		ffWrites[ksig] = K
	}
	pre := faultFree(dir, chain)
	ctxt := fmt.Sprintf("prefix %v, block %s (K=%d)", p.Prefix, p.Block, K)
	attempts := 0
	restarted := false
	maxFaults := 1
	if p.Double {
		maxFaults = 2
	}
	if p.ReadFault {
		maxFaults = 0
		// how the cached frontier got invalid: a restart, a rolled-back attempt (write fault at the last row write:
		// every leaf had been added), or a reorg above the tip (removes nothing)
		switch c.Choose(3, "frontier-invalidated-by") {
		case 0:
			a.Restart()
			ctxt += ", restart"
		case 1:
			a.Arm(K)
			err := a.Process(blk)
			a.Arm(-1)
			if err == nil {
				c.Failf(fmt.Sprintf("%s/fault-swallowed", p.Store), "%s: ProcessBlock returned nil although write %d of %d failed", ctxt, K, K)
				return
			}
			ctxt += fmt.Sprintf(", rolled-back attempt (fault at write %d)", K)
		case 2:
			if err := a.Reorg(chain.Tip() + 1); err != nil {
				c.Failf(fmt.Sprintf("%s/Reorg/error", p.Store), "%s: Reorg(%d): %v", ctxt, chain.Tip()+1, err)
				return
			}
			ctxt += ", reorg above the tip"
		}
		var rerr error
		nt := a.WithoutTables("%rht", func() { rerr = a.Process(blk) })
		attempts++
		ctxt += fmt.Sprintf(", attempt with %d unreadable node table(s) -> %v", nt, rerr != nil)
		if rerr == nil {
			c.Failf(fmt.Sprintf("%s/fault-swallowed", p.Store), "%s: ProcessBlock returned nil although the tree's node table could not be read or written", ctxt)
			return
		}
		c.Witness("failed_attempts_on_the_read_path")
		compare(c, p, "failed-attempt-left-traces", a.Observe(chain), pre, ctxt)
	}
	for f := 0; f < maxFaults; f++ {
		var ks []int // 0 = no fault, K+1 = the COMMIT fails
		kmax := K + 1
		if p.Cancel {
			kmax = K
		}
		for k := 0; k <= kmax; k++ {
			if f > 0 || k%p.Slices == p.Slice {
				ks = append(ks, k)
			}
		}
		if len(ks) == 0 {
			break
		}
		k := ks[c.Choose(len(ks), "fault-position")]
		if k == 0 {
			if p.Double {
				return // single faults and the fault-free run belong to the non-double unit
			}
			break
		}
		var err error
		if p.Cancel {
			if len(p.Prefix) > 0 && c.Bool("node-restarted-before-the-cancelled-attempt") {
				// the attempt runs on cold in-memory state (nothing cached yet): what it reads first, it reads on the
				// transaction that is about to be cancelled
				a.Restart()
				ctxt += ", restart before the attempt"
				c.Witness("cancelled_attempts_on_a_freshly_started_node")
			}
			var fired, outsideTx bool
			err, fired, outsideTx = a.ProcessCancelledAt(k, blk)
			if !fired {
				panic(fmt.Sprintf("%s: cancellation hook did not fire at write %d of %d", ctxt, k, K))
			}
			if outsideTx {
				// the write is its own implicit transaction: whatever fails after it cannot take it back
				c.Witness("row_writes_outside_any_transaction")
				if k < K {
					c.Failf(fmt.Sprintf("%s/block-written-by-more-than-one-transaction", p.Store), "%s: row write %d of the %d writes of the block is executed outside a database transaction and is committed on its own: a failure of any later write leaves it behind", ctxt, k, K)
				}
				if err != nil {
					c.Failf(fmt.Sprintf("%s/uncancelled-attempt-failed", p.Store), "%s: %v", ctxt, err)
				}
				return
			}
			c.Witness("attempts_cancelled_mid_transaction")
			if errors.Is(err, sql.ErrTxDone) {
				c.Witness("cancelled_attempts_reporting_ErrTxDone")
			}
		} else if k > K {
			a.ArmCommit(true)
			err = a.Process(blk)
			a.Arm(-1)
			c.Witness("attempts_failing_at_commit")
		} else {
			a.Arm(k)
			err = a.Process(blk)
			a.Arm(-1)
		}
		if a.StillLocked {
			c.Failf(fmt.Sprintf("%s/failed-attempt-left-its-transaction-open", p.Store), "%s, fault at write %d of %d: the store is still write-locked after the failed attempt returned (busy timeout passed): its transaction was neither committed nor rolled back, no block can be processed any more", ctxt, k, K)
			return
		}
		attempts++
		ctxt += fmt.Sprintf(", %s#%d at write %d -> %v", map[bool]string{false: "fault", true: "context-cancelled"}[p.Cancel], f+1, k, err != nil)
		if err == nil && p.Cancel {
			c.Failf(fmt.Sprintf("%s/cancellation-swallowed", p.Store), "%s: ProcessBlock returned nil although its transaction was rolled back when the context was cancelled during write %d of %d", ctxt, k, K)
			return
		}
		if err == nil {
			c.Failf(fmt.Sprintf("%s/fault-swallowed", p.Store), "%s: ProcessBlock returned nil although write %d of %d failed", ctxt, k, K)
			return
		}
		c.Witness("failed_attempts")
		// recovery: the driver retries on the same objects; a crash restarts the process
		if (!p.Double || f == 0 || !restarted) && c.Bool("restart-after-fault") {
			restarted = true
			a.Restart()
			ctxt += " +restart"
			c.Witness("restart_after_fault")
		}
		// nothing of the failed attempt may be visible
		compare(c, p, "failed-attempt-left-traces", a.Observe(chain), pre, ctxt)
		if lpb, _ := a.W.GetLastProcessedBlock(nil); lpb != chain.Tip() {
			c.Failf(fmt.Sprintf("%s/failed-attempt-advanced-last-processed-block", p.Store), "%s: last processed %d, want %d", ctxt, lpb, chain.Tip())
		}
	}
	// the clean (re)try
	if err := a.Process(blk); err != nil {
		c.Failf(fmt.Sprintf("%s/retry-fails", p.Store), "%s: fault-free retry returned %v (halted=%v)", ctxt, err, a.Halted())
		return
	}
	chain = full
	if attempts > 0 {
		c.NonTrivial()
	}
	if p.Double && attempts < 2 {
		return
	}
	if p.TailRestart && c.Bool("restart-before-tail") {
		a.Restart()
		ctxt += " +restart-before-tail"
	}
	for _, k := range p.Tail {
		if err := a.Process(chain.Next(k, 0)); err != nil {
			c.Failf(fmt.Sprintf("%s/later-block-fails", p.Store), "%s: tail block kind %s: %v", ctxt, k, err)
			return
		}
	}
	got := a.Observe(chain)
	c.Obs("%s obs=%s", ctxt, sk.Digest(got))
	compare(c, p, "differs-from-fault-free-run", got, faultFree(dir, chain), ctxt)
	// absolute: roots equal the reference roots
	roots := ref.AppendRoots(chain.Leaves())
	for i, want := range roots {
		var gotRoot ref.Hash
		var err error
		switch p.Store {
		case sk.Bridge:
			r, e := a.B.GetExitRootByIndex(nil, uint32(i))
			gotRoot, err = r.Hash, e
		case sk.L1Info:
			r, e := a.L.GetL1InfoTreeRootByIndex(nil, uint32(i))
			gotRoot, err = r.Hash, e
		default:
			continue
		}
		if err != nil || gotRoot != want {
			c.Failf(fmt.Sprintf("%s/root-not-reference-after-retry", p.Store), "%s: root %d got %s,%v want %s", ctxt, i, gotRoot.Hex(), err, want.Hex())
			break
		}
	}
}

func main() {
	mc.Main(mc.Spec{
		ID: "C07", Level: "fault_enumeration",
		Units:              units,
		Batch:              func(string) int { return 2 },
		MaxEvalsPerProcess: 900,
		Run:                run,
		Setup:              func(string) { kit.Quiet() },
		Rule: "unit = (store, prefix history, faulted block kind, following blocks, single/double fault | read fault | context cancellation); choice points: fault position 0..K+1 " +
			"(0 = none; K = row writes of the block's transaction, measured; K+1 = the COMMIT fails; cancel units: the context is cancelled during write 1..K), recovery (retry on same objects / restart), second fault position, restart before the following blocks; " +
			"all combinations explored. non-trivial = at least one injected fault; distinct = distinct (unit, fault positions, recoveries, final observation)",
		Assumptions: []string{
			"a storage fault = one row write (INSERT/UPDATE/DELETE, including cascaded deletes) failing with an SQLite ABORT raised by a trigger; SQLite's own atomic commit is trusted",
			"a storage fault on the READ path (readfault units) = the tree's node tables (…rht) renamed away for the duration of one ProcessBlock, so every statement touching them fails inside SQLite; placed where the frontier has to be rebuilt (after a restart, after a rolled-back attempt, after a reorg)",
			"a process kill = the fault followed by dropping every in-memory object and re-opening the same file with the real constructor",
			"context cancellation mid-block (cancel units): the block's context is cancelled while the k-th row write executes, for every k: a BEFORE trigger calls an SQL function registered on the store's own connection, which cancels the context and returns only when database/sql's watcher goroutine has marked the transaction done and is parked on its close mutex; the statement finishes, the watcher rolls back, every later statement and aggkit's deferred Rollback see sql.ErrTxDone, so aggkit's rollback callbacks do NOT run; recovery = retry on the same objects with a fresh context, or restart then retry",
			"a failing COMMIT is fault position K+1 (deferred foreign-key violation planted by the row-write triggers): every statement succeeds, Commit reports the error, database/sql considers the transaction finished, the deferred Rollback sees sql.ErrTxDone and the rollback callbacks do not run either",
			"the clause 'no later block is recorded while an earlier one is missing' is checked in the driver units: the real EVMDriver.Sync with its real retry loop over the real store, a fault at every row write persisting for 1..3 consecutive attempts (3 = the retry limit: the driver gives up), thorough: also every (first, second) position pair; sync.LogFatalf (process exit) is turned into the end of the driver goroutine",
		},
		Bounds: func(tier string) map[string]any {
			return map[string]any{"prefixes": prefixes, "faulted_block_kinds": faulted, "following_blocks": tails,
				"double_faults": map[string]string{"quick": "every (first, second) fault position pair for two-leaf blocks on the first two prefixes, and all GER units",
					"thorough": "every pair for two-leaf blocks on prefixes 0..5, every block kind on prefixes 0..1, all GER units"}[tier],
				"restart_before_following_blocks": map[string]string{"quick": "GER only", "thorough": "all single-fault units"}[tier]}
		},
	})
}
