package main

// Driver-level part of C07: "no later block is ever recorded while an earlier one is missing".
// The real sync.EVMDriver.Sync runs in a synctest bubble over the real store; a scripted downloader
// hands it a sequence of blocks; storage faults are injected at every row write of one block, for
// 1..3 consecutive attempts (the driver's own retry loop: real RetryHandler, real sleeps on the fake
// clock; after the configured number of attempts the real code calls sync.LogFatalf, which the
// harness turns into the end of the driver goroutine = process exit). After every ProcessBlock
// attempt the set of recorded blocks must be a prefix of the delivered sequence.

import (
	"context"
	"errors"
	"fmt"
	"os"
	"runtime"
	"testing/synctest"
	"time"

	"github.com/agglayer/aggkit/db/compatibility"
	"github.com/agglayer/aggkit/reorgdetector"
	aggsync "github.com/agglayer/aggkit/sync"
	aggkittypes "github.com/agglayer/aggkit/types"
	"github.com/ethereum/go-ethereum/common"
	"verif/h/mc"
	sk "verif/h/storekit"
)

type drvParams struct {
	Store    sk.Kind
	Blocks   []string
	FaultAt  int // index of the block whose attempts are faulted
	MaxRetry int
}

type scriptedDownloader struct{ blocks []aggsync.EVMBlock }

func (d *scriptedDownloader) RuntimeData(ctx context.Context) (aggsync.RuntimeData, error) {
	return aggsync.RuntimeData{ChainID: 1}, nil
}
func (d *scriptedDownloader) Download(ctx context.Context, from uint64, ch chan aggsync.EVMBlock) {
	// like the real downloaders, which run ahead of the driver into a buffered channel (1000 slots in
	// bridgesync / l1infotreesync): every block is already waiting in the buffer when the driver looks
	for _, b := range d.blocks {
		if b.Num < from {
			continue
		}
		ch <- b // never blocks: the buffer holds the whole script
	}
	// NOTE: the channel is deliberately NOT closed on cancellation. The real downloaders close it, and
	// EVMDriver.Sync then spins on the closed channel (select returns ok=false at once, for ever) until
	// a reorg arrives or its own context ends; a goroutine that never blocks would stall the bubble's clock.
	<-ctx.Done()
}

type nullDetector struct{ sub *reorgdetector.Subscription }

func (n *nullDetector) Subscribe(id string) (*reorgdetector.Subscription, error) { return n.sub, nil }
func (n *nullDetector) AddBlockToTrack(ctx context.Context, id string, num uint64, hash common.Hash) error {
	return nil
}
func (n *nullDetector) GetFinalizedBlockType() aggkittypes.BlockNumberFinality {
	return aggkittypes.FinalizedBlock
}
func (n *nullDetector) String() string { return "null" }

type faultyStore struct {
	c            *mc.Ctx
	p            drvParams
	node         *sk.Node
	plan         []int // fault position for the successive attempts on the faulted block (0 = no fault, K+1 = the COMMIT fails)
	K            int
	attempt      int
	sequence     []uint64
	inconsistent bool
	compatibility.CompatibilityDataStorager[aggsync.RuntimeData]
}

func (s *faultyStore) GetLastProcessedBlock(ctx context.Context) (uint64, error) {
	return s.node.W.GetLastProcessedBlock(ctx)
}
func (s *faultyStore) Reorg(ctx context.Context, b uint64) error { return s.node.W.Reorg(ctx, b) }
func (s *faultyStore) ProcessBlock(ctx context.Context, b aggsync.Block) error {
	k := 0
	if b.Num == s.sequence[s.p.FaultAt] && s.attempt < len(s.plan) {
		k = s.plan[s.attempt]
		s.attempt++
	}
	if k > s.K {
		s.node.ArmCommit(true)
	} else if k > 0 {
		s.node.Arm(k)
	}
	err := s.node.W.ProcessBlock(ctx, b)
	s.node.Arm(-1)
	if errors.Is(err, aggsync.ErrInconsistentState) {
		s.inconsistent = true // the driver stops its downloader and waits for a reorg
	}
	if k > 0 && err == nil {
		s.c.Failf(fmt.Sprintf("%s/driver/fault-swallowed", s.p.Store), "block %d: write %d failed but ProcessBlock returned nil", b.Num, k)
	}
	s.checkPrefix(fmt.Sprintf("after ProcessBlock(%d) attempt fault@%d err=%v", b.Num, k, err != nil))
	return err
}

func (s *faultyStore) recorded() []uint64 {
	rows, err := s.node.DB.Query(`SELECT num FROM block ORDER BY num`)
	if err != nil {
		panic(err)
	}
	defer rows.Close()
	var out []uint64
	for rows.Next() {
		var n uint64
		rows.Scan(&n)
		out = append(out, n)
	}
	return out
}

func (s *faultyStore) checkPrefix(when string) {
	rec := s.recorded()
	for i, n := range rec {
		if i >= len(s.sequence) || s.sequence[i] != n {
			s.c.Failf(fmt.Sprintf("%s/driver/later-block-recorded-while-earlier-missing", s.p.Store),
				"%s: recorded blocks %v are not a prefix of the delivered sequence %v (fault plan %v)", when, rec, s.sequence, s.plan)
			return
		}
	}
}

var drvWrites = map[string]int{}

func driverUnits(tier string) []mc.Unit {
	var us []mc.Unit
	seqs := map[sk.Kind][][]string{
		sk.Bridge: {{"bridge", "bridge2", "bridge"}, {"bridge2", "bridge+claim", "migrate"}},
		sk.L1Info: {{"info", "info2", "verify+info"}, {"info2", "v2", "info"}},
		sk.GER:    {{"insert", "remove", "insert"}},
	}
	for _, store := range sk.Kinds {
		for _, seq := range seqs[store] {
			for fa := 0; fa < len(seq); fa++ {
				if tier == "quick" && fa != 1 {
					continue
				}
				p := drvParams{store, seq, fa, 3}
				u := mc.Unit{Name: fmt.Sprintf("driver:%s:%v:fault@%d", store, seq, fa), Params: p}
				if tier == "thorough" {
					us = append(us, mc.Sliced(u, 12)...) // thousands of executions per unit, each opening a store
				} else {
					us = append(us, u)
				}
			}
		}
	}
	return us
}

func runDriver(c *mc.Ctx, p drvParams) {
	if os.Getenv("C07_FD") != "" {
		ents, _ := os.ReadDir("/proc/self/fd")
		fmt.Fprintf(os.Stderr, "fds=%d %v\n", len(ents), p)
	}
	dir := sk.ScratchDir()
	defer os.RemoveAll(dir)
	node := sk.Open(p.Store, dir)
	defer node.Close()
	node.InstallFaultTriggers()
	chain := sk.NewChain(p.Store)
	var blocks []aggsync.EVMBlock
	var seq []uint64
	for _, k := range p.Blocks {
		b := chain.Next(k, 0)
		blocks = append(blocks, aggsync.EVMBlock{EVMBlockHeader: aggsync.EVMBlockHeader{Num: b.Num, Hash: b.Hash}, Events: b.Events, IsFinalizedBlock: true})
		seq = append(seq, b.Num)
	}
	// K for the faulted block: measured by a dry run (once per process and script: every store construction leaks descriptors)
	ksig := fmt.Sprintf("%s|%v|%d", p.Store, p.Blocks, p.FaultAt)
	K, known := drvWrites[ksig]
	if !known {
		dry := sk.Open(p.Store, dir)
		dry.InstallFaultTriggers()
		for i, rb := range chain.Blocks {
			dry.Arm(-1)
			if err := dry.Process(rb.Block); err != nil {
				dry.Close()
				c.Failf(fmt.Sprintf("%s/ProcessBlock/error-on-valid-block", p.Store), "dry run block %d: %v", rb.Num, err)
				return
			}
			if i == p.FaultAt {
				K = dry.Writes()
			}
		}
		dry.Close()
		drvWrites[ksig] = K
	}
	// fault plan: the same write fails on 1..MaxRetry consecutive attempts (MaxRetry = the driver gives
	// up); thorough additionally explores every (first, second) position pair
	var plan []int
	if k := c.Choose(K+2, "fault-position"); k > 0 { // 0 = no fault, K+1 = the COMMIT fails
		n := 1 + c.Choose(p.MaxRetry, "consecutive-failing-attempts")
		for a := 0; a < n; a++ {
			plan = append(plan, k)
		}
		if c.Tier == "thorough" && n == 2 {
			plan[1] = 1 + c.Choose(K+1, "second-fault-position")
		}
	}
	st := &faultyStore{c: c, p: p, node: node, plan: plan, sequence: seq, K: K}
	st.CompatibilityDataStorager = node.W.(compatibility.CompatibilityDataStorager[aggsync.RuntimeData])
	exited := false
	saved := aggsync.LogFatalf
	aggsync.LogFatalf = func(format string, args ...any) {
		exited = true
		runtime.Goexit() // the process would exit here
	}
	defer func() { aggsync.LogFatalf = saved }()
	synctest.Run(func() {
		ctx, cancel := context.WithCancel(context.Background())
		sub := &reorgdetector.Subscription{ReorgedBlock: make(chan uint64), ReorgProcessed: make(chan bool)}
		rh := &aggsync.RetryHandler{RetryAfterErrorPeriod: time.Millisecond, MaxRetryAttemptsAfterError: p.MaxRetry}
		drv, err := aggsync.NewEVMDriver(&nullDetector{sub}, st, &scriptedDownloader{blocks}, "c07", len(blocks), rh, false)
		if err != nil {
			c.Failf("harness/driver", "%v", err)
			cancel()
			return
		}
		done := make(chan struct{})
		go func() { defer close(done); drv.Sync(ctx) }()
		time.Sleep(time.Second) // fake clock: lets every retry sleep elapse
		synctest.Wait()
		cancel()
		<-done
	})
	st.checkPrefix("at the end")
	rec := st.recorded()
	c.Obs("driver %s blocks %v fault@%d plan %v -> recorded %v exited=%v", p.Store, p.Blocks, p.FaultAt, plan, rec, exited)
	if len(plan) > 0 {
		c.NonTrivial()
		c.Witness("driver_retries")
	}
	if exited {
		c.Witness("driver_gave_up_after_max_retries")
		// the process exited on the faulted block: nothing at or after it may be recorded
		if len(rec) > p.FaultAt {
			c.Failf(fmt.Sprintf("%s/driver/block-recorded-after-giving-up", p.Store), "recorded %v although the driver gave up on block %d", rec, seq[p.FaultAt])
		}
	} else if st.inconsistent {
		// a fault inside the tree update is reported by the bridge store as ErrInconsistentState: the driver
		// stops downloading until a reorg. Nothing later may be recorded (checked above); no retry happens.
		c.Witness("driver_stopped_waiting_for_reorg_after_fault_in_tree_update")
		if len(rec) > p.FaultAt {
			c.Failf(fmt.Sprintf("%s/driver/block-recorded-after-stopping", p.Store), "recorded %v although the driver stopped on block %d", rec, seq[p.FaultAt])
		}
	} else if len(rec) != len(seq) {
		c.Failf(fmt.Sprintf("%s/driver/did-not-finish", p.Store), "recorded %v of %v although retries were still allowed (plan %v)", rec, seq, plan)
	}
}
