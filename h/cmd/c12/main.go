// C12 — the bridge API's claim flow yields proofs the bridge contract would accept.
//
// SUT: the real bridgeservice.New over the real facades (bridgesync L1 + L2, l1infotreesync,
// lastgersync) on real stores filled from a world scenario; the real gin handlers
// ClaimProofHandler, L1InfoTreeIndexForBridgeHandler and InjectedL1InfoLeafHandler are called
// through gin.CreateTestContext. Space: every scenario of the world families below × every bridge
// (L1 and L2) × every L1 info leaf index. Oracle: package ref (leaf hash, proof verification) and
// the world's bookkeeping of which L1 info leaf's exit roots contain which deposit.
package main

import (
	"context"
	"encoding/json"
	"fmt"
	"net/http"
	"net/http/httptest"
	"time"

	"github.com/agglayer/aggkit/bridgeservice"
	"github.com/ethereum/go-ethereum/common"
	"github.com/gin-gonic/gin"
	"verif/h/certworld"
	"verif/h/kit"
	"verif/h/mc"
	"verif/h/ref"
	sk "verif/h/storekit"
	"verif/h/world"
)

type leafResp struct {
	BlockNumber     uint64      `json:"block_num"`
	BlockPosition   uint64      `json:"block_pos"`
	L1InfoTreeIndex uint32      `json:"l1_info_tree_index"`
	PrevBlockHash   common.Hash `json:"previous_block_hash"`
	Timestamp       uint64      `json:"timestamp"`
	MainnetExitRoot common.Hash `json:"mainnet_exit_root"`
	RollupExitRoot  common.Hash `json:"rollup_exit_root"`
	GlobalExitRoot  common.Hash `json:"global_exit_root"`
	Hash            common.Hash `json:"hash"`
}

type claimProofResp struct {
	ProofLocal  []common.Hash `json:"proof_local_exit_root"`
	ProofRollup []common.Hash `json:"proof_rollup_exit_root"`
	Leaf        leafResp      `json:"l1_info_tree_leaf"`
}

func call(h func(*gin.Context), query string) (int, []byte) {
	rec := httptest.NewRecorder()
	gc, _ := gin.CreateTestContext(rec)
	gc.Request = httptest.NewRequest(http.MethodGet, "/?"+query, nil)
	h(gc)
	return rec.Code, rec.Body.Bytes()
}

func toProof(p []common.Hash) (out [ref.Height]ref.Hash, ok bool) {
	if len(p) != ref.Height {
		return out, false
	}
	copy(out[:], p)
	return out, true
}

func short(b []byte) string {
	if len(b) > 200 {
		return string(b[:200])
	}
	return string(b)
}

// contentVariant: the same scenario in which the FIRST L1 bridge and the first L2 bridge are different transactions.
func contentVariant(ops []world.Op) ([]world.Op, bool) {
	ops2 := append([]world.Op{}, ops...)
	seenL1, seenL2 := false, false
	for i, o := range ops2 {
		if o.Kind == world.L1Deposit && !seenL1 {
			ops2[i].A, seenL1 = (o.A+2)%4, true //nolint:mnd
		}
		if o.Kind == world.L2Deposit && !seenL2 {
			ops2[i].A, seenL2 = (o.A+2)%4, true //nolint:mnd
		}
	}
	return ops2, seenL1 || seenL2
}

// warmService asks the service every question of the claim flow for every bridge and leaf of world w2 (answers ignored):
// a service that has been serving requests while the stores were on another fork.
func warmService(svc *bridgeservice.BridgeService, w2 *world.World) {
	leaves := w2.ObservableLeaves()
	for _, deps := range [][]*world.Deposit{w2.L1Deps, w2.L2Deps} {
		for _, d := range deps {
			for _, l := range leaves {
				call(svc.ClaimProofHandler, fmt.Sprintf("network_id=%d&leaf_index=%d&deposit_count=%d", d.Net, l.Index, d.Count))
				call(svc.InjectedL1InfoLeafHandler, fmt.Sprintf("network_id=%d&leaf_index=%d", world.NetL2, l.Index))
			}
			call(svc.L1InfoTreeIndexForBridgeHandler, fmt.Sprintf("network_id=%d&deposit_count=%d", d.Net, d.Count))
		}
	}
}

// loadDroppedFork feeds the stores the variant scenario, lets the service answer requests on it, and reorgs all of it
// away. ok=false: the variant is not a consistent scenario.
func loadDroppedFork(ctx context.Context, st *world.Stores, svc *bridgeservice.BridgeService, ops2 []world.Op) (bool, error) {
	w2, err := world.Build(ops2)
	if err != nil {
		return false, nil
	}
	if err := w2.LoadL1(ctx, st, true); err != nil {
		return false, fmt.Errorf("dropped fork, L1: %w", err)
	}
	for _, b := range w2.L2Blocks {
		if err := w2.LoadL2Block(ctx, st, b); err != nil {
			return false, fmt.Errorf("dropped fork, L2: %w", err)
		}
		_ = w2.LoadLastGERBlock(ctx, st, b) // (may be stuck on two injections in one block, see below)
	}
	warmService(svc, w2)
	if err := st.L1Bridge.VerifStore().Reorg(ctx, 1); err != nil {
		return false, fmt.Errorf("L1 bridge store Reorg(1): %w", err)
	}
	if err := st.L1Info.VerifStore().Reorg(ctx, 1); err != nil {
		return false, fmt.Errorf("L1 info store Reorg(1): %w", err)
	}
	if err := st.L2Bridge.VerifStore().Reorg(ctx, 1); err != nil {
		return false, fmt.Errorf("L2 bridge store Reorg(1): %w", err)
	}
	if err := st.LastGER.VerifStore().Reorg(ctx, 1); err != nil {
		return false, fmt.Errorf("injected GER store Reorg(1): %w", err)
	}
	return true, nil
}

func run(c *mc.Ctx, u mc.Unit) {
	p := u.Params.(certworld.Params)
	w, err := world.Build(p.Ops)
	if err != nil {
		c.Failf("harness/world", "%v", err)
		return
	}
	scen := "scenario [" + world.OpsString(p.Ops) + "]"
	ctx := context.Background()
	st, err := world.NewStores(world.Which{L1Bridge: true, L2Bridge: true, L1Info: true, LastGER: true})
	if err != nil {
		panic(err)
	}
	defer st.Close()
	// one long-lived service over the stores, created before anything is synced (as in cmd/run.go)
	svc := bridgeservice.New(&bridgeservice.Config{Logger: kit.Logger(), Address: "127.0.0.1:0", ReadTimeout: time.Minute,
		WriteTimeout: time.Minute, NetworkID: world.NetL2}, st.L1Info, st.LastGER, st.L1Bridge, st.L2Bridge)
	// The stores may have synced another fork first, reorged away from block 1, while the service was answering requests:
	// 1 = the same scenario in which the FIRST L1 bridge and the first L2 bridge are different ones (every later bridge is
	// the same transaction re-included); 2 = the same operations in another order on L1 (other leaf indices cover a bridge).
	if v := c.Choose(3, "stores-synced-another-fork-first"); v > 0 {
		ops2, ok := contentVariant(p.Ops)
		if v == 2 {
			ops2, ok = world.OrderVariant(p.Ops)
		}
		if ok {
			if ok, herr := loadDroppedFork(ctx, st, svc, ops2); herr != nil {
				c.Failf("world-sanity/dropped-fork", "%s: %v", scen, herr)
				return
			} else if ok {
				c.Witness(fmt.Sprintf("stores_that_synced_another_fork_first/variant%d", v))
			}
		}
	}
	if err := w.LoadL1(ctx, st, world.Seed64(p.Ops)%2 == 1); err != nil {
		c.Failf(world.LoadKey(err, "world-sanity/l1-store-rejects-block"), "%s: %v", scen, err)
		return
	}
	gerStoreStuck := false
	for _, b := range w.L2Blocks {
		if err := w.LoadL2Block(ctx, st, b); err != nil {
			c.Failf(world.LoadKey(err, "world-sanity/l2-store-rejects-block"), "%s: %v", scen, err)
			return
		}
		// The injected-GER store's table has block_num as its primary key: it cannot record two
		// injections that land in the same L2 block; its ProcessBlock fails and the real syncer would
		// retry that block forever. That is a defect outside this property (C16): the store is left
		// where the real one would be stuck, and the checks below go on.
		if !gerStoreStuck {
			if err := w.LoadLastGERBlock(ctx, st, b); err != nil {
				nInj := 0
				for _, e := range b.Events {
					if e.Kind == world.EvInject {
						nInj++
					}
				}
				if nInj < 2 {
					c.Failf("world-sanity/injected-ger-store-rejects-block", "%s: %v", scen, err)
					return
				}
				gerStoreStuck = true
				c.Witness("injected_ger_store_stuck_two_injections_in_one_l2_block")
				c.Obs("injected GER store stuck at L2 block %d: %v", b.Num, err)
			}
		}
	}
	if err := w.CheckL1(ctx, st, false); err != nil {
		c.Failf("world-sanity/l1-store-differs-from-reference", "%s: %v", scen, err)
		return
	}
	if err := w.CheckL2(ctx, st, uint64(len(w.L2Blocks))); err != nil {
		c.Failf("world-sanity/l2-store-differs-from-reference", "%s: %v", scen, err)
		return
	}
	leaves := w.ObservableLeaves()
	injected := map[uint32]bool{}
	for _, l := range w.Injected {
		injected[l.Index] = true
	}
	covers := func(l *world.InfoLeaf, d *world.Deposit) bool {
		if d.Net == world.NetL1 {
			return l.CoversL1(d.Count)
		}
		return l.CoversL2(d.Count)
	}
	nBridges, nCovered := 0, 0
	var lastCovD *world.Deposit
	var lastCovL *world.InfoLeaf
	for _, deps := range [][]*world.Deposit{w.L1Deps, w.L2Deps} {
		for _, d := range deps {
			nBridges++
			leaf := d.LeafHash()
			who := fmt.Sprintf("%s: bridge network=%d deposit_count=%d", scen, d.Net, d.Count)

			// ---- /claim-proof for every L1 info leaf ----
			for _, l := range leaves {
				c.AddEvals(1)
				code, body := call(svc.ClaimProofHandler, fmt.Sprintf("network_id=%d&leaf_index=%d&deposit_count=%d", d.Net, l.Index, d.Count))
				cov := covers(l, d)
				c.Obs("claim-proof net=%d dc=%d leaf=%d covered=%v -> %d", d.Net, d.Count, l.Index, cov, code)
				if !cov {
					continue // nothing is promised
				}
				nCovered++
				lastCovD, lastCovL = d, l
				c.Distinct(fmt.Sprintf("cp|%d|%d|%d", d.Net, d.Count, l.Index))
				if d.Net == world.NetL1 {
					c.Witness("covered_pairs_l1_bridge")
				} else {
					c.Witness("covered_pairs_l2_bridge")
				}
				if l.Index+1 < uint32(len(leaves)) {
					c.Witness("covered_pairs_not_the_latest_leaf")
				}
				if code != http.StatusOK {
					c.Failf(fmt.Sprintf("claim-proof/covered-but-refused/net%d", d.Net), "%s, L1 info leaf %d (mainnet exit root holds %d L1 deposits, rollup exit root holds %d L2 deposits) covers it, but /claim-proof answered %d: %s",
						who, l.Index, l.MerCount, l.L2Ver, code, short(body))
					continue
				}
				var r claimProofResp
				if err := json.Unmarshal(body, &r); err != nil {
					c.Failf("claim-proof/unparsable", "%s leaf %d: %v: %s", who, l.Index, err, short(body))
					continue
				}
				pl, ok1 := toProof(r.ProofLocal)
				pr, ok2 := toProof(r.ProofRollup)
				if !ok1 || !ok2 {
					c.Failf("claim-proof/unparsable", "%s leaf %d: proofs of %d and %d siblings", who, l.Index, len(r.ProofLocal), len(r.ProofRollup))
					continue
				}
				if r.Leaf.L1InfoTreeIndex != l.Index || r.Leaf.MainnetExitRoot != l.MER || r.Leaf.RollupExitRoot != l.RER ||
					r.Leaf.GlobalExitRoot != l.GER {
					c.Failf("claim-proof/wrong-l1-info-leaf", "%s: asked for L1 info leaf %d (mer %s rer %s), answer carries leaf %d (mer %s rer %s ger %s)",
						who, l.Index, l.MER.Hex(), l.RER.Hex(), r.Leaf.L1InfoTreeIndex, r.Leaf.MainnetExitRoot.Hex(), r.Leaf.RollupExitRoot.Hex(), r.Leaf.GlobalExitRoot.Hex())
				}
				if d.Net == world.NetL1 {
					if got := ref.Verify(leaf, pl, d.Count); got != l.MER {
						c.Failf("claim-proof/l1-bridge-proof-does-not-reach-mainnet-exit-root", "%s: leaf %s + proof_local_exit_root at %d gives %s; mainnet exit root of L1 info leaf %d is %s",
							who, leaf.Hex(), d.Count, got.Hex(), l.Index, l.MER.Hex())
					}
				} else {
					ler := w.ExitRootOrZero(world.NetL2, l.L2Ver)
					if got := ref.Verify(leaf, pl, d.Count); got != ler {
						c.Failf("claim-proof/l2-bridge-proof-does-not-reach-local-exit-root", "%s: leaf %s + proof_local_exit_root at %d gives %s; the rollup's local exit root under L1 info leaf %d is %s",
							who, leaf.Hex(), d.Count, got.Hex(), l.Index, ler.Hex())
					}
					if got := ref.Verify(ler, pr, world.NetL2-1); got != l.RER {
						c.Failf("claim-proof/local-exit-root-proof-does-not-reach-rollup-exit-root", "%s: local exit root %s + proof_rollup_exit_root at %d gives %s; rollup exit root of L1 info leaf %d is %s",
							who, ler.Hex(), world.NetL2-1, got.Hex(), l.Index, l.RER.Hex())
					}
				}
			}

			// ---- /l1-info-tree-index ----
			c.AddEvals(1)
			code, body := call(svc.L1InfoTreeIndexForBridgeHandler, fmt.Sprintf("network_id=%d&deposit_count=%d", d.Net, d.Count))
			c.Obs("l1-info-tree-index net=%d dc=%d -> %d %s", d.Net, d.Count, code, short(body))
			if code != http.StatusOK {
				anyCover := false
				for _, l := range leaves {
					anyCover = anyCover || covers(l, d)
				}
				if anyCover {
					c.Witness("index_lookup_error_although_a_covering_leaf_exists")
				}
				continue
			}
			var idx uint32
			if err := json.Unmarshal(body, &idx); err != nil {
				c.Failf("l1-info-tree-index/unparsable", "%s: %v: %s", who, err, short(body))
				continue
			}
			c.Witness(fmt.Sprintf("index_lookup_answered_net%d", d.Net))
			if int(idx) >= len(leaves) || !covers(leaves[idx], d) {
				desc := "no such leaf"
				if int(idx) < len(leaves) {
					desc = fmt.Sprintf("its mainnet exit root holds %d L1 deposits, its rollup exit root holds %d deposits of this rollup", leaves[idx].MerCount, leaves[idx].L2Ver)
				}
				c.Failf(fmt.Sprintf("l1-info-tree-index/does-not-cover/net%d", d.Net), "%s: /l1-info-tree-index answered %d, but %s", who, idx, desc)
				continue
			}
			first := uint32(0)
			for _, l := range leaves {
				if covers(l, d) {
					first = l.Index
					break
				}
			}
			if idx != first {
				c.Witness("index_lookup_answered_a_later_covering_leaf")
			}

			// ---- the rest of the claim flow: the leaf to claim against on the destination network ----
			dest := d.DestinationNetwork
			if dest != world.NetL1 && dest != world.NetL2 {
				continue // claimed on a network this node does not serve
			}
			c.AddEvals(1)
			code, body = call(svc.InjectedL1InfoLeafHandler, fmt.Sprintf("network_id=%d&leaf_index=%d", dest, idx))
			c.Obs("injected-l1-info-leaf net=%d idx=%d -> %d", dest, idx, code)
			if code != http.StatusOK {
				continue
			}
			var lr leafResp
			if err := json.Unmarshal(body, &lr); err != nil {
				c.Failf("injected-l1-info-leaf/unparsable", "%s: %v: %s", who, err, short(body))
				continue
			}
			c.Witness(fmt.Sprintf("claim_flow_completed_dest%d", dest))
			switch {
			case int(lr.L1InfoTreeIndex) >= len(leaves) || lr.GlobalExitRoot != leaves[lr.L1InfoTreeIndex].GER:
				c.Failf("injected-l1-info-leaf/not-an-l1-info-leaf", "%s: asked network %d for a leaf at or after %d, got index %d ger %s", who, dest, idx, lr.L1InfoTreeIndex, lr.GlobalExitRoot.Hex())
			case !covers(leaves[lr.L1InfoTreeIndex], d):
				c.Failf("injected-l1-info-leaf/does-not-cover", "%s: asked network %d for a leaf at or after %d, got leaf %d whose exit roots do not contain the bridge", who, dest, idx, lr.L1InfoTreeIndex)
			case dest == world.NetL2 && !injected[lr.L1InfoTreeIndex]:
				c.Failf("injected-l1-info-leaf/never-injected", "%s: leaf %d was never injected on L2 (injected: %v)", who, lr.L1InfoTreeIndex, injected)
			}
		}
	}
	if nCovered > 0 {
		c.NonTrivial()
	}
	c.Obs("%s: %d bridges, %d L1 info leaves, %d covered (bridge, leaf) pairs", scen, nBridges, len(leaves), nCovered)
	failingReads(c, svc, w, scen, lastCovD, lastCovL)
	l2ReorgEpilogue(c, ctx, st, svc, w, p.Ops, scen, leaves)
}

// failingReads: the last covered (bridge, leaf) pair of the scenario is asked for again while ONE statement of the request
// fails (every statement in turn, storekit's statement gate in failing-read mode: the statement is refused, an error that is
// neither "no rows" nor a cancellation). The answer must be an error, or a proof that is as good as the one served without
// the fault.
func failingReads(c *mc.Ctx, svc *bridgeservice.BridgeService, w *world.World, scen string, d *world.Deposit, l *world.InfoLeaf) {
	if d == nil {
		return
	}
	q := fmt.Sprintf("network_id=%d&leaf_index=%d&deposit_count=%d", d.Net, l.Index, d.Count)
	disarm := sk.GateReadFailsAt(0)
	code, _ := call(svc.ClaimProofHandler, q)
	positions, _ := disarm()
	if code != http.StatusOK || positions == 0 {
		return // reported by the main loop / nothing to fail
	}
	leaf := d.LeafHash()
	for at := 1; at <= positions; at++ {
		disarm := sk.GateReadFailsAt(at)
		code, body := call(svc.ClaimProofHandler, q)
		_, fired := disarm()
		if !fired {
			break
		}
		c.AddEvals(1)
		c.Witness("claim_proof_requests_with_one_failing_read")
		if code != http.StatusOK {
			c.Witness("claim_proof_requests_refused_because_a_read_failed")
			continue
		}
		who := fmt.Sprintf("%s: bridge network=%d deposit_count=%d, L1 info leaf %d, statement %d of %d of the request fails", scen, d.Net, d.Count, l.Index, at, positions)
		var r claimProofResp
		if err := json.Unmarshal(body, &r); err != nil {
			c.Failf("claim-proof/unparsable", "%s: %v: %s", who, err, short(body))
			continue
		}
		pl, ok1 := toProof(r.ProofLocal)
		pr, ok2 := toProof(r.ProofRollup)
		bad := ""
		switch {
		case !ok1 || !ok2:
			bad = "proofs of the wrong length"
		case r.Leaf.L1InfoTreeIndex != l.Index || r.Leaf.MainnetExitRoot != l.MER || r.Leaf.RollupExitRoot != l.RER || r.Leaf.GlobalExitRoot != l.GER:
			bad = "another L1 info leaf"
		case d.Net == world.NetL1 && ref.Verify(leaf, pl, d.Count) != l.MER:
			bad = "proof_local_exit_root does not fold to the mainnet exit root of the leaf"
		case d.Net != world.NetL1 && ref.Verify(leaf, pl, d.Count) != w.ExitRootOrZero(world.NetL2, l.L2Ver):
			bad = "proof_local_exit_root does not fold to the rollup's local exit root"
		case d.Net != world.NetL1 && ref.Verify(w.ExitRootOrZero(world.NetL2, l.L2Ver), pr, world.NetL2-1) != l.RER:
			bad = "proof_rollup_exit_root does not fold to the rollup exit root of the leaf"
		}
		if bad != "" {
			c.Failf("claim-proof/served-a-wrong-answer-after-a-failed-read", "%s: /claim-proof answered 200: %s", who, bad)
			return
		}
	}
}

// l2ReorgEpilogue: the L2 chain is reorged from the block of its FIRST bridge and comes back with that bridge replaced by
// another transaction (every later L2 event re-included unchanged). L1 is untouched: its verified batches and L1 info leaves
// still carry the local exit roots of the dropped fork. A local exit root of the old fork that holds more than k deposits
// commits to the OLD bridge k: it covers a bridge of the new fork only where the two forks have the same leaf. Whatever
// index the lookup answers for a bridge of the new fork must cover it in that sense; an error is always allowed.
func l2ReorgEpilogue(c *mc.Ctx, ctx context.Context, st *world.Stores, svc *bridgeservice.BridgeService, w *world.World,
	ops []world.Op, scen string, leaves []*world.InfoLeaf) {
	if len(w.L2Deps) == 0 || w.L2Deps[0].Block == 0 {
		return
	}
	ops2 := append([]world.Op{}, ops...)
	for i, o := range ops2 {
		if o.Kind == world.L2Deposit {
			ops2[i].A = (o.A + 2) % 4 //nolint:mnd // another field variant with the same destination network
			break
		}
	}
	w2, err := world.Build(ops2)
	if err != nil || len(w2.L2Blocks) != len(w.L2Blocks) || len(w2.L2Deps) != len(w.L2Deps) {
		return
	}
	k := w.L2Deps[0].Block
	if err := st.L2Bridge.VerifStore().Reorg(ctx, k); err != nil {
		c.Failf("world-sanity/l2-store-reorg-fails", "%s: Reorg(%d): %v", scen, k, err)
		return
	}
	last := uint64(0)
	for _, b := range w2.L2Blocks {
		if b.Num < k {
			continue
		}
		if err := w2.LoadL2Block(ctx, st, b); err != nil {
			c.Failf(world.LoadKey(err, "world-sanity/l2-store-rejects-block"), "%s after Reorg(%d): %v", scen, k, err)
			return
		}
		last = b.Num
	}
	if err := w2.CheckL2(ctx, st, last); err != nil {
		c.Failf("world-sanity/l2-store-differs-from-reference", "%s after Reorg(%d): %v", scen, k, err)
		return
	}
	c.Witness("l2_reorg_epilogues")
	for _, d := range w2.L2Deps {
		c.AddEvals(1)
		who := fmt.Sprintf("%s, then L2 reorged from block %d and bridge 0 replaced: bridge network=%d deposit_count=%d", scen, k, d.Net, d.Count)
		code, body := call(svc.L1InfoTreeIndexForBridgeHandler, fmt.Sprintf("network_id=%d&deposit_count=%d", d.Net, d.Count))
		c.Obs("after L2 reorg: l1-info-tree-index net=%d dc=%d -> %d %s", d.Net, d.Count, code, short(body))
		if code != http.StatusOK {
			c.Witness("index_lookup_refused_after_l2_reorg")
			continue
		}
		var idx uint32
		if err := json.Unmarshal(body, &idx); err != nil {
			c.Failf("l1-info-tree-index/unparsable", "%s: %v: %s", who, err, short(body))
			continue
		}
		sameLeaf := w.L2Deps[d.Count].LeafHash() == d.LeafHash()
		if int(idx) >= len(leaves) || !leaves[idx].CoversL2(d.Count) || !sameLeaf {
			c.Failf("l1-info-tree-index/does-not-cover/after-l2-reorg", "%s: /l1-info-tree-index answered %d, whose rollup exit root was verified on the dropped fork and does not contain this bridge (same leaf on both forks: %v)", who, idx, sameLeaf)
			continue
		}
		c.Witness("index_lookup_answered_after_l2_reorg_for_a_bridge_both_forks_share")
	}
}

func families(tier string) []world.Family {
	o := func(k world.OpKind, a ...int) world.Op {
		op := world.Op{Kind: k}
		if len(a) > 0 {
			op.A = a[0]
		}
		return op
	}
	bridgeLen, fullLen := 6, 5
	if tier == "thorough" {
		bridgeLen, fullLen = 8, 6
	}
	keep := func(w *world.World) bool {
		return len(w.Leaves) > 0 && len(w.L1Deps)+len(w.L2Deps) > 0
	}
	return []world.Family{
		{ // joint L1/L2 bridge histories: info-tree updates at arbitrary points, several per block, verified batches
			Name: "bridges", MaxLen: bridgeLen,
			Templates: []world.Template{world.L1DepositRot(false), world.L1DepositRot(true), world.L2DepositRot(),
				world.One(o(world.VerifyL2)), world.BDepositRot(), world.One(o(world.VerifyRollupB)), world.One(o(world.CloseL1Block))},
			Limits: world.Limits{MaxBDeps: 2},
			Keep:   keep,
		},
		{ // the whole alphabet (finality, injections, claims, L2 block boundaries) from the empty world
			Name: "full", MaxLen: fullLen,
			Templates: []world.Template{world.L1DepositRot(false), world.L1DepositRot(true), world.BDepositRot(),
				world.One(o(world.VerifyRollupB)), world.L2DepositRot(), world.One(o(world.VerifyL2)), world.One(o(world.CloseL1Block)),
				world.One(o(world.FinalizeL1, 1)), world.One(o(world.InjectGER)), world.NextClaim(), world.One(o(world.CloseL2Block))},
			Keep: keep,
		},
		{ // claim flows to completion: finalized and injected GERs after bridges
			Name: "flow", MaxLen: fullLen + 1,
			Templates: []world.Template{world.L1DepositRot(false), world.L2DepositRot(), world.One(o(world.VerifyL2)),
				world.One(o(world.CloseL1Block)), world.CloseFinalizeInject()},
			Keep: func(w *world.World) bool { return keep(w) && len(w.Injected) > 0 },
		},
	}
}

func bounds(tier string) map[string]any {
	m := map[string]any{}
	for _, f := range families(tier) {
		byLen := map[int]int{}
		n := 0
		for _, s := range world.Enumerate(f) {
			byLen[s.Len]++
			n++
		}
		var letters []string
		for _, t := range f.Templates {
			letters = append(letters, t.Name)
		}
		m[f.Name] = map[string]any{"max_len": f.MaxLen, "letters": letters, "scenarios": n, "scenarios_by_length": byLen}
	}
	return m
}

func main() {
	mc.Main(mc.Spec{
		ID: "C12", Level: "exploration",
		Units: func(tier string) []mc.Unit { return certworld.UnitsOf(families(tier)) },
		Batch: func(tier string) int {
			if tier == "thorough" {
				return 400
			}
			return 150
		},
		Run:   run,
		Setup: func(string) { kit.Quiet(); gin.SetMode(gin.ReleaseMode); sk.InstallStatementGate() },
		Rule: "unit = one scenario (operation sequence of a world family: all sequences up to the length bound, de-duplicated by the " +
			"canonical form of the resulting chains, shortest first); all four stores are filled completely (L1 stores sparsely or " +
			"densely by scenario parity). Inside a unit: /claim-proof for every (bridge on L1 or L2, L1 info leaf index) pair, " +
			"/l1-info-tree-index for every bridge, then /injected-l1-info-leaf for the answered index; each request is one evaluation. " +
			"non-trivial = a scenario with at least one (bridge, leaf) pair where the leaf's exit roots contain the bridge; " +
			"distinct = distinct covered (scenario, bridge, leaf) pairs.",
		Assumptions: append([]string{
			"the service runs with network id 1 (rollup id 1, rollup exit tree position 0) as in production wiring networkID-1",
			"a request for a pair that is NOT covered may be answered in any way; any error answer is acceptable for the index lookup",
			"the injected-GER store is filled with the world's injections and their true L1 info tree index (resolving that index is C16's subject)",
		}, certworld.Assumptions[:3]...),
		Bounds: bounds,
	})
}
