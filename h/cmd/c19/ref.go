package main

// Reference arithmetic for C19. Nothing in this file calls aggkit code: the expected values are
// computed with math/big from the bridge contract's documented layout
//
//	globalIndex = leafIndex + rollupIndex * 2^32 + mainnetFlag * 2^64
//
// and every consumer's bytes are turned back into an integer by plain positional arithmetic.

import (
	"math/big"

	"github.com/ethereum/go-ethereum/crypto"
)

var (
	big256 = big.NewInt(256)
	two32  = new(big.Int).Exp(big.NewInt(2), big.NewInt(32), nil)
	two64  = new(big.Int).Exp(big.NewInt(2), big.NewInt(64), nil)
)

// refCompose is the bridge contract's layout.
func refCompose(mainnet bool, rollup, leaf uint32) *big.Int {
	v := new(big.Int).SetUint64(uint64(leaf))
	v.Add(v, new(big.Int).Mul(new(big.Int).SetUint64(uint64(rollup)), two32))
	if mainnet {
		v.Add(v, two64)
	}
	return v
}

// refBE32 writes v as 32 big-endian bytes (uint256 as on the wire / in the ABI).
func refBE32(v *big.Int) [32]byte {
	var out [32]byte
	x := new(big.Int).Set(v)
	m := new(big.Int)
	for i := 31; i >= 0; i-- {
		x.DivMod(x, big256, m)
		out[i] = byte(m.Uint64())
	}
	if x.Sign() != 0 {
		panic("refBE32: value does not fit in 32 bytes")
	}
	return out
}

// refLE32 writes v as 32 little-endian bytes (the agglayer's commitment layout).
func refLE32(v *big.Int) [32]byte {
	be := refBE32(v)
	var out [32]byte
	for i := 0; i < 32; i++ {
		out[i] = be[31-i]
	}
	return out
}

// intFromBE reads any-length big-endian bytes as an unsigned integer.
func intFromBE(b []byte) *big.Int {
	acc := new(big.Int)
	for _, x := range b {
		acc.Mul(acc, big256)
		acc.Add(acc, big.NewInt(int64(x)))
	}
	return acc
}

// intFromLE reads any-length little-endian bytes as an unsigned integer.
func intFromLE(b []byte) *big.Int {
	acc := new(big.Int)
	for i := len(b) - 1; i >= 0; i-- {
		acc.Mul(acc, big256)
		acc.Add(acc, big.NewInt(int64(b[i])))
	}
	return acc
}

// refGlobalIndexHash is the agglayer's commitment to one global index: keccak(LE32(v)).
func refGlobalIndexHash(v *big.Int) []byte {
	le := refLE32(v)
	return crypto.Keccak256(le[:])
}

// boundary values of a 32-bit index: every byte length of its encoding and both sides of it.
func boundary32() []uint32 {
	out := []uint32{0, 1, 2}
	for k := uint(1); k <= 3; k++ {
		p := uint32(1) << (8 * k)
		out = append(out, p-1, p, p+1)
	}
	out = append(out, 1<<31, 1<<32-2, 1<<32-1)
	return out
}

// indexSet returns [0,n] followed by the boundary values above n, ascending, without duplicates.
func indexSet(n uint32) []uint32 {
	out := make([]uint32, 0, int(n)+20)
	for i := uint32(0); i <= n; i++ {
		out = append(out, i)
	}
	for _, b := range boundary32() {
		if b > n {
			out = append(out, b)
		}
	}
	return out
}
