package main

// Environment fakes for C19: everything that is NOT a carrier of the global index (L1 info tree
// answers, signer key, remote gRPC services). The remote services and the signers only record what
// the real code handed them.

import (
	"context"
	"math/big"

	node "buf.build/gen/go/agglayer/agglayer/grpc/go/agglayer/node/v1/nodev1grpc"
	v1nodetypes "buf.build/gen/go/agglayer/agglayer/protocolbuffers/go/agglayer/node/types/v1"
	v1node "buf.build/gen/go/agglayer/agglayer/protocolbuffers/go/agglayer/node/v1"
	v1types "buf.build/gen/go/agglayer/interop/protocolbuffers/go/agglayer/interop/types/v1"
	proverv1grpc "buf.build/gen/go/agglayer/provers/grpc/go/aggkit/prover/v1/proverv1grpc"
	proverv1 "buf.build/gen/go/agglayer/provers/protocolbuffers/go/aggkit/prover/v1"
	agglayertypes "github.com/agglayer/aggkit/agglayer/types"
	"github.com/agglayer/aggkit/aggsender/optimistic/optimistichash"
	"github.com/agglayer/aggkit/aggsender/types"
	"github.com/agglayer/aggkit/bridgesync"
	"github.com/agglayer/aggkit/l1infotreesync"
	treetypes "github.com/agglayer/aggkit/tree/types"
	"github.com/ethereum/go-ethereum/common"
	ethtypes "github.com/ethereum/go-ethereum/core/types"
	"google.golang.org/grpc"
)

func h(b byte) common.Hash {
	var x common.Hash
	for i := range x {
		x[i] = b
	}
	return x
}

var (
	fixedGER      = h(0x11)
	fixedMER      = h(0x12)
	fixedRER      = h(0x13)
	fixedL1Root   = h(0x14)
	fixedLER      = h(0x15)
	fixedAggParam = h(0x16)
	fixedCertID   = h(0x17)
)

func fixedProof(seed byte) treetypes.Proof {
	var p treetypes.Proof
	for i := range p {
		p[i] = h(seed + byte(i))
	}
	return p
}

func fixedLeaf() *l1infotreesync.L1InfoTreeLeaf {
	return &l1infotreesync.L1InfoTreeLeaf{BlockNumber: 50, L1InfoTreeIndex: 3, PreviousBlockHash: h(0x21), Timestamp: 1234,
		MainnetExitRoot: fixedMER, RollupExitRoot: fixedRER, GlobalExitRoot: fixedGER, Hash: h(0x22)}
}

// --- L1 info tree / GER / LER queriers -------------------------------------------------------

type fakeL1Info struct{}

func (fakeL1Info) GetLatestFinalizedL1InfoRoot(context.Context) (*treetypes.Root, *l1infotreesync.L1InfoTreeLeaf, error) {
	return &treetypes.Root{Hash: fixedL1Root, Index: 3}, fixedLeaf(), nil
}
func (fakeL1Info) GetFinalizedL1InfoTreeData(context.Context) (treetypes.Proof, *l1infotreesync.L1InfoTreeLeaf, *treetypes.Root, error) {
	return fixedProof(0x30), fixedLeaf(), &treetypes.Root{Hash: fixedL1Root, Index: 3}, nil
}
func (fakeL1Info) GetProofForGER(context.Context, common.Hash, common.Hash) (*l1infotreesync.L1InfoTreeLeaf, treetypes.Proof, error) {
	return fixedLeaf(), fixedProof(0x60), nil
}
func (fakeL1Info) CheckIfClaimsArePartOfFinalizedL1InfoTree(*treetypes.Root, []bridgesync.Claim) error {
	return nil
}

type fakeGER struct{}

func (fakeGER) GetInjectedGERsProofs(context.Context, *treetypes.Root, uint64, uint64) (
	map[common.Hash]*agglayertypes.ProvenInsertedGERWithBlockNumber, error) {
	return map[common.Hash]*agglayertypes.ProvenInsertedGERWithBlockNumber{}, nil
}

type fakeLER struct{}

func (fakeLER) GetLastLocalExitRoot() (common.Hash, error) { return fixedLER, nil }

type fakeOptimisticMode struct{}

func (fakeOptimisticMode) IsOptimisticModeOn() (bool, error) { return false, nil }

// --- signers ---------------------------------------------------------------------------------

// recSigner records every hash the flow asks it to sign.
type recSigner struct{ hashes []common.Hash }

func (s *recSigner) Initialize(context.Context) error { return nil }
func (s *recSigner) PublicAddress() common.Address    { return common.Address{0xaa} }
func (s *recSigner) String() string                   { return "recSigner" }
func (s *recSigner) SignHash(_ context.Context, x common.Hash) ([]byte, error) {
	s.hashes = append(s.hashes, x)
	sig := make([]byte, 65)
	copy(sig, x[:])
	return sig, nil
}
func (s *recSigner) SignTx(_ context.Context, tx *ethtypes.Transaction) (*ethtypes.Transaction, error) {
	return tx, nil
}

// recOptimisticSigner stands where optimistic.OptimisticSignatureCalculatorImpl stands (that type
// needs an L1 contract and an op-node); like it, it feeds the claims it is given to the real
// optimistichash.CalculateCommitImportedBrdigeExitsHashFromClaims.
type recOptimisticSigner struct {
	claims  [][]bridgesync.Claim
	commits []common.Hash
}

func (s *recOptimisticSigner) Sign(_ context.Context, _ types.AggchainProofRequest, _ common.Hash,
	claims []bridgesync.Claim) ([]byte, string, error) {
	s.claims = append(s.claims, claims)
	s.commits = append(s.commits, optimistichash.CalculateCommitImportedBrdigeExitsHashFromClaims(claims))
	return make([]byte, 65), "verif", nil
}

// --- remote services -------------------------------------------------------------------------

type recSubmission struct {
	reqs []*v1node.SubmitCertificateRequest
}

var _ node.CertificateSubmissionServiceClient = (*recSubmission)(nil)

func (s *recSubmission) SubmitCertificate(_ context.Context, in *v1node.SubmitCertificateRequest,
	_ ...grpc.CallOption) (*v1node.SubmitCertificateResponse, error) {
	s.reqs = append(s.reqs, in)
	return &v1node.SubmitCertificateResponse{CertificateId: &v1nodetypes.CertificateId{
		Value: &v1types.FixedBytes32{Value: fixedCertID.Bytes()}}}, nil
}

type recProver struct {
	reqs    []*proverv1.GenerateAggchainProofRequest
	optReqs []*proverv1.GenerateOptimisticAggchainProofRequest
}

var _ proverv1grpc.AggchainProofServiceClient = (*recProver)(nil)

func proofAnswer() *v1types.AggchainProof {
	return &v1types.AggchainProof{
		AggchainParams: &v1types.FixedBytes32{Value: fixedAggParam.Bytes()},
		Context:        map[string][]byte{},
		Proof: &v1types.AggchainProof_Sp1Stark{Sp1Stark: &v1types.SP1StarkProof{
			Version: "v", Proof: []byte{1}, Vkey: []byte{2}}},
	}
}

func (s *recProver) GenerateAggchainProof(_ context.Context, in *proverv1.GenerateAggchainProofRequest,
	_ ...grpc.CallOption) (*proverv1.GenerateAggchainProofResponse, error) {
	s.reqs = append(s.reqs, in)
	return &proverv1.GenerateAggchainProofResponse{AggchainProof: proofAnswer(), LastProvenBlock: in.LastProvenBlock,
		EndBlock: in.RequestedEndBlock, LocalExitRootHash: &v1types.FixedBytes32{Value: fixedLER.Bytes()}}, nil
}

func (s *recProver) GenerateOptimisticAggchainProof(_ context.Context, in *proverv1.GenerateOptimisticAggchainProofRequest,
	_ ...grpc.CallOption) (*proverv1.GenerateOptimisticAggchainProofResponse, error) {
	s.optReqs = append(s.optReqs, in)
	return &proverv1.GenerateOptimisticAggchainProofResponse{AggchainProof: proofAnswer(),
		LocalExitRootHash: &v1types.FixedBytes32{Value: fixedLER.Bytes()}}, nil
}

// claimFor builds the claim event a bridge syncer would store for on-chain global index gi.
func claimFor(gi *big.Int, block, pos uint64, mainnet bool) bridgesync.Claim {
	var dest common.Address
	new(big.Int).SetUint64(pos + 1).FillBytes(dest[:])
	origin := uint32(1)
	if mainnet {
		origin = 0
	}
	return bridgesync.Claim{
		BlockNum: block, BlockPos: pos, FromAddress: common.Address{0xf0}, TxHash: h(0x40),
		GlobalIndex: gi, OriginNetwork: origin, OriginAddress: common.Address{0x0a},
		DestinationAddress: dest, Amount: new(big.Int).SetUint64(pos + 1),
		ProofLocalExitRoot: fixedProof(0x80), ProofRollupExitRoot: fixedProof(0xa0),
		MainnetExitRoot: fixedMER, RollupExitRoot: fixedRER, GlobalExitRoot: fixedGER,
		DestinationNetwork: l2NetworkID, BlockTimestamp: 77,
	}
}
