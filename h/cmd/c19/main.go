// C19 — global indexes are encoded and decoded consistently everywhere.
//
// Part 1 (codec): bridgesync.GenerateGlobalIndex / DecodeGlobalIndex over
// mainnet x rollup x leaf, rollup and leaf from [0,N] plus the 32-bit boundary set, against a
// math/big reference of the bridge contract's layout (ref.go).
//
// Part 2 (carriers): every canonical on-chain value built from those triples is stored as a claim
// in a real bridge syncer store, read back through the real aggsender bridge querier and followed
// through the real code that carries it:
//
//	certificate        flows.NewBaseFlow(...).BuildCertificate (PP flow and aggchain-prover flow)
//	signed commitment  the hash the real flows hand to the signer (PPHashToSign / FEPHashToSign),
//	                   GlobalIndex.Hash, ImportedBridgeExit.Hash, GlobalIndexToLittleEndianBytes
//	wire message       real AgglayerGRPCClient.SendCertificate -> captured SubmitCertificateRequest
//	prover request     real AggchainProverFlow.GenerateAggchainProof -> real AggchainProofClient ->
//	                   captured GenerateAggchainProofRequest / GenerateOptimisticAggchainProofRequest
//	optimistic commit  optimistichash.CalculateCommitImportedBrdigeExitsHashFromClaims
//	stored form        certificate JSON (what aggsender keeps in its database)
//
// Oracle per carrier: the bytes / fields it carries, read back by plain positional arithmetic from
// that carrier's layout, denote exactly leaf + rollup*2^32 + mainnet*2^64.
package main

import (
	"bytes"
	"context"
	"crypto/sha256"
	"encoding/json"
	"fmt"
	"math/big"
	"os"
	"time"

	agglayergrpc "github.com/agglayer/aggkit/agglayer/grpc"
	agglayertypes "github.com/agglayer/aggkit/agglayer/types"
	"github.com/agglayer/aggkit/aggsender/aggchainproofclient"
	"github.com/agglayer/aggkit/aggsender/flows"
	"github.com/agglayer/aggkit/aggsender/optimistic/optimistichash"
	"github.com/agglayer/aggkit/aggsender/query"
	"github.com/agglayer/aggkit/aggsender/types"
	"github.com/agglayer/aggkit/bridgesync"
	cfgtypes "github.com/agglayer/aggkit/config/types"
	aggkitgrpc "github.com/agglayer/aggkit/grpc"
	aggkitsync "github.com/agglayer/aggkit/sync"
	"github.com/ethereum/go-ethereum/common"
	"github.com/ethereum/go-ethereum/crypto"
	"verif/h/kit"
	"verif/h/mc"
)

const (
	l2NetworkID = uint32(7)
	chunkSize   = 128
	firstBlock  = uint64(100)
)

type params struct {
	Mainnet bool
	Rollup  uint32
	// Mixed: one flow (one running aggsender) converts claims of SEVERAL rows that agree in their low bits: for every leaf
	// index the claims (rollup=Rollup), (mainnet), (rollup=0) and (rollup=Rollup+1) with that same leaf index, in one
	// certificate and across consecutive certificates of the same flow objects
	Mixed bool
}

func cubeN(tier string) uint32 {
	if tier == "thorough" {
		return 2000
	}
	return 300
}

func units(tier string) []mc.Unit {
	var us []mc.Unit
	for _, r := range indexSet(cubeN(tier)) {
		for _, m := range []bool{false, true} {
			us = append(us, mc.Unit{Name: fmt.Sprintf("mainnet=%v,rollup=%d", m, r), Params: params{Mainnet: m, Rollup: r}})
		}
	}
	for _, r := range boundary32() {
		us = append(us, mc.Unit{Name: fmt.Sprintf("mixed-rows,rollup=%d", r), Params: params{Rollup: r, Mixed: true}})
	}
	return us
}

type triple struct {
	M    bool
	R, L uint32
}

func (t triple) String() string { return fmt.Sprintf("(mainnet=%v,rollup=%d,leaf=%d)", t.M, t.R, t.L) }

// guard turns a panic of the code under test into a violation instead of a harness crash.
func guard(c *mc.Ctx, stage, what string, f func()) {
	defer func() {
		if x := recover(); x != nil {
			c.Failf(stage+"/panic", "%s: panic: %v", what, x)
		}
	}()
	f()
}

func run(c *mc.Ctx, u mc.Unit) {
	p := u.Params.(params)
	if p.Mixed {
		runMixed(c, p)
		return
	}
	leaves := indexSet(cubeN(c.Tier))
	digest := sha256.New()

	// ---- Part 1: codec ----------------------------------------------------------------------
	// The property's triple for mainnet has rollup index 0; the encoder documents that it ignores
	// the rollup argument when the mainnet flag is set, so rows (true, r != 0) are composed too and
	// must give the same canonical value as (true, 0).
	wantRollup := p.Rollup
	if p.Mainnet {
		wantRollup = 0
	}
	for _, leaf := range leaves {
		in := triple{p.Mainnet, p.Rollup, leaf}
		want := refCompose(p.Mainnet, wantRollup, leaf)
		wantT := triple{p.Mainnet, wantRollup, leaf}
		guard(c, "codec", in.String(), func() {
			got := bridgesync.GenerateGlobalIndex(p.Mainnet, p.Rollup, leaf)
			if got == nil || got.Cmp(want) != 0 {
				c.Failf("codec/encode-wrong-layout", "GenerateGlobalIndex%v = %v (0x%x), contract layout gives %v (0x%x)",
					in, got, got, want, want)
				return
			}
			digest.Write(got.Bytes())
			digest.Write([]byte{0xff})
			c.Witness(fmt.Sprintf("encoded_byte_length_%d", len(got.Bytes())))
			m, r, l, err := bridgesync.DecodeGlobalIndex(got)
			if err != nil || (triple{m, r, l}) != wantT {
				c.Failf("codec/roundtrip", "DecodeGlobalIndex(GenerateGlobalIndex%v) = %v err=%v, want %v",
					in, triple{m, r, l}, err, wantT)
			}
		})
		// the canonical on-chain value, built without the encoder
		guard(c, "codec", "decode "+want.String(), func() {
			m, r, l, err := bridgesync.DecodeGlobalIndex(new(big.Int).Set(want))
			if err != nil || (triple{m, r, l}) != wantT {
				c.Failf("codec/decode-wrong-triple", "DecodeGlobalIndex(%v = 0x%x) = %v err=%v, want %v",
					want, want, triple{m, r, l}, err, wantT)
			}
		})
		c.Distinct(in.String())
	}
	c.AddEvals(len(leaves))
	c.NonTrivial()

	if p.Mainnet && p.Rollup != 0 {
		// not a canonical on-chain row of its own: same values as (true, 0)
		c.Witness("rows_mainnet_with_ignored_rollup_argument")
		c.Obs("row %+v leaves=%d encoded=%x (codec only)", p, len(leaves), digest.Sum(nil))
		return
	}

	// ---- Part 2: carriers -------------------------------------------------------------------
	var ts []triple
	for _, leaf := range leaves {
		ts = append(ts, triple{p.Mainnet, p.Rollup, leaf})
	}
	n := carriers(c, fmt.Sprintf("row %+v", p), ts, false)
	c.AddEvals(n)
	c.Witness("rows_followed_through_all_carriers")
	c.Obs("row %+v leaves=%d encoded=%x carrier_checks=%d", p, len(leaves), digest.Sum(nil), n)
}

// runMixed: rows that share their low bits, through the same flow objects.
func runMixed(c *mc.Ctx, p params) {
	leaves := append(indexSet(12), 1<<32-3)
	var ts []triple
	rows := []triple{{false, p.Rollup, 0}, {true, 0, 0}, {false, 0, 0}, {false, p.Rollup + 1, 0}} // Rollup+1 wraps to 0 at the top: a duplicate row
	if c.Bool("rows-in-reverse-order") {
		for i, j := 0, len(rows)-1; i < j; i, j = i+1, j-1 {
			rows[i], rows[j] = rows[j], rows[i]
		}
	}
	perLeaf := c.Bool("the-rows-of-one-leaf-index-are-claimed-together")
	seen := map[triple]bool{}
	add := func(t triple) {
		if !seen[t] { // a global index is claimed once
			seen[t] = true
			ts = append(ts, t)
		}
	}
	if perLeaf {
		for _, leaf := range leaves {
			for _, r := range rows {
				add(triple{r.M, r.R, leaf})
			}
		}
	} else {
		for _, r := range rows {
			for _, leaf := range leaves {
				add(triple{r.M, r.R, leaf})
			}
		}
	}
	// ... and once more on the same flow objects after an L2 reorg that replaced the claims of every block by the same
	// number of other claims (the same ones in reverse order)
	n := carriers(c, fmt.Sprintf("mixed rows around rollup %d", p.Rollup), ts, true)
	c.AddEvals(n)
	c.NonTrivial()
	c.Witness("claims_of_rows_sharing_low_bits_through_one_flow")
	c.Obs("mixed rows rollup=%d claims=%d carrier_checks=%d", p.Rollup, len(ts), n)
}

var dbSeq int

// carriers stores the row's claims, reads them back and follows them through every carrier.
// It returns the number of (value, carrier) checks made.
func carriers(c *mc.Ctx, label string, all []triple, afterReorg bool) (checks int) {
	ctx := context.Background()
	log := kit.Logger()
	dbSeq++
	dbPath := fmt.Sprintf("/dev/shm/verif-c19-%d-%d.sqlite", os.Getpid(), dbSeq)
	defer func() {
		for _, sfx := range []string{"", "-wal", "-shm", "-journal"} {
			os.Remove(dbPath + sfx)
		}
	}()
	bs, err := bridgesync.NewVerifBridgeSync(dbPath, bridgesync.L2BridgeSyncer, l2NetworkID, nil)
	if err != nil {
		panic(fmt.Sprintf("harness: cannot create bridge store: %v", err))
	}
	defer bs.VerifDB().Close()

	// one block per chunk of leaves; claim i of the chunk at block position i
	type chunk struct {
		block uint64
		ts    []triple
		want  []*big.Int
	}
	var chunks []chunk
	load := func(all []triple) {
		chunks = nil
		for i := 0; i < len(all); i += chunkSize {
			j := min(i+chunkSize, len(all))
			ch := chunk{block: firstBlock + uint64(len(chunks))}
			var events []any
			for k, t := range all[i:j] {
				v := refCompose(t.M, t.R, t.L)
				ch.ts = append(ch.ts, t)
				ch.want = append(ch.want, v)
				cl := claimFor(new(big.Int).Set(v), ch.block, uint64(k), t.M)
				events = append(events, bridgesync.Event{Claim: &cl})
			}
			var bh common.Hash
			new(big.Int).SetUint64(ch.block).FillBytes(bh[:])
			if err := bs.VerifStore().ProcessBlock(ctx, aggkitsync.Block{Num: ch.block, Hash: bh, Events: events}); err != nil {
				panic(fmt.Sprintf("harness: ProcessBlock: %v", err))
			}
			chunks = append(chunks, ch)
		}
	}
	load(all)

	// real objects, fresh per execution
	bridgeQuerier := query.NewBridgeDataQuerier(log, bs, time.Second)
	l1info, signer, optSigner := fakeL1Info{}, &recSigner{}, &recOptimisticSigner{}
	base := flows.NewBaseFlow(log, bridgeQuerier, nil, l1info, fakeLER{}, flows.NewBaseFlowConfigDefault())
	ppFlow := flows.NewPPFlow(log, base, nil, l1info, bridgeQuerier, signer, false, 0)
	grpcCfg := &aggkitgrpc.ClientConfig{RequestTimeout: cfgtypes.NewDuration(time.Minute)}
	prover := &recProver{}
	proverClient := aggchainproofclient.NewVerifAggchainProofClient(grpcCfg, prover)
	fepFlow := flows.NewAggchainProverFlow(log, flows.NewAggchainProverFlowConfigDefault(), base, proverClient, nil,
		l1info, bridgeQuerier, fakeGER{}, nil, signer, fakeOptimisticMode{}, optSigner)
	submission := &recSubmission{}
	agglayer := agglayergrpc.NewVerifAgglayerGRPCClient(grpcCfg, nil, nil, submission)

	passes := 1
	if afterReorg {
		passes = 2 //nolint:mnd
	}
	for pass := 0; pass < passes; pass++ {
		if pass == 1 {
			if err := bs.VerifStore().Reorg(ctx, firstBlock); err != nil {
				panic(fmt.Sprintf("harness: Reorg: %v", err))
			}
			rev := make([]triple, len(all))
			for i := 0; i < len(all); i += chunkSize { // reversed inside every block: same ranges, same counts, other claims at every position
				j := min(i+chunkSize, len(all))
				for k := i; k < j; k++ {
					rev[k] = all[i+j-1-k]
				}
			}
			load(rev)
			label += ", after an L2 reorg that reversed the claims of every block"
			c.Witness("second_pass_on_the_same_flow_objects_after_an_l2_reorg")
		}
		for _, ch := range chunks {
			where := fmt.Sprintf("%s block %d", label, ch.block)
			at := func(i int) string {
				return fmt.Sprintf("claim with on-chain global index %v = 0x%x %v", ch.want[i], ch.want[i], ch.ts[i])
			}

			// -- the stored claim, as aggsender reads it
			var claims []bridgesync.Claim
			guard(c, "store", where, func() {
				_, cls, err := bridgeQuerier.GetBridgesAndClaims(ctx, ch.block, ch.block)
				if err != nil {
					c.Failf("store/error", "%s: GetBridgesAndClaims: %v", where, err)
					return
				}
				claims = cls
			})
			if len(claims) != len(ch.want) {
				c.Failf("store/claims-lost", "%s: stored %d claims, read %d", where, len(ch.want), len(claims))
				continue
			}
			ok := true
			for i := range claims {
				checks++
				if claims[i].GlobalIndex == nil || claims[i].GlobalIndex.Cmp(ch.want[i]) != 0 || claims[i].BlockPos != uint64(i) {
					c.Failf("store/global-index", "%s: read back global index %v at position %d", at(i), claims[i].GlobalIndex, claims[i].BlockPos)
					ok = false
				}
			}
			if !ok {
				continue
			}
			newParams := func(t types.CertificateType) *types.CertificateBuildParams {
				return &types.CertificateBuildParams{FromBlock: ch.block, ToBlock: ch.block, Claims: claims, CreatedAt: 1,
					L1InfoTreeRootFromWhichToProve: fixedL1Root, L1InfoTreeLeafCount: 4, CertificateType: t}
			}

			// -- PP flow: certificate, signed commitment, wire message, stored JSON
			guard(c, "certificate", where, func() {
				signer.hashes = nil
				cert, err := ppFlow.BuildCertificate(ctx, newParams(types.CertificateTypePP))
				if err != nil {
					c.Failf("certificate/error", "%s: PP BuildCertificate: %v", where, err)
					return
				}
				if !checkCertificate(c, "pp", cert, at, ch.want, &checks) {
					return
				}
				checkCommitments(c, cert, at, ch.want, &checks)
				// hash handed to the signer
				var giHashes [][]byte
				for _, v := range ch.want {
					giHashes = append(giHashes, refGlobalIndexHash(v))
				}
				wantPP := crypto.Keccak256Hash(cert.NewLocalExitRoot.Bytes(), crypto.Keccak256(giHashes...))
				checks += len(ch.want)
				if len(signer.hashes) != 1 || signer.hashes[0] != wantPP {
					c.Failf("commitment/pp-hash-to-sign", "%s: PP flow signed %v, commitment over the on-chain global indexes is %s; first differing claim: %s",
						where, signer.hashes, wantPP, firstBadHash(cert, ch.want, at))
				}
				checkWire(c, agglayer, submission, cert, "pp", where, at, ch.want, &checks)
				checkJSON(c, cert, where, at, ch.want, &checks)
			})

			// -- aggchain prover flow: prover request, certificate, signed commitment, wire message
			guard(c, "prover", where, func() {
				prover.reqs, signer.hashes = nil, nil
				bp := newParams(types.CertificateTypeFEP)
				proof, _, err := fepFlow.GenerateAggchainProof(ctx, ch.block-1, ch.block, bp)
				if err != nil {
					c.Failf("prover/error", "%s: GenerateAggchainProof: %v", where, err)
					return
				}
				if len(prover.reqs) != 1 || len(prover.reqs[0].ImportedBridgeExits) != len(ch.want) {
					c.Failf("prover/claims-lost", "%s: prover got %d requests", where, len(prover.reqs))
					return
				}
				for i, x := range prover.reqs[0].ImportedBridgeExits {
					checks++
					if !be32Is(x.GetGlobalIndex().GetValue(), ch.want[i]) {
						c.Failf("prover/global-index", "%s: prover request carries global index bytes %x = %v",
							at(i), x.GetGlobalIndex().GetValue(), intFromBE(x.GetGlobalIndex().GetValue()))
					}
				}
				bp.AggchainProof = proof
				cert, err := fepFlow.BuildCertificate(ctx, bp)
				if err != nil {
					c.Failf("certificate/error", "%s: FEP BuildCertificate: %v", where, err)
					return
				}
				if !checkCertificate(c, "fep", cert, at, ch.want, &checks) {
					return
				}
				var chunksLE []byte
				for i, v := range ch.want {
					le := refLE32(v)
					chunksLE = append(chunksLE, le[:]...)
					chunksLE = append(chunksLE, cert.ImportedBridgeExits[i].BridgeExit.Hash().Bytes()...)
				}
				var heightLE [8]byte
				for i := 0; i < 8; i++ {
					heightLE[i] = byte(cert.Height >> (8 * i))
				}
				wantFEP := crypto.Keccak256Hash(cert.NewLocalExitRoot.Bytes(), crypto.Keccak256(chunksLE), heightLE[:], fixedAggParam.Bytes())
				checks += len(ch.want)
				if len(signer.hashes) != 1 || signer.hashes[0] != wantFEP {
					c.Failf("commitment/fep-hash-to-sign", "%s: FEP flow signed %v, commitment over the on-chain global indexes is %s; first differing claim: %s",
						where, signer.hashes, wantFEP, firstBadHash(cert, ch.want, at))
				}
				checkWire(c, agglayer, submission, cert, "fep", where, at, ch.want, &checks)
			})

			// -- optimistic mode: prover request and the commitment over the imported bridge exits
			guard(c, "optimistic", where, func() {
				prover.optReqs, optSigner.claims, optSigner.commits = nil, nil, nil
				_, _, err := fepFlow.GenerateAggchainProof(ctx, ch.block-1, ch.block, newParams(types.CertificateTypeOptimistic))
				if err != nil {
					c.Failf("optimistic/error", "%s: optimistic GenerateAggchainProof: %v", where, err)
					return
				}
				if len(prover.optReqs) != 1 || len(prover.optReqs[0].GetAggchainProofRequest().GetImportedBridgeExits()) != len(ch.want) ||
					len(optSigner.commits) != 1 || len(optSigner.claims[0]) != len(ch.want) {
					c.Failf("optimistic/claims-lost", "%s: optimistic prover got %d requests, signer %d", where, len(prover.optReqs), len(optSigner.commits))
					return
				}
				for i, x := range prover.optReqs[0].GetAggchainProofRequest().GetImportedBridgeExits() {
					checks++
					if !be32Is(x.GetGlobalIndex().GetValue(), ch.want[i]) {
						c.Failf("prover/global-index-optimistic", "%s: optimistic prover request carries global index bytes %x = %v",
							at(i), x.GetGlobalIndex().GetValue(), intFromBE(x.GetGlobalIndex().GetValue()))
					}
				}
				var all []byte
				for i, v := range ch.want {
					all = append(all, refCommitChunk(v, &optSigner.claims[0][i])...)
				}
				checks += len(ch.want)
				if optSigner.commits[0] != crypto.Keccak256Hash(all) {
					// localize: the commitment of each claim on its own
					found := false
					for i, v := range ch.want {
						one := optimistichash.CalculateCommitImportedBrdigeExitsHashFromClaims(optSigner.claims[0][i : i+1])
						if one != crypto.Keccak256Hash(refCommitChunk(v, &optSigner.claims[0][i])) {
							c.Failf("optimistic/commitment", "%s: imported-bridge-exit commitment %s is not keccak(LE32(global index) || bridge exit hash)", at(i), one)
							found = true
							break
						}
					}
					if !found {
						c.Failf("optimistic/commitment", "%s: commitment over %d claims is %s, want %s", where, len(ch.want), optSigner.commits[0], crypto.Keccak256Hash(all))
					}
				}
			})
		}
	}
	return checks
}

// refCommitChunk is LE32(global index) || bridge exit hash; the bridge exit (not part of this
// property) is hashed by the agglayer type itself.
func refCommitChunk(v *big.Int, cl *bridgesync.Claim) []byte {
	leafType := agglayertypes.LeafTypeAsset
	if cl.IsMessage {
		leafType = agglayertypes.LeafTypeMessage
	}
	be := agglayertypes.BridgeExit{LeafType: leafType,
		TokenInfo:          &agglayertypes.TokenInfo{OriginNetwork: cl.OriginNetwork, OriginTokenAddress: cl.OriginAddress},
		DestinationNetwork: cl.DestinationNetwork, DestinationAddress: cl.DestinationAddress, Amount: cl.Amount, Metadata: cl.Metadata}
	le := refLE32(v)
	return append(le[:], be.Hash().Bytes()...)
}

func be32Is(b []byte, v *big.Int) bool { return len(b) == 32 && intFromBE(b).Cmp(v) == 0 }

func tripleInt(g *agglayertypes.GlobalIndex) *big.Int {
	return refCompose(g.MainnetFlag, g.RollupIndex, g.LeafIndex)
}

// checkCertificate: the triple of every imported bridge exit denotes the claim's on-chain value.
func checkCertificate(c *mc.Ctx, flow string, cert *agglayertypes.Certificate, at func(int) string, want []*big.Int, checks *int) bool {
	if cert == nil || len(cert.ImportedBridgeExits) != len(want) {
		c.Failf("certificate/claims-lost", "%s certificate has wrong number of imported bridge exits (want %d)", flow, len(want))
		return false
	}
	ok := true
	for i, ibe := range cert.ImportedBridgeExits {
		*checks++
		if ibe == nil || ibe.GlobalIndex == nil || tripleInt(ibe.GlobalIndex).Cmp(want[i]) != 0 {
			c.Failf("certificate/triple", "%s: %s certificate carries %v", at(i), flow, ibe)
			ok = false
		}
	}
	return ok
}

// checkCommitments: per imported bridge exit, the hashes and little-endian bytes the agglayer
// types produce are those of the on-chain value.
func checkCommitments(c *mc.Ctx, cert *agglayertypes.Certificate, at func(int) string, want []*big.Int, checks *int) {
	for i, ibe := range cert.ImportedBridgeExits {
		*checks++
		gh := refGlobalIndexHash(want[i])
		if got := ibe.GlobalIndex.Hash(); !bytes.Equal(got.Bytes(), gh) {
			c.Failf("commitment/global-index-hash", "%s: GlobalIndex.Hash() = %s, keccak(LE32(value)) = %x", at(i), got, gh)
		}
		le := ibe.GlobalIndexToLittleEndianBytes()
		if len(le) != 32 || intFromLE(le).Cmp(want[i]) != 0 {
			c.Failf("commitment/little-endian-bytes", "%s: GlobalIndexToLittleEndianBytes() = %x = %v", at(i), le, intFromLE(le))
		}
		wantIBE := crypto.Keccak256Hash(ibe.BridgeExit.Hash().Bytes(), ibe.ClaimData.Hash().Bytes(), gh)
		if got := ibe.Hash(); got != wantIBE {
			c.Failf("commitment/imported-bridge-exit-hash", "%s: ImportedBridgeExit.Hash() = %s, want %s", at(i), got, wantIBE)
		}
	}
}

func firstBadHash(cert *agglayertypes.Certificate, want []*big.Int, at func(int) string) string {
	for i, ibe := range cert.ImportedBridgeExits {
		le := ibe.GlobalIndexToLittleEndianBytes()
		if !bytes.Equal(ibe.GlobalIndex.Hash().Bytes(), refGlobalIndexHash(want[i])) || len(le) != 32 || intFromLE(le).Cmp(want[i]) != 0 {
			return at(i)
		}
	}
	return "none (per-claim parts agree)"
}

// checkWire: the SubmitCertificate request the real gRPC client sends carries the value as a
// 32-byte big-endian integer.
func checkWire(c *mc.Ctx, cl *agglayergrpc.AgglayerGRPCClient, sub *recSubmission, cert *agglayertypes.Certificate,
	flow, where string, at func(int) string, want []*big.Int, checks *int) {
	sub.reqs = nil
	if _, err := cl.SendCertificate(context.Background(), cert); err != nil {
		c.Failf("wire/error", "%s: SendCertificate(%s): %v", where, flow, err)
		return
	}
	if len(sub.reqs) != 1 || len(sub.reqs[0].GetCertificate().GetImportedBridgeExits()) != len(want) {
		c.Failf("wire/claims-lost", "%s: %d requests captured", where, len(sub.reqs))
		return
	}
	for i, x := range sub.reqs[0].GetCertificate().GetImportedBridgeExits() {
		*checks++
		if !be32Is(x.GetGlobalIndex().GetValue(), want[i]) {
			c.Failf("wire/global-index", "%s: %s SubmitCertificate request carries global index bytes %x = %v",
				at(i), flow, x.GetGlobalIndex().GetValue(), intFromBE(x.GetGlobalIndex().GetValue()))
		}
	}
}

// checkJSON: the JSON form of the certificate (what aggsender stores) decodes to the same triple.
func checkJSON(c *mc.Ctx, cert *agglayertypes.Certificate, where string, at func(int) string, want []*big.Int, checks *int) {
	raw, err := json.Marshal(cert)
	if err != nil {
		c.Failf("certificate/json-error", "%s: marshal: %v", where, err)
		return
	}
	var back agglayertypes.Certificate
	if err := json.Unmarshal(raw, &back); err != nil {
		c.Failf("certificate/json-error", "%s: unmarshal: %v", where, err)
		return
	}
	if len(back.ImportedBridgeExits) != len(want) {
		c.Failf("certificate/json", "%s: %d imported bridge exits after JSON round trip", where, len(back.ImportedBridgeExits))
		return
	}
	for i, ibe := range back.ImportedBridgeExits {
		*checks++
		if ibe == nil || ibe.GlobalIndex == nil || tripleInt(ibe.GlobalIndex).Cmp(want[i]) != 0 {
			c.Failf("certificate/json", "%s: certificate JSON carries %v", at(i), ibe)
		}
	}
}

func main() {
	mc.Main(mc.Spec{
		ID: "C19", Level: "exploration",
		Units: units,
		Batch: func(tier string) int {
			if tier == "thorough" {
				return 16
			}
			return 8
		},
		Run:   run,
		Setup: func(string) { kit.Quiet() },
		Rule: "unit = one (mainnet flag, rollup index) row; inside it every leaf index of the set is evaluated: " +
			"encode vs contract layout, decode(encode), decode(canonical value); rows that are canonical on-chain values " +
			"(mainnet=false any rollup; mainnet=true rollup 0) are stored as claims in a real bridge store and followed through " +
			"certificate, signed commitments, wire message, prover requests, optimistic commitment and certificate JSON; " +
			"distinct = distinct (mainnet, rollup, leaf) triples; evaluations = triples + (value, carrier) checks; " +
			"no choice points (pure input enumeration)",
		Assumptions: []string{
			"rows (mainnet=true, rollup!=0) are composed only because the encoder documents that it ignores the rollup argument for mainnet; the expected value is the canonical one (rollup bits zero)",
			"the 'rest at random' part of the quantifier is sampling and is not claimed; the index set is [0,N] plus the 32-bit boundary values",
			"the optimistic signer (needs an L1 contract and an op-node) is replaced by a recorder that calls the real commitment function on the claims the real flow hands it",
			"bridge exit hash, claim data hash and the rest of the signed pre-image are taken from the real objects; only the global index part is recomputed independently",
		},
		Bounds: func(tier string) map[string]any {
			return map[string]any{"mainnet": []int{0, 1}, "rollup": fmt.Sprintf("[0,%d] + boundary set", cubeN(tier)),
				"leaf": fmt.Sprintf("[0,%d] + boundary set", cubeN(tier)), "boundary_set": boundary32(), "claims_per_certificate": chunkSize}
		},
	})
}
