// C03 — a built certificate's new exit root follows from its bridge exits.
//
// SUT: the real PP certificate builder (flows.NewBaseFlow + flows.NewPPFlow wired as flows.NewFlow
// does) over a real L2 bridgesync store, a real l1infotreesync store and the real aggsender SQL
// storage. Space: every scenario of the world families below × every stage of the L2 syncer × every
// reachable aggsender storage state (no certificate yet / after a settled one / retry after
// InError, with and without a stored previous LER) × certificate size limits. Oracle: package ref
// trees + the Agglayer-side exit leaf layout (certworld.OracleC03).
package main

import (
	"verif/h/certworld"
	"verif/h/kit"
	"verif/h/mc"
)

func main() {
	mc.Main(mc.Spec{
		ID: "C03", Level: "exploration",
		Units: func(tier string) []mc.Unit { return certworld.UnitsOf(certworld.FamiliesC03(tier)) },
		Batch: certworld.BatchSize,
		Run: func(c *mc.Ctx, u mc.Unit) {
			certworld.Run(c, u, certworld.OptionsC03(c.Tier), certworld.OracleC03)
		},
		Setup:       func(string) { kit.Quiet() },
		Rule:        certworld.RuleC03,
		Assumptions: certworld.Assumptions,
		Bounds:      certworld.BoundsC03,
	})
}
