// C11 — the L1 info tree and rollup exit tree mirror the L1 contracts.
//
// SUT: the real l1infotreesync log appender (real ABI parsing of the GER contract's and the rollup
// manager's events) → the real store (processor.ProcessBlock) → the real facade queries.
// Space: every sequence of L1 operations (transactions) over a bounded alphabet, every composition
// of the sequence into blocks, with distinct block numbers (with gaps), timestamps (boundary values)
// and parent hashes per block. The logs are produced by ref.L1 (the contracts as a state machine,
// bound to the bytecode by cmd/evmconf) and ABI-packed with the bindings' own ABIs (l1pack).
// Oracle at the end of every execution (= after every block of every longer execution, because the
// layers are nested): leaves, roots, lookups, rollup exit tree and verify_batches rows equal the
// reference; the V2 root announcement never halts the store.
package main

import (
	"context"
	"fmt"
	"os"
	"path/filepath"
	"strings"

	"github.com/agglayer/aggkit/l1infotreesync"
	aggsync "github.com/agglayer/aggkit/sync"
	aggkittypes "github.com/agglayer/aggkit/types"
	"github.com/ethereum/go-ethereum/common"
	"github.com/ethereum/go-ethereum/core/types"
	"verif/h/kit"
	"verif/h/l1pack"
	"verif/h/mc"
	"verif/h/ref"
	sk "verif/h/storekit"
)

// ---------------------------------------------------------------------------------------------
// Alphabet

type opSpec struct {
	Name    string
	Kind    byte   // 'M' mainnet-root update, 'V' verify batches, 'I' InitL1InfoRootMap announcement
	Rollup  uint32 // V: rollup id
	Root    byte   // V: 'n' new exit root, 's' same exit root as the rollup has, 'z' zero
	GER     bool   // V: the rollup manager pushes the new rollup exit root to the GER contract
	Trusted bool   // V: verifyBatchesTrustedAggregator
}

// rollup ids: 1 and 2 contiguous, 6 non-contiguous (index 5 = 0b101), 3 only ever gets a zero root.
var alphabet = buildAlphabet()

func vop(r uint32, root byte, ger, trusted bool) opSpec {
	n := fmt.Sprintf("V%d%c", r, root)
	if ger {
		n += "+"
	} else {
		n += "-"
	}
	if trusted {
		n += "T"
	}
	return opSpec{Name: n, Kind: 'V', Rollup: r, Root: root, GER: ger, Trusted: trusted}
}

// buildAlphabet lists the operations by priority: the first k are the alphabet of the longest
// sequences, the whole list (22) the alphabet of the shortest.
func buildAlphabet() []opSpec {
	al := []opSpec{
		{Name: "M", Kind: 'M'},
		vop(1, 'n', true, false),
		vop(2, 'n', false, false),
		vop(1, 'r', false, false),
		vop(1, 's', true, false),
		vop(6, 'n', true, true),
		vop(3, 'z', true, false),
		vop(1, 'n', false, true),
		vop(2, 'n', true, false),
		vop(6, 'n', false, false),
		vop(3, 'z', false, true),
		vop(1, 's', false, false),
		vop(2, 'n', true, true),
		vop(6, 'n', true, false),
	}
	have := map[string]bool{}
	for _, o := range al {
		have[o.Name] = true
	}
	for _, k := range []struct {
		r    uint32
		root byte
	}{{1, 'n'}, {1, 's'}, {2, 'n'}, {6, 'n'}, {3, 'z'}, {1, 'r'}, {6, 'r'}} {
		for _, g := range []bool{true, false} {
			for _, t := range []bool{false, true} {
				o := vop(k.r, k.root, g, t)
				if !have[o.Name] {
					al = append(al, o)
					have[o.Name] = true
				}
			}
		}
	}
	return append(al, opSpec{Name: "I", Kind: 'I'})
}

// layers: sequence length → alphabet size (first k operations). The alphabets are nested (a shorter
// layer's alphabet contains every longer layer's), so every prefix of every composition of a unit is
// itself a complete execution of a unit of a shorter layer: the full oracle at the END of every
// execution therefore examines every intermediate state too (each block boundary of each execution).
func layers(tier string) [][2]int {
	if tier == "thorough" {
		return [][2]int{{1, 30}, {2, 30}, {3, 30}, {4, 11}, {5, 7}, {6, 4}, {7, 2}}
	}
	return [][2]int{{1, 30}, {2, 30}, {3, 14}, {4, 7}, {5, 3}, {6, 2}}
}

type params struct{ Ops []int }

func units(tier string) []mc.Unit {
	var us []mc.Unit
	for _, l := range layers(tier) {
		n, k := l[0], l[1]
		seq := make([]int, n)
		var rec func(i int)
		rec = func(i int) {
			if i == n {
				inits := 0
				names := make([]string, n)
				for j, o := range seq {
					names[j] = alphabet[o].Name
					if alphabet[o].Kind == 'I' {
						inits++
					}
				}
				if inits > 1 {
					return // the contract announces its initial root once (initialize())
				}
				us = append(us, mc.Unit{Name: strings.Join(names, ","), Params: params{Ops: append([]int{}, seq...)}})
				return
			}
			for o := 0; o < k; o++ {
				seq[i] = o
				rec(i + 1)
			}
		}
		rec(0)
	}
	return us
}

// ---------------------------------------------------------------------------------------------
// Deterministic field values

func h(tag string, xs ...uint64) common.Hash {
	buf := []byte(tag)
	for _, x := range xs {
		buf = append(buf, byte(x>>56), byte(x>>48), byte(x>>40), byte(x>>32), byte(x>>24), byte(x>>16), byte(x>>8), byte(x))
	}
	return ref.Keccak(buf)
}

func addr(tag string, xs ...uint64) common.Address {
	return common.BytesToAddress(h(tag, xs...).Bytes()[:20])
}

var (
	gerAddr    = addr("ger-contract")
	rmAddr     = addr("rollup-manager-contract")
	bridgeAddr = addr("bridge-contract")

	// block j of an execution: number (gaps: syncers skip blocks without events), timestamp
	// (boundary values of the 8-byte big-endian encoding, none a byte palindrome), first log index
	blockNums  = []uint64{3, 4, 9, 10, 11, 250, 251, 70000}
	timestamps = []uint64{1, 258, 1_700_000_123, 1<<32 + 5, 1<<40 + 1<<8, 1<<53 + 1, 1<<62 + 3, 1<<63 - 1}
	firstLog   = []uint{0, 2, 0, 1, 7, 0, 3, 0}
	numBatches = []uint64{0, 1, 7, 1 << 32, 1<<63 - 1}
)

// ---------------------------------------------------------------------------------------------
// The reference world of one execution

type appliedUpdate struct {
	Row  l1infotreesync.VerifyBatches // the verify_batches row the node must hold
	Tree map[uint32]ref.Hash          // rollup id → last non-zero exit root, right after this update
}

type world struct {
	l1      *ref.L1
	deposit ref.DepositTree // the L1 bridge's deposit tree (source of mainnet exit roots)
	nOps    int
	nNew    map[uint32]uint64

	// what the node must show
	leaves    []l1infotreesync.L1InfoTreeLeaf
	applied   []appliedUpdate
	held      map[uint32]ref.Hash // rollup id → last non-zero exit root verified
	before    map[uint32]ref.Hash // rollup id → the value it held before the current one
	treeRoots map[ref.Hash]bool   // every root the rollup exit tree has had
	returns   int
	initial   *l1infotreesync.L1InfoTreeInitial
	blocks    []uint64 // processed block numbers
	announced int      // V2 announcements processed

	skippedZero, skippedSame, gerSeen, trusted, multiEvent int
}

type blockBuilder struct {
	j       int
	hdr     aggsync.EVMBlockHeader
	logs    []types.Log
	nextLog uint
}

func newWorld() *world {
	return &world{l1: ref.NewL1(), nNew: map[uint32]uint64{}, held: map[uint32]ref.Hash{}, before: map[uint32]ref.Hash{}, treeRoots: map[ref.Hash]bool{}}
}

func (w *world) newBlock() *blockBuilder {
	j := len(w.blocks)
	return &blockBuilder{j: j, nextLog: firstLog[j], hdr: aggsync.EVMBlockHeader{Num: blockNums[j], Hash: h("block", uint64(j)),
		ParentHash: h("parent-of-block", uint64(j)), Timestamp: timestamps[j]}}
}

var packer = l1pack.New(gerAddr, rmAddr, bridgeAddr)

// apply executes one L1 transaction on the reference contracts, appends its logs to the block and
// records what the node must show afterwards.
func (w *world) apply(b *blockBuilder, o opSpec) {
	i := uint64(w.nOps)
	w.nOps++
	ctx := ref.BlockCtx{ParentHash: b.hdr.ParentHash, Timestamp: b.hdr.Timestamp}
	var evs []ref.L1Event
	switch o.Kind {
	case 'M':
		// a deposit on the L1 bridge with forceUpdateGlobalExitRoot: the bridge's own BridgeEvent log
		// (not watched by this syncer) takes a log index, then the GER contract is updated
		w.deposit.AddLeaf(h("deposit-leaf", w.deposit.DepositCount))
		b.nextLog++
		evs = w.l1.UpdateExitRootFromBridge(w.deposit.Root(), ctx)
	case 'V':
		var root ref.Hash
		switch o.Root {
		case 'n':
			w.nNew[o.Rollup]++
			root = h("local-exit-root", uint64(o.Rollup), w.nNew[o.Rollup])
		case 's':
			root = w.l1.RollupIDToLastExitRoot[o.Rollup]
		case 'r':
			// back to the value the rollup had before its current one — but only when the rollup exit tree
			// as a whole has not looked like that before (another rollup changed in between); otherwise a new value
			root = w.before[o.Rollup]
			if root != (ref.Hash{}) {
				m := ref.NewMerkle()
				for id, v := range w.held {
					if id != o.Rollup {
						m.Set(id-1, v)
					}
				}
				m.Set(o.Rollup-1, root)
				if w.treeRoots[m.Root()] {
					root = ref.Hash{}
				}
			}
			if root == (ref.Hash{}) {
				w.nNew[o.Rollup]++
				root = h("local-exit-root", uint64(o.Rollup), w.nNew[o.Rollup])
			} else {
				w.returns++
			}
		}
		evs = w.l1.VerifyBatches(o.Rollup, numBatches[int(i)%len(numBatches)], root, h("state-root", i), o.GER, o.Trusted,
			addr("aggregator", i), ctx)
		if o.GER && len(evs) == 1 {
			w.gerSeen++
		}
		if o.Trusted {
			w.trusted++
		}
	case 'I':
		// initialize() of the upgraded GER contract announces its current tree
		evs = []ref.L1Event{{Emitter: ref.EmitterGER, Kind: ref.EvInitL1InfoRootMap, LeafCount: uint32(w.l1.InfoTree.DepositCount),
			CurrentL1InfoRoot: w.l1.InfoRoot()}}
		w.initial = &l1infotreesync.L1InfoTreeInitial{BlockNumber: b.hdr.Num, LeafCount: uint32(w.l1.InfoTree.DepositCount),
			L1InfoRoot: w.l1.InfoRoot()}
	}
	for _, ev := range evs {
		lg := packer.Log(ev)
		lg.BlockNumber, lg.BlockHash, lg.Index, lg.TxIndex, lg.TxHash = b.hdr.Num, b.hdr.Hash, b.nextLog, uint(i), h("tx", i)
		b.logs = append(b.logs, lg)
		switch ev.Kind {
		case ref.EvUpdateL1InfoTree:
			rl := w.l1.Leaves[len(w.l1.Leaves)-1]
			w.leaves = append(w.leaves, l1infotreesync.L1InfoTreeLeaf{BlockNumber: b.hdr.Num, BlockPosition: uint64(b.nextLog),
				L1InfoTreeIndex: rl.Index, PreviousBlockHash: rl.ParentHash, Timestamp: rl.Timestamp, MainnetExitRoot: rl.MainnetExitRoot,
				RollupExitRoot: rl.RollupExitRoot, GlobalExitRoot: rl.GER, Hash: rl.Hash})
		case ref.EvUpdateL1InfoTreeV2:
			w.announced++
		case ref.EvVerifyBatches, ref.EvVerifyBatchesTrustedAggr:
			switch {
			case ev.ExitRoot == (ref.Hash{}):
				w.skippedZero++
			case w.held[ev.RollupID] == ev.ExitRoot:
				w.skippedSame++
			default:
				w.before[ev.RollupID] = w.held[ev.RollupID]
				w.held[ev.RollupID] = ev.ExitRoot
				m := ref.NewMerkle()
				snap := map[uint32]ref.Hash{}
				for id, v := range w.held {
					m.Set(id-1, v)
					snap[id] = v
				}
				want := m.Root()
				w.treeRoots[want] = true
				if want != w.l1.RollupExitRoot() {
					// alphabet restriction: exit roots never return to zero (and to an earlier value only when
					// the tree as a whole is new), so the tree of last non-zero roots IS the rollup manager's tree
					panic("c11: reference rollup exit tree differs from the rollup manager's")
				}
				w.applied = append(w.applied, appliedUpdate{Row: l1infotreesync.VerifyBatches{BlockNumber: b.hdr.Num,
					BlockPosition: uint64(b.nextLog), RollupID: ev.RollupID, NumBatch: ev.NumBatch, StateRoot: ev.StateRoot,
					ExitRoot: ev.ExitRoot, Aggregator: ev.Aggregator, RollupExitRoot: want}, Tree: snap})
			}
		}
		b.nextLog++
	}
}

// ---------------------------------------------------------------------------------------------
// SUT plumbing

type noClient struct {
	aggkittypes.BaseEthereumClienter // nil: any call made while building the appender would panic
}

var (
	appender   aggsync.LogAppenderMap
	templateDB []byte // a migrated, empty database made by the real constructor
)

func setup(string) {
	kit.Quiet()
	var err error
	appender, err = l1infotreesync.VerifBuildAppender(noClient{}, gerAddr, rmAddr)
	if err != nil {
		panic(fmt.Sprintf("c11: VerifBuildAppender: %v", err))
	}
	dir := sk.ScratchDir()
	defer kit.RemoveScratch(dir)
	t := sk.Open(sk.L1Info, dir)
	t.DB.Close()
	if templateDB, err = os.ReadFile(t.Path); err != nil {
		panic(err)
	}
}

// freshNode builds a fresh real store (real constructor, migrations included) on a copy of the
// empty database, in its own scratch directory.
func freshNode() (*sk.Node, string) {
	dir := sk.ScratchDir()
	path := filepath.Join(dir, "l1info.sqlite")
	if err := os.WriteFile(path, templateDB, 0o644); err != nil {
		panic(err)
	}
	return sk.OpenAt(sk.L1Info, path), dir
}

// flush runs the block's logs through the real appender and hands the block to the real store.
func (w *world) flush(c *mc.Ctx, n *sk.Node, b *blockBuilder) bool {
	eb := &aggsync.EVMBlock{EVMBlockHeader: b.hdr}
	for _, lg := range b.logs {
		f, ok := appender[lg.Topics[0]]
		if !ok {
			c.Failf("appender/no-handler", "no handler for topic %s (block %d log %d)", lg.Topics[0].Hex(), b.hdr.Num, lg.Index)
			return false
		}
		if err := f(eb, lg); err != nil {
			c.Failf("appender/error", "block %d log %d: %v", b.hdr.Num, lg.Index, err)
			return false
		}
	}
	if len(eb.Events) != len(b.logs) {
		c.Failf("appender/event-count", "block %d: %d logs gave %d events", b.hdr.Num, len(b.logs), len(eb.Events))
		return false
	}
	if len(b.logs) > 1 {
		w.multiEvent++
	}
	w.blocks = append(w.blocks, b.hdr.Num)
	if err := n.Process(aggsync.Block{Num: eb.Num, Hash: eb.Hash, Events: eb.Events}); err != nil {
		key := "l1info/ProcessBlock/error-on-valid-block"
		if n.Halted() {
			key = "l1info/ProcessBlock/halted-on-correct-root-announcement"
		}
		c.Failf(key, "block %d (%d logs): %v", b.hdr.Num, len(b.logs), err)
		return false
	}
	return true
}

// ---------------------------------------------------------------------------------------------
// Oracle

var bg = context.Background()

var probeRollups = []uint32{1, 2, 3, 4, 6}

func (w *world) check(c *mc.Ctx, n *sk.Node, b *blockBuilder, final bool) {
	s := n.L
	where := fmt.Sprintf("after block %d (#%d)", b.hdr.Num, b.j)
	if n.Halted() {
		c.Failf("l1info/halted", "%s: store halted", where)
		return
	}
	if lpb, err := s.GetLastProcessedBlock(bg); err != nil || lpb != b.hdr.Num {
		c.Failf("l1info/GetLastProcessedBlock/not-reference", "%s: got %d,%v", where, lpb, err)
	}
	if !final {
		return // this state is the final state of a unit of a shorter layer, where it gets the full oracle
	}
	// --- L1 info tree: one leaf per update, consecutive indices in chain order, contract's values
	hashes := make([]ref.Hash, len(w.leaves))
	for i, l := range w.leaves {
		hashes[i] = l.Hash
	}
	roots := ref.AppendRoots(hashes)
	for i, want := range w.leaves {
		if roots[i] != w.l1.Leaves[i].Root {
			panic("c11: reference roots disagree with the reference GER contract")
		}
		got, err := s.GetInfoByIndex(bg, uint32(i))
		if err != nil || got == nil || *got != want {
			c.Failf("l1info/GetInfoByIndex/leaf-differs-from-contract", "%s index %d: got %s,%v\n   want %s", where, i, str(got), err, want.String())
		}
		byGER, err := s.GetInfoByGlobalExitRoot(want.GlobalExitRoot)
		if err != nil || byGER == nil || *byGER != want {
			c.Failf("l1info/GetInfoByGlobalExitRoot/leaf-differs-from-contract", "%s GER %s (index %d): got %s,%v\n   want %s", where,
				want.GlobalExitRoot.Hex(), i, str(byGER), err, want.String())
		}
		r, err := s.GetL1InfoTreeRootByIndex(bg, uint32(i))
		if err != nil || r.Hash != roots[i] || r.Index != uint32(i) || r.BlockNum != want.BlockNumber || r.BlockPosition != want.BlockPosition {
			c.Failf("l1info/GetL1InfoTreeRootByIndex/root-differs-from-contract", "%s index %d: got %s,%v want hash %s block %d pos %d",
				where, i, r.String(), err, roots[i].Hex(), want.BlockNumber, want.BlockPosition)
		}
	}
	nl := len(w.leaves)
	if got, err := s.GetInfoByIndex(bg, uint32(nl)); err == nil {
		c.Failf("l1info/GetInfoByIndex/extra-leaf", "%s: %d updates so far but index %d exists: %s", where, nl, nl, str(got))
	}
	if r, err := s.GetL1InfoTreeRootByIndex(bg, uint32(nl)); err == nil {
		c.Failf("l1info/GetL1InfoTreeRootByIndex/extra-root", "%s: %d updates so far but root %d exists: %s", where, nl, nl, r.String())
	}
	lastRoot, err := s.GetLastL1InfoTreeRoot(bg)
	lastInfo, errLI := s.GetLastInfo()
	firstInfo, errFI := s.GetFirstInfo()
	if nl == 0 {
		if err == nil || errLI == nil || errFI == nil {
			c.Failf("l1info/leaf-without-update", "%s: no update yet but last root %s,%v last info %v first info %v", where, lastRoot.String(), err, errLI, errFI)
		}
	} else {
		if err != nil || lastRoot.Hash != roots[nl-1] || lastRoot.Index != uint32(nl-1) {
			c.Failf("l1info/GetLastL1InfoTreeRoot/root-differs-from-contract", "%s: got %s,%v want %s index %d", where, lastRoot.String(), err, roots[nl-1].Hex(), nl-1)
		}
		if errLI != nil || *lastInfo != w.leaves[nl-1] {
			c.Failf("l1info/GetLastInfo/not-last-leaf", "%s: got %s,%v want %s", where, str(lastInfo), errLI, w.leaves[nl-1].String())
		}
		if errFI != nil || *firstInfo != w.leaves[0] {
			c.Failf("l1info/GetFirstInfo/not-first-leaf", "%s: got %s,%v want %s", where, str(firstInfo), errFI, w.leaves[0].String())
		}
	}
	// lookups by block
	probes := map[uint64]bool{}
	for _, bn := range w.blocks {
		probes[bn-1], probes[bn], probes[bn+1] = true, true, true
	}
	for _, bn := range sortedU64(probes) {
		var until, after *l1infotreesync.L1InfoTreeLeaf
		for i := range w.leaves {
			if w.leaves[i].BlockNumber <= bn {
				until = &w.leaves[i]
			}
			if w.leaves[i].BlockNumber >= bn && after == nil {
				after = &w.leaves[i]
			}
		}
		got, err := s.GetLatestInfoUntilBlock(bg, bn)
		switch {
		case bn > b.hdr.Num: // not processed yet
			if err == nil {
				c.Failf("l1info/GetLatestInfoUntilBlock/answers-for-unprocessed-block", "%s block %d: got %s", where, bn, str(got))
			}
		case until == nil:
			if err == nil {
				c.Failf("l1info/GetLatestInfoUntilBlock/not-reference", "%s block %d: got %s want none", where, bn, str(got))
			}
		default:
			if err != nil || *got != *until {
				c.Failf("l1info/GetLatestInfoUntilBlock/not-reference", "%s block %d: got %s,%v want %s", where, bn, str(got), err, until.String())
			}
		}
		got, err = s.GetFirstInfoAfterBlock(bn)
		if after == nil {
			if err == nil {
				c.Failf("l1info/GetFirstInfoAfterBlock/not-reference", "%s block %d: got %s want none", where, bn, str(got))
			}
		} else if err != nil || *got != *after {
			c.Failf("l1info/GetFirstInfoAfterBlock/not-reference", "%s block %d: got %s,%v want %s", where, bn, str(got), err, after.String())
		}
	}
	// the announcement of the upgraded contract
	ini, err := s.GetInitL1InfoRootMap(bg)
	if w.initial == nil {
		if err != nil || ini != nil {
			c.Failf("l1info/GetInitL1InfoRootMap/not-reference", "%s: got %v,%v want none", where, ini, err)
		}
	} else if err != nil || ini == nil || *ini != *w.initial {
		c.Failf("l1info/GetInitL1InfoRootMap/not-reference", "%s: got %v,%v want %s", where, ini, err, w.initial.String())
	}

	// --- rollup exit tree: root recorded per applied update = the rollup manager's
	lr, err := s.GetLastRollupExitRoot(bg)
	if len(w.applied) == 0 {
		if err == nil {
			c.Failf("rollup/GetLastRollupExitRoot/root-without-update", "%s: no applied update, got %s", where, lr.String())
		}
	} else {
		last := w.applied[len(w.applied)-1].Row
		if err != nil || lr.Hash != last.RollupExitRoot || lr.Index != last.RollupID-1 || lr.BlockNum != last.BlockNumber || lr.BlockPosition != last.BlockPosition {
			c.Failf("rollup/GetLastRollupExitRoot/differs-from-rollup-manager", "%s: got %s,%v want hash %s index %d block %d pos %d", where,
				lr.String(), err, last.RollupExitRoot.Hex(), last.RollupID-1, last.BlockNumber, last.BlockPosition)
		}
	}
	for _, id := range probeRollups {
		var first, last *l1infotreesync.VerifyBatches
		for i := range w.applied {
			if w.applied[i].Row.RollupID == id {
				if first == nil {
					first = &w.applied[i].Row
				}
				last = &w.applied[i].Row
			}
		}
		cmpRow(c, "GetLastVerifiedBatches", where, id, 0, last)(s.GetLastVerifiedBatches(id))
		cmpRow(c, "GetFirstVerifiedBatches", where, id, 0, first)(s.GetFirstVerifiedBatches(id))
		for _, bn := range w.blocks {
			for _, q := range []uint64{bn, bn + 1} {
				var want *l1infotreesync.VerifyBatches
				for i := range w.applied {
					if r := &w.applied[i].Row; r.RollupID == id && r.BlockNumber >= q {
						want = r
						break
					}
				}
				cmpRow(c, "GetFirstVerifiedBatchesAfterBlock", where, id, q, want)(s.GetFirstVerifiedBatchesAfterBlock(id, q))
			}
		}
	}
	// --- the tree holds, per rollup, the last non-zero exit root verified for it
	if len(w.applied) > 0 {
		up := w.applied[len(w.applied)-1]
		for _, id := range []uint32{1, 2, 3, 6} {
			got, err := s.GetLocalExitRoot(bg, id, up.Row.RollupExitRoot)
			want, set := up.Tree[id]
			if set {
				if err != nil || got != want {
					c.Failf("rollup/GetLocalExitRoot/not-last-non-zero-exit-root", "%s rollup %d under root %s: got %s,%v want %s",
						where, id, up.Row.RollupExitRoot.Hex(), got.Hex(), err, want.Hex())
				}
			} else if err == nil && got != (common.Hash{}) {
				c.Failf("rollup/GetLocalExitRoot/exit-root-for-unset-rollup", "%s rollup %d under root %s: got %s want none",
					where, id, up.Row.RollupExitRoot.Hex(), got.Hex())
			}
		}
	}
}

func cmpRow(c *mc.Ctx, method, where string, id uint32, bn uint64, want *l1infotreesync.VerifyBatches) func(*l1infotreesync.VerifyBatches, error) {
	return func(got *l1infotreesync.VerifyBatches, err error) {
		if want == nil {
			if err == nil {
				c.Failf("rollup/"+method+"/row-without-applied-update", "%s rollup %d block>=%d: got %s want none", where, id, bn, got.String())
			}
			return
		}
		if err != nil || got == nil || *got != *want {
			g := "nil"
			if got != nil {
				g = got.String()
			}
			c.Failf("rollup/"+method+"/differs-from-rollup-manager", "%s rollup %d block>=%d: got %s,%v\n   want %s", where, id, bn, g, err, want.String())
		}
	}
}

func str(l *l1infotreesync.L1InfoTreeLeaf) string {
	if l == nil {
		return "nil"
	}
	return l.String()
}

func sortedU64(m map[uint64]bool) []uint64 {
	out := make([]uint64, 0, len(m))
	for k := range m {
		if k > 0 {
			out = append(out, k)
		}
	}
	for i := 1; i < len(out); i++ {
		for j := i; j > 0 && out[j] < out[j-1]; j-- {
			out[j], out[j-1] = out[j-1], out[j]
		}
	}
	return out
}

// ---------------------------------------------------------------------------------------------

func run(c *mc.Ctx, u mc.Unit) {
	p := u.Params.(params)
	n, dir := freshNode()
	defer kit.RemoveScratch(dir)
	defer n.Close()
	w := newWorld()
	var cur *blockBuilder
	var shape []string
	closeBlock := func(final bool) bool {
		if !w.flush(c, n, cur) {
			return false
		}
		w.check(c, n, cur, final)
		return !c.Failed()
	}
	for i, oi := range p.Ops {
		if i == 0 || c.Bool("new-block") {
			if cur != nil && !closeBlock(false) {
				return
			}
			cur = w.newBlock()
			shape = append(shape, "|")
		}
		w.apply(cur, alphabet[oi])
		shape = append(shape, alphabet[oi].Name)
	}
	if !closeBlock(true) {
		return
	}
	c.NonTrivial()
	lastRoot := ref.Hash{}
	if len(w.leaves) > 0 {
		lastRoot = w.l1.Leaves[len(w.leaves)-1].Root
	}
	c.Obs("%s leaves=%d info-root=%s applied=%d rollup-root=%s", strings.Join(shape, " "), len(w.leaves), lastRoot.Hex(),
		len(w.applied), w.l1.RollupExitRoot().Hex())
	wit := func(cond bool, name string) {
		if cond {
			c.Witness(name)
		}
	}
	wit(len(w.leaves) >= 2, "executions_with_2+_info_leaves")
	wit(w.returns > 0, "executions_with_an_exit_root_returning_to_an_earlier_value")
	wit(w.announced > 0, "executions_with_checked_root_announcements")
	wit(w.gerSeen > 0, "executions_with_ger_update_not_adding_a_leaf")
	wit(len(w.applied) >= 2, "executions_with_2+_applied_rollup_updates")
	wit(len(w.held) >= 2, "executions_with_2+_rollups_in_tree")
	wit(w.skippedZero > 0, "executions_with_skipped_zero_exit_root")
	wit(w.skippedSame > 0, "executions_with_skipped_unchanged_exit_root")
	wit(w.trusted > 0, "executions_with_trusted_aggregator_event")
	wit(w.multiEvent > 0, "executions_with_multi_event_blocks")
	wit(len(w.blocks) >= 2, "executions_with_2+_blocks")
	wit(w.initial != nil, "executions_with_initial_root_announcement")
}

func main() {
	names := make([]string, len(alphabet))
	for i, o := range alphabet {
		names[i] = o.Name
	}
	mc.Main(mc.Spec{
		ID: "C11", Level: "exploration",
		Units:              units,
		Batch:              func(string) int { return 40 },
		MaxEvalsPerProcess: 2500, // every store construction leaks descriptors (RunMigrations keeps a handle)
		Run:                run,
		Setup:              setup,
		Rule: "unit = one sequence of L1 transactions over the alphabet (M = mainnet-root update; V<rollup><n|s|z|r><+|-><T> = verify batches of " +
			"the rollup with a new / the same / a zero / (r) its previous exit root (only if the whole tree is then new), with / without GER update, T = trusted-aggregator variant; I = initial root " +
			"announcement); choice point before every transaction but the first: same block or new block (every composition into blocks); " +
			"the full oracle runs at the end of every execution; layers are nested, so every intermediate state (block boundary) of an " +
			"execution is the final state of a unit of a shorter layer and gets the full oracle there. " +
			"non-trivial = every execution; distinct = distinct (unit, composition, observation)",
		Assumptions: []string{
			"alphabet restriction (DESIGN C11): a rollup's exit root never returns to zero, and returns to an earlier value (letter r) only when another rollup changed in between, i.e. the rollup exit tree as a whole never repeats a root (root.hash is a primary key)",
			"the contracts are modelled by ref.L1; cmd/evmconf binds that model and the log packer to the real bytecode (state and logs byte for byte)",
			"block timestamps and batch numbers stay below 2^63 (SQLite INTEGER columns)",
			"queries for absent things must fail; which error they fail with is not part of the property",
			"the initial root announcement (InitL1InfoRootMap) occurs at most once, as the contract emits it in initialize()",
			"SQLite (modernc) is trusted",
		},
		Bounds: func(tier string) map[string]any {
			return map[string]any{"alphabet_by_priority": names, "layers_[sequence_length,first_k_operations]": layers(tier),
				"compositions": "all 2^(n-1)", "block_numbers": blockNums, "timestamps": timestamps, "rollup_ids": []int{1, 2, 6, 3}}
		},
	})
}
