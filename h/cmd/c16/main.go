// C16 — the injected-GER index reflects what was really injected on L2.
//
// SUT: the public lastgersync.New + Start (real sync.EVMDriver, real PP and FEP downloaders, real
// SQLite store) queried through GetFirstGERAfterL1InfoTreeIndex / GetLastProcessedBlock. The node's
// goroutines run inside one testing/synctest bubble; every RPC of the L2 client and every
// AddBlockToTrack of the driver is a gate of the E-ACT scheduler, so an execution is a deterministic
// function of the choice vector. Environment: simchain L2 (logs of the sovereign GER manager built
// with the binding's own ABI for PP, an argument- and state-dependent eth_call for FEP), a
// hand-written reorg detector and a hand-written L1 info tree querier (fixed leaves index→GER).
//
// The oracle is checked at every quiescent point (driver idle, downloader re-polling an unchanged
// tip): see oracle().
package main

import (
	"context"
	"errors"
	"fmt"
	"math/big"
	"os"
	"path/filepath"
	"sort"
	"strings"
	"sync"
	"sync/atomic"
	"testing/synctest"
	"time"

	"github.com/0xPolygon/cdk-contracts-tooling/contracts/pp/l2-sovereign-chain/globalexitrootmanagerl2sovereignchain"
	"github.com/0xPolygon/cdk-contracts-tooling/contracts/pp/l2-sovereign-chain/polygonzkevmglobalexitrootv2"
	"github.com/agglayer/aggkit/db"
	"github.com/agglayer/aggkit/l1infotreesync"
	"github.com/agglayer/aggkit/lastgersync"
	"github.com/agglayer/aggkit/reorgdetector"
	treetypes "github.com/agglayer/aggkit/tree/types"
	aggkittypes "github.com/agglayer/aggkit/types"
	"github.com/ethereum/go-ethereum"
	"github.com/ethereum/go-ethereum/common"
	"github.com/ethereum/go-ethereum/crypto"
	"verif/h/act"
	"verif/h/kit"
	"verif/h/mc"
	"verif/h/simchain"
)

// ---------------------------------------------------------------------------------------------
// alphabet

// ev is the GER event of one L2 block: K = '.' (none), '+' (insert GER of L1 info index I), '-' (remove it).
type ev struct {
	K byte
	I int
}

func (e ev) String() string {
	if e.K == '.' {
		return "."
	}
	return fmt.Sprintf("%c%d", e.K, e.I)
}

func evs(h []ev) string {
	s := make([]string, len(h))
	for i, e := range h {
		s[i] = e.String()
	}
	return strings.Join(s, ",")
}

var (
	kindsPP  = []string{"none", "ins", "hi", "rmlo", "rmhi"}
	kindsFEP = []string{"none", "ins", "hi"}
)

// concretize turns an abstract block kind into a concrete event given the set of present GER indices:
// ins = insert the lowest index not present (the next GER in L1-info order; re-inserts a removed one),
// hi = insert the second lowest index not present (out of order: a higher index first, the lower one later),
// rmlo / rmhi = remove the present GER with the lowest / highest index.
func concretize(present map[int]bool, kind string) (ev, bool) {
	free := func(skip int) int {
		for i := 0; ; i++ {
			if !present[i] {
				if skip == 0 {
					return i
				}
				skip--
			}
		}
	}
	var ps []int
	for i := range present {
		ps = append(ps, i)
	}
	sort.Ints(ps)
	switch kind {
	case "none":
		return ev{'.', 0}, true
	case "ins":
		return ev{'+', free(0)}, true
	case "hi":
		return ev{'+', free(1)}, true
	case "rmlo":
		if len(ps) == 0 {
			return ev{}, false
		}
		return ev{'-', ps[0]}, true
	case "rmhi":
		if len(ps) < 2 {
			return ev{}, false
		}
		return ev{'-', ps[len(ps)-1]}, true
	}
	panic(kind)
}

func apply(present map[int]bool, e ev) map[int]bool {
	out := map[int]bool{}
	for k := range present {
		out[k] = true
	}
	switch e.K {
	case '+':
		out[e.I] = true
	case '-':
		delete(out, e.I)
	}
	return out
}

// histories enumerates all concrete event sequences of 1..maxN blocks (or exactly the continuations of
// length n from the given state when exact is set).
func extensions(present map[int]bool, kinds []string, n int, exact bool) [][]ev {
	var out [][]ev
	var rec func(h []ev, pr map[int]bool)
	rec = func(h []ev, pr map[int]bool) {
		if len(h) > 0 && (!exact || len(h) == n) {
			out = append(out, append([]ev{}, h...))
		}
		if len(h) == n {
			return
		}
		for _, k := range kinds {
			if e, ok := concretize(pr, k); ok {
				rec(append(h, e), apply(pr, e))
			}
		}
	}
	rec(nil, present)
	return out
}

// ---------------------------------------------------------------------------------------------
// units

type forkSpec struct {
	From   uint64
	Blocks []ev // new content of blocks From..N
}

type params struct {
	Mode     string // PP | FEP
	Hist     []ev
	Restarts int
	Fork     *forkSpec
	Det      string // ideal | tracked
	Bound    int    // deviation bound of the DFS for this unit (-1: unbounded)
	Lag      int    // PP: how often the L1 info querier may answer "leaf not indexed yet" while an insertion log is parsed
	RPCErr   int    // how many RPCs of the L2 client may fail transiently (an opaque transport error), at any position
}

func (p params) String() string {
	s := fmt.Sprintf("%s chain[%s]", p.Mode, evs(p.Hist))
	if p.Fork != nil {
		s += fmt.Sprintf(" fork@%d[%s] detector=%s", p.Fork.From, evs(p.Fork.Blocks), p.Det)
	}
	if p.RPCErr > 0 {
		s += fmt.Sprintf(" rpc-errors<=%d", p.RPCErr)
	}
	if p.Lag > 0 {
		s += fmt.Sprintf(" l1info-lag<=%d", p.Lag)
	}
	return s + fmt.Sprintf(" restarts<=%d", p.Restarts)
}

// class is one family of units: histories of exactly N blocks in one mode, with a restart budget, with or
// without one reorg, and the deviation bound of the DFS (-1 = the whole choice tree).
type class struct {
	Mode     string
	N        int
	Restarts int
	Fork     bool
	Dets     []string
	Bound    int
}

var both = []string{"ideal", "tracked"}

func classes(tier string) []class {
	var cs []class
	for _, mode := range []string{"PP", "FEP"} {
		if tier == "thorough" {
			for n := 1; n <= 4; n++ {
				cs = append(cs, class{mode, n, 2, false, nil, -1})
			}
			cs = append(cs, class{mode, 5, 1, false, nil, -1})
			cs = append(cs, class{mode, 6, 0, false, nil, -1}) // every polling cadence, no restart
			for n := 1; n <= 2; n++ {
				cs = append(cs, class{mode, n, 1, true, both, -1})
			}
			if mode == "PP" {
				cs = append(cs, class{mode, 3, 0, true, both, -1})
			} else {
				cs = append(cs, class{mode, 3, 0, true, both[:1], 2}) // deviation-bounded
			}
			continue
		}
		for n := 1; n <= 3; n++ {
			cs = append(cs, class{mode, n, 2, false, nil, -1})
		}
		cs = append(cs, class{mode, 4, 1, false, nil, -1})
		dets := both
		if mode == "FEP" {
			dets = both[:1]
		}
		for n := 1; n <= 2; n++ {
			// one-block histories: one restart anywhere, also between the first sync and the reorg
			cs = append(cs, class{mode, n, 2 - n, true, dets, -1})
		}
	}
	return cs
}

func kindsOf(mode string) []string {
	if mode == "FEP" {
		return kindsFEP
	}
	return kindsPP
}

func units(tier string) []mc.Unit {
	var us []mc.Unit
	add := func(p params) {
		name := fmt.Sprintf("%s|%s|R%d", p.Mode, evs(p.Hist), p.Restarts)
		if p.RPCErr > 0 {
			name += fmt.Sprintf("|E%d", p.RPCErr)
		}
		if p.Fork != nil {
			name += fmt.Sprintf("|fork@%d:%s|%s", p.Fork.From, evs(p.Fork.Blocks), p.Det)
		}
		us = append(us, mc.Unit{Name: name, Params: p})
	}
	for _, cl := range classes(tier) {
		for _, h := range extensions(map[int]bool{}, kindsOf(cl.Mode), cl.N, true) {
			if !cl.Fork {
				lag := 0
				if cl.Mode == "PP" && (cl.N <= 2 || (tier == "thorough" && cl.N <= 4)) {
					lag = 1
				}
				add(params{Mode: cl.Mode, Hist: h, Restarts: cl.Restarts, Bound: cl.Bound, Lag: lag})
				if cl.N <= 2 || (tier == "thorough" && cl.N <= 3) {
					// the same histories with one transient RPC failure at any call (fewer restarts: the product is large)
					add(params{Mode: cl.Mode, Hist: h, Restarts: min(cl.Restarts, 1), Bound: cl.Bound, RPCErr: 1})
				}
				continue
			}
			for f := uint64(1); f <= uint64(cl.N); f++ {
				pr := map[int]bool{}
				for _, e := range h[:f-1] {
					pr = apply(pr, e)
				}
				for _, nb := range extensions(pr, kindsOf(cl.Mode), cl.N-int(f)+1, true) {
					for _, det := range cl.Dets {
						add(params{Mode: cl.Mode, Hist: h, Restarts: cl.Restarts, Fork: &forkSpec{From: f, Blocks: nb}, Det: det, Bound: cl.Bound})
					}
				}
			}
		}
	}
	// shortest histories first: the first violations a worker records are then the smallest ones
	sort.SliceStable(us, func(i, j int) bool {
		return len(us[i].Params.(params).Hist) < len(us[j].Params.(params).Hist)
	})
	return us
}

// ---------------------------------------------------------------------------------------------
// environment pieces

var (
	gerAddr    = common.HexToAddress("0xa40d5f56745a118d0906a34e69aec8c0db1cb8fa")
	sovABI     = mustABI(globalexitrootmanagerl2sovereignchain.Globalexitrootmanagerl2sovereignchainMetaData.GetAbi())
	fepABI     = mustABI(polygonzkevmglobalexitrootv2.Polygonzkevmglobalexitrootv2MetaData.GetAbi())
	insertSig  = sovABI.Events["UpdateHashChainValue"].ID
	removeSig  = sovABI.Events["UpdateRemovalHashChainValue"].ID
	gerMapSel  = fepABI.Methods["globalExitRootMap"].ID
	gerOf      []common.Hash
	indexOfGER = map[common.Hash]int{}
)

const maxLeaves = 12

func init() {
	for i := 0; i < maxLeaves; i++ {
		g := crypto.Keccak256Hash([]byte(fmt.Sprintf("verif-global-exit-root-%d", i)))
		gerOf = append(gerOf, g)
		indexOfGER[g] = i
	}
}

func mustABI[T any](a *T, err error) *T {
	if err != nil {
		panic(err)
	}
	return a
}

// logsOf builds the logs a block with event e carries (PP: the sovereign GER manager's events, both
// arguments indexed, so they travel as topics; FEP: the downloader does not read logs).
func logsOf(mode string, e ev, salt uint64, num uint64) []simchain.LogSpec {
	if mode != "PP" || e.K == '.' {
		return nil
	}
	hashChain := crypto.Keccak256Hash([]byte(fmt.Sprintf("hash-chain-%d-%d", salt, num)))
	sig := insertSig
	if e.K == '-' {
		sig = removeSig
	}
	return []simchain.LogSpec{{Address: gerAddr, Topics: []common.Hash{sig, gerOf[e.I], hashChain}}}
}

// fakeL1 is the L1InfoTreeQuerier: a fixed list of leaves, index i → gerOf[i].
type fakeL1 struct {
	n     int
	sched *act.Sched // PP: GetInfoByGlobalExitRoot is a gate, so that the harness can answer "not indexed yet"
}

func (f *fakeL1) leaf(i int) *l1infotreesync.L1InfoTreeLeaf {
	return &l1infotreesync.L1InfoTreeLeaf{BlockNumber: uint64(100 + i), L1InfoTreeIndex: uint32(i), GlobalExitRoot: gerOf[i],
		Timestamp: uint64(5000 + i), Hash: crypto.Keccak256Hash(gerOf[i][:])}
}
func (f *fakeL1) GetLastL1InfoTreeRoot(ctx context.Context) (treetypes.Root, error) {
	return treetypes.Root{Hash: crypto.Keccak256Hash([]byte("l1-info-root")), Index: uint32(f.n - 1), BlockNum: uint64(100 + f.n - 1)}, nil
}
func (f *fakeL1) GetInfoByIndex(ctx context.Context, index uint32) (*l1infotreesync.L1InfoTreeLeaf, error) {
	if int(index) >= f.n {
		return nil, db.ErrNotFound
	}
	return f.leaf(int(index)), nil
}
func (f *fakeL1) GetInfoByGlobalExitRoot(ger common.Hash) (*l1infotreesync.L1InfoTreeLeaf, error) {
	if f.sched != nil {
		// the node's own L1 info tree syncer may not have indexed the leaf of this GER yet
		if d := f.sched.Enter("l1info", "GetInfoByGlobalExitRoot", ger.Hex()[:10], nil); d.Err != nil {
			return nil, db.ErrNotFound
		}
	}
	i, ok := indexOfGER[ger]
	if !ok || i >= f.n {
		return nil, db.ErrNotFound
	}
	return f.leaf(i), nil
}

// fakeDetector is the sync.ReorgDetector. Subscribe hands out subscriptions whose channels are
// created later, inside the bubble; AddBlockToTrack is a gate of the driver.
type fakeDetector struct {
	sched   *act.Sched
	mu      sync.Mutex
	subs    []*reorgdetector.Subscription
	tracked map[uint64]common.Hash
	badID   string
}

type trackArg struct {
	Num  uint64
	Hash common.Hash
}

func (d *fakeDetector) Subscribe(id string) (*reorgdetector.Subscription, error) {
	d.mu.Lock()
	defer d.mu.Unlock()
	if id != "lastGERSyncer" {
		d.badID = id
	}
	s := &reorgdetector.Subscription{}
	d.subs = append(d.subs, s)
	return s, nil
}

func (d *fakeDetector) AddBlockToTrack(ctx context.Context, id string, num uint64, hash common.Hash) error {
	dir := d.sched.EnterCtx(ctx, "driver", "AddBlockToTrack", fmt.Sprint(num), trackArg{num, hash})
	if dir.Err != nil {
		return dir.Err
	}
	if err := ctx.Err(); err != nil {
		return err
	}
	d.mu.Lock()
	defer d.mu.Unlock()
	if id != "lastGERSyncer" {
		d.badID = id
	}
	d.tracked[num] = hash
	return nil
}
func (d *fakeDetector) GetFinalizedBlockType() aggkittypes.BlockNumberFinality {
	return aggkittypes.FinalizedBlock
}
func (d *fakeDetector) String() string { return "verif-reorg-detector" }

// ---------------------------------------------------------------------------------------------
// one execution

type world struct {
	c     *mc.Ctx
	p     params
	n     uint64
	chain *simchain.Chain
	sched *act.Sched
	canon []ev // canon[b] = event of canonical block b (canon[0] unused)
	det   *fakeDetector
	insts []*lastgersync.LastGERSync

	life   int
	cur    *lastgersync.LastGERSync
	sub    *reorgdetector.Subscription
	cancel context.CancelFunc
	done   chan struct{}

	epoch int
	last  struct {
		wait  bool
		vis   uint64
		epoch int
	}
	firstPoll      bool
	lagLeft        int            // how many more times the L1 info querier may answer "not indexed yet"
	rpcErrLeft     int            // how many more RPCs of the L2 client may fail
	stickyNotFound map[string]int // header argument -> further attempts answered "not found"
	restartsLeft   int
	forked         bool
	notified       bool

	fetched        map[uint64]common.Hash // PP: hash of block b when its logs were last served to the node
	examined       map[uint64]common.Hash // FEP: hash of tip T when an eth_call was answered at tip T
	startBlocks    map[uint64]bool        // lastProcessed+1 at every start of a download (life start, reorg reset)
	lifeStart      uint64                 // start block of the current download
	droppedRemoval map[int]bool           // GER index: a removal in a block that was served to the node and then dropped
	droppedInsert  map[int]bool
	trace          []string
	reported       map[string]bool
	steps          int
	stopFailed     bool
	panicked       any
	spareReq       chan struct{}
	recordedBefore int // FEP: greatest index answered 'injected' in earlier rounds of this download
	recordedNow    int
	spareRes       chan error
}

var scratchSeq atomic.Int64

func scratchDir() string {
	base := os.Getenv("VERIF_SCRATCH")
	if base == "" {
		base = "/dev/shm"
	}
	d := filepath.Join(base, fmt.Sprintf("c16-%d-%d", os.Getpid(), scratchSeq.Add(1)))
	if err := os.MkdirAll(d, 0o755); err != nil {
		panic(err)
	}
	return d
}

var tmpl []byte

// templateDB returns the bytes of an empty store file on which the real constructor has run its migrations.
func templateDB() []byte {
	if tmpl != nil {
		return tmpl
	}
	dir := scratchDir()
	defer os.RemoveAll(dir)
	s, err := lastgersync.NewVerifLastGERSync(filepath.Join(dir, "t.sqlite"))
	if err != nil {
		panic(err)
	}
	out := filepath.Join(dir, "template.sqlite")
	if _, err := s.VerifDB().Exec("VACUUM INTO '" + out + "'"); err != nil {
		panic(err)
	}
	s.VerifDB().Close()
	if tmpl, err = os.ReadFile(out); err != nil {
		panic(err)
	}
	return tmpl
}

func run(c *mc.Ctx, u mc.Unit) {
	p := u.Params.(params)
	w := &world{c: c, p: p, n: uint64(len(p.Hist)), restartsLeft: p.Restarts,
		fetched: map[uint64]common.Hash{}, examined: map[uint64]common.Hash{}, startBlocks: map[uint64]bool{},
		droppedRemoval: map[int]bool{}, droppedInsert: map[int]bool{}, reported: map[string]bool{}}
	w.chain = simchain.New()
	w.canon = append([]ev{{'.', 0}}, p.Hist...)
	for b := uint64(1); b <= w.n; b++ {
		w.chain.Append(0, logsOf(p.Mode, w.canon[b], 0, b))
	}
	w.chain.CallHook = w.ethCall
	w.sched = act.New()
	w.det = &fakeDetector{sched: w.sched, tracked: map[uint64]common.Hash{}}
	client := simchain.NewClient(w.chain, w.sched, "l2")
	l1 := &fakeL1{n: int(w.n) + 1}
	if p.Mode == "PP" {
		l1.sched = w.sched
		w.lagLeft = p.Lag
	}
	w.rpcErrLeft = p.RPCErr

	dir := scratchDir()
	dbPath := filepath.Join(dir, "lastgersync.sqlite")
	bubbleEnded := false
	defer func() {
		if bubbleEnded { // every goroutine of the execution has ended and every handle of the harness is closed
			kit.RemoveScratch(dir)
		} else {
			os.RemoveAll(dir)
		}
	}()
	if err := os.WriteFile(dbPath, templateDB(), 0o644); err != nil { // a migrated, empty store (saves re-running the migrations)
		panic(err)
	}
	mode := lastgersync.PP
	if p.Mode == "FEP" {
		mode = lastgersync.FEP
	}
	// constraints (1)+(3): every store is opened OUTSIDE the bubble. The first node object is built here;
	// the spares used by restarts are built on demand by a goroutine that was started outside the bubble
	// (so database/sql's goroutines never belong to the bubble); at most p.Restarts of them.
	mk := func() (*lastgersync.LastGERSync, error) {
		return lastgersync.New(context.Background(), dbPath, w.det, client, gerAddr, l1,
			time.Millisecond, -1, aggkittypes.LatestBlock, time.Millisecond, 100, true, mode)
	}
	inst, err := mk()
	if err != nil {
		c.Failf("harness/constructor", "lastgersync.New: %v", err)
		return
	}
	w.insts = append(w.insts, inst)
	w.spareReq, w.spareRes = make(chan struct{}), make(chan error)
	factoryDone := make(chan struct{})
	go func() {
		defer close(factoryDone)
		for range w.spareReq {
			inst, err := mk()
			if err == nil {
				w.insts = append(w.insts, inst)
			}
			w.spareRes <- err
		}
	}()
	defer func() {
		close(w.spareReq)
		<-factoryDone
		for _, inst := range w.insts {
			inst.VerifDB().Close()
		}
	}()
	func() {
		defer func() {
			if x := recover(); x != nil { // synctest reports a bubble that cannot finish by panicking here
				c.Failf("harness/bubble-panic", "%s: %v (trace %v)", p, x, w.trace)
			}
		}()
		synctest.Run(w.bubble)
		bubbleEnded = true
	}()
	if w.panicked != nil {
		panic(w.panicked) // e.g. the engine's divergence panic raised by Choose inside the bubble
	}
}

// ethCall answers GlobalExitRootMap(ger) from the L2 state at the visible tip (or at the requested block).
func (w *world) ethCall(call ethereum.CallMsg, blockNumber *big.Int) ([]byte, bool) {
	if len(call.Data) != 36 || string(call.Data[:4]) != string(gerMapSel) || call.To == nil || *call.To != gerAddr {
		return nil, false
	}
	at := w.chain.Visible
	if blockNumber != nil && blockNumber.Sign() >= 0 && blockNumber.Uint64() < at {
		at = blockNumber.Uint64()
	}
	out := make([]byte, 32)
	if i, ok := indexOfGER[common.BytesToHash(call.Data[4:])]; ok {
		if b, in := w.present(at)[i]; in {
			new(big.Int).SetUint64(w.chain.Blocks[b].Time).FillBytes(out) // the FEP manager stores the injection timestamp
		}
	}
	return out, true
}

// present folds the canonical events of blocks 1..upTo: GER index → block of its (latest) insertion.
func (w *world) present(upTo uint64) map[int]uint64 {
	out := map[int]uint64{}
	for b := uint64(1); b <= upTo && b < uint64(len(w.canon)); b++ {
		switch e := w.canon[b]; e.K {
		case '+':
			out[e.I] = b
		case '-':
			delete(out, e.I)
		}
	}
	return out
}

func (w *world) tr(format string, a ...any) { w.trace = append(w.trace, fmt.Sprintf(format, a...)) }

func (w *world) lpb() uint64 {
	n, err := w.cur.GetLastProcessedBlock(context.Background())
	if err != nil {
		w.c.Failf("harness/GetLastProcessedBlock", "%v", err)
	}
	return n
}

func (w *world) startLife(i int) {
	w.life, w.cur, w.sub = i, w.insts[i], w.det.subs[i]
	// constraint (2): the driver reads these fields on every select; give it bubble channels
	w.sub.ReorgedBlock = make(chan uint64)
	w.sub.ReorgProcessed = make(chan bool)
	ctx, cancel := context.WithCancel(context.Background())
	w.cancel = cancel
	w.done = make(chan struct{})
	w.newDownload()
	done, inst := w.done, w.cur
	go func() {
		defer close(done)
		_ = inst.Start(ctx)
	}()
}

// newDownload: the driver (re)starts the downloader at lastProcessed+1; whatever was served above the
// last processed block to an earlier download is lost and has to be fetched again.
func (w *world) newDownload() {
	w.recordedBefore, w.recordedNow = -1, -1
	lpb := w.lpb()
	w.lifeStart = lpb + 1
	w.startBlocks[w.lifeStart] = true
	w.firstPoll = true
	w.epoch++
	for b := range w.fetched {
		if b > lpb {
			delete(w.fetched, b)
		}
	}
	for b := range w.examined {
		if b > lpb {
			delete(w.examined, b)
		}
	}
}

// stopLife cancels the node's context and lets every goroutine of this life exit.
func (w *world) stopLife() bool {
	w.cancel()
	for i := 0; i < 100; i++ {
		gs := w.sched.Settle(3)
		if len(gs) == 0 {
			select {
			case <-w.done:
				return true
			default:
				continue
			}
		}
		for _, g := range gs {
			d := act.Directive{}
			if g.Comp == "driver" {
				d.Err = context.Canceled // the block is not tracked and not committed: a crash before the commit
			}
			w.sched.Release(g, d)
		}
	}
	w.stopFailed = true
	w.c.Failf("harness/node-did-not-stop", "%s: goroutines still alive after cancellation (trace %v)", w.p, w.trace)
	return false
}

func (w *world) restart() bool {
	w.restartsLeft--
	w.tr("restart")
	w.c.Witness("restarts")
	if !w.stopLife() {
		return false
	}
	w.spareReq <- struct{}{} // channels made outside the bubble: the spare is constructed outside it
	if err := <-w.spareRes; err != nil {
		w.c.Failf("harness/constructor", "lastgersync.New (spare): %v", err)
		w.stopFailed = true // nothing is running
		return false
	}
	w.startLife(w.life + 1)
	return true
}

func (w *world) bubble() {
	defer func() {
		if x := recover(); x != nil {
			w.panicked = x
			if !w.stopFailed {
				w.stopLife()
			}
		}
	}()
	w.startLife(0)
	const horizon = 3000
	for {
		gs := w.sched.Settle(4)
		if len(gs) == 0 {
			w.c.Failf("harness/deadlock", "%s: nothing parked and no timer pending (trace %v)", w.p, w.trace)
			break
		}
		if w.steps++; w.steps > horizon {
			w.c.HorizonHit()
			break
		}
		var drv, l2 []*act.Gate
		for _, g := range gs {
			if g.Comp == "driver" {
				drv = append(drv, g)
			} else {
				l2 = append(l2, g)
			}
		}
		if len(drv) > 1 || (len(drv) == 0 && len(l2) > 1) {
			w.c.Failf("harness/unexpected-concurrency", "%s: parked %v (trace %v)", w.p, gs, w.trace)
			break
		}
		if len(drv) == 1 {
			// the driver commits the delivered block before the downloader's next call is answered (the
			// downloader never reads what the driver writes while it is running)
			if !w.driverGate(drv[0]) {
				break
			}
			continue
		}
		g := l2[0]
		if g.Comp == "l1info" {
			// the insertion log is being parsed: the node's L1 info tree syncer may lag behind the L2 injection
			d := act.Directive{}
			if w.lagLeft > 0 && w.c.Bool("l1-info-leaf-not-indexed-yet") {
				w.lagLeft--
				d.Err = db.ErrNotFound
				w.tr("l1info-not-indexed-yet")
				w.c.Witness("l1_info_leaf_not_indexed_yet_answers")
			}
			w.c.Transition(1)
			w.sched.Release(g, d)
			continue
		}
		if g.Op == "ChainID" { // compatibility check of the driver at every (re)start of the sync loop
			w.release(g, false)
			continue
		}
		if stop := w.l2Gate(g); stop {
			break
		}
	}
	if !w.stopFailed {
		w.stopLife()
	}
	w.c.Obs("%s | %s", w.p, strings.Join(w.trace, " "))
}

func (w *world) release(g *act.Gate, isWait bool) {
	w.last.wait, w.last.vis, w.last.epoch = isWait, w.chain.Visible, w.epoch
	w.c.Transition(1)
	w.sched.Release(g, act.Directive{})
}

func (w *world) driverGate(g *act.Gate) bool {
	a := g.Info.(trackArg)
	if w.restartsLeft > 0 && w.c.Bool("crash-before-commit-of-delivered-block") {
		w.tr("deliver(%d)", a.Num)
		return w.restart()
	}
	w.tr("commit(%d)", a.Num)
	w.c.Witness("blocks_committed")
	w.release(g, false)
	return true
}

func (w *world) forkAvailable() bool {
	f := w.p.Fork
	return f != nil && !w.forked && w.chain.Visible >= f.From && w.chain.Visible <= f.From+1
}

// mismatch returns the lowest tracked block whose hash is no longer canonical.
func (w *world) mismatch() (uint64, bool) {
	w.det.mu.Lock()
	defer w.det.mu.Unlock()
	best, ok := uint64(0), false
	for n, h := range w.det.tracked {
		if (n > w.chain.Tip() || w.chain.Hash(n) != h) && (!ok || n < best) {
			best, ok = n, true
		}
	}
	return best, ok
}

func (w *world) notifyPending() bool {
	if !w.forked {
		return false
	}
	if w.p.Det == "ideal" {
		return !w.notified
	}
	_, ok := w.mismatch()
	return ok
}

func (w *world) doFork() {
	f := w.p.Fork
	for b := f.From; b <= w.n; b++ {
		if w.fetched[b] == w.chain.Hash(b) {
			switch e := w.canon[b]; e.K {
			case '-':
				w.droppedRemoval[e.I] = true
			case '+':
				w.droppedInsert[e.I] = true
			}
		}
	}
	var logs [][]simchain.LogSpec
	for i, e := range f.Blocks {
		logs = append(logs, logsOf(w.p.Mode, e, 1, f.From+uint64(i)))
	}
	w.chain.Fork(f.From, 1, logs)
	w.canon = append(append([]ev{}, w.canon[:f.From]...), f.Blocks...)
	w.forked = true
	w.epoch++
	w.tr("fork@%d(depth %d)", f.From, w.chain.Visible-f.From+1)
	w.c.Witness("forks")
}

// doNotify is the detector's check: it reports the first reorged block (ideal: the first replaced
// block; tracked: the first tracked block whose hash changed, like the real detector), waits for the
// acknowledgement, and forgets the tracked blocks from there on. g is the parked call of the
// downloader, which the driver cancels.
func (w *world) doNotify(g *act.Gate) {
	n := w.p.Fork.From
	if w.p.Det == "tracked" {
		n, _ = w.mismatch()
	}
	w.tr("reorg-notified(%d)", n)
	w.c.Witness("reorg_notifications")
	w.sub.ReorgedBlock <- n
	<-w.sub.ReorgProcessed
	w.det.mu.Lock()
	for b := range w.det.tracked {
		if b >= n {
			delete(w.det.tracked, b)
		}
	}
	w.det.mu.Unlock()
	w.notified = true
	w.newDownload()
	// let the cancelled downloader run out (FEP: its eth_calls carry no context, they are answered)
	w.sched.Release(g, act.Directive{})
	for i := 0; i < 100; i++ {
		var stale []*act.Gate
		for _, x := range w.sched.Settle(3) {
			if x.Op != "ChainID" && x.Comp == "l2" {
				stale = append(stale, x)
			}
		}
		if len(stale) == 0 {
			return
		}
		for _, x := range stale {
			w.sched.Release(x, act.Directive{})
		}
	}
	w.c.Failf("harness/cancelled-downloader-did-not-stop", "%s (trace %v)", w.p, w.trace)
}

// book records what the node is about to be told.
func (w *world) book(g *act.Gate) {
	switch g.Op {
	case "FilterLogs":
		q := g.Info.(ethereum.FilterQuery)
		from, to := q.FromBlock.Uint64(), q.ToBlock.Uint64()
		w.tr("fetch[%d,%d]", from, to)
		for b := from; b <= to && b <= w.chain.Visible; b++ {
			w.fetched[b] = w.chain.Hash(b)
		}
		w.c.Witness("log_fetches")
	case "CallContract":
		w.examined[w.chain.Visible] = w.chain.Hash(w.chain.Visible)
		w.c.Witness("eth_calls")
		// not a property clause, only an observation: the FEP downloader means to continue after the index
		// it has just recorded ("nextL1InfoTreeIndex = e.L1InfoTreeIndex + 1"), but asks again from the old one
		if call, ok := g.Info.(ethereum.CallMsg); ok && len(call.Data) == 36 {
			i, known := indexOfGER[common.BytesToHash(call.Data[4:])]
			if known && i <= w.recordedBefore {
				w.c.Witness("fep_eth_calls_for_an_index_at_or_below_the_one_recorded_by_an_earlier_round")
			}
			if _, in := w.present(w.chain.Visible)[i]; known && in && i > w.recordedNow {
				w.recordedNow = i
			}
		}
	}
}

func (w *world) l2Gate(g *act.Gate) (stop bool) {
	isWait := g.Op == "HeaderByNumber" && g.Arg == "latest" && strings.Contains(g.Stack, "WaitForNewBlocks")
	if isWait && w.last.wait && w.last.vis == w.chain.Visible && w.last.epoch == w.epoch {
		return w.quiescent(g)
	}
	if isWait && w.firstPoll {
		w.firstPoll = false
		// the very first download sees the tip at 0 and waits: seeing k blocks at its first or at its second
		// poll is the same observation; after a restart or a reorg the first poll matters (lastProcessed+1 vs tip)
		if w.life == 0 && !w.notified {
		} else if adv := w.c.Choose(int(w.n-w.chain.Visible)+1, "tip-advance-before-first-poll-of-download"); adv > 0 {
			w.chain.Visible += uint64(adv)
			w.epoch++
			w.c.Witness("tip_advances")
		}
	}
	if w.forkAvailable() && w.c.Bool("fork-before-this-rpc") {
		w.doFork()
	}
	if w.notifyPending() && w.c.Bool("detector-check-before-this-rpc") {
		w.doNotify(g)
		return false
	}
	if g.Op == "HeaderByNumber" && w.stickyNotFound[g.Arg] > 0 {
		w.stickyNotFound[g.Arg]--
		w.tr("%s(%s)-not-found", g.Op, g.Arg)
		w.c.Transition(1)
		w.sched.Release(g, act.Directive{Err: fmt.Errorf("verif: %w", ethereum.NotFound)})
		return false
	}
	if w.rpcErrLeft > 0 && g.Op == "HeaderByNumber" && g.Arg != "latest" && g.Arg != "finalized" && g.Arg != "safe" && g.Arg != "pending" &&
		w.c.Bool("this-header-is-unknown-to-the-node-for-8-attempts") {
		// a lagging RPC backend: "not found" for this header, now and for the next 7 attempts
		w.rpcErrLeft--
		if w.stickyNotFound == nil {
			w.stickyNotFound = map[string]int{}
		}
		w.stickyNotFound[g.Arg] = 7 //nolint:mnd
		w.tr("%s(%s)-not-found", g.Op, g.Arg)
		w.c.Witness("rpc_not_found_for_eight_attempts_in_a_row")
		w.c.Transition(1)
		w.sched.Release(g, act.Directive{Err: fmt.Errorf("verif: %w", ethereum.NotFound)})
		return false
	}
	if w.rpcErrLeft > 0 && w.c.Bool("this-rpc-fails-once") {
		// an opaque transport error: the call has no effect and the component retries (retry limit disabled)
		w.rpcErrLeft--
		w.tr("%s-fails", g.Op)
		w.c.Witness("rpc_errors_injected")
		w.c.Transition(1)
		w.sched.Release(g, act.Directive{Err: errors.New("verif: transient rpc error")})
		return false
	}
	if isWait {
		w.tr("poll→%d", w.chain.Visible)
		w.recordedBefore = w.recordedNow // a new round of eth_calls starts after this poll
	}
	w.book(g)
	w.release(g, isWait)
	return false
}

// quiescent: the downloader has polled this very tip before and polls it again, the driver is idle.
func (w *world) quiescent(g *act.Gate) (stop bool) {
	w.c.Witness("quiescent_points")
	pending := w.notifyPending()
	if !pending {
		w.oracle()
	}
	remaining := int(w.n - w.chain.Visible)
	type opt struct {
		kind string
		k    int
	}
	var opts []opt
	for k := 1; k <= remaining; k++ {
		opts = append(opts, opt{"advance", k})
	}
	if remaining == 0 && !pending {
		opts = append(opts, opt{"end", 0})
	}
	if pending {
		opts = append(opts, opt{"notify", 0})
	}
	if w.restartsLeft > 0 {
		opts = append(opts, opt{"restart", 0})
	}
	if w.forkAvailable() {
		opts = append(opts, opt{"fork", 0})
	}
	o := opts[w.c.Choose(len(opts), "event-at-quiescence")]
	switch o.kind {
	case "advance":
		w.chain.Visible += uint64(o.k)
		w.epoch++
		w.c.Witness("tip_advances")
		if o.k > 1 {
			w.c.Witness("tip_advances_by_more_than_one")
		}
		w.tr("poll→%d", w.chain.Visible)
		w.recordedBefore = w.recordedNow
		w.release(g, true)
	case "end":
		return true
	case "notify":
		w.doNotify(g)
	case "restart":
		return !w.restart()
	case "fork":
		w.doFork()
		w.release(g, true)
	}
	return false
}

// ---------------------------------------------------------------------------------------------
// the oracle (property statement, clause by clause), evaluated at a quiescent point.
//
// P = the tip the node has just polled (= chain.Visible: at a quiescent point the downloader has seen
// this tip at least twice). Present = GERs inserted in canonical blocks 1..P and not removed in a later
// block ≤ P. For every X in 0..maxIndex+1:
//
//	soundness    — an answer (root, idx) has idx ≥ X, is a leaf of the L1 info tree, and root ∈ Present;
//	completeness — if some root of Present has index ≥ X, there is an answer (any qualifying root).
//
// GetLastProcessedBlock ≤ P.
func (w *world) oracle() {
	m := strings.ToLower(w.p.Mode)
	P := w.chain.Visible
	pres := w.present(P)
	ctx := context.Background()
	lpb := w.lpb()
	if lpb > P {
		w.fail(m+"/last-processed-block-above-polled-tip", "GetLastProcessedBlock=%d, polled tip %d", lpb, P)
	}
	var answers []string
	maxX := int(w.n) + 1
	for X := 0; X <= maxX; X++ {
		got, err := w.cur.GetFirstGERAfterL1InfoTreeIndex(ctx, uint32(X))
		if err != nil && !errors.Is(err, db.ErrNotFound) {
			w.fail(m+"/query-error", "GetFirstGERAfterL1InfoTreeIndex(%d): %v", X, err)
			continue
		}
		if err == nil {
			answers = append(answers, fmt.Sprintf("%d→%d", X, got.L1InfoTreeIndex))
			w.sound(m, X, got, P, pres)
			continue
		}
		answers = append(answers, fmt.Sprintf("%d→∅", X))
		// completeness: blame the qualifying root with the smallest index
		best := -1
		for i := range pres {
			if i >= X && (best < 0 || i < best) {
				best = i
			}
		}
		if best < 0 {
			continue
		}
		b := pres[best]
		w.fail(w.completenessKey(m, best, b, P),
			"query X=%d returned not-found, but GER#%d (index %d ≥ %d) was injected in canonical block %d ≤ polled tip %d and not removed since",
			X, best, best, X, b, P)
	}
	w.c.Obs("quiescent tip=%d lpb=%d life=%d answers=%v", P, lpb, w.life, answers)
	w.c.State(fmt.Sprintf("%s|%d|%d|%v|%d|%v", evs(w.canon[1:]), P, lpb, answers, w.life, w.forked))
	if len(pres) > 0 {
		w.c.Witness("quiescent_points_with_present_roots")
		w.c.NonTrivial()
	}
}

func (w *world) sound(m string, X int, got lastgersync.GlobalExitRootInfo, P uint64, pres map[int]uint64) {
	idx := int(got.L1InfoTreeIndex)
	if idx < X {
		w.fail(m+"/soundness/index-below-requested", "query X=%d returned index %d", X, idx)
	}
	if i, ok := indexOfGER[got.GlobalExitRoot]; !ok || i != idx {
		w.fail(m+"/soundness/root-index-pair-not-in-l1-info-tree", "query X=%d returned root %s with index %d; the L1 info tree has that root at %d (known=%v)",
			X, got.GlobalExitRoot.Hex()[:10], idx, i, ok)
		return
	}
	if _, ok := pres[idx]; ok {
		for i := range pres {
			if i >= X && i < idx { // allowed by the property as stated; counted to show what the reading costs
				w.c.Witness("answers_that_are_not_the_smallest_qualifying_index")
				break
			}
		}
		return
	}
	// not present: find out why
	var ins, rem uint64
	for b := uint64(1); b <= P; b++ {
		if e := w.canon[b]; e.I == idx && e.K == '+' {
			ins, rem = b, 0
		} else if e.I == idx && e.K == '-' {
			rem = b
		}
	}
	if ins == 0 {
		key := "/soundness/never-injected-root-returned"
		if w.droppedInsert[idx] {
			key = "/soundness/root-injected-only-in-dropped-block-returned"
		}
		w.fail(m+key, "query X=%d returned GER#%d, which no canonical block ≤ polled tip %d injects", X, idx, P)
		return
	}
	key := "/soundness/removed-root-still-returned" // the removal was served to the node
	if m == "pp" {
		switch h, ok := w.fetched[rem]; {
		case ok && h == w.chain.Hash(rem):
		case ok:
			key = "/soundness/removal-in-reorged-block-not-refetched"
		case w.startBlocks[rem]:
			key = "/soundness/removal-in-start-block-never-fetched"
		default:
			key = "/soundness/removal-in-block-passed-over-by-poll-never-fetched"
		}
	}
	w.fail(m+key, "query X=%d returned GER#%d, injected in block %d but removed in canonical block %d ≤ polled tip %d", X, idx, ins, rem, P)
}

func (w *world) completenessKey(m string, idx int, b, P uint64) string {
	if m == "pp" {
		switch h, ok := w.fetched[b]; {
		case ok && h == w.chain.Hash(b):
			if w.droppedRemoval[idx] {
				return "ger/removal-in-dropped-block-not-undone"
			}
			return "pp/completeness/root-of-fetched-block-not-returned"
		case ok:
			return "pp/completeness/reorged-block-not-refetched"
		case w.startBlocks[b]:
			return "pp/completeness/start-block-never-fetched"
		default:
			return "pp/completeness/block-passed-over-by-poll-never-fetched"
		}
	}
	for t := b; t <= P; t++ {
		if h, ok := w.examined[t]; ok && h == w.chain.Hash(t) {
			return "fep/completeness/root-present-at-examined-tip-not-returned"
		}
	}
	if P == w.lifeStart {
		return "fep/completeness/tip-equal-to-start-block-not-examined"
	}
	return "fep/completeness/tip-not-examined"
}

func (w *world) fail(key, format string, a ...any) {
	msg := fmt.Sprintf(format, a...)
	if w.reported[key+msg] {
		return
	}
	w.reported[key+msg] = true
	w.c.Failf(key, "%s: %s (schedule: %s)", w.p, msg, strings.Join(w.trace, " "))
}

// ---------------------------------------------------------------------------------------------

func main() {
	if t := os.Getenv("C16_LIST"); t != "" { // development aid: list the units of a tier
		for i, u := range units(t) {
			fmt.Println(i, u.Name)
		}
		return
	}
	mc.Main(mc.Spec{
		ID: "C16", Level: "model_checking",
		Units:              units,
		Batch:              func(string) int { return 40 },
		Run:                run,
		Bound:              func(_ string, u mc.Unit) int { return u.Params.(params).Bound },
		Setup:              func(string) { kit.Quiet() },
		MaxEvalsPerProcess: 1000, // every lastgersync.New leaks ~3 descriptors (RunMigrations keeps a handle)
		Rule: "unit = (mode PP|FEP, L2 history of GER events, restart budget[, fork point + new fork content + detector model]); choice points at the gates of the real " +
			"node goroutines (every L2 RPC, every AddBlockToTrack): how far the tip has moved before the first poll of a download, which event happens at a quiescent point " +
			"(tip advances by 1..all remaining, restart, fork, detector check, end), crash before the commit of a delivered block, fork / detector check before any RPC. " +
			"All combinations explored (unbounded DFS). Oracle at every quiescent point for every X in 0..N+1. non-trivial = a quiescent point with at least one present root; " +
			"states = distinct (canonical chain, polled tip, last processed block, all answers, life) at quiescent points; transitions = released gates",
		Assumptions: []string{
			"'first ... at or after X' is read as the property states it: any root with index >= X that is present qualifies (the code's doc comment does not promise the smallest index); ORDER BY is therefore not constrained",
			"the tip moves only where the node can observe it: before the first poll of a download and at quiescent points (a fresh poll after work that sees k new blocks is the same observation as a quiescent poll that sees them)",
			"restarts happen at quiescent points and between the delivery of a block and its commit (ProcessBlock is one SQLite transaction; SQLite's atomic commit is trusted); the spare node object was constructed before the bubble on the same file",
			"the driver's AddBlockToTrack/ProcessBlock of a delivered block runs before the downloader's next RPC is answered (the running downloader never reads what the driver writes)",
			"detector 'ideal' reports the first replaced block whether or not it was tracked; detector 'tracked' reports the first tracked block whose hash changed (what the real detector does) and nothing if no tracked block changed",
			"FEP: histories without removals (the FEP manager has no removal); eth_call is answered from the L2 state at the visible tip",
			"at most one GER event per L2 block; L1 info tree = fixed list of N+1 leaves; retry limit disabled (production default -1); periods 1 ms of fake time",
		},
		Bounds: func(tier string) map[string]any {
			var cl []string
			for _, x := range classes(tier) {
				d := fmt.Sprintf("%s N=%d restarts<=%d", x.Mode, x.N, x.Restarts)
				if x.Fork {
					d += fmt.Sprintf(" + one reorg (fork at every block, depth 1..2 when it happens, every new fork content, detectors %v)", x.Dets)
				}
				if x.Bound >= 0 {
					d += fmt.Sprintf(" [deviation bound %d: at most %d non-default choices per execution]", x.Bound, x.Bound)
				} else {
					d += " [whole choice tree]"
				}
				cl = append(cl, d)
			}
			return map[string]any{"block_kinds_pp": kindsPP, "block_kinds_fep": kindsFEP, "unit_classes": cl,
				"tip_advance": "0..all remaining at the first poll of a download after a restart/reorg, 1..all remaining at quiescence",
				"l1_info_lag": "PP histories without fork, N<=2 (quick) / N<=4 (thorough): at most one 'leaf not indexed yet' answer of the L1 info querier while an insertion log is parsed (choice point at every such call)"}
		},
	})
}
