package main

import (
	"fmt"
	"os"
	"time"

	"verif/h/kit"
	sk "verif/h/storekit"
)

func main() {
	kit.Quiet()
	dir := sk.ScratchDir()
	defer os.RemoveAll(dir)
	for _, k := range sk.Kinds {
		t0 := time.Now()
		var n *sk.Node
		for i := 0; i < 20; i++ {
			n = sk.Open(k, dir)
			if i < 19 {
				n.Close()
			}
		}
		tOpen := time.Since(t0) / 20
		ch := sk.NewChain(k)
		t0 = time.Now()
		for i := 0; i < 4; i++ {
			if err := n.Process(ch.Next(sk.BlockKinds[k][1+i%3], 0)); err != nil {
				panic(err)
			}
		}
		tProc := time.Since(t0) / 4
		t0 = time.Now()
		var o []sk.Obs
		for i := 0; i < 10; i++ {
			o = n.Observe(ch)
		}
		tObs := time.Since(t0) / 10
		t0 = time.Now()
		for i := 0; i < 10; i++ {
			n.Restart()
		}
		tRe := time.Since(t0) / 10
		fmt.Printf("%s open=%v process=%v observe=%v (%d lines) restart=%v\n", k, tOpen, tProc, tObs, len(o), tRe)
		n.Close()
	}
}

func init() {
	if os.Getenv("SKPROF") == "" {
		return
	}
	kit.Quiet()
	dir := sk.ScratchDir()
	defer os.RemoveAll(dir)
	n := sk.Open(sk.Bridge, dir)
	ch := sk.NewChain(sk.Bridge)
	for i := 0; i < 4; i++ {
		n.Process(ch.Next(sk.BlockKinds[sk.Bridge][1+i%3], 0))
	}
	agg := map[string]time.Duration{}
	cnt := map[string]int{}
	for i := 0; i < 10; i++ {
		for m, d := range n.ObserveTimed(ch) {
			agg[m] += d
			cnt[m]++
		}
	}
	for m, d := range agg {
		fmt.Printf("%-40s %v\n", m, d/10)
	}
	os.Exit(0)
}
