// evmconf — conformance of the reference contract models (verif/h/ref: BridgeLeaf, DepositTree,
// Merkle, L1InfoLeaf, GER, L1, L1Bridge) and of the log packer (verif/h/l1pack) with the REAL contract
// bytecode, executed in go-ethereum's in-process chain (ethclient/simulated). DESIGN §5.4.
//
// Deployed: PolygonZkEVMBridgeV2 behind the repository's transparent proxy, PolygonZkEVMGlobalExitRootV2
// (A: driven by the bridge and by the rollup-manager mock; B: driven directly by two accounts in the
// bridge and rollup-manager roles; C: behind a proxy, for the InitL1InfoRootMap announcement),
// the repository's VerifyBatchesMock, an ERC-20.
//
// Every operation sequence over the alphabets below up to --tier's length is replayed (depth-first:
// one transaction per block, the chain is forked back to the parent block for the next sibling);
// after every transaction the contracts' views are compared with the models and the emitted logs
// are compared byte for byte (address, topics, data, order) with the packed reference events.
// Additionally every sequence of length <= 2 (quick) / 3 (thorough) is replayed with all its
// transactions in ONE block, and the pure functions are compared on field-boundary alphabets.
package main

import (
	"bytes"
	"context"
	"crypto/ecdsa"
	"flag"
	"fmt"
	"math/big"
	"os"
	"runtime"
	"sort"
	"strings"
	"sync"
	"time"

	"github.com/0xPolygon/cdk-contracts-tooling/contracts/fep/etrog/erc20permitmock"
	"github.com/0xPolygon/cdk-contracts-tooling/contracts/pp/l2-sovereign-chain/polygonzkevmbridgev2"
	"github.com/0xPolygon/cdk-contracts-tooling/contracts/pp/l2-sovereign-chain/polygonzkevmglobalexitrootv2"
	"github.com/agglayer/aggkit/test/contracts/transparentupgradableproxy"
	"github.com/agglayer/aggkit/test/contracts/verifybatchesmock"
	"github.com/ethereum/go-ethereum/accounts/abi"
	"github.com/ethereum/go-ethereum/accounts/abi/bind"
	"github.com/ethereum/go-ethereum/common"
	"github.com/ethereum/go-ethereum/core/types"
	"github.com/ethereum/go-ethereum/crypto"
	"github.com/ethereum/go-ethereum/eth/ethconfig"
	"github.com/ethereum/go-ethereum/ethclient/simulated"
	gethlog "github.com/ethereum/go-ethereum/log"
	"github.com/ethereum/go-ethereum/node"
	"verif/h/l1pack"
	"verif/h/ref"
)

var bg = context.Background()

// ---------------------------------------------------------------------------------------------
// Statistics and mismatches

type stats struct {
	mu          sync.Mutex
	sequences   int64 // operation sequences replayed one transaction per block
	sameBlock   int64 // operation sequences replayed inside one block
	txs         int64
	comparisons int64
	logs        int64
	pure        int64
	mismatches  []string
	nMismatch   int64
}

func (s *stats) mismatch(format string, args ...any) {
	s.mu.Lock()
	defer s.mu.Unlock()
	s.nMismatch++
	if len(s.mismatches) < 25 {
		s.mismatches = append(s.mismatches, fmt.Sprintf(format, args...))
	}
}

func (s *stats) add(o *stats) {
	s.mu.Lock()
	defer s.mu.Unlock()
	s.sequences += o.sequences
	s.sameBlock += o.sameBlock
	s.txs += o.txs
	s.comparisons += o.comparisons
	s.logs += o.logs
	s.pure += o.pure
}

func must(err error, what string) {
	if err != nil {
		fmt.Fprintf(os.Stderr, "evmconf: harness error: %s: %v\n", what, err)
		os.Exit(2)
	}
}

// ---------------------------------------------------------------------------------------------
// Environment: one simulated chain with the contracts deployed

type acct struct {
	key  *ecdsa.PrivateKey
	addr common.Address
}

func mkAcct(seed byte) *acct {
	b := bytes.Repeat([]byte{seed}, 32)
	k, err := crypto.ToECDSA(b)
	must(err, "key")
	return &acct{k, crypto.PubkeyToAddress(k.PublicKey)}
}

var (
	deployer   = mkAcct(0x11)
	user       = mkAcct(0x22) // sends every bridge / verify transaction (= aggregator in VerifyBatches)
	bridgeRole = mkAcct(0x33) // plays the bridge for GER contract B
	rmRole     = mkAcct(0x44) // plays the rollup manager for GER contract B
	maxU256    = new(big.Int).Sub(new(big.Int).Lsh(big.NewInt(1), 256), big.NewInt(1))
	tokenName  = "Verif Token"
	tokenSym   = "VRF"
)

type env struct {
	be *simulated.Backend
	cl simulated.Client

	bridge     *polygonzkevmbridgev2.Polygonzkevmbridgev2
	bridgeAddr common.Address
	gerA, gerB *polygonzkevmglobalexitrootv2.Polygonzkevmglobalexitrootv2
	gerAAddr   common.Address
	gerBAddr   common.Address
	mock       *verifybatchesmock.Verifybatchesmock
	mockAddr   common.Address
	token      *erc20permitmock.Erc20permitmock
	tokenAddr  common.Address
	tokenMeta  []byte

	packA, packB *l1pack.Packer
	base         common.Hash // block after deployment
	baseNonces   map[common.Address]uint64
	initLogs     []*types.Log // logs of deploying GER contract C behind a proxy (initialize())
	gerCAddr     common.Address
}

func (e *env) opts(a *acct, nonce uint64, value *big.Int, gas uint64) *bind.TransactOpts {
	o, err := bind.NewKeyedTransactorWithChainID(a.key, big.NewInt(1337))
	must(err, "transactor")
	o.Nonce = new(big.Int).SetUint64(nonce)
	o.GasLimit = gas
	o.GasPrice = big.NewInt(2_000_000_000) // legacy pricing: the binding then makes no extra RPC call
	o.Value = value
	o.Context = bg
	return o
}

func newEnv() *env {
	bal, _ := new(big.Int).SetString("1000000000000000000000000000", 10)
	alloc := types.GenesisAlloc{}
	for _, a := range []*acct{deployer, user, bridgeRole, rmRole} {
		alloc[a.addr] = types.Account{Balance: bal}
	}
	// the block builder gives up filling a block after Miner.Recommit (2 s by default) of wall time and
	// seals a partial block; on a loaded machine that truncates blocks, so the allowance is lifted
	e := &env{be: simulated.NewBackend(alloc, simulated.WithBlockGasLimit(999999999999999999),
		func(_ *node.Config, c *ethconfig.Config) { c.Miner.Recommit = time.Hour })}
	e.cl = e.be.Client()
	e.be.Commit()
	const deployGas = 30_000_000
	n := uint64(0)
	next := func() *bind.TransactOpts {
		e.waitPromoted(deployer, n)
		n++
		return e.opts(deployer, n-1, nil, deployGas)
	}
	// nonces: 0 bridge impl, 1 bridge proxy, 2 mock, 3 GER A, 4 GER B, 5 token, 6 GER C impl, 7 GER C proxy
	e.bridgeAddr = crypto.CreateAddress(deployer.addr, 1)
	e.mockAddr = crypto.CreateAddress(deployer.addr, 2)
	e.gerAAddr = crypto.CreateAddress(deployer.addr, 3)
	bridgeImpl, _, _, err := polygonzkevmbridgev2.DeployPolygonzkevmbridgev2(next(), e.cl)
	must(err, "deploy bridge implementation")
	bridgeABI, err := polygonzkevmbridgev2.Polygonzkevmbridgev2MetaData.GetAbi()
	must(err, "bridge abi")
	initData, err := bridgeABI.Pack("initialize", uint32(0), common.Address{}, uint32(0), e.gerAAddr, e.mockAddr, []byte{})
	must(err, "pack initialize")
	pa, _, _, err := transparentupgradableproxy.DeployTransparentupgradableproxy(next(), e.cl, bridgeImpl, deployer.addr, initData)
	must(err, "deploy bridge proxy")
	ma, _, mock, err := verifybatchesmock.DeployVerifybatchesmock(next(), e.cl, e.gerAAddr)
	must(err, "deploy VerifyBatchesMock")
	ga, _, gerA, err := polygonzkevmglobalexitrootv2.DeployPolygonzkevmglobalexitrootv2(next(), e.cl, e.mockAddr, e.bridgeAddr)
	must(err, "deploy GER A")
	gb, _, gerB, err := polygonzkevmglobalexitrootv2.DeployPolygonzkevmglobalexitrootv2(next(), e.cl, rmRole.addr, bridgeRole.addr)
	must(err, "deploy GER B")
	ta, _, token, err := erc20permitmock.DeployErc20permitmock(next(), e.cl, tokenName, tokenSym, user.addr, maxU256)
	must(err, "deploy ERC-20")
	if pa != e.bridgeAddr || ma != e.mockAddr || ga != e.gerAAddr {
		must(fmt.Errorf("precalculated addresses differ"), "deploy")
	}
	e.gerBAddr, e.tokenAddr, e.mock, e.gerA, e.gerB, e.token = gb, ta, mock, gerA, gerB, token
	e.bridge, err = polygonzkevmbridgev2.NewPolygonzkevmbridgev2(e.bridgeAddr, e.cl)
	must(err, "bind bridge")
	// GER contract C behind a proxy: initialize() announces the initial tree (InitL1InfoRootMap)
	gcImpl, _, _, err := polygonzkevmglobalexitrootv2.DeployPolygonzkevmglobalexitrootv2(next(), e.cl, rmRole.addr, bridgeRole.addr)
	must(err, "deploy GER C implementation")
	gerABI, err := polygonzkevmglobalexitrootv2.Polygonzkevmglobalexitrootv2MetaData.GetAbi()
	must(err, "ger abi")
	gerInit, err := gerABI.Pack("initialize")
	must(err, "pack ger initialize")
	gcAddr, gcTx, _, err := transparentupgradableproxy.DeployTransparentupgradableproxy(next(), e.cl, gcImpl, deployer.addr, gerInit)
	must(err, "deploy GER C proxy")
	e.gerCAddr = gcAddr
	// the user approves the bridge for the token
	_, err = token.Approve(e.opts(user, 0, nil, 200_000), e.bridgeAddr, maxU256)
	must(err, "approve")
	e.waitPromoted(deployer, n)
	e.waitPromoted(user, 1)
	e.be.Commit()
	rc, err := e.cl.TransactionReceipt(bg, gcTx.Hash())
	must(err, "receipt of GER C proxy deployment")
	if rc.Status == types.ReceiptStatusSuccessful {
		e.initLogs = rc.Logs
	}
	for _, a := range []common.Address{e.bridgeAddr, e.mockAddr, e.gerAAddr, e.gerBAddr, e.tokenAddr} {
		code, err := e.cl.CodeAt(bg, a, nil)
		must(err, "CodeAt")
		if len(code) == 0 {
			must(fmt.Errorf("no code at %s", a.Hex()), "deployment")
		}
	}
	gm, err := e.bridge.GlobalExitRootManager(&bind.CallOpts{Context: bg})
	must(err, "bridge.globalExitRootManager")
	if gm != e.gerAAddr {
		must(fmt.Errorf("bridge not initialised: GER manager %s", gm.Hex()), "deployment")
	}
	args := abi.Arguments{{Type: mustType("string")}, {Type: mustType("string")}, {Type: mustType("uint8")}}
	e.tokenMeta, err = args.Pack(tokenName, tokenSym, uint8(18))
	must(err, "token metadata")
	e.packA = l1pack.New(e.gerAAddr, e.mockAddr, e.bridgeAddr)
	e.packB = l1pack.New(e.gerBAddr, common.Address{}, common.Address{})
	h, err := e.cl.HeaderByNumber(bg, nil)
	must(err, "header")
	e.base = h.Hash()
	e.baseNonces = map[common.Address]uint64{user.addr: 1, bridgeRole.addr: 0, rmRole.addr: 0}
	return e
}

func mustType(t string) abi.Type {
	ty, err := abi.NewType(t, "", nil)
	must(err, "abi type")
	return ty
}

// waitPromoted blocks until the pool has moved the sender's transactions up to nonce-1 from its queue
// to the executable set. Needed only when several transactions of one sender go into one block: the
// pool promotes asynchronously, and the forced pool reset that Commit performs does not promote a
// queued transaction that follows already-promoted ones (it restarts from the state nonce), so the
// block would silently be sealed without it.
func (e *env) waitPromoted(a *acct, nonce uint64) {
	deadline := time.Now().Add(60 * time.Second)
	for {
		n, err := e.cl.PendingNonceAt(bg, a.addr)
		must(err, "PendingNonceAt")
		if n >= nonce {
			return
		}
		if time.Now().After(deadline) {
			must(fmt.Errorf("transaction with nonce %d of %s not promoted", nonce-1, a.addr.Hex()), "waitPromoted")
		}
		time.Sleep(100 * time.Microsecond)
	}
}

// forkTo makes block h the head again and leaves the transaction pool empty and synchronised with
// it. The first Fork rewinds the chain; the pool then resets in the background and re-injects the
// transactions of the dropped blocks; the second Fork call begins by waiting for that reset (and is
// expected to refuse because of those re-injected transactions); Rollback then empties the pool.
func (e *env) forkTo(h common.Hash) {
	must(e.be.Fork(h), "fork")
	_ = e.be.Fork(h)
	e.be.Rollback()
}

// ---------------------------------------------------------------------------------------------
// Model of one chain state

type model struct {
	l1       *ref.L1       // GER contract A + rollup-manager mock
	br       *ref.L1Bridge // bridge
	l1B      *ref.L1       // GER contract B
	tokenBal *big.Int      // user's token balance
	newRoots map[uint32]uint64
	nonces   map[common.Address]uint64
	nOps     int
}

func newModel(e *env) *model {
	m := &model{l1: ref.NewL1(), br: &ref.L1Bridge{NetworkID: 0}, l1B: ref.NewL1(), tokenBal: new(big.Int).Set(maxU256),
		newRoots: map[uint32]uint64{}, nonces: map[common.Address]uint64{}}
	for k, v := range e.baseNonces {
		m.nonces[k] = v
	}
	return m
}

func (m *model) clone() *model {
	n := &model{l1: m.l1.Clone(), br: m.br.Clone(), l1B: m.l1B.Clone(), tokenBal: new(big.Int).Set(m.tokenBal),
		newRoots: map[uint32]uint64{}, nonces: map[common.Address]uint64{}, nOps: m.nOps}
	for k, v := range m.newRoots {
		n.newRoots[k] = v
	}
	for k, v := range m.nonces {
		n.nonces[k] = v
	}
	return n
}

// prepared is one operation instantiated in a model state: how to send it and how the model moves.
type prepared struct {
	sender *acct
	value  *big.Int
	send   func(o *bind.TransactOpts) (*types.Transaction, error)
	apply  func(ctx ref.BlockCtx) []ref.L1Event // moves the model, returns the expected events in order
}

type operation struct {
	name    string
	world   byte // 'A' or 'B'
	prepare func(e *env, m *model, depth int) prepared
}

func h(tag string, xs ...uint64) common.Hash {
	buf := []byte(tag)
	for _, x := range xs {
		buf = append(buf, byte(x>>56), byte(x>>48), byte(x>>40), byte(x>>32), byte(x>>24), byte(x>>16), byte(x>>8), byte(x))
	}
	return ref.Keccak(buf)
}

var (
	destNets  = []uint32{1, 0xffffffff, 7, 2, 0x80000000}
	destAddrs = []common.Address{{}, common.HexToAddress("0xffffffffffffffffffffffffffffffffffffffff"), common.HexToAddress("0x00000000000000000000000000000000000000f0"),
		common.BytesToAddress(h("dest").Bytes()[:20])}
	msgValues  = []*big.Int{big.NewInt(0), big.NewInt(1), new(big.Int).Exp(big.NewInt(10), big.NewInt(18), nil), new(big.Int).Lsh(big.NewInt(1), 64)}
	tokenAmts  = []*big.Int{nil /* depth 0: whole balance = 2^256-1 */, big.NewInt(1), new(big.Int).Lsh(big.NewInt(1), 250), big.NewInt(0), new(big.Int).Lsh(big.NewInt(1), 64)}
	numBatches = []uint64{0, 1, 7, 1 << 32, 1<<64 - 1}
	meta32     = []byte("0123456789abcdef0123456789abcdef")
)

func msgOp(name string, meta []byte, force bool, valueIdx int) operation {
	return operation{name: name, world: 'A', prepare: func(e *env, m *model, d int) prepared {
		dn, da, val := destNets[(d+len(meta))%len(destNets)], destAddrs[(d+valueIdx)%len(destAddrs)], msgValues[(valueIdx+d)%len(msgValues)]
		return prepared{sender: user, value: val,
			send: func(o *bind.TransactOpts) (*types.Transaction, error) {
				return e.bridge.BridgeMessage(o, dn, da, force, meta)
			},
			apply: func(ctx ref.BlockCtx) []ref.L1Event {
				return m.br.BridgeMessage(user.addr, dn, da, val, meta, force, m.l1, ctx)
			}}
	}}
}

func etherOp(name string, amount *big.Int, force bool) operation {
	return operation{name: name, world: 'A', prepare: func(e *env, m *model, d int) prepared {
		dn, da := destNets[(d+1)%len(destNets)], destAddrs[(d+2)%len(destAddrs)]
		return prepared{sender: user, value: amount,
			send: func(o *bind.TransactOpts) (*types.Transaction, error) {
				return e.bridge.BridgeAsset(o, dn, da, amount, common.Address{}, force, nil)
			},
			apply: func(ctx ref.BlockCtx) []ref.L1Event {
				// native gas token: origin (gasTokenNetwork, gasTokenAddress) = (0, 0x0), metadata = gasTokenMetadata = empty
				return m.br.BridgeAsset(0, common.Address{}, dn, da, amount, nil, force, m.l1, ctx)
			}}
	}}
}

func tokenOp(name string, force bool) operation {
	return operation{name: name, world: 'A', prepare: func(e *env, m *model, d int) prepared {
		dn, da := destNets[d%len(destNets)], destAddrs[(d+1)%len(destAddrs)]
		amt := tokenAmts[d%len(tokenAmts)]
		if amt == nil || amt.Cmp(m.tokenBal) > 0 {
			amt = new(big.Int).Set(m.tokenBal)
		}
		return prepared{sender: user,
			send: func(o *bind.TransactOpts) (*types.Transaction, error) {
				return e.bridge.BridgeAsset(o, dn, da, amt, e.tokenAddr, force, nil)
			},
			apply: func(ctx ref.BlockCtx) []ref.L1Event {
				m.tokenBal.Sub(m.tokenBal, amt)
				// a token native to this network: origin (networkID, token), metadata = abi.encode(name, symbol, decimals)
				return m.br.BridgeAsset(0, e.tokenAddr, dn, da, amt, e.tokenMeta, force, m.l1, ctx)
			}}
	}}
}

func verifyOp(name string, rollup uint32, root byte, updateGER, trusted bool) operation {
	return operation{name: name, world: 'A', prepare: func(e *env, m *model, d int) prepared {
		var exit ref.Hash
		switch root {
		case 'n':
			exit = h("local-exit-root", uint64(rollup), m.newRoots[rollup]+1)
		case 's':
			exit = m.l1.RollupIDToLastExitRoot[rollup]
		}
		nb, sr := numBatches[(d+int(rollup))%len(numBatches)], h("state-root", uint64(d), uint64(rollup))
		return prepared{sender: user,
			send: func(o *bind.TransactOpts) (*types.Transaction, error) {
				if trusted {
					return e.mock.VerifyBatchesTrustedAggregator(o, rollup, nb, exit, sr, updateGER)
				}
				return e.mock.VerifyBatches(o, rollup, nb, exit, sr, updateGER)
			},
			apply: func(ctx ref.BlockCtx) []ref.L1Event {
				if root == 'n' {
					m.newRoots[rollup]++
				}
				return m.l1.VerifyBatches(rollup, nb, exit, sr, updateGER, trusted, user.addr, ctx)
			}}
	}}
}

var gerBValues = []common.Hash{{}, common.HexToHash("0xffffffffffffffffffffffffffffffffffffffffffffffffffffffffffffffff"), h("root-a"), h("root-b")}

func gerBOp(asBridge bool, v int) operation {
	role, who := "rm", rmRole
	if asBridge {
		role, who = "bridge", bridgeRole
	}
	return operation{name: fmt.Sprintf("gerB.updateExitRoot(%s,v%d)", role, v), world: 'B', prepare: func(e *env, m *model, d int) prepared {
		return prepared{sender: who,
			send: func(o *bind.TransactOpts) (*types.Transaction, error) { return e.gerB.UpdateExitRoot(o, gerBValues[v]) },
			apply: func(ctx ref.BlockCtx) []ref.L1Event {
				if asBridge {
					return m.l1B.UpdateExitRootFromBridge(gerBValues[v], ctx)
				}
				return m.l1B.UpdateExitRootFromRollupManager(gerBValues[v], ctx)
			}}
	}}
}

var worldA = []operation{
	msgOp("bridgeMessage(meta=empty,force)", nil, true, 0),
	msgOp("bridgeMessage(meta=1B,noforce)", []byte{0xab}, false, 1),
	msgOp("bridgeMessage(meta=32B,force)", meta32, true, 2),
	msgOp("bridgeMessage(meta=33B,force)", append(append([]byte{}, meta32...), 'X'), true, 3),
	etherOp("bridgeAsset(ether,0,force)", big.NewInt(0), true),
	etherOp("bridgeAsset(ether,2^64,noforce)", new(big.Int).Lsh(big.NewInt(1), 64), false),
	tokenOp("bridgeAsset(erc20,force)", true),
	{name: "bridge.updateGlobalExitRoot()", world: 'A', prepare: func(e *env, m *model, d int) prepared {
		return prepared{sender: user,
			send:  func(o *bind.TransactOpts) (*types.Transaction, error) { return e.bridge.UpdateGlobalExitRoot(o) },
			apply: func(ctx ref.BlockCtx) []ref.L1Event { return m.br.UpdateGlobalExitRoot(m.l1, ctx) }}
	}},
	verifyOp("verifyBatches(r1,new,+GER)", 1, 'n', true, false),
	verifyOp("verifyBatches(r1,same,+GER)", 1, 's', true, false),
	verifyOp("verifyBatchesTrusted(r2,new,-GER)", 2, 'n', false, true),
	verifyOp("verifyBatchesTrusted(r6,new,+GER)", 6, 'n', true, true),
	verifyOp("verifyBatches(r3,zero,+GER)", 3, 'z', true, false),
}

var worldB = func() []operation {
	var ops []operation
	for _, b := range []bool{true, false} {
		for v := range gerBValues {
			ops = append(ops, gerBOp(b, v))
		}
	}
	return ops
}()

// ---------------------------------------------------------------------------------------------
// Executing and comparing

type runner struct {
	e  *env
	st *stats
}

func (r *runner) eq(path, what string, got, want any) {
	r.st.comparisons++
	if fmt.Sprint(got) != fmt.Sprint(want) {
		r.st.mismatch("%s: %s: contract %v, model %v", path, what, got, want)
	}
}

func (r *runner) watched(a common.Address) bool {
	return a == r.e.bridgeAddr || a == r.e.gerAAddr || a == r.e.gerBAddr || a == r.e.mockAddr
}

// compareLogs: the logs of the watched contracts in the receipt vs the packed reference events.
func (r *runner) compareLogs(path string, world byte, rc *types.Receipt, evs []ref.L1Event) {
	var got []*types.Log
	for _, l := range rc.Logs {
		if r.watched(l.Address) {
			got = append(got, l)
		}
	}
	pk := r.e.packA
	if world == 'B' {
		pk = r.e.packB
	}
	want := pk.Logs(evs)
	r.st.comparisons++
	if len(got) != len(want) {
		r.st.mismatch("%s: contract emitted %d logs, model %d events (%v)", path, len(got), len(want), kinds(evs))
		return
	}
	for i := range got {
		r.st.logs++
		r.st.comparisons++
		if got[i].Address != want[i].Address || !sameTopics(got[i].Topics, want[i].Topics) || !bytes.Equal(got[i].Data, want[i].Data) {
			r.st.mismatch("%s: log %d (%s) differs:\n   contract: addr %s topics %v data %x\n   packed:   addr %s topics %v data %x", path, i, evs[i].Kind,
				got[i].Address.Hex(), got[i].Topics, got[i].Data, want[i].Address.Hex(), want[i].Topics, want[i].Data)
		}
	}
}

func kinds(evs []ref.L1Event) []string {
	out := make([]string, len(evs))
	for i, e := range evs {
		out[i] = e.Kind
	}
	return out
}

func sameTopics(a, b []common.Hash) bool {
	if len(a) != len(b) {
		return false
	}
	for i := range a {
		if a[i] != b[i] {
			return false
		}
	}
	return true
}

// compareState: every view of the contracts vs the model.
func (r *runner) compareState(path string, m *model, world byte, ctx ref.BlockCtx, leavesBefore int) {
	e := r.e
	co := &bind.CallOpts{Context: bg}
	if world == 'B' {
		r.compareGER(path+" gerB", e.gerB, m.l1B, co, ctx, leavesBefore)
		return
	}
	root, err := e.bridge.GetRoot(co)
	must(err, "bridge.getRoot")
	r.eq(path, "bridge.getRoot()", common.Hash(root), m.br.Tree.Root())
	dc, err := e.bridge.DepositCount(co)
	must(err, "bridge.depositCount")
	r.eq(path, "bridge.depositCount", dc, m.br.Tree.DepositCount)
	lu, err := e.bridge.LastUpdatedDepositCount(co)
	must(err, "bridge.lastUpdatedDepositCount")
	r.eq(path, "bridge.lastUpdatedDepositCount", lu, m.br.LastUpdatedDepositCount)
	rer, err := e.mock.GetRollupExitRoot(co)
	must(err, "mock.getRollupExitRoot")
	r.eq(path, "rollupManager.getRollupExitRoot()", common.Hash(rer), m.l1.RollupExitRoot())
	rcnt, err := e.mock.RollupCount(co)
	must(err, "mock.rollupCount")
	r.eq(path, "rollupManager.rollupCount", rcnt, m.l1.RollupCount)
	r.compareGER(path+" gerA", e.gerA, m.l1, co, ctx, leavesBefore)
}

func (r *runner) compareGER(path string, g *polygonzkevmglobalexitrootv2.Polygonzkevmglobalexitrootv2, l *ref.L1, co *bind.CallOpts,
	ctx ref.BlockCtx, leavesBefore int) {
	v, err := g.GetLastGlobalExitRoot(co)
	must(err, "getLastGlobalExitRoot")
	r.eq(path, "getLastGlobalExitRoot()", common.Hash(v), l.LastGlobalExitRoot())
	v, err = g.GetRoot(co)
	must(err, "ger.getRoot")
	r.eq(path, "getRoot() (L1 info root)", common.Hash(v), l.InfoRoot())
	n, err := g.DepositCount(co)
	must(err, "ger.depositCount")
	r.eq(path, "depositCount", n, l.InfoTree.DepositCount)
	v, err = g.LastMainnetExitRoot(co)
	must(err, "lastMainnetExitRoot")
	r.eq(path, "lastMainnetExitRoot", common.Hash(v), l.LastMainnetExitRoot)
	v, err = g.LastRollupExitRoot(co)
	must(err, "lastRollupExitRoot")
	r.eq(path, "lastRollupExitRoot", common.Hash(v), l.LastRollupExitRoot)
	for i := leavesBefore; i < len(l.Leaves); i++ {
		lf := l.Leaves[i]
		v, err = g.L1InfoRootMap(co, lf.Index+1)
		must(err, "l1InfoRootMap")
		r.eq(path, fmt.Sprintf("l1InfoRootMap(%d)", lf.Index+1), common.Hash(v), lf.Root)
		v, err = g.GetLeafValue(co, lf.GER, new(big.Int).SetBytes(lf.ParentHash[:]), lf.Timestamp)
		must(err, "getLeafValue")
		r.eq(path, fmt.Sprintf("getLeafValue of leaf %d", lf.Index), common.Hash(v), lf.Hash)
		seen, err := g.GlobalExitRootMap(co, lf.GER)
		must(err, "globalExitRootMap")
		r.eq(path, fmt.Sprintf("globalExitRootMap(GER of leaf %d) set", lf.Index), seen.Sign() != 0, true)
	}
}

// step sends one prepared operation in its own block and compares everything.
func (r *runner) step(path string, op operation, m *model, depth int) (head common.Hash) {
	e := r.e
	p := op.prepare(e, m, depth)
	tx, err := p.send(e.opts(p.sender, m.nonces[p.sender.addr], p.value, 3_000_000))
	must(err, path+": send")
	m.nonces[p.sender.addr]++
	e.be.Commit()
	rc, err := e.cl.TransactionReceipt(bg, tx.Hash())
	must(err, path+": receipt")
	hdr, err := e.cl.HeaderByHash(bg, rc.BlockHash)
	must(err, path+": header")
	r.st.txs++
	ctx := ref.BlockCtx{ParentHash: hdr.ParentHash, Timestamp: hdr.Time}
	before := len(m.l1.Leaves)
	if op.world == 'B' {
		before = len(m.l1B.Leaves)
	}
	evs := p.apply(ctx)
	m.nOps++
	r.eq(path, "transaction succeeded", rc.Status, types.ReceiptStatusSuccessful)
	if rc.Status == types.ReceiptStatusSuccessful {
		r.compareLogs(path, op.world, rc, evs)
		r.compareState(path, m, op.world, ctx, before)
	}
	return hdr.Hash()
}

// dfs explores every continuation of the node (head block, model) up to maxDepth operations.
func (r *runner) dfs(ops []operation, path []string, head common.Hash, m *model, depth, maxDepth int) {
	if depth == maxDepth {
		return
	}
	for _, op := range ops {
		m2 := m.clone()
		p2 := append(append([]string{}, path...), op.name)
		h2 := r.step(strings.Join(p2, " ; "), op, m2, depth)
		r.st.sequences++
		r.dfs(ops, p2, h2, m2, depth+1, maxDepth)
		r.e.forkTo(head)
	}
}

// sameBlock replays one sequence with all its transactions in one block.
func (r *runner) sameBlock(ops []operation, seq []int) {
	e := r.e
	names := make([]string, len(seq))
	for i, s := range seq {
		names[i] = ops[s].name
	}
	path := "[one block] " + strings.Join(names, " ; ")
	// pass 1 (on a shadow model, dummy block context): derive the parameters and send
	shadow := newModel(e)
	var txs []*types.Transaction
	for d, s := range seq {
		p := ops[s].prepare(e, shadow, d)
		tx, err := p.send(e.opts(p.sender, shadow.nonces[p.sender.addr], p.value, 3_000_000))
		must(err, path+": send")
		shadow.nonces[p.sender.addr]++
		e.waitPromoted(p.sender, shadow.nonces[p.sender.addr])
		p.apply(ref.BlockCtx{})
		txs = append(txs, tx)
	}
	e.be.Commit()
	// pass 2: the real block context
	m := newModel(e)
	var ctx ref.BlockCtx
	for d, s := range seq {
		rc, err := e.cl.TransactionReceipt(bg, txs[d].Hash())
		must(err, path+": receipt")
		if d == 0 {
			hdr, err := e.cl.HeaderByHash(bg, rc.BlockHash)
			must(err, path+": header")
			ctx = ref.BlockCtx{ParentHash: hdr.ParentHash, Timestamp: hdr.Time}
		}
		r.eq(path, fmt.Sprintf("transaction %d in the block, succeeded", d), fmt.Sprint(rc.TransactionIndex, rc.Status), fmt.Sprint(d, types.ReceiptStatusSuccessful))
		p := ops[s].prepare(e, m, d)
		evs := p.apply(ctx)
		r.st.txs++
		r.compareLogs(path, ops[s].world, rc, evs)
	}
	r.compareState(path, m, ops[0].world, ctx, 0)
	r.st.sameBlock++
	e.forkTo(e.base)
}

// ---------------------------------------------------------------------------------------------
// Pure functions on field-boundary alphabets

func (r *runner) pure() {
	e := r.e
	co := &bind.CallOpts{Context: bg}
	ff20 := common.HexToAddress("0xffffffffffffffffffffffffffffffffffffffff")
	ff32 := common.HexToHash("0xffffffffffffffffffffffffffffffffffffffffffffffffffffffffffffffff")
	metas := [][]byte{nil, {0x00}, meta32, append(append([]byte{}, meta32...), 'X'), e.tokenMeta}
	amounts := []*big.Int{big.NewInt(0), big.NewInt(1), new(big.Int).Lsh(big.NewInt(1), 64), new(big.Int).Lsh(big.NewInt(1), 255), maxU256}
	nets := []uint32{0, 1, 0xffffffff}
	addrs := []common.Address{{}, ff20, user.addr}
	for _, lt := range []uint8{0, 1, 255} {
		for _, on := range nets {
			for _, oa := range addrs {
				for _, dn := range nets {
					for _, da := range addrs {
						for _, am := range amounts {
							for _, md := range metas {
								got, err := e.bridge.GetLeafValue(co, lt, on, oa, dn, da, am, crypto.Keccak256Hash(md))
								must(err, "bridge.getLeafValue")
								r.st.pure++
								r.eq("pure", fmt.Sprintf("bridge.getLeafValue(%d,%d,%s,%d,%s,%s,keccak(%x))", lt, on, oa.Hex(), dn, da.Hex(), am, md),
									common.Hash(got), ref.BridgeLeaf(lt, on, oa, dn, da, am, md))
							}
						}
					}
				}
			}
		}
	}
	hs := []common.Hash{{}, ff32, h("x")}
	for _, g := range hs {
		for _, bh := range hs {
			for _, ts := range []uint64{0, 1, 258, 1 << 32, 1<<63 - 1, 1 << 63, 1<<64 - 1} {
				got, err := e.gerA.GetLeafValue(co, g, new(big.Int).SetBytes(bh[:]), ts)
				must(err, "ger.getLeafValue")
				r.st.pure++
				r.eq("pure", fmt.Sprintf("ger.getLeafValue(%s,%s,%d)", g.Hex(), bh.Hex(), ts), common.Hash(got), ref.L1InfoLeaf(g, bh, ts))
			}
		}
	}
	// Merkle proofs of the sparse reference tree, judged by the contracts' verifyMerkleProof / calculateRoot
	m := ref.NewMerkle()
	idx := []uint32{0, 1, 2, 5, 1 << 16, 0x7fffffff, 0xffffffff}
	for i, k := range idx {
		m.Set(k, h("leaf", uint64(i)))
	}
	root := m.Root()
	for _, k := range append(idx, 3, 0xfffffffe) {
		proof := m.Proof(k)
		var pr [32][32]byte
		for i := range proof {
			pr[i] = proof[i]
		}
		leaf := m.Leaves[k]
		ok, err := e.bridge.VerifyMerkleProof(co, leaf, pr, k, root)
		must(err, "bridge.verifyMerkleProof")
		r.st.pure++
		r.eq("pure", fmt.Sprintf("bridge.verifyMerkleProof(ref proof of index %d)", k), ok, true)
		cr, err := e.gerA.CalculateRoot(co, leaf, pr, k)
		must(err, "ger.calculateRoot")
		r.st.pure++
		r.eq("pure", fmt.Sprintf("ger.calculateRoot(ref proof of index %d)", k), common.Hash(cr), ref.Verify(leaf, proof, k))
		r.eq("pure", fmt.Sprintf("ref.Verify(ref proof of index %d) = ref root", k), ref.Verify(leaf, proof, k), root)
	}
	// the initial announcement of a GER contract deployed behind a proxy
	if e.initLogs == nil {
		fmt.Println("evmconf: note: GER contract behind a proxy could not be initialised; InitL1InfoRootMap log not covered")
		return
	}
	var got []*types.Log
	for _, l := range e.initLogs {
		if l.Address == e.gerCAddr && len(l.Topics) > 0 && l.Topics[0] == ref.Keccak([]byte("InitL1InfoRootMap(uint32,bytes32)")) {
			got = append(got, l)
		}
	}
	var empty ref.DepositTree
	want := l1pack.New(e.gerCAddr, common.Address{}, common.Address{}).Log(ref.L1Event{Emitter: ref.EmitterGER, Kind: ref.EvInitL1InfoRootMap,
		LeafCount: 0, CurrentL1InfoRoot: empty.Root()})
	r.st.comparisons++
	if len(got) != 1 || !sameTopics(got[0].Topics, want.Topics) || !bytes.Equal(got[0].Data, want.Data) {
		r.st.mismatch("InitL1InfoRootMap: contract logs %v, packed topics %v data %x", got, want.Topics, want.Data)
	} else {
		r.st.logs++
	}
}

// ---------------------------------------------------------------------------------------------

type item struct {
	ops    []operation
	prefix []int
	depth  int
	same   [][]int // sequences to replay inside one block (world A only)
	pure   bool
}

func runItem(it item, total *stats) {
	e := newEnv()
	defer e.be.Close()
	st := &stats{}
	r := &runner{e: e, st: st}
	defer func() {
		total.add(st)
		for _, mm := range st.mismatches {
			total.mismatch("%s", mm)
		}
	}()
	if it.pure {
		r.pure()
		return
	}
	if it.same != nil {
		for _, s := range it.same {
			r.sameBlock(it.ops, s)
		}
		return
	}
	m := newModel(e)
	head := e.base
	var path []string
	for d, oi := range it.prefix {
		path = append(path, it.ops[oi].name)
		bt, bc, bl := st.txs, st.comparisons, st.logs
		head = r.step(strings.Join(path, " ; "), it.ops[oi], m, d)
		// a proper prefix is counted by the item whose remaining prefix is all zeros (once)
		last := d == len(it.prefix)-1
		first := true
		for _, x := range it.prefix[d+1:] {
			if x != 0 {
				first = false
			}
		}
		if last || first {
			st.sequences++
		} else {
			st.txs, st.comparisons, st.logs = bt, bc, bl
		}
	}
	r.dfs(it.ops, path, head, m, len(it.prefix), it.depth)
}

func seqs(k, n int) [][]int {
	var out [][]int
	var rec func(cur []int)
	rec = func(cur []int) {
		if len(cur) == n {
			out = append(out, append([]int{}, cur...))
			return
		}
		for i := 0; i < k; i++ {
			rec(append(cur, i))
		}
	}
	rec(nil)
	return out
}

func main() {
	tier := flag.String("tier", "quick", "quick|thorough")
	par := flag.Int("par", 0, "parallel chains (default: CPUs, at most 16)")
	depthFlag := flag.Int("depth", 0, "override the sequence length bound (debugging)")
	flag.Parse()
	gethlog.SetDefault(gethlog.NewLogger(gethlog.DiscardHandler()))
	if *par <= 0 {
		*par = runtime.NumCPU()
		if *par > 16 {
			*par = 16
		}
	}
	depth, prefixLen, sameLen := 4, 1, 2
	if *tier == "thorough" {
		depth, prefixLen, sameLen = 5, 2, 3
	}
	if *depthFlag > 0 {
		depth = *depthFlag
		if prefixLen > depth {
			prefixLen = depth
		}
		if sameLen > depth {
			sameLen = depth
		}
	}
	start := time.Now()
	var items []item
	items = append(items, item{pure: true})
	for _, p := range seqs(len(worldA), prefixLen) {
		items = append(items, item{ops: worldA, prefix: p, depth: depth})
	}
	for _, p := range seqs(len(worldB), 1) {
		items = append(items, item{ops: worldB, prefix: p, depth: depth})
	}
	for n := 2; n <= sameLen; n++ {
		all := seqs(len(worldA), n)
		for i := 0; i < len(all); i += 200 {
			j := i + 200
			if j > len(all) {
				j = len(all)
			}
			items = append(items, item{ops: worldA, same: all[i:j]})
		}
	}
	items = append(items, item{ops: worldB, same: seqs(len(worldB), 2)})
	total := &stats{}
	ch := make(chan item)
	var wg sync.WaitGroup
	for w := 0; w < *par; w++ {
		wg.Add(1)
		go func() {
			defer wg.Done()
			for it := range ch {
				runItem(it, total)
			}
		}()
	}
	// biggest items first
	sort.SliceStable(items, func(i, j int) bool { return len(items[i].same) < len(items[j].same) })
	for _, it := range items {
		ch <- it
	}
	close(ch)
	wg.Wait()
	fmt.Printf("evmconf tier=%s: sequences=%d (one tx per block, length<=%d; alphabets: %d bridge/GER/rollup-manager ops, %d direct GER ops) "+
		"same-block-sequences=%d transactions=%d comparisons=%d logs-compared-byte-for-byte=%d pure-function-calls=%d mismatches=%d wall=%.1fs\n",
		*tier, total.sequences, depth, len(worldA), len(worldB), total.sameBlock, total.txs, total.comparisons, total.logs, total.pure,
		total.nMismatch, time.Since(start).Seconds())
	if total.nMismatch > 0 {
		for _, m := range total.mismatches {
			fmt.Println("MISMATCH", m)
		}
		os.Exit(1)
	}
}
