package main

import (
	aggkittypes "github.com/agglayer/aggkit/types"
	"verif/h/simchain"
)

var _ aggkittypes.BaseEthereumClienter = (*simchain.Client)(nil)
