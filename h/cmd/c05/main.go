// C05 — syncers deliver every watched event exactly once, in chain order.
//
// SUT: the real sync.EVMDownloader (NewEVMDownloader + Download, real EVMDownloaderImplementation)
// running as a goroutine inside a synctest bubble over a simchain client whose every RPC is a gate.
// Space: every chain of N blocks over {no log, one watched log, two watched logs, unwatched+watched,
// removed log, removed log of an orphaned block next to a watched log}, every chunk size 1..N+1, every finality configuration, start block 1 or 2; and as
// choice points at the RPCs that observe them: how far the tip has moved (every value), where the
// finalized pointer stands (every value, in the free mode), and one transient RPC error at every
// position. Oracle on the delivered sequence, checked at every delivery and at quiescence.
package main

import (
	"context"
	"errors"
	"fmt"
	"math/big"
	"strings"
	"testing/synctest"
	"time"

	aggsync "github.com/agglayer/aggkit/sync"
	aggkittypes "github.com/agglayer/aggkit/types"
	"github.com/ethereum/go-ethereum"
	"github.com/ethereum/go-ethereum/common"
	"github.com/ethereum/go-ethereum/core/types"
	"verif/h/act"
	"verif/h/kit"
	"verif/h/mc"
	"verif/h/simchain"
)

var (
	watchedAddr   = common.HexToAddress("0x1111111111111111111111111111111111111111")
	otherAddr     = common.HexToAddress("0x2222222222222222222222222222222222222222")
	watchedTopic  = common.HexToHash("0xaaaa")
	watchedTopic2 = common.HexToHash("0xbbbb")
	otherTopic    = common.HexToHash("0xcccc")
)

// block kinds
var kinds = []string{"none", "w1", "w2", "unw+w", "removed", "orphan+w"}

func logsOf(kind string) []simchain.LogSpec {
	w := func(t common.Hash, d byte) simchain.LogSpec {
		return simchain.LogSpec{Address: watchedAddr, Topics: []common.Hash{t}, Data: []byte{d}}
	}
	switch kind {
	case "none":
		return nil
	case "w1":
		return []simchain.LogSpec{w(watchedTopic, 1)}
	case "w2":
		return []simchain.LogSpec{w(watchedTopic, 1), w(watchedTopic2, 2)}
	case "unw+w":
		return []simchain.LogSpec{w(otherTopic, 9), w(watchedTopic, 1)}
	case "removed":
		r := w(watchedTopic, 7)
		r.Removed = true
		return []simchain.LogSpec{r}
	case "orphan+w":
		// a removed log of a reorged-away block (it carries that block's hash) next to a valid watched log
		r := w(watchedTopic2, 8)
		r.Removed, r.Orphan = true, true
		return []simchain.LogSpec{r, w(watchedTopic, 1)}
	}
	panic(kind)
}

func isWatched(l simchain.LogSpec) bool {
	return !l.Removed && l.Address == watchedAddr && (l.Topics[0] == watchedTopic || l.Topics[0] == watchedTopic2)
}

type params struct {
	Chain    []string
	Chunk    uint64
	Finality string // latest/lag0 latest/lag1 latest/lag2 latest/never latest/free finalized
	From     uint64
	Errors   int // transient RPC errors to place (0 or 1)
	Initial  uint64
}

var finalities = []string{"latest/lag0", "latest/lag1", "latest/lag2", "latest/never", "latest/free", "finalized"}

func units(tier string) []mc.Unit {
	var us []mc.Unit
	maxN := 3
	if tier == "thorough" {
		maxN = 4
	}
	var rec func(ch []string)
	rec = func(ch []string) {
		if n := len(ch); n >= 1 {
			for chunk := uint64(1); chunk <= uint64(n)+1; chunk++ {
				for _, f := range finalities {
					for _, from := range []uint64{1, 2} {
						if from > uint64(n) {
							continue
						}
						for _, errs := range []int{0, 1} {
							if errs == 1 && (n > 2 && tier != "thorough" || n > 3) {
								continue // transient RPC failures (3-4 kinds at every RPC): chains of <= 2 blocks (quick) / <= 3 (thorough)
							}
							for _, initial := range []uint64{0, 1} {
								if initial == 1 && n < 2 {
									continue
								}
								p := params{append([]string{}, ch...), chunk, f, from, errs, initial}
								us = append(us, mc.Unit{Name: fmt.Sprintf("%s|chunk=%d|%s|from=%d|err=%d|init=%d", strings.Join(ch, ","), chunk, f, from, errs, initial), Params: p})
							}
						}
					}
				}
			}
		}
		if len(ch) == maxN {
			return
		}
		for _, k := range kinds {
			rec(append(ch, k))
		}
	}
	rec(nil)
	return us
}

type delivered struct {
	Num       uint64
	Hash      common.Hash
	Events    []string
	Finalized bool
}

var errTransient = errors.New("verif: transient rpc error")

func run(c *mc.Ctx, u mc.Unit) {
	synctest.Run(func() { runInBubble(c, u.Params.(params)) })
}

func runInBubble(c *mc.Ctx, p params) {
	n := uint64(len(p.Chain))
	chain := simchain.New()
	for _, k := range p.Chain {
		chain.Append(0, logsOf(k))
	}
	sched := act.New()
	cl := simchain.NewClient(chain, sched, "downloader")
	tipTag := aggkittypes.LatestBlock
	if p.Finality == "finalized" {
		tipTag = aggkittypes.FinalizedBlock
		chain.Visible = n // everything exists; the downloader only follows the finalized pointer
		chain.Finalized = p.Initial
	} else {
		chain.Visible = p.Initial
	}
	lag := int64(-1)
	switch p.Finality {
	case "latest/lag0":
		lag = 0
	case "latest/lag1":
		lag = 1
	case "latest/lag2":
		lag = 2
	}
	applyLag := func() {
		if lag >= 0 && int64(chain.Visible)-lag > int64(chain.Finalized) {
			chain.Finalized = uint64(int64(chain.Visible) - lag)
		}
	}
	applyLag()
	appender := aggsync.LogAppenderMap{}
	app := func(b *aggsync.EVMBlock, l types.Log) error {
		b.Events = append(b.Events, fmt.Sprintf("%d/%d", l.BlockNumber, l.Index))
		return nil
	}
	appender[watchedTopic] = app
	appender[watchedTopic2] = app
	rh := &aggsync.RetryHandler{RetryAfterErrorPeriod: time.Millisecond, MaxRetryAttemptsAfterError: -1}
	d, err := aggsync.NewEVMDownloader("c05", cl, p.Chunk, tipTag, time.Millisecond, appender,
		[]common.Address{watchedAddr}, rh, aggkittypes.FinalizedBlock)
	if err != nil {
		c.Failf("constructor", "NewEVMDownloader: %v", err)
		return
	}
	ctx, cancel := context.WithCancel(context.Background())
	ch := make(chan aggsync.EVMBlock, 1000)
	go d.Download(ctx, p.From, ch)

	// reference: watched blocks
	watched := map[uint64][]string{}
	for b := uint64(1); b <= n; b++ {
		for i, l := range chain.Blocks[b].Logs {
			if isWatched(l) {
				watched[b] = append(watched[b], fmt.Sprintf("%d/%d", b, i))
			}
		}
	}
	var got []delivered
	seen := map[uint64]int{}
	pointer := func() uint64 { // the pointer the downloader follows
		if p.Finality == "finalized" {
			return chain.Finalized
		}
		return chain.Visible
	}
	check := func(db aggsync.EVMBlock) {
		var evs []string
		for _, e := range db.Events {
			evs = append(evs, e.(string))
		}
		x := delivered{db.Num, db.Hash, evs, db.IsFinalizedBlock}
		if len(got) > 0 && x.Num <= got[len(got)-1].Num {
			if seen[x.Num] > 0 {
				c.Failf("block-delivered-twice", "%s: block %d delivered again (sequence so far %v)", describe(p), x.Num, nums(got))
			} else {
				c.Failf("delivery-out-of-order", "%s: block %d delivered after block %d", describe(p), x.Num, got[len(got)-1].Num)
			}
		}
		seen[x.Num]++
		if x.Num < p.From || x.Num > pointer() {
			c.Failf("block-outside-range-delivered", "%s: block %d delivered, start %d, tip %d", describe(p), x.Num, p.From, pointer())
		} else {
			if x.Hash != chain.Hash(x.Num) {
				c.Failf("wrong-block-hash", "%s: block %d hash %s, chain has %s", describe(p), x.Num, x.Hash.Hex(), chain.Hash(x.Num).Hex())
			}
			if fmt.Sprint(evs) != fmt.Sprint(watched[x.Num]) {
				c.Failf("wrong-events-in-block", "%s: block %d delivered with events %v, chain has watched logs %v", describe(p), x.Num, evs, watched[x.Num])
			}
		}
		// the marker must not move past a watched block that was not delivered
		for b := p.From; b < x.Num; b++ {
			if len(watched[b]) > 0 && seen[b] == 0 {
				c.Failf("marker-passed-undelivered-watched-block", "%s: block %d delivered while watched block %d was never delivered (sequence %v)",
					describe(p), x.Num, b, nums(append(got, x)))
			}
		}
		if x.Finalized && x.Num > chain.Finalized {
			c.Failf("non-finalized-block-flagged-finalized", "%s: block %d flagged finalized, finalized pointer is %d", describe(p), x.Num, chain.Finalized)
		}
		got = append(got, x)
	}
	drainCh := func() {
		for {
			select {
			case b, ok := <-ch:
				if !ok {
					return
				}
				check(b)
			default:
				return
			}
		}
	}

	errBudget := p.Errors
	stickyNotFound := map[string]int{} // header argument -> further attempts the node answers "not found" for
	lastTipAnswer := int64(-1)
	horizon := 400
	for step := 0; ; step++ {
		gs := sched.Settle(3)
		drainCh()
		if len(gs) == 0 {
			break
		}
		if len(gs) > 1 {
			c.Failf("harness/unexpected-concurrency", "%d gates parked: %v", len(gs), gs)
			break
		}
		if step >= horizon {
			c.HorizonHit()
			break
		}
		g := gs[0]
		isTipPoll := g.Op == "HeaderByNumber" && ((p.Finality == "finalized" && g.Arg == "finalized") || (p.Finality != "finalized" && g.Arg == "latest"))
		isWait := isTipPoll && strings.Contains(g.Stack, "WaitForNewBlocks")
		prevWaitAnswer := lastTipAnswer
		if isTipPoll {
			remaining := int(n - pointer())
			cur := int64(pointer())
			switch {
			case isWait && cur <= lastTipAnswer && remaining == 0:
				// the poll would see nothing new, for ever: the downloader is waiting. Quiescent.
				goto done
			case isWait && cur <= lastTipAnswer:
				adv := 1 + c.Choose(remaining, "tip-advance-at-wait-poll")
				advance(chain, p, uint64(adv))
			default:
				adv := c.Choose(remaining+1, "tip-advance-at-poll")
				advance(chain, p, uint64(adv))
			}
			applyLag()
			if adv := int64(pointer()); adv > cur {
				c.Witness("tip_advances")
			}
			if isWait {
				// WaitForNewBlocks is always called with the value its previous call returned
				lastTipAnswer = int64(pointer())
			}
		}
		if p.Finality == "latest/free" && g.Op == "HeaderByNumber" && g.Arg == "finalized" {
			room := int(chain.Visible - chain.Finalized)
			chain.Finalized += uint64(c.Choose(room+1, "finalized-advance-at-poll"))
		}
		dir := act.Directive{}
		if g.Op == "HeaderByNumber" && stickyNotFound[g.Arg] > 0 {
			// the node still does not know this header (an earlier choice made it unknown for several attempts in a row)
			stickyNotFound[g.Arg]--
			if isWait {
				lastTipAnswer = prevWaitAnswer
			}
			c.Transition(1)
			sched.Release(g, act.Directive{Err: fmt.Errorf("verif: %w", ethereum.NotFound)})
			continue
		}
		if ek := 0; errBudget > 0 {
			// 1 = an opaque transport error, 2 = the RPC client's own per-call time-out (wraps context.DeadlineExceeded
			// although the syncer's context is alive)
			nk := 3
			if g.Op == "HeaderByNumber" && g.Arg != "latest" && g.Arg != "finalized" && g.Arg != "safe" {
				// 3 = "not found" for a header asked by number (the downloader waits: the block may have disappeared in a
				// reorg); 4 = the same answer for this and the next 7 attempts for that header (a lagging RPC backend)
				nk = 5 //nolint:mnd
			}
			ek = c.Choose(nk, "transient-rpc-error")
			if ek > 0 {
				errBudget--
				dir.Err = errTransient
				if ek == 3 || ek == 4 {
					dir.Err = fmt.Errorf("verif: %w", ethereum.NotFound)
					c.Witness("rpc_not_found_injected")
				}
				if ek == 4 { //nolint:mnd
					stickyNotFound[g.Arg] = 7 //nolint:mnd
					c.Witness("rpc_not_found_for_eight_attempts_in_a_row")
				}
				if ek == 2 {
					dir.Err = fmt.Errorf("verif: rpc call timed out: %w", context.DeadlineExceeded)
					c.Witness("rpc_timeouts_injected")
				}
				c.Witness("rpc_errors_injected")
			}
		}
		if dir.Err != nil {
			if isWait {
				lastTipAnswer = prevWaitAnswer // the poller did not see the answer
			}
		}
		c.Transition(1)
		sched.Release(g, dir)
	}
done:
	drainCh()
	// stop everything so that the bubble can end
	cancel()
	if !sched.Drain(context.Canceled, 50) {
		c.Failf("harness/downloader-did-not-stop", "gates still parked after cancellation")
	}
	for b := range ch { // closed by the downloader on exit
		_ = b
	}
	// completeness at quiescence
	if !c.Failed() {
		for b := p.From; b <= n; b++ {
			if len(watched[b]) > 0 && seen[b] == 0 && b <= pointer() {
				c.Failf("watched-block-never-delivered", "%s: at quiescence (tip %d) watched block %d was never delivered; delivered %v", describe(p), pointer(), b, nums(got))
			}
		}
	}
	c.State(fmt.Sprintf("%v|%d|%d", nums(got), chain.Visible, chain.Finalized))
	c.Obs("%s delivered=%v", describe(p), fmtDelivered(got))
	if len(got) > 0 {
		c.NonTrivial()
		c.Witness("executions_with_deliveries")
	}
	for _, x := range got {
		if len(x.Events) == 0 {
			c.Witness("marker_blocks_delivered")
			break
		}
	}
}

func advance(chain *simchain.Chain, p params, by uint64) {
	if p.Finality == "finalized" {
		chain.Finalized += by
	} else {
		chain.Visible += by
	}
}

func describe(p params) string {
	return fmt.Sprintf("chain %v chunk %d finality %s from %d", p.Chain, p.Chunk, p.Finality, p.From)
}

func nums(d []delivered) []uint64 {
	var out []uint64
	for _, x := range d {
		out = append(out, x.Num)
	}
	return out
}

func fmtDelivered(d []delivered) string {
	var sb strings.Builder
	for _, x := range d {
		fmt.Fprintf(&sb, "%d%v%v ", x.Num, x.Events, map[bool]string{true: "F", false: ""}[x.Finalized])
	}
	return sb.String()
}

var _ = big.NewInt

func main() {
	mc.Main(mc.Spec{
		ID: "C05", Level: "model_checking",
		Units: units,
		Batch: func(string) int { return 200 },
		Run:   run,
		Setup: func(string) { kit.Quiet() },
		Rule: "unit = (chain of block kinds, chunk size, finality configuration, start block, initial tip, error budget); choice points at the " +
			"RPC gates of the real downloader goroutine: how far the tip has moved when it is polled (every value), where the finalized pointer stands " +
			"(free mode: every value), whether this RPC fails transiently (budget 0/1). All combinations explored (unbounded DFS). " +
			"non-trivial = at least one block delivered; distinct = distinct (unit, choices, delivered sequence); states = distinct (delivered sequence, tip, finalized) at quiescence; transitions = released gates",
		Assumptions: []string{
			"the environment changes only at the RPCs that observe the changed variable (tip at tip polls, finalized pointer at finalized polls): for a chain without reorgs an earlier change is indistinguishable (partial-order reduction, argued in DESIGN C05); reorgs are C06",
			"a WaitForNewBlocks poll that would see nothing new for ever is treated as blocked (waiting made visible); identified by its call stack",
			"transient errors: at most one per execution, at every position, of three kinds (opaque transport error; not-found for a header asked by number; the RPC client's per-call time-out wrapping context.DeadlineExceeded while the syncer's context is alive); retry limit disabled (the process-exit path of RetryHandler is not explored)",
		},
		Bounds: func(tier string) map[string]any {
			n := 3
			if tier == "thorough" {
				n = 4
			}
			return map[string]any{"chain_blocks": fmt.Sprintf("1..%d", n), "block_kinds": kinds, "chunk": "1..N+1", "finality": finalities,
				"start_block": []int{1, 2}, "initial_tip": []int{0, 1}, "rpc_errors": "0 or 1 at every gate (quick: chains <=2 blocks)"}
		},
	})
}
