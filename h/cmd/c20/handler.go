package main

// The claim event through the REAL log handlers of the bridge syncer (bridgesync.buildAppender through the
// VerifBuildAppender hook, syncFullClaims = true): the ClaimEvent log of the event's contract generation is ABI-packed
// with the binding's own ABI, the handler parses it, asks the node for the call trace, and appends the claim to the block.

import (
	"context"
	"fmt"
	"math/big"
	gosync "sync"

	"github.com/0xPolygon/cdk-contracts-tooling/contracts/fep/etrog/polygonzkevmbridge"
	"github.com/0xPolygon/cdk-contracts-tooling/contracts/pp/l2-sovereign-chain/polygonzkevmbridgev2"
	"github.com/agglayer/aggkit/bridgesync"
	aggsync "github.com/agglayer/aggkit/sync"
	aggkittypes "github.com/agglayer/aggkit/types"
	"github.com/ethereum/go-ethereum"
	"github.com/ethereum/go-ethereum/accounts/abi"
	"github.com/ethereum/go-ethereum/common"
	"github.com/ethereum/go-ethereum/core/types"
)

type handlerNode struct {
	aggkittypes.EthClienter
	gasTokenSelector []byte
	rpc              *fakeRPC // the trace answers of the current execution
}

func (n *handlerNode) CallContract(_ context.Context, msg ethereum.CallMsg, _ *big.Int) ([]byte, error) {
	if msg.To == nil || *msg.To != bridgeAddr || string(msg.Data) != string(n.gasTokenSelector) {
		return nil, fmt.Errorf("fake node: unexpected eth_call %x", msg.Data)
	}
	return make([]byte, 32), nil
}

func (n *handlerNode) Call(result any, method string, args ...any) error {
	return n.rpc.Call(result, method, args...)
}

type handlerPath struct {
	node     *handlerNode
	v2, v1   *abi.ABI
	appender aggsync.LogAppenderMap
}

var (
	hpOnce gosync.Once
	hp     *handlerPath
)

func getHandlerPath() *handlerPath {
	hpOnce.Do(func() {
		v2, err := polygonzkevmbridgev2.Polygonzkevmbridgev2MetaData.GetAbi()
		if err != nil {
			panic(err)
		}
		v1, err := polygonzkevmbridge.PolygonzkevmbridgeMetaData.GetAbi()
		if err != nil {
			panic(err)
		}
		n := &handlerNode{gasTokenSelector: v2.Methods["gasTokenAddress"].ID}
		app, err := bridgesync.VerifBuildAppender(n, bridgeAddr, true)
		if err != nil {
			panic(fmt.Sprintf("VerifBuildAppender: %v", err))
		}
		hp = &handlerPath{node: n, v2: v2, v1: v1, appender: app}
	})
	return hp
}

const (
	hBlockNum  = 42
	hLogIndex  = 3
	hTimestamp = 1700000000
)

// viaHandler runs the real handler on the claim event's log. It returns the appended claim (nil when the handler
// returned an error) and the handler's error; appending anything together with an error is reported through extra.
// rpcRefusal is a JSON-RPC error answer of the node (go-ethereum's rpc.Error interface).
type rpcRefusal struct {
	code int
	msg  string
}

func (e rpcRefusal) Error() string  { return e.msg }
func (e rpcRefusal) ErrorCode() int { return e.code }

// refusals: what a node (or the load balancer in front of several) may answer to one debug_traceTransaction request
var refusals = []error{
	nil,
	rpcRefusal{-32601, "the method debug_traceTransaction does not exist/is not available"}, //nolint:mnd
	rpcRefusal{-32000, "transaction not found"},                                                //nolint:mnd
	fmt.Errorf("fake node: connection reset by peer"),
}

func viaHandler(flav int, tx common.Hash, trace []byte, refuse error) (claim *bridgesync.Claim, err error, extra string) {
	p := getHandlerPath()
	rpc := &fakeRPC{answer: trace, tx: tx, refuse: refuse}
	p.node.rpc = rpc
	var (
		ev   abi.Event
		data []byte
		perr error
	)
	if flav == flavLegacy {
		ev = p.v1.Events["ClaimEvent"]
		data, perr = ev.Inputs.Pack(uint32(eventIndex(flav).Uint64()), evOriginNetwork, evOriginAddr, evDestAddr, evAmount)
	} else {
		ev = p.v2.Events["ClaimEvent"]
		data, perr = ev.Inputs.Pack(eventIndex(flav), evOriginNetwork, evOriginAddr, evDestAddr, evAmount)
	}
	if perr != nil {
		panic(fmt.Sprintf("packing ClaimEvent: %v", perr))
	}
	h, ok := p.appender[ev.ID]
	if !ok {
		return nil, fmt.Errorf("the appender has no handler for the ClaimEvent topic %s of the contract binding", ev.ID.Hex()), ""
	}
	blk := &aggsync.EVMBlock{EVMBlockHeader: aggsync.EVMBlockHeader{Num: hBlockNum, Hash: common.HexToHash("0xb10c"), Timestamp: hTimestamp}}
	l := types.Log{Address: bridgeAddr, Topics: []common.Hash{ev.ID}, Data: data, BlockNumber: hBlockNum, TxHash: tx,
		BlockHash: blk.Hash, Index: hLogIndex}
	err = h(blk, l)
	if rpc.calls != 1 || rpc.bad != "" {
		extra = fmt.Sprintf("%d trace requests, bad: %q", rpc.calls, rpc.bad)
	}
	if err != nil {
		if len(blk.Events) != 0 {
			extra += fmt.Sprintf(" the handler returned an error AND appended %d event(s)", len(blk.Events))
		}
		return nil, err, extra
	}
	if len(blk.Events) != 1 {
		return nil, nil, extra + fmt.Sprintf(" the handler appended %d events", len(blk.Events))
	}
	e, ok := blk.Events[0].(bridgesync.Event)
	if !ok || e.Claim == nil {
		return nil, nil, extra + fmt.Sprintf(" the handler appended %T without a claim", blk.Events[0])
	}
	return e.Claim, nil, extra
}
