// C20 — claim details are taken only from the matching, non-reverted bridge call.
//
// SUT: the real (*Claim).setClaimCalldata (through bridgesync.VerifSetClaimCalldata) with its real
// findCall / tryDecodeClaimCalldata / decodeEtrogCalldata / decodePreEtrogCalldata, fed by a fake
// RPC client that answers debug_traceTransaction with the JSON a node's callTracer would give.
// Space: every ordered call tree with <= 4 (quick) / <= 5 (thorough) frames, every labelling of
// its frames (root included) from {other contract, bridge claim with the event's index (payload A),
// bridge claim with another index, bridge claim with the event's index (payload B)} x {ok, reverted},
// x codec of A x codec of B/other-index x flavour of the event's global index.
// Oracle: written from the property statement only (model.go); nothing of the SUT is called to
// compute it.
package main

import (
	"encoding/json"
	"fmt"
	"strings"
	"sync/atomic"

	"github.com/agglayer/aggkit/bridgesync"
	"github.com/ethereum/go-ethereum/common"
	"github.com/ethereum/go-ethereum/crypto"
	"verif/h/kit"
	"verif/h/mc"
)

type params struct {
	Shape   []int // parent of each frame, frames in preorder; Shape[0] = -1
	CodecA  int
	CodecB  int
	Flavour int
}

// shapes returns all ordered rooted trees with n frames (parent vectors in preorder).
func shapes(n int) [][]int {
	var out [][]int
	depth := make([]int, n)
	parent := make([]int, n)
	parent[0] = -1
	var rec func(i int)
	rec = func(i int) {
		if i == n {
			out = append(out, append([]int{}, parent...))
			return
		}
		// the new frame hangs under any frame of the rightmost path, deepest first
		for p := i - 1; p >= 0; p = parent[p] {
			parent[i], depth[i] = p, depth[p]+1
			rec(i + 1)
		}
	}
	rec(1)
	return out
}

func maxFrames(tier string) int {
	if tier == "thorough" {
		return 5
	}
	return 4
}

func units(tier string) []mc.Unit {
	var us []mc.Unit
	for n := 1; n <= maxFrames(tier); n++ {
		for _, sh := range shapes(n) {
			for a := 0; a < nCodecs; a++ {
				for b := 0; b < nCodecs; b++ {
					for fl := 0; fl < nFlavours; fl++ {
						us = append(us, mc.Unit{
							Name:   fmt.Sprintf("shape=%v,A=%s,B=%s,event=%s", sh, codecNames[a], codecNames[b], flavNames[fl]),
							Params: params{sh, a, b, fl},
						})
					}
				}
			}
		}
	}
	return us
}

// fakeRPC answers debug_traceTransaction for exactly one transaction.
type fakeRPC struct {
	tx     common.Hash
	answer []byte
	calls  int
	bad    string
	refuse error // the node's answer instead of the trace
}

func (f *fakeRPC) Call(result any, method string, args ...any) error {
	f.calls++
	if method != "debug_traceTransaction" {
		f.bad = "method " + method
		return fmt.Errorf("fake node: unknown method %s", method)
	}
	if len(args) != 2 {
		f.bad = fmt.Sprintf("%d arguments", len(args))
		return fmt.Errorf("fake node: bad arguments")
	}
	if h, ok := args[0].(common.Hash); !ok || h != f.tx {
		f.bad = fmt.Sprintf("transaction %v", args[0])
		return fmt.Errorf("fake node: transaction not found")
	}
	if cfg, err := json.Marshal(args[1]); err != nil || string(cfg) != `{"tracer":"callTracer"}` {
		f.bad = fmt.Sprintf("tracer config %s", cfg)
		return fmt.Errorf("fake node: unsupported tracer")
	}
	if f.refuse != nil {
		return f.refuse
	}
	return json.Unmarshal(f.answer, result)
}

// initialClaim is the claim as the event handlers build it before looking at the trace.
func initialClaim(flav int, tx common.Hash) *bridgesync.Claim {
	c := &bridgesync.Claim{
		BlockNum:           42,
		BlockPos:           3,
		GlobalIndex:        eventIndex(flav),
		OriginNetwork:      evOriginNetwork,
		OriginAddress:      evOriginAddr,
		DestinationAddress: evDestAddr,
		Amount:             evAmount,
	}
	if flav != flavLegacy { // the etrog handler also fills these
		c.BlockTimestamp = 1700000000
		c.TxHash = tx
		c.FromAddress = bridgeAddr
	}
	return c
}

// reincludeMaxFrames: trees up to this size are also explored after the same transaction hash was traced with
// another execution (set per tier in main).
var reincludeMaxFrames = 3

// handlerMaxFrames: trees up to this size are also run through the real log handler (set per tier in main).
var handlerMaxFrames = 3

var txSeq atomic.Int64

func run(c *mc.Ctx, u mc.Unit) {
	p := u.Params.(params)
	labels := make([]int, len(p.Shape))
	for i := range labels {
		labels[i] = c.Choose(2*nKinds, "frame-label")
	}
	fs := buildFrames(p.Shape, labels, p.CodecA, p.CodecB, p.Flavour)
	ev := eventIndex(p.Flavour)
	elig := eligible(fs, ev)

	// every execution uses a transaction hash of its own, so that nothing a process-wide cache keyed by the hash may
	// have kept from an earlier execution of this worker process can reach this one (executions stay independent)
	tx := crypto.Keccak256Hash(txHash[:], []byte(fmt.Sprint(txSeq.Add(1))))
	claim := initialClaim(p.Flavour, tx)
	before := detailsOf(claim)
	beforeEvent := eventPart(claim)
	// Re-inclusion: the same transaction (same hash) was traced before on a fork that has been reorged away, where
	// it executed differently (a chain of seven frames whose innermost one is the only matching call, so its details
	// differ from those of every frame of the tree under test). What the node learnt then must not leak into this trace.
	if len(p.Shape) <= reincludeMaxFrames && c.Bool("same-transaction-was-traced-before-on-a-dropped-fork") {
		oldShape, oldLabels := []int{-1, 0, 1, 2, 3, 4, 5}, []int{kindOther, kindOther, kindOther, kindOther, kindOther, kindOther, kindTargetA}
		old := buildFrames(oldShape, oldLabels, p.CodecA, p.CodecB, p.Flavour)
		if len(eligible(old, ev)) == 1 { // (some codec / event combinations cannot carry the event's index at all)
			scratch := initialClaim(p.Flavour, tx)
			if err := bridgesync.VerifSetClaimCalldata(scratch, &fakeRPC{answer: traceJSON(old), tx: tx}, bridgeAddr, tx); err != nil {
				c.Failf("harness/old-fork-trace-rejected", "the dropped fork's trace was rejected: %v", err)
				return
			}
			c.Witness("transaction_traced_before_on_a_dropped_fork")
		}
	}
	rpc := &fakeRPC{answer: traceJSON(fs), tx: tx}

	err := bridgesync.VerifSetClaimCalldata(claim, rpc, bridgeAddr, tx)

	after := detailsOf(claim)
	tree := describeTree(fs)
	// the same event and trace through the real ClaimEvent log handler of the event's contract generation (on the
	// smaller trees: what the handler adds is the parsing of the event log, which does not depend on the tree)
	if len(p.Shape) <= handlerMaxFrames {
		// first the node refuses the trace request once (the kind rotates over the units): the handler must fail and
		// append nothing; the same handler objects then handle the event with the trace available
		kind := p.Flavour
		for _, k := range p.Shape {
			kind += int(k)
		}
		if refuse := refusals[(kind%len(refusals)+len(refusals))%len(refusals)]; refuse != nil {
			rclaim, rerr, rextra := viaHandler(p.Flavour, tx, traceJSON(fs), refuse)
			c.Witness("trace_requests_refused_by_the_node")
			if rerr != nil && rextra != "" {
				c.Failf("handler/misbehaves", "event %s tree %s, trace request refused with %q:%s", flavNames[p.Flavour], describeTree(fs), refuse, rextra)
			}
			if rerr == nil {
				c.Failf("handler/claim-recorded-although-the-trace-request-failed", "event %s tree %s: the node answered the trace request with %q; the log handler reported no error (appended claim: %v%s)",
					flavNames[p.Flavour], describeTree(fs), refuse, rclaim != nil, rextra)
			}
		}
		hclaim, herr, extra := viaHandler(p.Flavour, tx, traceJSON(fs), nil)
		if extra != "" {
			c.Failf("handler/misbehaves", "event %s tree %s:%s", flavNames[p.Flavour], tree, extra)
		}
		switch {
		case (herr == nil) != (err == nil):
			c.Failf("handler/disagrees-with-the-trace-extraction", "event %s tree %s: the log handler returned %v, the extraction on a prepared claim %v", flavNames[p.Flavour], tree, herr, err)
		case herr == nil && hclaim != nil:
			c.Witness("claims_appended_by_the_real_log_handler")
			if d := detailsOf(hclaim).diff(after); len(d) > 0 {
				c.Failf("handler/records-other-details", "event %s tree %s: the claim appended by the log handler differs in %v: %s vs %s", flavNames[p.Flavour], tree, d, detailsOf(hclaim).short(), after.short())
			}
			want := initialClaim(p.Flavour, tx)
			want.BlockNum, want.BlockPos = hBlockNum, hLogIndex
			if p.Flavour != flavLegacy {
				want.BlockTimestamp = hTimestamp
			}
			if got := eventPart(hclaim); got != eventPart(want) {
				c.Failf("handler/event-fields", "event %s tree %s: the claim appended by the log handler carries {%s}, the event log says {%s}", flavNames[p.Flavour], tree, got, eventPart(want))
			}
		}
	}
	errText := "<nil>"
	if err != nil {
		errText = err.Error()
	}
	c.Obs("event=%s gi=%s tree=%s eligible=%v", flavNames[p.Flavour], ev.Text(16), tree, elig)
	c.Obs("err=%s recorded=%s", errText, after.short())

	// which frame do the recorded details come from (if any single one)?
	source := -1
	for i := range fs {
		if len(after.diff(detailsFrom(&fs[i], before))) == 0 {
			source = i
			break
		}
	}

	// vacuity bookkeeping
	nBridge, hidden, decoy := 0, false, false
	for i := range fs {
		if fs[i].ToBridge {
			nBridge++
			if fs[i].Index.Cmp(ev) == 0 {
				isEl := false
				for _, e := range elig {
					isEl = isEl || e == i
				}
				hidden = hidden || !isEl
			} else if fs[i].Kind != kindOtherIdx {
				decoy = true
			}
		}
	}
	if nBridge > 0 {
		c.NonTrivial()
	}
	switch {
	case len(elig) > 1:
		c.Witness("several_eligible_calls")
	case len(elig) == 1:
		c.Witness("one_eligible_call")
	case nBridge > 0:
		c.Witness("bridge_calls_but_none_eligible")
	}
	if hidden {
		c.Witness("matching_call_hidden_by_revert")
	}
	if decoy {
		c.Witness("truncated_index_decoy_present")
	}
	if len(elig) > 0 && fs[elig[0]].Parent >= 0 && fs[fs[elig[0]].Parent].ToBridge {
		c.Witness("eligible_call_nested_in_bridge_call")
	}

	if rpc.calls != 1 || rpc.bad != "" {
		c.Failf("wrong-trace-request", "tree %s: %d requests to the node, bad: %q (expected one debug_traceTransaction of %s with callTracer)",
			tree, rpc.calls, rpc.bad, "<this execution's transaction>")
	}
	if got := eventPart(claim); got != beforeEvent {
		c.Failf("event-fields-changed", "tree %s: fields taken from the event log changed: before {%s} after {%s}", tree, beforeEvent, got)
	}

	if len(elig) == 0 {
		if err == nil {
			c.Failf("no-error-without-eligible-call", "event gi=%s tree %s: no eligible call, but no error; recorded %s",
				ev.Text(16), tree, after.short())
		}
		if d := after.diff(before); len(d) > 0 {
			c.Failf("recorded-without-eligible-call/"+whose(fs, source), "event gi=%s tree %s: no eligible call (err=%s) but fields %v changed: before %s after %s (source frame %d)",
				ev.Text(16), tree, errText, d, before.short(), after.short(), source)
		}
		return
	}

	if err != nil {
		c.Failf("error-despite-eligible-call", "event gi=%s tree %s: eligible frames %v but error %q", ev.Text(16), tree, elig, errText)
		return
	}
	for _, e := range elig {
		if e == source {
			c.Witness(fmt.Sprintf("recorded_from_%s_%s", kindNames[fs[e].Kind], codecNames[fs[e].Codec]))
			return
		}
		if len(after.diff(detailsFrom(&fs[e], before))) == 0 { // same details as another eligible frame cannot happen (distinct senders)
			return
		}
	}
	// not the details of any eligible call: say of which call, or which fields are off the closest eligible one
	best, bestDiff := elig[0], after.diff(detailsFrom(&fs[elig[0]], before))
	for _, e := range elig[1:] {
		if d := after.diff(detailsFrom(&fs[e], before)); len(d) < len(bestDiff) {
			best, bestDiff = e, d
		}
	}
	key := "details-of-no-single-call"
	if source >= 0 {
		key = "details-from-" + whose(fs, source)
	} else if len(after.diff(before)) == 0 {
		key = "nothing-recorded-despite-eligible-call"
	} else if len(bestDiff) <= 3 {
		key = "wrong-fields/" + strings.Join(bestDiff, "+")
	}
	c.Failf(key, "event gi=%s tree %s: eligible frames %v; recorded %s is not what any of them carries; closest eligible frame #%d would give %s (fields differing: %v); recorded details equal frame %d",
		ev.Text(16), tree, elig, after.short(), best, detailsFrom(&fs[best], before).short(), bestDiff, source)
}

// whose classifies a non-eligible source frame for the violation key.
func whose(fs []frame, i int) string {
	if i < 0 {
		return "no-single-call"
	}
	f := &fs[i]
	switch {
	case !f.ToBridge:
		return "non-bridge-call"
	case f.Reverted:
		return "reverted-call"
	}
	for j := f.Parent; j >= 0; j = fs[j].Parent {
		if fs[j].Reverted {
			return "call-under-reverted-ancestor"
		}
	}
	return "other-index-call" // a live bridge call that is not eligible carries another index
}

func main() {
	mc.Main(mc.Spec{
		ID: "C20", Level: "exploration",
		Units: units,
		Batch: func(tier string) int {
			if tier == "thorough" {
				return 6
			}
			return 12
		},
		Run:   run,
		Setup: func(tier string) {
			kit.Quiet()
			abis()
			if tier == "thorough" {
				reincludeMaxFrames, handlerMaxFrames = 4, 4
			}
		},
		Rule: "unit = (ordered tree shape, codec of payload A, codec of payload B and of other-index calls, flavour of the event's " +
			"global index); inside a unit one choice point per frame (root included, preorder) picks one of 8 labels = " +
			"{other contract, bridge claim with the event's index payload A, bridge claim with another index, bridge claim with the " +
			"event's index payload B} x {ok, reverted}; all 8^n labellings are run. Every frame has its own sender and its own " +
			"proofs/roots/destination/metadata, so the recorded details identify the frame they came from. Calls to other contracts " +
			"carry, on purpose, valid claim calldata with the event's index. Other-index calls carry the event's index with the " +
			"mainnet flag flipped (etrog codecs) or local index+1 (pre-etrog codecs); a pre-etrog call labelled 'event's index' under " +
			"an etrog event carries the truncated 32-bit index, which is a different global index (decoy). " +
			"non-trivial = at least one frame addressed to the bridge; distinct = distinct (unit, labelled tree, outcome) observations",
		Assumptions: []string{
			"every call addressed to the bridge is a well-formed claim call (the property's quantifier)",
			"the claim starts as the event handlers build it (detail fields zero; for etrog events FromAddress = bridge address, TxHash set)",
			"a pre-etrog call has no rollup proof: recording it leaves ProofRollupExitRoot as it was",
			"the node's answer is the callTracer JSON (from,to,value,input,error,calls + fields the decoder ignores); JSON decoding by encoding/json is trusted",
		},
		Bounds: func(tier string) map[string]any {
			n := maxFrames(tier)
			ns := 0
			for k := 1; k <= n; k++ {
				ns += len(shapes(k))
			}
			return map[string]any{"max_frames": n, "tree_shapes": ns, "labels_per_frame": 8, "codecs_A": 4, "codecs_B": 4,
				"event_index_flavours": []string{"1<<64|7", "5<<32|7", "7 (pre-etrog event)"}, "labellings": "all 8^n per shape (no restriction)"}
		},
	})
}
