package main

import (
	"bytes"
	"encoding/hex"
	"fmt"
	"math/big"
	"strings"
	"sync"

	"github.com/0xPolygon/cdk-contracts-tooling/contracts/fep/etrog/polygonzkevmbridge"
	"github.com/0xPolygon/cdk-contracts-tooling/contracts/pp/l2-sovereign-chain/polygonzkevmbridgev2"
	"github.com/agglayer/aggkit/bridgesync"
	"github.com/ethereum/go-ethereum/accounts/abi"
	"github.com/ethereum/go-ethereum/common"
	"github.com/ethereum/go-ethereum/crypto"
)

// ---------------------------------------------------------------------------------------------
// The harness's own model of a transaction trace. Nothing here calls the code under test.

// codecs: the four ways a claim reaches the bridge.
const (
	codecAssetEtrog = iota
	codecMessageEtrog
	codecAssetPre
	codecMessagePre
	nCodecs
)

var codecNames = [nCodecs]string{"assetEtrog", "messageEtrog", "assetPreEtrog", "messagePreEtrog"}

// selectors as published by the two contract generations (Solidity signatures), independent of the bindings.
var codecSelectors = [nCodecs]string{"ccaa2d11", "f5efcd79", "2cffd02e", "2d2c9d94"}

func codecIsEtrog(c int) bool   { return c == codecAssetEtrog || c == codecMessageEtrog }
func codecIsMessage(c int) bool { return c == codecMessageEtrog || c == codecMessagePre }

// frame kinds (labels)
const (
	kindOther    = iota // call to another contract (its input is, on purpose, a claim with the event's index)
	kindTargetA         // bridge claim carrying the event's global index, first payload, codec A
	kindOtherIdx        // bridge claim carrying ANOTHER global index, codec B
	kindTargetB         // bridge claim carrying the event's global index, second payload, codec B
	nKinds
)

var kindNames = [nKinds]string{"other", "tgtA", "otherIdx", "tgtB"}

// event flavours
const (
	flavMainnet = iota // etrog event, mainnet flag set:      1<<64 | 7
	flavRollup         // etrog event, rollup 5:              5<<32 | 7
	flavLegacy         // pre-etrog event, uint32 index:      7
	nFlavours
)

var flavNames = [nFlavours]string{"etrogMainnet", "etrogRollup", "preEtrogIndex"}

const localIndex = 7

func eventIndex(flav int) *big.Int {
	switch flav {
	case flavMainnet:
		return new(big.Int).Or(new(big.Int).Lsh(big.NewInt(1), 64), big.NewInt(localIndex))
	case flavRollup:
		return new(big.Int).Or(new(big.Int).Lsh(big.NewInt(5), 32), big.NewInt(localIndex))
	default:
		return big.NewInt(localIndex)
	}
}

var (
	bridgeAddr = common.HexToAddress("0xB1D6E00000000000000000000000000000000001")
	txHash     = common.HexToHash("0x7a5c0000000000000000000000000000000000000000000000000000000000c2")
	// values every call for the event's own leaf shares with the event
	evOriginNetwork = uint32(9)
	evOriginAddr    = common.HexToAddress("0x0A00000000000000000000000000000000000009")
	evDestAddr      = common.HexToAddress("0x0D00000000000000000000000000000000000009")
	evAmount        = big.NewInt(123456789)
)

// payload is what one call carries in its calldata.
type payload struct {
	ProofL, ProofR     [32][32]byte
	Mainnet, Rollup    [32]byte
	OriginNetwork      uint32
	OriginAddr         common.Address
	DestinationNetwork uint32
	DestinationAddr    common.Address
	Amount             *big.Int
	Metadata           []byte
}

type frame struct {
	Pos      int
	Parent   int
	Kind     int
	Reverted bool
	ToBridge bool
	From, To common.Address
	Codec    int
	Index    *big.Int // the global index actually written in the calldata
	P        payload
}

func mark(tag, kind, pos, i int) (h [32]byte) {
	h[0], h[1], h[2], h[3], h[31] = byte(tag), byte(0x10+kind), byte(0x20+pos), byte(i), 0x01
	return
}

func makePayload(kind, pos int) payload {
	var p payload
	for i := 0; i < 32; i++ {
		p.ProofL[i] = mark(0xA1, kind, pos, i)
		p.ProofR[i] = mark(0xA2, kind, pos, i)
	}
	p.Mainnet = mark(0xA3, kind, pos, 0)
	p.Rollup = mark(0xA4, kind, pos, 0)
	p.DestinationNetwork = uint32(100 + 10*kind + pos)
	switch kind {
	case kindTargetA:
		p.Metadata = []byte{0xA0, byte(pos), 0x01, 0x02, 0x03}
	case kindTargetB:
		if pos%2 == 0 {
			p.Metadata = []byte{} // an empty metadata is a value too
		} else {
			p.Metadata = bytes.Repeat([]byte{0xB0 + byte(pos)}, 33) // spans two ABI words
		}
	default:
		p.Metadata = []byte{0xC0 + byte(kind), byte(pos)}
	}
	if kind == kindOtherIdx {
		// a different leaf: everything differs from the event
		p.OriginNetwork = uint32(50 + pos)
		p.OriginAddr = common.BytesToAddress([]byte{0x0E, byte(pos)})
		p.DestinationAddr = common.BytesToAddress([]byte{0x0F, byte(pos)})
		p.Amount = big.NewInt(int64(1000 + pos))
	} else {
		p.OriginNetwork, p.OriginAddr, p.DestinationAddr, p.Amount = evOriginNetwork, evOriginAddr, evDestAddr, evAmount
	}
	return p
}

// indexFor returns the global index a frame of this kind writes with this codec.
// Target kinds write the event's index; a pre-etrog call can only carry 32 bits, so for an etrog
// event its "same" index is the truncated one — which is a different global index (a decoy).
// The other-index kind writes, with an etrog codec, the event's index with the mainnet flag
// flipped (same rollup and local index), and with a pre-etrog codec local index + 1.
func indexFor(kind, codec, flav int) *big.Int {
	ev := eventIndex(flav)
	if kind == kindOtherIdx {
		if codecIsEtrog(codec) {
			return new(big.Int).Xor(ev, new(big.Int).Lsh(big.NewInt(1), 64))
		}
		return big.NewInt(localIndex + 1)
	}
	if codecIsEtrog(codec) {
		return ev
	}
	return new(big.Int).And(ev, big.NewInt(0xFFFFFFFF))
}

var (
	abiOnce sync.Once
	abiV2   *abi.ABI
	abiV1   *abi.ABI
)

func abis() (*abi.ABI, *abi.ABI) {
	abiOnce.Do(func() {
		var err error
		abiV2, err = polygonzkevmbridgev2.Polygonzkevmbridgev2MetaData.GetAbi()
		if err != nil {
			panic(err)
		}
		abiV1, err = polygonzkevmbridge.PolygonzkevmbridgeMetaData.GetAbi()
		if err != nil {
			panic(err)
		}
	})
	return abiV2, abiV1
}

// encode builds the calldata with the bindings' own ABIs.
func encode(codec int, index *big.Int, p payload) []byte {
	v2, v1 := abis()
	name := "claimAsset"
	if codecIsMessage(codec) {
		name = "claimMessage"
	}
	var out []byte
	var err error
	if codecIsEtrog(codec) {
		out, err = v2.Pack(name, p.ProofL, p.ProofR, index, p.Mainnet, p.Rollup, p.OriginNetwork, p.OriginAddr,
			p.DestinationNetwork, p.DestinationAddr, p.Amount, p.Metadata)
	} else {
		if !index.IsUint64() || index.Uint64() > 0xFFFFFFFF {
			panic("pre-etrog index does not fit uint32")
		}
		out, err = v1.Pack(name, p.ProofL, uint32(index.Uint64()), p.Mainnet, p.Rollup, p.OriginNetwork, p.OriginAddr,
			p.DestinationNetwork, p.DestinationAddr, p.Amount, p.Metadata)
	}
	if err != nil {
		panic(fmt.Sprintf("pack %s: %v", codecNames[codec], err))
	}
	if hex.EncodeToString(out[:4]) != codecSelectors[codec] {
		panic(fmt.Sprintf("selector of %s is %x, expected %s", codecNames[codec], out[:4], codecSelectors[codec]))
	}
	return out
}

type inputKey struct {
	codec, kind, pos int
	index            string
}

var inputCache = map[inputKey]string{}

func inputHex(f *frame) string {
	k := inputKey{f.Codec, f.Kind, f.Pos, f.Index.String()}
	if s, ok := inputCache[k]; ok {
		return s
	}
	s := "0x" + hex.EncodeToString(encode(f.Codec, f.Index, f.P))
	inputCache[k] = s
	return s
}

// buildFrames labels the tree shape (parent vector in preorder) with one label per frame.
func buildFrames(shape []int, labels []int, codecA, codecB, flav int) []frame {
	fs := make([]frame, len(shape))
	for i := range shape {
		kind, rev := labels[i]&3, labels[i]>>2 == 1
		f := frame{Pos: i, Parent: shape[i], Kind: kind, Reverted: rev}
		f.From = common.Address{0xF0, 0x00, byte(i + 1)}
		f.ToBridge = kind != kindOther
		if f.ToBridge {
			f.To = bridgeAddr
		} else {
			f.To = common.Address{0xC0, 0x00, byte(i + 1)}
		}
		f.Codec = codecA
		if kind == kindOtherIdx || kind == kindTargetB {
			f.Codec = codecB
		}
		f.Index = indexFor(kind, f.Codec, flav)
		f.P = makePayload(kind, i)
		fs[i] = f
	}
	return fs
}

type headKey struct {
	in       inputKey
	reverted bool
}

var headCache = map[headKey]string{}

// frameHead renders one frame's own fields (everything but its nested calls); cached because the
// same (position, label, codec, index) frame recurs in many trees.
func frameHead(f *frame) string {
	k := headKey{inputKey{f.Codec, f.Kind, f.Pos, f.Index.String()}, f.Reverted}
	if s, ok := headCache[k]; ok {
		return s
	}
	typ := "CALL"
	if f.Pos > 0 && f.Pos%2 == 0 {
		typ = "STATICCALL" // ignored by the decoder; keeps the answer realistic
	}
	s := fmt.Sprintf(`{"type":%q,"from":%q,"to":%q,"gas":"0x%x","gasUsed":"0x%x","value":"0x0","input":%q`,
		typ, f.From.Hex(), f.To.Hex(), 900000-1000*f.Pos, 21000+f.Pos, inputHex(f))
	if f.Reverted {
		s += `,"error":"execution reverted","revertReason":"nope"`
	} else {
		s += `,"output":"0x"`
	}
	headCache[k] = s
	return s
}

// traceJSON renders the callTracer answer of a node for the labelled tree.
func traceJSON(fs []frame) []byte {
	children := make([][]int, len(fs))
	for i := 1; i < len(fs); i++ {
		children[fs[i].Parent] = append(children[fs[i].Parent], i)
	}
	var sb strings.Builder
	var rec func(i int)
	rec = func(i int) {
		sb.WriteString(frameHead(&fs[i]))
		if len(children[i]) > 0 {
			sb.WriteString(`,"calls":[`)
			for n, ch := range children[i] {
				if n > 0 {
					sb.WriteByte(',')
				}
				rec(ch)
			}
			sb.WriteByte(']')
		}
		sb.WriteByte('}')
	}
	rec(0)
	return []byte(sb.String())
}

// ---------------------------------------------------------------------------------------------
// Oracle

// eligible: addressed to the bridge, carries the event's global index, not reverted, no reverted ancestor.
func eligible(fs []frame, ev *big.Int) []int {
	var out []int
	for i := range fs {
		if !fs[i].ToBridge || fs[i].Index.Cmp(ev) != 0 {
			continue
		}
		ok := true
		for j := i; j >= 0; j = fs[j].Parent {
			if fs[j].Reverted {
				ok = false
				break
			}
		}
		if ok {
			out = append(out, i)
		}
	}
	return out
}

// details are the fields the property speaks about.
type details struct {
	ProofL, ProofR     [32]common.Hash
	Mainnet, Rollup    common.Hash
	GER                common.Hash
	DestinationNetwork uint32
	Metadata           []byte
	IsMessage          bool
	Sender             common.Address
}

func detailsOf(c *bridgesync.Claim) details {
	return details{c.ProofLocalExitRoot, c.ProofRollupExitRoot, c.MainnetExitRoot, c.RollupExitRoot, c.GlobalExitRoot,
		c.DestinationNetwork, c.Metadata, c.IsMessage, c.FromAddress}
}

// detailsFrom: what recording frame f's call means, starting from the initial claim.
func detailsFrom(f *frame, initial details) details {
	d := initial
	for i := 0; i < 32; i++ {
		d.ProofL[i] = f.P.ProofL[i]
		if codecIsEtrog(f.Codec) {
			d.ProofR[i] = f.P.ProofR[i] // a pre-etrog call has no rollup proof: stays as it was
		}
	}
	d.Mainnet, d.Rollup = f.P.Mainnet, f.P.Rollup
	d.GER = crypto.Keccak256Hash(f.P.Mainnet[:], f.P.Rollup[:])
	d.DestinationNetwork = f.P.DestinationNetwork
	d.Metadata = f.P.Metadata
	d.IsMessage = codecIsMessage(f.Codec)
	d.Sender = f.From
	return d
}

// diff lists the detail fields that differ, in a fixed order.
func (a details) diff(b details) []string {
	var out []string
	if a.ProofL != b.ProofL {
		out = append(out, "ProofLocalExitRoot")
	}
	if a.ProofR != b.ProofR {
		out = append(out, "ProofRollupExitRoot")
	}
	if a.Mainnet != b.Mainnet {
		out = append(out, "MainnetExitRoot")
	}
	if a.Rollup != b.Rollup {
		out = append(out, "RollupExitRoot")
	}
	if a.GER != b.GER {
		out = append(out, "GlobalExitRoot")
	}
	if a.DestinationNetwork != b.DestinationNetwork {
		out = append(out, "DestinationNetwork")
	}
	if !bytes.Equal(a.Metadata, b.Metadata) {
		out = append(out, "Metadata")
	}
	if a.IsMessage != b.IsMessage {
		out = append(out, "IsMessage")
	}
	if a.Sender != b.Sender {
		out = append(out, "FromAddress")
	}
	return out
}

func (d details) short() string {
	return fmt.Sprintf("{pL0=%x pR0=%x mer=%x rer=%x ger=%x dst=%d meta=%x msg=%v from=%s}",
		d.ProofL[0][:4], d.ProofR[0][:4], d.Mainnet[:4], d.Rollup[:4], d.GER[:4], d.DestinationNetwork, d.Metadata,
		d.IsMessage, d.Sender.Hex()[:10])
}

// eventPart: the fields that come from the event log, which the trace must not alter.
func eventPart(c *bridgesync.Claim) string {
	gi, am := "<nil>", "<nil>"
	if c.GlobalIndex != nil {
		gi = c.GlobalIndex.String()
	}
	if c.Amount != nil {
		am = c.Amount.String()
	}
	return fmt.Sprintf("blk=%d pos=%d ts=%d tx=%x gi=%s on=%d oa=%s da=%s am=%s", c.BlockNum, c.BlockPos, c.BlockTimestamp,
		c.TxHash[:4], gi, c.OriginNetwork, c.OriginAddress.Hex(), c.DestinationAddress.Hex(), am)
}

func describeTree(fs []frame) string {
	children := make([][]int, len(fs))
	for i := 1; i < len(fs); i++ {
		children[fs[i].Parent] = append(children[fs[i].Parent], i)
	}
	var sb strings.Builder
	var rec func(i int)
	rec = func(i int) {
		f := &fs[i]
		fmt.Fprintf(&sb, "#%d:%s", i, kindNames[f.Kind])
		if f.ToBridge {
			fmt.Fprintf(&sb, "/%s/gi=%s", codecNames[f.Codec], f.Index.Text(16))
		}
		if f.Reverted {
			sb.WriteString("/REVERTED")
		}
		if len(children[i]) > 0 {
			sb.WriteString("[")
			for n, ch := range children[i] {
				if n > 0 {
					sb.WriteString(" ")
				}
				rec(ch)
			}
			sb.WriteString("]")
		}
	}
	rec(0)
	return sb.String()
}
