package kit

import (
	"os"
	"path/filepath"
	"strconv"
	"strings"
	"syscall"
)

// RemoveScratch removes the scratch directory of a FINISHED execution and first closes the file descriptors the process
// still holds on files inside it. aggkit's db.RunMigrations opens a database handle of its own and never closes it, so every
// store construction leaves three descriptors (database, WAL, shared memory) behind; a unit with a few thousand executions
// would run into the descriptor limit of the sandbox (20000, not raisable). The leaked handle is unreachable for everybody,
// so nothing ever uses or closes these descriptors again.
//
// Call it only after every handle the harness itself holds on the directory has been closed and every goroutine that could
// touch it has ended: a descriptor closed here and closed again later by its owner could by then belong to another file.
func RemoveScratch(dir string) (reclaimed int) {
	dir = filepath.Clean(dir)
	if ents, err := os.ReadDir("/proc/self/fd"); err == nil {
		for _, e := range ents {
			fd, err := strconv.Atoi(e.Name())
			if err != nil || fd < 3 {
				continue
			}
			target, err := os.Readlink("/proc/self/fd/" + e.Name())
			if err != nil || !strings.HasPrefix(target, dir+"/") {
				continue
			}
			if syscall.Close(fd) == nil {
				reclaimed++
			}
		}
	}
	os.RemoveAll(dir)
	return reclaimed
}
