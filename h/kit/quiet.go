// Package kit holds helpers shared by the property harnesses.
package kit

import (
	"os"

	"github.com/agglayer/aggkit/log"
)

// Quiet silences aggkit's zap logging (level panic, output /dev/null).
func Quiet() {
	log.Init(log.Config{Environment: log.EnvironmentProduction, Level: "panic", Outputs: []string{"/dev/null"}})
}

// Logger returns a silent logger.
func Logger() *log.Logger { return log.WithFields("module", "verif") }

// ScratchBase is the directory scratch files go under: $VERIF_SCRATCH or /dev/shm.
func ScratchBase() string {
	if s := os.Getenv("VERIF_SCRATCH"); s != "" {
		return s
	}
	return "/dev/shm"
}
