package mc

import (
	"encoding/binary"
	"encoding/json"
	"flag"
	"fmt"
	"os"
	"runtime/debug"
	"strconv"
	"strings"
	"time"
)

// Unit is one independently explorable piece of a property's space (a scenario, a configuration).
type Unit struct {
	Name   string `json:"name"`
	Params any    `json:"params,omitempty"`
	// Slice/Slices: this unit explores slice Slice of Slices of the unit's choice tree (see
	// ExploreSlice); Slices <= 1 means the whole tree.
	Slice  int `json:"slice,omitempty"`
	Slices int `json:"slices,omitempty"`
}

// Sliced returns n units that together explore u's choice tree.
func Sliced(u Unit, n int) []Unit {
	if n <= 1 {
		return []Unit{u}
	}
	out := make([]Unit, n)
	for s := 0; s < n; s++ {
		out[s] = Unit{Name: fmt.Sprintf("%s #%d/%d", u.Name, s, n), Params: u.Params, Slice: s, Slices: n}
	}
	return out
}

// Spec describes a property harness.
type Spec struct {
	ID    string
	Level string // exploration | fault_enumeration | model_checking
	// Units lists the work units of a tier, deterministically.
	Units func(tier string) []Unit
	// Batch is the number of units handed to one worker process invocation.
	Batch func(tier string) int
	// Bound is the deviation bound for Explore (negative: unbounded). Nil: unbounded.
	Bound func(tier string, u Unit) int
	// Run is ONE execution of unit u (E-DFS). Either Run or RunUnit must be set.
	Run func(c *Ctx, u Unit)
	// RunUnit explores unit u with its own strategy (E-BFS, nested explorations).
	RunUnit func(r *Report, base *Ctx, u Unit)
	// Replay re-executes one recorded violation (needed only with RunUnit; with Run the choice
	// vector is replayed directly).
	Replay func(c *Ctx, u Unit, v Violation)
	// Setup runs once per process before any unit (open templates, silence logs).
	Setup func(tier string)
	// MaxEvalsPerProcess: a worker stops after the unit in which it passed this many executions and
	// is restarted by the orchestrator for the rest of its batch (0: never). Bounds leaked handles.
	MaxEvalsPerProcess int
	// SkipDeterminismCheck disables the replay-twice check at batch start.
	SkipDeterminismCheck bool

	Rule        string
	Assumptions []string
	TrustedBase []string
	Bounds      func(tier string) map[string]any
}

type planOut struct {
	Property    string         `json:"property"`
	Level       string         `json:"level"`
	Units       int            `json:"units"`
	Batch       int            `json:"batch"`
	Rule        string         `json:"rule"`
	Assumptions []string       `json:"assumptions"`
	Bounds      map[string]any `json:"bounds"`
	UnitNames   []string       `json:"unit_names,omitempty"`
}

// Main implements the worker protocol used by /verif/check.
func Main(spec Spec) {
	tier := flag.String("tier", "quick", "quick|thorough")
	plan := flag.Bool("plan", false, "print the work plan as JSON and exit")
	units := flag.String("units", "", "a:b — run units [a,b)")
	out := flag.String("out", "", "report file")
	replay := flag.String("replay", "", "violation file to replay")
	par := flag.Int("par", 1, "in-process parallelism a unit may use")
	deadline := flag.Float64("deadline", 0, "soft deadline in seconds for this invocation (0: none)")
	flag.Parse()
	debug.SetGCPercent(400)

	if *plan {
		us := spec.Units(*tier)
		p := planOut{Property: spec.ID, Level: spec.Level, Units: len(us), Batch: 1, Rule: spec.Rule, Assumptions: spec.Assumptions}
		if spec.Batch != nil {
			p.Batch = spec.Batch(*tier)
		}
		if spec.Bounds != nil {
			p.Bounds = spec.Bounds(*tier)
		}
		for i, u := range us {
			if i < 8 || os.Getenv("VERIF_ALL_UNIT_NAMES") != "" {
				p.UnitNames = append(p.UnitNames, u.Name)
			}
		}
		json.NewEncoder(os.Stdout).Encode(p)
		return
	}

	if *replay != "" {
		os.Exit(doReplay(spec, *replay, *par))
	}

	var a, b int
	parts := strings.Split(*units, ":")
	if len(parts) != 2 {
		fmt.Fprintln(os.Stderr, "need --units a:b")
		os.Exit(2)
	}
	a, _ = strconv.Atoi(parts[0])
	b, _ = strconv.Atoi(parts[1])
	us := spec.Units(*tier)
	if b > len(us) {
		b = len(us)
	}
	r := NewReport(spec.ID, *tier)
	start := time.Now()
	if spec.Setup != nil {
		spec.Setup(*tier)
	}
	for i := a; i < b; i++ {
		if *deadline > 0 && time.Since(start).Seconds() > *deadline {
			r.Exhaustive = false
			r.Notes["deadline_hit_before_unit"] = i
			break
		}
		u := us[i]
		base := &Ctx{Unit: i, UnitName: u.Name, Tier: *tier, Par: *par}
		if spec.RunUnit != nil {
			spec.RunUnit(r, base, u)
		} else {
			run := func(c *Ctx) { spec.Run(c, u) }
			if i == a && !spec.SkipDeterminismCheck {
				if !CheckDeterminism(r, base, run) {
					break
				}
			}
			bound := -1
			if spec.Bound != nil {
				bound = spec.Bound(*tier, u)
			}
			ExploreSlice(r, base, bound, u.Slice, u.Slices, run)
		}
		r.UnitsDone = append(r.UnitsDone, i)
		if len(r.Errors) > 0 {
			break
		}
		if spec.MaxEvalsPerProcess > 0 && r.Evaluations >= int64(spec.MaxEvalsPerProcess) && i+1 < b {
			r.Notes["recycle"] = true
			break
		}
	}
	r.NStates = int64(len(r.states))
	r.NDistinct = int64(len(r.distinct))
	if *out != "" {
		writeHashes(*out+".distinct", r.distinct)
		writeHashes(*out+".states", r.states)
		f, err := os.Create(*out)
		if err != nil {
			fmt.Fprintln(os.Stderr, err)
			os.Exit(2)
		}
		json.NewEncoder(f).Encode(r)
		f.Close()
	} else {
		json.NewEncoder(os.Stdout).Encode(r)
	}
	if len(r.Errors) > 0 {
		os.Exit(2)
	}
}

func writeHashes(path string, m map[uint64]struct{}) {
	buf := make([]byte, 0, 8*len(m))
	for h := range m {
		buf = binary.LittleEndian.AppendUint64(buf, h)
	}
	os.WriteFile(path, buf, 0o644)
}

// doReplay re-executes one recorded violation without the explorer. Exit 1 if it fails again
// (printing "REPLAY-FAIL key=<key>"), 0 if it does not, 2 on harness errors.
func doReplay(spec Spec, path string, par int) int {
	raw, err := os.ReadFile(path)
	if err != nil {
		fmt.Fprintln(os.Stderr, err)
		return 2
	}
	var v Violation
	if err := json.Unmarshal(raw, &v); err != nil {
		fmt.Fprintln(os.Stderr, err)
		return 2
	}
	us := spec.Units(v.Tier)
	if v.Unit >= len(us) || us[v.Unit].Name != v.UnitName {
		fmt.Fprintf(os.Stderr, "replay: unit %d %q not found in tier %s\n", v.Unit, v.UnitName, v.Tier)
		return 2
	}
	if spec.Setup != nil {
		spec.Setup(v.Tier)
	}
	u := us[v.Unit]
	r := NewReport(spec.ID, v.Tier)
	base := &Ctx{Unit: v.Unit, UnitName: v.UnitName, Tier: v.Tier, Par: par, keepLog: true, History: v.History}
	var c *Ctx
	var ok bool
	if spec.Replay != nil {
		c, ok = runOne(r, base, v.Choices, func(c *Ctx) { spec.Replay(c, u, v) })
	} else if spec.Run != nil {
		c, ok = runOne(r, base, v.Choices, func(c *Ctx) { spec.Run(c, u) })
	} else {
		fmt.Fprintln(os.Stderr, "replay: harness has no Replay function")
		return 2
	}
	if !ok {
		for _, e := range r.Errors {
			fmt.Fprintln(os.Stderr, "harness error:", e)
		}
		return 2
	}
	for _, l := range c.log {
		fmt.Println("  |", l)
	}
	if len(c.fails) == 0 {
		fmt.Println("REPLAY-PASS")
		return 0
	}
	for _, f := range c.fails {
		fmt.Printf("REPLAY-FAIL key=%s what=%s\n", f.Key, f.What)
	}
	return 1
}
