// Package mc is the exploration engine shared by all property harnesses.
//
// E-DFS: an execution is a function run(c *Ctx) that builds fresh real objects and calls
// c.Choose(n, label) wherever the environment has more than one answer. Explore re-runs it for
// every choice vector whose number of non-default answers stays within the deviation bound
// (bound < 0: unbounded = the whole choice tree). Executions always run to completion.
//
// E-BFS: BFS explores event histories over a real transition function; a successor is produced by
// re-executing history+event on fresh objects; states are merged by a canonical key.
package mc

import (
	"crypto/sha256"
	"encoding/binary"
	"fmt"
	"sort"
	"strings"
)

// Violation is one failed oracle, with everything needed to replay it.
type Violation struct {
	Key      string   `json:"key"`  // canonical signature, matched against known_findings.json
	What     string   `json:"what"` // human readable
	Unit     int      `json:"unit"`
	UnitName string   `json:"unit_name"`
	Tier     string   `json:"tier"`
	Choices  []int    `json:"choices,omitempty"`
	Labels   []string `json:"labels,omitempty"`
	History  []string `json:"history,omitempty"`
	Log      []string `json:"log,omitempty"`
}

// Ctx is the context of ONE execution.
type Ctx struct {
	Unit     int
	UnitName string
	Tier     string
	Par      int // in-process parallelism the harness may use (BFS)

	prefix  []int
	Choices []int
	Arity   []int
	Labels  []string
	History []string // BFS: the event history being executed

	digest     [32]byte
	obsN       int
	log        []string
	nontrivial bool
	fails      []Violation
	rep        *Report
	keepLog    bool
	extraEvals int
}

type divergence struct{ msg string }

// Choose returns the environment's answer at this choice point: the replayed one while inside the
// prefix, the default (0) afterwards. n is the arity; label names the kind of choice point.
func (c *Ctx) Choose(n int, label string) int {
	if n <= 0 {
		panic(divergence{fmt.Sprintf("Choose(%d,%q): arity must be positive", n, label)})
	}
	pos := len(c.Choices)
	v := 0
	if pos < len(c.prefix) {
		v = c.prefix[pos]
		if v >= n {
			panic(divergence{fmt.Sprintf("divergence while replaying prefix: position %d label %q arity %d, recorded choice %d",
				pos, label, n, v)})
		}
	}
	c.Choices = append(c.Choices, v)
	c.Arity = append(c.Arity, n)
	c.Labels = append(c.Labels, label)
	if v != 0 {
		c.nontrivial = true
	}
	if c.rep != nil {
		c.rep.Labels[label]++
	}
	return v
}

// Bool is Choose(2,label)==1.
func (c *Ctx) Bool(label string) bool { return c.Choose(2, label) == 1 }

// Obs appends to the observation of this execution (hashed into the distinct-outcome count; kept
// as text when replaying or sampling).
func (c *Ctx) Obs(format string, args ...any) {
	s := fmt.Sprintf(format, args...)
	h := sha256.New()
	h.Write(c.digest[:])
	h.Write([]byte(s))
	copy(c.digest[:], h.Sum(nil))
	c.obsN++
	if c.keepLog || len(c.log) < 40 {
		c.log = append(c.log, s)
	}
}

// Digest returns the running digest of the observation log.
func (c *Ctx) Digest() [32]byte { return c.digest }

// Log returns the (possibly truncated) text observation log.
func (c *Ctx) Log() []string { return c.log }

// NonTrivial marks this execution as non-trivial by the harness's stated rule.
func (c *Ctx) NonTrivial() { c.nontrivial = true }

// Failf records a violation of the property in this execution. key is the canonical signature.
func (c *Ctx) Failf(key string, format string, args ...any) {
	what := fmt.Sprintf(format, args...)
	c.Obs("FAIL %s: %s", key, what)
	c.fails = append(c.fails, Violation{Key: key, What: what})
}

// Failed reports whether a violation has been recorded in this execution.
func (c *Ctx) Failed() bool { return len(c.fails) > 0 }

// Witness counts a vacuity witness.
func (c *Ctx) Witness(name string) {
	if c.rep != nil {
		c.rep.Witness[name]++
	}
}

// AddEvals counts n additional evaluated cases inside this execution (inner loops).
func (c *Ctx) AddEvals(n int) { c.extraEvals += n }

// Distinct registers one distinct non-trivial case by key (inner loops).
func (c *Ctx) Distinct(key string) {
	if c.rep != nil {
		c.rep.addDistinct(hash64(fmt.Sprintf("%d|%s", c.Unit, key)))
	}
}

// State registers a visited state (model-checking counters) and reports whether it is new.
func (c *Ctx) State(key string) bool {
	if c.rep == nil {
		return true
	}
	return c.rep.addState(hash64(fmt.Sprintf("%d|%s", c.Unit, key)))
}

// Transition counts n executed transitions.
func (c *Ctx) Transition(n int) {
	if c.rep != nil {
		c.rep.Transitions += int64(n)
	}
}

// HorizonHit records that this execution was cut by its explicit horizon.
func (c *Ctx) HorizonHit() {
	if c.rep != nil {
		c.rep.HorizonHits++
		c.rep.Exhaustive = false
	}
}

// Sample offers a written-out case for the evidence file.
func (c *Ctx) Sample(v any) {
	if c.rep != nil && len(c.rep.Samples) < 6 {
		c.rep.Samples = append(c.rep.Samples, v)
	}
}

func hash64(s string) uint64 {
	h := sha256.Sum256([]byte(s))
	return binary.LittleEndian.Uint64(h[:8])
}

// Report accumulates what one worker process covered.
type Report struct {
	Property    string           `json:"property"`
	Tier        string           `json:"tier"`
	UnitsDone   []int            `json:"units_done"`
	Evaluations int64            `json:"evaluations"`
	Transitions int64            `json:"transitions"`
	NStates     int64            `json:"n_states"`
	NDistinct   int64            `json:"n_distinct"`
	Witness     map[string]int64 `json:"witness"`
	Labels      map[string]int64 `json:"labels"`
	Violations  []Violation      `json:"violations"`
	NViolations int64            `json:"n_violations"`
	Samples     []any            `json:"samples"`
	HorizonHits int64            `json:"horizon_hits"`
	Exhaustive  bool             `json:"exhaustive"`
	MaxDepth    int              `json:"max_depth"`
	Errors      []string         `json:"errors"`
	Notes       map[string]any   `json:"notes,omitempty"`

	distinct map[uint64]struct{}
	states   map[uint64]struct{}
	vioKeys  map[string]int
}

func NewReport(id, tier string) *Report {
	return &Report{Property: id, Tier: tier, Witness: map[string]int64{}, Labels: map[string]int64{},
		Exhaustive: true, distinct: map[uint64]struct{}{}, states: map[uint64]struct{}{}, vioKeys: map[string]int{},
		Notes: map[string]any{}}
}

func (r *Report) addDistinct(h uint64) { r.distinct[h] = struct{}{} }
func (r *Report) addState(h uint64) bool {
	if _, ok := r.states[h]; ok {
		return false
	}
	r.states[h] = struct{}{}
	return true
}

// Errorf records a harness error (exit 2; never a VIOLATION line).
func (r *Report) Errorf(format string, args ...any) {
	if len(r.Errors) < 20 {
		r.Errors = append(r.Errors, fmt.Sprintf(format, args...))
	}
}

// finish folds one finished execution into the report.
func (r *Report) finish(c *Ctx) {
	r.Evaluations += 1 + int64(c.extraEvals)
	if c.nontrivial {
		r.addDistinct(hash64(fmt.Sprintf("%d|%x", c.Unit, c.digest)))
	}
	if len(r.Samples) < 3 && (c.nontrivial || len(r.Samples) == 0) && c.obsN > 0 {
		lg := c.log
		if len(lg) > 12 {
			lg = lg[:12]
		}
		r.Samples = append(r.Samples, map[string]any{"unit": c.UnitName, "choices": c.Choices, "labels": trimLabels(c.Labels),
			"history": c.History, "observation": lg})
	}
	for _, f := range c.fails {
		r.NViolations++
		if r.vioKeys[f.Key] >= 2 || len(r.Violations) >= 40 {
			continue
		}
		r.vioKeys[f.Key]++
		f.Unit, f.UnitName, f.Tier = c.Unit, c.UnitName, c.Tier
		f.Choices = append([]int{}, c.Choices...)
		f.Labels = append([]string{}, c.Labels...)
		f.History = append([]string{}, c.History...)
		f.Log = c.log
		if len(f.Log) > 60 {
			f.Log = f.Log[len(f.Log)-60:]
		}
		r.Violations = append(r.Violations, f)
	}
}

func trimLabels(l []string) []string {
	if len(l) > 30 {
		return l[:30]
	}
	return l
}

// runOne executes run once with the given prefix; panics of kind divergence become harness errors.
func runOne(r *Report, base *Ctx, prefix []int, run func(*Ctx)) (c *Ctx, ok bool) {
	c = &Ctx{Unit: base.Unit, UnitName: base.UnitName, Tier: base.Tier, Par: base.Par, prefix: prefix, rep: r,
		keepLog: base.keepLog, History: base.History}
	ok = true
	func() {
		defer func() {
			if x := recover(); x != nil {
				if d, isDiv := x.(divergence); isDiv {
					r.Errorf("unit %s choices %v: %s", base.UnitName, c.Choices, d.msg)
					ok = false
					return
				}
				panic(x)
			}
		}()
		run(c)
	}()
	if ok && len(c.Choices) < len(prefix) {
		r.Errorf("unit %s: divergence while replaying prefix: execution consumed %d choices, prefix has %d (prefix %v, labels consumed %v, last log lines %v)",
			base.UnitName, len(c.Choices), len(prefix), prefix, c.Labels, tail(c.log, 4))
		ok = false
	}
	return c, ok
}

func tail(l []string, n int) []string {
	if len(l) > n {
		return l[len(l)-n:]
	}
	return l
}

// Explore runs the deviation-bounded DFS over the choice tree of run. bound<0: unbounded.
func Explore(r *Report, base *Ctx, bound int, run func(*Ctx)) {
	ExploreSlice(r, base, bound, 0, 1, run)
}

// ExploreSlice explores one slice of the choice tree: the subtrees hanging off the default
// execution are numbered in DFS order and slice s of n takes those with number % n == s; the
// default execution itself is counted by slice 0 only (the other slices run it to learn the tree).
// The union of the n slices is the whole tree, without overlap.
func ExploreSlice(r *Report, base *Ctx, bound int, slice, slices int, run func(*Ctx)) {
	if slices < 1 {
		slices = 1
	}
	child := 0
	var rec func(prefix []int, devs int)
	rec = func(prefix []int, devs int) {
		var c *Ctx
		var ok bool
		if len(prefix) == 0 && slice != 0 {
			scratch := NewReport(r.Property, r.Tier)
			c, ok = runOne(scratch, base, prefix, run)
			r.Errors = append(r.Errors, scratch.Errors...)
			if !ok {
				return
			}
		} else {
			c, ok = runOne(r, base, prefix, run)
			if !ok {
				return
			}
			r.finish(c)
		}
		if len(c.Choices) > r.MaxDepth {
			r.MaxDepth = len(c.Choices)
		}
		if bound >= 0 && devs >= bound {
			return
		}
		for i := len(prefix); i < len(c.Choices); i++ {
			for alt := 1; alt < c.Arity[i]; alt++ {
				if len(prefix) == 0 {
					child++
					if (child-1)%slices != slice {
						continue
					}
				}
				np := make([]int, i+1)
				copy(np, c.Choices[:i])
				np[i] = alt
				rec(np, devs+1)
			}
		}
	}
	rec(nil, 0)
}

// CheckDeterminism runs the default execution (and, if it has choice points, one deviating one)
// twice and compares digests; a difference is a harness error.
func CheckDeterminism(r *Report, base *Ctx, run func(*Ctx)) bool {
	scratch := NewReport(r.Property, r.Tier)
	a, ok1 := runOne(scratch, base, nil, run)
	b, ok2 := runOne(scratch, base, nil, run)
	if !ok1 || !ok2 {
		r.Errors = append(r.Errors, scratch.Errors...)
		return false
	}
	if a.digest != b.digest || fmt.Sprint(a.Choices) != fmt.Sprint(b.Choices) {
		r.Errorf("unit %s: nondeterministic default execution: %d vs %d observations, first difference: %s",
			base.UnitName, a.obsN, b.obsN, firstDiff(a.log, b.log))
		return false
	}
	// one deviating schedule, if any: flip the last choice point with arity>1
	for i := len(a.Choices) - 1; i >= 0; i-- {
		if a.Arity[i] > 1 {
			p := append(append([]int{}, a.Choices[:i]...), 1)
			x, okx := runOne(scratch, base, p, run)
			y, oky := runOne(scratch, base, p, run)
			if !okx || !oky {
				r.Errors = append(r.Errors, scratch.Errors...)
				return false
			}
			if x.digest != y.digest {
				r.Errorf("unit %s: nondeterministic execution for choices %v: %s", base.UnitName, p, firstDiff(x.log, y.log))
				return false
			}
			break
		}
	}
	return true
}

func firstDiff(a, b []string) string {
	for i := 0; i < len(a) && i < len(b); i++ {
		if a[i] != b[i] {
			return fmt.Sprintf("#%d %q vs %q", i, a[i], b[i])
		}
	}
	return fmt.Sprintf("lengths %d vs %d", len(a), len(b))
}

// ---------------------------------------------------------------------------------------------
// E-BFS

// BFSModel is a real transition system explored by history replay.
type BFSModel struct {
	MaxDepth int
	// Build executes the history on fresh real objects (checking invariants through c) and returns
	// the canonical key of the reached state and the events enabled in it (in canonical order).
	Build func(c *Ctx, history []string) (key string, enabled []string)
}

type bfsNode struct {
	hist    []string
	enabled []string
}

// BFS explores all histories up to MaxDepth, merging states by key.
func BFS(r *Report, base *Ctx, m BFSModel) {
	type res struct {
		key string
		en  []string
		c   *Ctx
		sr  *Report
		ok  bool
	}
	exec := func(hist []string) res {
		var key string
		var en []string
		b2 := *base
		b2.History = hist
		sr := NewReport(r.Property, r.Tier)
		c, ok := runOne(sr, &b2, nil, func(c *Ctx) { key, en = m.Build(c, hist) })
		return res{key, en, c, sr, ok}
	}
	fold := func(rs res, isRoot bool) bool {
		r.mergeCounters(rs.sr)
		if !rs.ok {
			return false
		}
		if !isRoot {
			r.Transitions++
		}
		rs.c.rep = r
		isNew := rs.c.State(rs.key)
		rs.c.nontrivial = isNew
		r.finish(rs.c)
		return isNew
	}
	r0 := exec(nil)
	if !fold(r0, true) {
		return
	}
	frontier := []bfsNode{{nil, r0.en}}
	par := base.Par
	if par < 1 {
		par = 1
	}
	for depth := 0; depth < m.MaxDepth && len(frontier) > 0; depth++ {
		type job struct {
			parent int
			ev     string
		}
		var jobs []job
		for i, n := range frontier {
			for _, ev := range n.enabled {
				jobs = append(jobs, job{i, ev})
			}
		}
		results := make([]res, len(jobs))
		hist := func(j int) []string {
			return append(append([]string{}, frontier[jobs[j].parent].hist...), jobs[j].ev)
		}
		if par == 1 {
			for j := range jobs {
				results[j] = exec(hist(j))
			}
		} else {
			ch := make(chan int, len(jobs))
			for j := range jobs {
				ch <- j
			}
			close(ch)
			done := make(chan struct{})
			for w := 0; w < par; w++ {
				go func() {
					defer func() { done <- struct{}{} }()
					for j := range ch {
						results[j] = exec(hist(j))
					}
				}()
			}
			for w := 0; w < par; w++ {
				<-done
			}
		}
		var next []bfsNode
		for j, rs := range results {
			if fold(rs, false) {
				h := hist(j)
				next = append(next, bfsNode{h, rs.en})
				if len(h) > r.MaxDepth {
					r.MaxDepth = len(h)
				}
			}
		}
		frontier = next
	}
	if len(frontier) > 0 {
		// states at the depth bound were reached but not expanded
		r.Notes["bfs_unexpanded_at_bound"] = len(frontier)
	}
}

// mergeCounters folds the counters a scratch report collected during one execution into r.
func (r *Report) mergeCounters(s *Report) {
	for k, v := range s.Witness {
		r.Witness[k] += v
	}
	for k, v := range s.Labels {
		r.Labels[k] += v
	}
	for h := range s.distinct {
		r.distinct[h] = struct{}{}
	}
	for h := range s.states {
		r.states[h] = struct{}{}
	}
	r.Transitions += s.Transitions
	r.HorizonHits += s.HorizonHits
	if !s.Exhaustive {
		r.Exhaustive = false
	}
	r.Errors = append(r.Errors, s.Errors...)
	for _, x := range s.Samples {
		if len(r.Samples) < 6 {
			r.Samples = append(r.Samples, x)
		}
	}
}

// SortedKeys is a helper for canonical forms.
func SortedKeys[V any](m map[string]V) []string {
	ks := make([]string, 0, len(m))
	for k := range m {
		ks = append(ks, k)
	}
	sort.Strings(ks)
	return ks
}

// JoinLines joins for canonical keys.
func JoinLines(l []string) string { return strings.Join(l, "\n") }
